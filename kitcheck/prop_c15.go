package main

import (
	"fmt"
	"go/constant"
	"go/token"
	"go/types"
	"os"
	"sort"
	"strings"

	"golang.org/x/tools/go/ssa"
)

// C15 — ttlcache: Get never returns an expired, deleted or superseded value;
// Cleanup removes only expired entries; Stop waits for the cleaner.

const c15Hax = "github.com/alphadose/haxmap"

func init() { register("C15", checkC15) }

type c15K struct {
	c     *Ctx
	r     *Report
	p     *Prog
	x     *c15X
	pkg   string
	runCh string
	stpCh string
}

func checkC15(c *Ctx) {
	r, p := c.R, c.P
	r.Explanation = "Decides structural necessary conditions of C15 on ttlcache/ttlcache.go. (U1) every return of Cache.Get that can report ok=true is reached only under `entry.exp > clock.Now()` (strict), where entry is the result of the lookup on Cache.m made in that Get and Now() is a reading of the cache's own clock taken during that Get; (U2) in Cache.Set every returning path stores into Cache.m, the stored expiry is, on every path, clock.Now().Add(T*time.Second) with Now() read from the cache's clock in Set (an expiry taken from an existing entry — kept, later-of — is a violation), and on every path T is ttl (only where maxTTL<=0 or ttl<=maxTTL is known) or maxTTL (only where maxTTL>0 and ttl>=maxTTL is known), i.e. T=min(ttl,maxTTL) when a cap is configured; NewCache wires CacheOptions.MaxTTL into Cache.maxTTL; (U3) every key that Cleanup hands to a delete was collected from the ForEach callback's own key parameter under `clock.Now() >(=) that entry's exp` with Now() read from the cache clock during Cleanup; the background goroutine mutates the map only by calling Cleanup — directly or through a method value / func variable / phi of them, all of whose possible targets are resolved — and starts nothing that can mutate the map with `go` (a detached Cleanup outlives the close of runningCh); (U4) every return of Stop is preceded by a receive on Cache.runningCh; Stop closes Cache.stopCh and not after waiting; runningCh is closed only by the function started with `go`, on every exit of it, with no cleaning after the close; every wait of that goroutine is a select with a Cache.stopCh case that leaves the loop; runningCh is created before the goroutine starts and NewCache always starts it; (U5) Delete always deletes from Cache.m; Reset's ForEach callback collects every key and never stops the iteration, and the collected keys are deleted; (U6) Cache.m is mutated only by the audited sites, and Get/Set/Delete pass their key parameter unchanged to the map (a transformation at only some of them is UNDECIDED); the entry stored by Set carries Set's value parameter. NOT decided: the history-level claim itself (it rests on haxmap's linearizable Get/Set/Del semantics and on the documented cleanup/refresh race, neither analysed); that the value returned is the most recently Set one under concurrency; behaviour for ttl<=0 (outside the quantifier: NOTE only); overflow of ttl*time.Second for ttl > ~292 years; that the periodic cleaner actually runs Cleanup (not needed by the statement: Get checks expiry itself)."
	r.Assumptions = append(r.Assumptions,
		"haxmap.Map Get/Set/Del/ForEach have their documented map semantics (ForEach stops when the callback returns false)",
		"time.Time.After/Before/Equal/Compare/Sub/Add have their documented meaning; clock.Now() of k8s.io/utils/clock returns the cache clock's current time",
		"Cache.maxTTL and Cache.clock are written only by NewCache (checked: a store elsewhere makes the check UNDECIDED)")

	r.Rule("C15.U1-get-strict", "Get reports a hit only under entry.exp > clock.Now() (strict; entry from this Get's lookup; cache clock read during Get)", 1)
	r.Rule("C15.U2-set-store", "every returning path of Set stores the entry into Cache.m", 1)
	r.Rule("C15.U2-set-expiry", "stored expiry = clock.Now().Add(T*time.Second), Now() from the cache clock read in Set", 1)
	r.Rule("C15.U2-set-cap", "T = ttl only where no cap applies, T = maxTTL only where maxTTL>0 and ttl>=maxTTL", 2)
	r.Rule("C15.U2-set-value", "the entry stored by Set carries Set's value parameter", 1)
	r.Rule("C15.U2-wire-maxttl", "NewCache stores CacheOptions.MaxTTL into Cache.maxTTL", 1)
	r.Rule("C15.U3-cleanup-expired-only", "every key deleted by Cleanup was collected under clock.Now() >(=) entry.exp for that key's own entry", 1)
	r.Rule("C15.U3-periodic-via-cleanup", "every possible target (direct, method value, func variable, phi) of a mutating call in the background goroutine is Cache.Cleanup", 1)
	r.Rule("C15.U4-stop-waits", "every return of Stop is preceded by a receive on Cache.runningCh", 1)
	r.Rule("C15.U4-stop-signals", "Stop closes Cache.stopCh, and never after having waited on runningCh", 1)
	r.Rule("C15.U4-cleaner-exit", "runningCh is closed only by the goroutine body, on every exit, and nothing cleans after the close", 1)
	r.Rule("C15.U4-cleaner-synchronous", "inside the cleaner goroutine (and inside Cleanup) nothing that can mutate Cache.m is started with go", 1)
	r.Rule("C15.U4-cleaner-stopcase", "every wait of the cleaner goroutine is a select with a Cache.stopCh case that leaves the loop", 1)
	r.Rule("C15.U4-cleaner-start", "runningCh is created before the cleaner is started and NewCache always starts it", 1)
	r.Rule("C15.U5-delete", "every return of Delete is preceded by a delete of the key from Cache.m", 1)
	r.Rule("C15.U5-reset", "Reset collects every key (callback never stops the iteration, appends on every path) and deletes the collected keys", 1)
	r.Rule("C15.U6-same-key", "Get, Set and Delete address Cache.m with the key exactly as given (a transformed key at only some of them cannot be decided)", 3)
	r.Rule("C15.U6-writers", "Cache.m is mutated only through the audited sites (Set in Set; Del in Delete/Cleanup/Reset)", 4)

	pkg := p.ModPath + "/ttlcache"
	cacheN := p.Named("ttlcache", "Cache")
	entryN := p.Named("ttlcache", "cacheEntry")
	c15NeedFields(cacheN, "m", "clock", "runningCh", "stopCh", "maxTTL")
	c15NeedFields(entryN, "exp", "val")
	c15NeedFields(p.Named("ttlcache", "CacheOptions"), "MaxTTL")

	k := &c15K{c: c, r: r, p: p, pkg: pkg,
		x:     &c15X{p: p, cfg: c15Cfg{CacheT: pkg + ".Cache", EntryT: pkg + ".cacheEntry", ClockF: "clock", ExpF: "exp", MaxF: "maxTTL"}},
		runCh: "field:" + pkg + ".Cache.runningCh",
		stpCh: "field:" + pkg + ".Cache.stopCh",
	}
	k.checkGet()
	k.checkSet()
	k.checkWire()
	k.checkCleanup()
	k.checkStop()
	k.checkDeleteReset()
	k.checkWriters()

	c.Fixture("c15ttl", func(fp *Prog, fr *Report) {
		fx := &c15X{p: fp, cfg: c15Cfg{CacheT: fp.ModPath + ".cache", EntryT: fp.ModPath + ".entry", ClockF: "clock", ExpF: "exp", MaxF: "maxTTL"}}
		for _, fn := range fp.Funcs {
			if fn.Parent() != nil || fn.Signature.Recv() == nil {
				continue
			}
			name := strings.ToLower(fn.Name())
			switch {
			case strings.HasSuffix(name, "get"):
				c15GetRule(fp, fr, fx, fn, "hit", func(call *ssa.Call) bool {
					obj := calleeObj(call)
					return obj != nil && obj.Name() == "lookup"
				})
			case strings.HasSuffix(name, "set"):
				c15CapRule(fp, fr, fx, fn, "cap", "expiry", func(call *ssa.Call) bool {
					obj := calleeObj(call)
					return obj != nil && obj.Name() == "store"
				})
			}
		}
		if os.Getenv("C15_DEBUG") != "" {
			for _, o := range fr.Obs {
				if o.Status == StViolation {
					fmt.Println("FIXTURE:", o.Rule, o.Construct, o.Message, o.Witness)
				}
			}
			for _, u := range fr.Undecided {
				fmt.Println("FIXTURE-UNDECIDED:", u)
			}
		}
	})
}

func c15NeedFields(n *types.Named, names ...string) {
	st, ok := n.Underlying().(*types.Struct)
	if !ok {
		undecided("anchor type %s is no longer a struct", n.Obj().Name())
	}
	for _, want := range names {
		found := false
		for i := 0; i < st.NumFields(); i++ {
			if st.Field(i).Name() == want {
				found = true
			}
		}
		if !found {
			undecided("anchor field %s.%s no longer resolves", n.Obj().Name(), want)
		}
	}
}

// mapCall: call is haxmap.Map.<name> on the map loaded from Cache.m.
func (k *c15K) mapCall(in ssa.Instruction, name string) (*ssa.CallCommon, bool) {
	ci, ok := in.(ssa.CallInstruction)
	if !ok {
		return nil, false
	}
	obj := calleeObj(ci)
	if obj == nil || obj.Pkg() == nil || obj.Pkg().Path() != c15Hax {
		return nil, false
	}
	if name != "" && obj.Name() != name {
		return nil, false
	}
	cc := ci.Common()
	if len(cc.Args) == 0 {
		return nil, false
	}
	if _, _, id, ok := k.x.fieldRead(cc.Args[0], nil); ok && id.Type == k.x.cfg.CacheT && id.Field == "m" {
		return cc, true
	}
	return nil, false
}

// family: fn, its closures and (transitively) the unexported in-package
// functions it calls statically.
func (k *c15K) family(fn *ssa.Function) []*ssa.Function {
	seen := map[*ssa.Function]bool{}
	var out []*ssa.Function
	var add func(f *ssa.Function)
	add = func(f *ssa.Function) {
		f = origin(f)
		if f == nil || seen[f] || len(f.Blocks) == 0 {
			return
		}
		seen[f] = true
		out = append(out, f)
		for _, a := range f.AnonFuncs {
			add(a)
		}
		allInstrs(f, func(in ssa.Instruction) {
			if ci, ok := in.(ssa.CallInstruction); ok {
				if g := staticCallee(ci); g != nil && g.Pkg != nil && g.Pkg.Pkg.Path() == k.pkg && !isExportedFunc(g) {
					add(g)
				}
			}
		})
	}
	add(fn)
	return out
}

func liveBlock(b *ssa.BasicBlock) bool { return b.Index == 0 || len(b.Preds) > 0 }

func returnsOf(fn *ssa.Function) []*ssa.Return {
	var out []*ssa.Return
	for _, b := range fn.Blocks {
		if !liveBlock(b) || len(b.Instrs) == 0 {
			continue
		}
		if ret, ok := b.Instrs[len(b.Instrs)-1].(*ssa.Return); ok {
			out = append(out, ret)
		}
	}
	return out
}

// ------------------------------------------------------------------ U1 Get

type c15Hit struct {
	Ret   *ssa.Return
	Facts c15Set
}

// hits enumerates the returns of fn whose result #okIdx can be true, with the
// facts that hold when it is; results forwarded from an in-module helper are
// followed into the helper.
func c15Hits(x *c15X, ctx *c15Ctx, fn *ssa.Function, env *c15Env, okIdx int, pre c15Set, depth int) []c15Hit {
	var out []c15Hit
	for _, ret := range returnsOf(fn) {
		if okIdx >= len(ret.Results) {
			continue
		}
		rv := ret.Results[okIdx]
		sv, senv := x.strip(rv, env)
		for _, ps := range ctx.paths(ret.Block(), env) {
			facts := pre.union(ps)
			if facts.contradictory() {
				continue
			}
			if ex, ok := sv.(*ssa.Extract); ok && depth < 3 {
				if call, ok := ex.Tuple.(*ssa.Call); ok {
					if g := staticCallee(call); g != nil && x.p.InModule(g) && len(g.Blocks) > 0 {
						nenv := &c15Env{params: map[*ssa.Parameter]ssa.Value{}, up: senv}
						for i, pa := range g.Params {
							if i < len(call.Call.Args) {
								nenv.params[pa] = call.Call.Args[i]
							}
						}
						// the forwarded result is known on this path (e.g. already tested false)
						f0, _ := ctx.factsWhen(rv, true, env, 0)
						if pre0 := facts.union(f0); !pre0.contradictory() {
							out = append(out, c15Hits(x, ctx, g, nenv, ex.Index, pre0, depth+1)...)
						}
						continue
					}
				}
			}
			f, vac := ctx.factsWhen(rv, true, env, 0)
			if vac {
				continue
			}
			facts = facts.union(f).saturate()
			if facts.contradictory() {
				continue
			}
			out = append(out, c15Hit{ret, facts})
		}
	}
	return out
}

func lastBoolResult(fn *ssa.Function) int {
	res := fn.Signature.Results()
	for i := res.Len() - 1; i >= 0; i-- {
		if b, ok := res.At(i).Type().Underlying().(*types.Basic); ok && b.Info()&types.IsBoolean != 0 {
			return i
		}
	}
	return -1
}

// readsField: some function of fns reads field (typ, f).
func readsField(fns []*ssa.Function, typ, f string) bool {
	found := false
	for _, fn := range fns {
		allInstrs(fn, func(in ssa.Instruction) {
			switch t := in.(type) {
			case *ssa.FieldAddr:
				if id := fieldIDOfAddr(t); id.Type == typ && id.Field == f {
					found = true
				}
			case *ssa.Field:
				if id := fieldIDOfField(t); id.Type == typ && id.Field == f {
					found = true
				}
			}
		})
	}
	return found
}

func (k *c15K) checkGet() {
	get := k.p.Func("ttlcache", "Cache.Get")
	c15GetRule(k.p, k.r, k.x, get, "C15.U1-get-strict", func(call *ssa.Call) bool {
		_, ok := k.mapCall(call, "Get")
		return ok
	})
}

// c15GetRule is U1 for one getter: isLookup recognises the lookup call whose
// result #0 is the entry.
func c15GetRule(p *Prog, r *Report, x *c15X, get *ssa.Function, rule string, isLookup func(*ssa.Call) bool) {
	fname := FuncName(p, get)
	okIdx := lastBoolResult(get)
	if okIdx < 0 {
		r.Undecide("%s no longer has a boolean 'found' result", fname)
		return
	}
	fam := []*ssa.Function{get}
	allInstrs(get, func(in ssa.Instruction) {
		if ci, ok := in.(ssa.CallInstruction); ok {
			if g := staticCallee(ci); g != nil && p.InModule(g) && len(g.Blocks) > 0 {
				fam = append(fam, g)
			}
		}
	})
	nLookup := 0
	for _, f := range fam {
		allInstrs(f, func(in ssa.Instruction) {
			if call, ok := in.(*ssa.Call); ok && isLookup(call) {
				nLookup++
			}
		})
	}
	if nLookup == 0 {
		r.Undecide("%s: no lookup on the cache's map found (anchor moved)", fname)
		return
	}
	ctx := x.newCtx()
	hits := c15Hits(x, ctx, get, nil, okIdx, c15Set{}, 0)
	if len(hits) == 0 {
		r.Undecide("%s: no return that can report a hit was found", fname)
		return
	}
	fromLookup := func(t c15Term) bool {
		if t.Kind != c15Exp || t.Entry == nil {
			return false
		}
		ex, ok := t.Entry.(*ssa.Extract)
		if !ok || ex.Index != 0 {
			return false
		}
		call, ok := ex.Tuple.(*ssa.Call)
		return ok && isLookup(call)
	}
	// group the path variants by return instruction
	var order []*ssa.Return
	byRet := map[*ssa.Return][]c15Hit{}
	for _, h := range hits {
		if _, ok := byRet[h.Ret]; !ok {
			order = append(order, h.Ret)
		}
		byRet[h.Ret] = append(byRet[h.Ret], h)
	}
	decodable, whyNot := c15ExpDecodable(fam, x.cfg)
	for i, ret := range order {
		construct := fname + " hit-return"
		if len(order) > 1 {
			construct = fmt.Sprintf("%s hit-return #%d", fname, i+1)
		}
		pos := p.Pos(instrPos(ret))
		var failing *c15Hit
		for j := range byRet[ret] {
			h := &byRet[ret][j]
			strict := h.Facts.has(func(f c15Fact) bool {
				return f.Op == ">" && fromLookup(f.X) && f.Y.Kind == c15Now && f.Y.Off >= 0
			})
			if !strict {
				failing = h
				break
			}
		}
		if failing == nil {
			r.OK(rule, construct, pos, "ok=true only under entry.exp > clock.Now() (strict, cache clock read during the call, entry from this call's lookup)")
			continue
		}
		h := failing
		known := strings.Join(h.Facts.list(), ", ")
		if known == "" {
			known = "nothing"
		}
		if len(ctx.Opaque) > 0 || !decodable {
			r.Undecide("%s: the expiry is used in a way the decoder does not understand (%s %s); facts on the undecided path: %s", construct, strings.Join(ctx.Opaque, "; "), whyNot, known)
			continue
		}
		var rel []c15Fact
		for _, f := range h.Facts {
			if f.X.Kind == c15Exp || f.Y.Kind == c15Exp {
				rel = append(rel, f)
			}
		}
		if len(rel) == 0 {
			r.Violation(rule, construct, pos, "Get can report ok=true on a path where the entry's expiry has not been compared with the clock (known on that path: "+known+"): an entry whose TTL has elapsed, and that Cleanup has not removed yet, is returned as a hit", h.Facts.list()...)
			continue
		}
		sort.Slice(rel, func(a, b int) bool { return rel[a].key() < rel[b].key() })
		msg, undec := "", false
		for _, f := range rel {
			undec = false
			e, o, expLeft := f.X, f.Y, true
			if f.Y.Kind == c15Exp {
				e, o, expLeft = f.Y, f.X, false
			}
			switch {
			case !fromLookup(e):
				msg = "the expiry compared is not the one of the entry looked up in this call"
			case o.Kind == c15WallNow:
				msg = "the expiry is compared with time.Now() instead of the cache's clock (Set stamps the expiry from Cache.clock): expired entries are hits whenever the two clocks differ"
			case o.Kind == c15Now && o.Off < 0:
				msg = fmt.Sprintf("the expiry is compared with clock.Now() shifted back by %d ns: entries stay hits after their TTL has elapsed", -o.Off)
			case o.Kind == c15Now && f.Op == ">=" && expLeft:
				msg = "the hit condition is entry.exp >= clock.Now() (non-strict): at exactly TTL seconds after Set the entry is still returned, but a hit requires strictly less than the TTL to have elapsed"
			case o.Kind == c15Now:
				msg = "the hit condition relates the expiry and the clock as `" + f.String() + "`, which does not imply entry.exp > clock.Now(): expired entries can be returned"
			default:
				undec = true
				msg = "the expiry is compared with " + o.String() + ", which is not a reading of the cache clock taken in this call"
			}
			if !undec {
				break
			}
		}
		if undec {
			r.Undecide("%s: %s (cannot decide)", construct, msg)
			continue
		}
		r.Violation(rule, construct, pos, msg, h.Facts.list()...)
	}
}

// ------------------------------------------------------------------ U2 Set

func (k *c15K) checkSet() {
	set := k.p.Func("ttlcache", "Cache.Set")
	fname := FuncName(k.p, set)
	isStore := func(call *ssa.Call) bool { _, ok := k.mapCall(call, "Set"); return ok }

	// every returning path stores
	ok, n, where := c15Must(k.p, set, func(in ssa.Instruction) bool {
		call, isCall := in.(*ssa.Call)
		return isCall && isStore(call)
	}, 0)
	if n == 0 {
		k.r.Undecide("%s has no return", fname)
	} else {
		k.r.Check(ok, "C15.U2-set-store", fname+" stores on every path", k.p.Pos(set.Pos()),
			"every returning path of Set calls Map.Set on Cache.m",
			"Set can return (at "+where+") without storing the new entry: a later Get returns the superseded value (or a miss) instead of the most recently Set one")
	}
	c15CapRule(k.p, k.r, k.x, set, "C15.U2-set-cap", "C15.U2-set-expiry", isStore)

	// the stored value is Set's value parameter
	allInstrs(set, func(in ssa.Instruction) {
		call, isCall := in.(*ssa.Call)
		if !isCall || !isStore(call) {
			return
		}
		construct := fname + " stores its value argument"
		vv, nVal, plain := compositeField(call.Call.Args[len(call.Call.Args)-1], "val")
		switch {
		case !plain || nVal > 1:
			k.r.Undecide("%s: the entry passed to Map.Set is not a plain composite literal", construct)
		case nVal == 0:
			k.r.Violation("C15.U2-set-value", construct, k.p.Pos(call.Pos()), "the entry stored by Set never receives the caller's value (field val is left zero): Get reports a hit with a value that is not the one most recently Set")
		default:
			sv, _ := k.x.strip(vv, nil)
			if pa, ok := sv.(*ssa.Parameter); ok && pa.Parent() == set {
				k.r.OK("C15.U2-set-value", construct, k.p.Pos(call.Pos()), "entry.val is Set's value parameter")
			} else {
				k.r.Undecide("%s: entry.val is not Set's value parameter", construct)
			}
		}
	})

	// ttl <= 0 (outside the statement's quantifier): NOTE only
	ctx := k.x.newCtx()
	ttl := c15TTLParam(set)
	allInstrs(set, func(in ssa.Instruction) {
		call, isCall := in.(*ssa.Call)
		if !isCall || !isStore(call) || ttl == nil {
			return
		}
		guarded := true
		for _, f := range ctx.paths(call.Block(), nil) {
			if !f.positive(isKey(k.x.term(ttl, nil).Key)) {
				guarded = false
			}
		}
		if !guarded {
			k.r.Note("C15: %s stores an entry without a dominating ttl > 0 test (at %s) — not armed: ttl<=0 is outside the property's quantifier (ttl 1..N) and such an entry is never a hit", fname, k.p.Pos(call.Pos()))
		}
	})
}

func c15TTLParam(fn *ssa.Function) *ssa.Parameter {
	var out *ssa.Parameter
	n := 0
	for i, pa := range fn.Params {
		if i == 0 && fn.Signature.Recv() != nil {
			continue
		}
		if b, ok := pa.Type().(*types.Basic); ok && b.Kind() == types.Int64 {
			out = pa
			n++
		}
	}
	if n != 1 {
		return nil
	}
	return out
}

// compositeField: v is the value of a struct built field-by-field in a local
// (composite literal); returns the value stored to field name and the number
// of stores to it. plain=false if v is not such a composite.
func compositeField(v ssa.Value, name string) (val ssa.Value, n int, plain bool) {
	u, ok := v.(*ssa.UnOp)
	if !ok || u.Op != token.MUL {
		return nil, 0, false
	}
	a, ok := u.X.(*ssa.Alloc)
	if !ok {
		return nil, 0, false
	}
	for _, r := range refs(a) {
		switch t := r.(type) {
		case *ssa.FieldAddr:
			if fieldIDOfAddr(t).Field != name {
				continue
			}
			for _, rr := range refs(t) {
				if st, ok := rr.(*ssa.Store); ok && st.Addr == t {
					val = st.Val
					n++
				}
			}
		case *ssa.Store:
			if t.Addr == a {
				return nil, 0, false // whole-value store: not a plain composite
			}
		case *ssa.UnOp, *ssa.DebugRef:
		default:
			return nil, 0, false // address escapes
		}
	}
	return val, n, true
}

const c15Second = int64(1000000000)

// c15CapRule is U2 (expiry formula + cap) for one setter.
func c15CapRule(p *Prog, r *Report, x *c15X, set *ssa.Function, capRule, expRule string, isStore func(*ssa.Call) bool) {
	fname := FuncName(p, set)
	ttl := c15TTLParam(set)
	if ttl == nil {
		r.Undecide("%s no longer has exactly one int64 (ttl) parameter", fname)
		return
	}
	ttlKey := x.term(ttl, nil).Key
	isTTL, isMax := isKey(ttlKey), isKind(c15MaxTTL)
	var stores []*ssa.Call
	allInstrs(set, func(in ssa.Instruction) {
		if call, ok := in.(*ssa.Call); ok && isStore(call) {
			stores = append(stores, call)
		}
	})
	if len(stores) == 0 {
		r.Violation(expRule, fname+" expiry", p.Pos(set.Pos()), "Set no longer stores an entry into the cache's map")
		return
	}
	for si, st := range stores {
		sfx := ""
		if len(stores) > 1 {
			sfx = fmt.Sprintf(" (store #%d)", si+1)
		}
		pos := p.Pos(st.Pos())
		entry := st.Call.Args[len(st.Call.Args)-1]
		ev, nExp, ok := compositeField(entry, x.cfg.ExpF)
		if !ok || nExp != 1 {
			r.Undecide("%s: the entry passed to the store is not a composite literal whose %s field can be followed", fname, x.cfg.ExpF)
			continue
		}
		ctx := x.newCtx()
		expOK, expBad, expUndec := 0, "", ""
		type leafT struct {
			c  c15Case
			by string
		}
		var leaves []leafT
		var expCases []c15Case
		for _, base := range ctx.paths(st.Block(), nil) {
			expCases = append(expCases, ctx.cases(ev, nil, base, 0)...)
		}
		for _, ec := range expCases {
			name, args, aenv, isTime := x.timeMethod(ec.V, ec.Env)
			if !isTime || name != "Add" || len(args) != 2 {
				if t := x.term(ec.V, ec.Env); t.Kind == c15Now || t.Kind == c15WallNow {
					expBad = "the stored expiry is the current time itself: the TTL is not added"
				} else if t.Kind == c15Exp {
					known := strings.Join(ec.Facts.list(), ", ")
					if known == "" {
						known = "nothing"
					}
					expBad = "on some path the expiry stored with the new value is not clock.Now()+T*time.Second but the expiry read from an existing entry (kept / later-of / earlier-of; known on that path: " + known + "): the value most recently Set then lives for a time other than its own TTL — e.g. Set(k,v1,10); Set(k,v2,2) and Get still returns v2 after 2 s (or, if the older expiry is earlier, Cleanup removes v2 before its TTL has elapsed)"
				} else {
					expUndec = "the stored expiry is not of the form <time>.Add(<duration>)"
				}
				continue
			}
			bt := x.term(args[0], aenv)
			switch {
			case bt.Kind == c15WallNow:
				expBad = "the expiry is stamped from time.Now() instead of the cache's clock (Get compares with Cache.clock): entries outlive or undershoot their TTL whenever the clocks differ"
				continue
			case bt.Kind != c15Now || bt.Off != 0:
				expUndec = "the base of the expiry (" + bt.String() + ") is not a reading of the cache clock taken in Set"
				continue
			}
			for _, dc := range ctx.cases(args[1], aenv, ec.Facts, 0) {
				dv, denv := x.strip(dc.V, dc.Env)
				mul, isMul := dv.(*ssa.BinOp)
				if !isMul || mul.Op != token.MUL {
					if t := x.term(dv, denv); t.Key == ttlKey || t.Kind == c15MaxTTL {
						expBad = "the duration added to Now() is the TTL itself, not TTL*time.Second: the TTL is taken as nanoseconds and live entries expire at once (Cleanup removes entries whose TTL has not elapsed)"
					} else {
						expUndec = "the duration added to Now() is not of the form T*time.Second"
					}
					continue
				}
				var unit *ssa.Const
				var tv ssa.Value
				if kc, ok := mul.Y.(*ssa.Const); ok {
					unit, tv = kc, mul.X
				} else if kc, ok := mul.X.(*ssa.Const); ok {
					unit, tv = kc, mul.Y
				}
				if unit == nil || unit.Value == nil || unit.Value.Kind() != constant.Int {
					expUndec = "the duration added to Now() is a product without a constant unit"
					continue
				}
				if u, _ := constant.Int64Val(unit.Value); u != c15Second {
					if u > c15Second {
						expBad = fmt.Sprintf("the TTL is multiplied by %d ns instead of time.Second: entries stay hits long after TTL seconds have elapsed", u)
					} else {
						expBad = fmt.Sprintf("the TTL is multiplied by %d ns instead of time.Second: entries expire (and are removed by Cleanup) before their TTL has elapsed", u)
					}
					continue
				}
				expOK++
				for _, tc := range ctx.cases(tv, denv, dc.Facts, 0) {
					leaves = append(leaves, leafT{tc, ""})
				}
			}
		}
		switch {
		case expBad != "":
			r.Violation(expRule, fname+" expiry"+sfx, pos, expBad)
		case expUndec != "":
			r.Undecide("%s expiry%s: %s", fname, sfx, expUndec)
		case expOK > 0:
			r.OK(expRule, fname+" expiry"+sfx, pos, "expiry = clock.Now().Add(T*time.Second) with Now() read from the cache clock in Set")
		}
		// cap: aggregate the path cases by the value that reaches the expiry
		type agg struct {
			n    int
			bad  string
			seen bool
		}
		kinds := map[string]*agg{"ttl": {}, "maxTTL": {}, "min": {}}
		for _, lf := range leaves {
			t := x.term(lf.c.V, lf.c.Env)
			f := lf.c.Facts
			known := strings.Join(f.list(), ", ")
			if known == "" {
				known = "nothing"
			}
			switch {
			case t.Key == ttlKey:
				a := kinds["ttl"]
				a.n++
				if !(f.nonPositive(isMax) || f.ge(isMax, isTTL)) && a.bad == "" {
					a.bad = known
				}
			case t.Kind == c15MaxTTL:
				a := kinds["maxTTL"]
				a.n++
				if !(f.positive(isMax) && f.ge(isTTL, isMax)) && a.bad == "" {
					a.bad = known
				}
			default:
				if call, ok := lf.c.V.(*ssa.Call); ok && builtinName(call) == "min" && len(call.Call.Args) == 2 {
					a, b := x.term(call.Call.Args[0], lf.c.Env), x.term(call.Call.Args[1], lf.c.Env)
					if (a.Key == ttlKey && b.Kind == c15MaxTTL) || (b.Key == ttlKey && a.Kind == c15MaxTTL) {
						ag := kinds["min"]
						ag.n++
						if !f.positive(isMax) && ag.bad == "" {
							ag.bad = known
						}
						continue
					}
				}
				r.Undecide("%s%s: the TTL reaching the expiry (%s) is neither the ttl parameter nor Cache.maxTTL", fname, sfx, t.String())
			}
		}
		if a := kinds["ttl"]; a.n > 0 {
			r.Check(a.bad == "", capRule, fname+" T=ttl"+sfx, pos,
				"the caller's ttl reaches the expiry only on paths where maxTTL<=0 or ttl<=maxTTL is established",
				"the caller's ttl reaches the expiry on a path where neither `maxTTL <= 0` nor `ttl <= maxTTL` is established (known on that path: "+a.bad+"): with MaxTTL configured, an entry Set with a larger ttl is still a hit after MaxTTL seconds (cap missing, applied after the expiry was computed, or its test weakened)")
		}
		if a := kinds["maxTTL"]; a.n > 0 {
			r.Check(a.bad == "", capRule, fname+" T=maxTTL"+sfx, pos,
				"maxTTL replaces the ttl only on paths where maxTTL>0 and ttl>=maxTTL is established",
				"maxTTL is used as the TTL on a path where `maxTTL > 0` and `ttl >= maxTTL` are not both established (known on that path: "+a.bad+"): an entry Set with a smaller ttl outlives it (late hit), or with MaxTTL unset the entry expires at once and Cleanup removes it although its TTL has not elapsed")
		}
		if a := kinds["min"]; a.n > 0 {
			r.Check(a.bad == "", capRule, fname+" T=min(ttl,maxTTL)"+sfx, pos, "min(ttl,maxTTL) used only where maxTTL>0",
				"min(ttl, maxTTL) reaches the expiry on a path where maxTTL > 0 is not established (known on that path: "+a.bad+"): with MaxTTL unset every entry gets a non-positive TTL and is removed although its TTL has not elapsed")
		}
	}
}

func (k *c15K) checkWire() {
	nc := k.p.Func("ttlcache", "NewCache")
	construct := "ttlcache.NewCache Cache.maxTTL <- CacheOptions.MaxTTL"
	n, good := 0, false
	var pos token.Pos
	for _, fn := range k.p.FuncsOfPkg("ttlcache") {
		allInstrs(fn, func(in ssa.Instruction) {
			st, ok := in.(*ssa.Store)
			if !ok {
				return
			}
			fa, ok := st.Addr.(*ssa.FieldAddr)
			if !ok {
				return
			}
			id := fieldIDOfAddr(fa)
			if id.Type != k.x.cfg.CacheT {
				return
			}
			if origin(fn) != origin(nc) {
				switch id.Field {
				case "maxTTL", "clock", "m":
					k.r.Undecide("Cache.%s is written outside NewCache (in %s): the facts about it used by the rules may be stale", id.Field, FuncName(k.p, fn))
				}
				return
			}
			if id.Field != "maxTTL" {
				return
			}
			n++
			pos = st.Pos()
			for _, cs := range k.x.newCtx().cases(st.Val, nil, c15Set{}, 0) {
				if _, _, rid, ok := k.x.fieldRead(cs.V, cs.Env); ok && rid.Type == k.pkg+".CacheOptions" && rid.Field == "MaxTTL" {
					good = true
				} else if kc, ok := cs.V.(*ssa.Const); ok && kc.Value != nil {
					// a constant on some path (e.g. normalising negatives to 0) is fine
				} else {
					good = false
					k.r.Undecide("%s: the value stored is not CacheOptions.MaxTTL", construct)
				}
			}
		})
	}
	if n == 0 {
		k.r.Violation("C15.U2-wire-maxttl", construct, k.p.Pos(nc.Pos()), "NewCache never stores CacheOptions.MaxTTL into Cache.maxTTL: the configured cap is ignored and entries Set with ttl > MaxTTL stay hits after MaxTTL seconds")
		return
	}
	if good {
		k.r.OK("C15.U2-wire-maxttl", construct, k.p.Pos(pos), "NewCache copies the option into the field Set reads")
	}
}

// -------------------------------------------------------------- U3 Cleanup

type c15KeySrc struct {
	V  ssa.Value       // the key value added
	At ssa.Instruction // where it is added / deleted
}

// varargsElems: v is `slice(new [n]T)[:]`; returns the element values stored.
func varargsElems(v ssa.Value) ([]ssa.Value, bool) {
	if kc, ok := v.(*ssa.Const); ok && kc.IsNil() {
		return nil, true
	}
	sl, ok := v.(*ssa.Slice)
	if !ok {
		return nil, false
	}
	a, ok := sl.X.(*ssa.Alloc)
	if !ok {
		return nil, false
	}
	if _, ok := deref(a.Type()).Underlying().(*types.Array); !ok {
		return nil, false
	}
	var out []ssa.Value
	for _, r := range refs(a) {
		switch t := r.(type) {
		case *ssa.IndexAddr:
			for _, rr := range refs(t) {
				if st, ok := rr.(*ssa.Store); ok && st.Addr == t {
					out = append(out, st.Val)
				} else {
					return nil, false
				}
			}
		case *ssa.Slice:
		default:
			return nil, false
		}
	}
	return out, true
}

// c15CellOf: v is a load of a variable cell (directly or through a captured
// variable); returns the cell.
func c15CellOf(v ssa.Value) *ssa.Alloc {
	u, ok := v.(*ssa.UnOp)
	if !ok || u.Op != token.MUL {
		return nil
	}
	switch a := u.X.(type) {
	case *ssa.Alloc:
		return a
	case *ssa.FreeVar:
		for i := 0; i < 4; i++ {
			b := resolveFreeVar(a)
			switch t := b.(type) {
			case *ssa.Alloc:
				return t
			case *ssa.FreeVar:
				a = t
				continue
			}
			return nil
		}
	}
	return nil
}

// c15CellStores: every store to the cell, in its function and in closures that
// capture it; ok=false if the cell's address escapes otherwise.
func c15CellStores(a *ssa.Alloc) (stores []*ssa.Store, ok bool) {
	ok = true
	var walk func(v ssa.Value, depth int)
	walk = func(v ssa.Value, depth int) {
		if depth > 4 {
			ok = false
			return
		}
		for _, r := range refs(v) {
			switch t := r.(type) {
			case *ssa.Store:
				if t.Addr == v {
					stores = append(stores, t)
				} else {
					ok = false
				}
			case *ssa.UnOp:
				if t.Op != token.MUL {
					ok = false
				}
			case *ssa.DebugRef:
			case *ssa.MakeClosure:
				fn, isFn := t.Fn.(*ssa.Function)
				if !isFn {
					ok = false
					continue
				}
				for i, b := range t.Bindings {
					if b == v && i < len(fn.FreeVars) {
						walk(fn.FreeVars[i], depth+1)
					}
				}
			default:
				ok = false
			}
		}
	}
	walk(a, 0)
	return
}

// keySources lists where the keys of slice value v (an argument of a delete)
// come from. unrec != "" if the shape is not understood.
func keySources(v ssa.Value, at ssa.Instruction) (src []c15KeySrc, unrec string) {
	if elems, ok := varargsElems(v); ok {
		for _, e := range elems {
			src = append(src, c15KeySrc{e, at})
		}
		return
	}
	cell := c15CellOf(v)
	if cell == nil {
		return nil, "the key slice is neither a literal argument list nor a local slice variable"
	}
	stores, ok := c15CellStores(cell)
	if !ok {
		return nil, "the address of the key slice variable escapes"
	}
	for _, st := range stores {
		switch t := st.Val.(type) {
		case *ssa.MakeSlice:
			continue
		case *ssa.Const:
			if t.IsNil() {
				continue
			}
		case *ssa.Slice:
			if c15CellOf(t.X) == cell {
				continue
			}
		case *ssa.Call:
			if builtinName(t) == "append" && len(t.Call.Args) == 2 && c15CellOf(t.Call.Args[0]) == cell {
				elems, ok := varargsElems(t.Call.Args[1])
				if !ok {
					return nil, "a slice of unknown contents is appended to the key slice"
				}
				for _, e := range elems {
					src = append(src, c15KeySrc{e, t})
				}
				continue
			}
		}
		return nil, "the key slice variable is assigned something other than make/append(itself, keys...)"
	}
	return
}

// forEachCallbacks: callbacks handed to Map.ForEach on Cache.m inside fns.
func (k *c15K) forEachCallbacks(fns []*ssa.Function) map[*ssa.Function]*ssa.Call {
	out := map[*ssa.Function]*ssa.Call{}
	for _, fn := range fns {
		allInstrs(fn, func(in ssa.Instruction) {
			cc, ok := k.mapCall(in, "ForEach")
			if !ok || len(cc.Args) < 2 {
				return
			}
			call, _ := in.(*ssa.Call)
			switch t := cc.Args[1].(type) {
			case *ssa.MakeClosure:
				if f, ok := t.Fn.(*ssa.Function); ok {
					out[f] = call
				}
			case *ssa.Function:
				out[t] = call
			}
		})
	}
	return out
}

// deleteSites: Map.Del on Cache.m, or Cache.Delete, inside fns.
func (k *c15K) deleteSites(fns []*ssa.Function) (sites []ssa.CallInstruction, keyArg []ssa.Value, variadic []bool) {
	del := k.p.FuncOpt("ttlcache", "Cache.Delete")
	for _, fn := range fns {
		allInstrs(fn, func(in ssa.Instruction) {
			ci, ok := in.(ssa.CallInstruction)
			if !ok {
				return
			}
			if cc, ok := k.mapCall(in, "Del"); ok && len(cc.Args) == 2 {
				sites, keyArg, variadic = append(sites, ci), append(keyArg, cc.Args[1]), append(variadic, true)
				return
			}
			if g := staticCallee(ci); g != nil && del != nil && g == origin(del) && len(ci.Common().Args) == 2 {
				sites, keyArg, variadic = append(sites, ci), append(keyArg, ci.Common().Args[1]), append(variadic, false)
			}
		})
	}
	return
}

func (k *c15K) checkCleanup() {
	cl := k.p.Func("ttlcache", "Cache.Cleanup")
	fname := FuncName(k.p, cl)
	rule := "C15.U3-cleanup-expired-only"
	fam := k.family(cl)
	cbs := k.forEachCallbacks(fam)
	sites, args, variadic := k.deleteSites(fam)
	if len(sites) == 0 {
		k.r.Undecide("%s: no delete on Cache.m found in Cleanup (anchor moved; a Cleanup that removes nothing cannot violate the clause)", fname)
		return
	}
	n := 0
	for i, site := range sites {
		var src []c15KeySrc
		if variadic[i] {
			var unrec string
			src, unrec = keySources(args[i], site)
			if unrec != "" {
				k.r.Undecide("%s: delete at %s: %s", fname, k.p.Pos(site.Pos()), unrec)
				continue
			}
		} else {
			src = []c15KeySrc{{args[i], site}}
		}
		// a key read back from a collected slice (for _, k := range keys { Del(k) })
		var expanded []c15KeySrc
		for _, s := range src {
			if u, ok := s.V.(*ssa.UnOp); ok && u.Op == token.MUL {
				if ia, ok := u.X.(*ssa.IndexAddr); ok && c15CellOf(ia.X) != nil {
					if inner, unrec := keySources(ia.X, site); unrec == "" {
						expanded = append(expanded, inner...)
						continue
					}
				}
			}
			expanded = append(expanded, s)
		}
		src = expanded
		for _, s := range src {
			n++
			at := s.At
			cb := origin(at.Parent())
			construct := fmt.Sprintf("%s key collected in %s", fname, FuncName(k.p, cb))
			if n > 1 {
				construct += fmt.Sprintf(" #%d", n)
			}
			pos := k.p.Pos(instrPos(at))
			if _, isCb := cbs[cb]; !isCb || len(cb.Params) < 2 {
				k.r.Undecide("%s: a key is scheduled for deletion outside a ForEach callback over Cache.m (at %s)", fname, pos)
				continue
			}
			kv, _ := k.x.strip(s.V, nil)
			if kv != ssa.Value(cb.Params[0]) {
				k.r.Undecide("%s: the key scheduled for deletion at %s is not the callback's own key parameter", fname, pos)
				continue
			}
			entryParam := cb.Params[1]
			ctx := k.x.newCtx()
			own := func(t c15Term) bool { return t.Kind == c15Exp && t.Entry == ssa.Value(entryParam) }
			good := true
			var facts c15Set
			for _, ps := range ctx.paths(at.Block(), nil) {
				ps = ps.saturate()
				if !ps.ge(func(t c15Term) bool { return t.Kind == c15Now && t.Off <= 0 }, own) {
					good, facts = false, ps
					break
				}
			}
			if good {
				k.r.OK(rule, construct, pos, "key collected only under clock.Now() >(=) exp of its own entry, cache clock read during Cleanup")
				continue
			}
			var rel []c15Fact
			for _, f := range facts {
				if f.X.Kind == c15Exp || f.Y.Kind == c15Exp {
					rel = append(rel, f)
				}
			}
			if dec, whyNot := c15ExpDecodable(fam, k.x.cfg); len(ctx.Opaque) > 0 || !dec {
				k.r.Undecide("%s: the expiry is used in %s in a way the decoder does not understand (%s %s)", fname, FuncName(k.p, cb), strings.Join(ctx.Opaque, "; "), whyNot)
				continue
			}
			if len(rel) == 0 {
				known := strings.Join(facts.list(), ", ")
				if known == "" {
					known = "nothing"
				}
				k.r.Violation(rule, construct, pos, "Cleanup schedules a key for deletion on a path where its entry's expiry has not been compared with the clock (known on that path: "+known+"): live entries of keys nobody touched disappear", facts.list()...)
				continue
			}
			sort.Slice(rel, func(a, b int) bool { return rel[a].key() < rel[b].key() })
			msg, undec := "", false
			for _, f := range rel {
				undec = false
				e, o := f.X, f.Y
				if f.Y.Kind == c15Exp {
					e, o = f.Y, f.X
				}
				switch {
				case !own(e):
					msg = "the expiry tested is not the one of the entry whose key is collected"
				case o.Kind == c15WallNow:
					msg = "the expiry is compared with time.Now() instead of the cache's clock: entries that are live on the cache's clock are removed whenever the clocks differ"
				case o.Kind == c15Now && o.Off > 0:
					msg = fmt.Sprintf("the expiry is compared with clock.Now() shifted forward by %d ns: entries that have not expired yet are removed", o.Off)
				case o.Kind == c15Now:
					msg = "the collect condition relates the expiry and the clock as `" + f.String() + "`, which does not imply that the entry has expired (clock.Now() >= entry.exp): live entries are removed"
				default:
					undec = true
					msg = "the expiry is compared with " + o.String() + ", which is not a reading of the cache clock taken during Cleanup"
				}
				if !undec {
					break
				}
			}
			if undec {
				k.r.Undecide("%s: %s (cannot decide)", construct, msg)
				continue
			}
			k.r.Violation(rule, construct, pos, msg, facts.list()...)
		}
	}
}

// ----------------------------------------------------------------- U4 Stop

// c15Must: every return of fn is preceded by an instruction satisfying ev
// (deferred calls count where they run; calls to in-module functions that
// themselves always pass ev count).
func c15Must(p *Prog, fn *ssa.Function, ev func(ssa.Instruction) bool, depth int) (ok bool, nRet int, where string) {
	var hit func(in ssa.Instruction) bool
	hit = func(in ssa.Instruction) bool {
		if ev(in) {
			return true
		}
		if ci, isCall := in.(ssa.CallInstruction); isCall && depth < 2 {
			if _, isGo := in.(*ssa.Go); isGo {
				return false
			}
			if g := staticCallee(ci); g != nil && p.InModule(g) && len(g.Blocks) > 0 {
				ok, n, _ := c15Must(p, g, ev, depth+1)
				return ok && n > 0
			}
		}
		return false
	}
	replay := false
	ff := &FlagFlow{Fn: fn, Must: true, Transfer: func(in ssa.Instruction, st uint64) uint64 {
		switch in.(type) {
		case *ssa.RunDefers:
			replay = true
			return st
		case *ssa.Defer:
			if !replay {
				return st
			}
		default:
			replay = false
		}
		if hit(in) {
			return st | 1
		}
		return st
	}}
	ff.Run()
	ok = true
	ff.AtReturns(func(ret *ssa.Return, st uint64) {
		if !liveBlock(ret.Block()) {
			return
		}
		nRet++
		if st&1 == 0 {
			ok = false
			where = p.Pos(instrPos(ret))
		}
	})
	return
}

func isRecvOn(in ssa.Instruction, ch string) bool {
	u, ok := in.(*ssa.UnOp)
	return ok && u.Op == token.ARROW && chanIdent(u.X) == ch
}

func isCloseOf(in ssa.Instruction, ch string) bool {
	ci, ok := in.(ssa.CallInstruction)
	if !ok || builtinName(ci) != "close" || len(ci.Common().Args) != 1 {
		return false
	}
	return chanIdent(ci.Common().Args[0]) == ch
}

func (k *c15K) checkStop() {
	p, r := k.p, k.r
	stop := p.Func("ttlcache", "Cache.Stop")
	sname := FuncName(p, stop)

	ok, n, where := c15Must(p, stop, func(in ssa.Instruction) bool { return isRecvOn(in, k.runCh) }, 0)
	if n == 0 {
		r.Undecide("%s has no return", sname)
	} else {
		r.Check(ok, "C15.U4-stop-waits", sname+" waits on runningCh", p.Pos(stop.Pos()),
			"every return of Stop is preceded by a receive on Cache.runningCh",
			"Stop can return (at "+where+") without having received from Cache.runningCh: it returns while the background cleaner may still be running (e.g. the second of two concurrent Stop calls, or every call if the wait was dropped)")
	}

	// Stop signals: close(stopCh) exists in Stop's family, and not after the wait.
	fam := k.family(stop)
	nClose := 0
	late := ""
	for _, fn := range fam {
		ff := &FlagFlow{Fn: fn, Must: false, Transfer: func(in ssa.Instruction, st uint64) uint64 {
			if isRecvOn(in, k.runCh) {
				return st | 1
			}
			return st
		}}
		ff.Run()
		allInstrs(fn, func(in ssa.Instruction) {
			if !isCloseOf(in, k.stpCh) {
				return
			}
			nClose++
			if st, ok := ff.Before(in); ok && st&1 != 0 {
				late = p.Pos(instrPos(in))
			}
		})
	}
	switch {
	case nClose == 0:
		r.Violation("C15.U4-stop-signals", sname+" closes stopCh", p.Pos(stop.Pos()), "Stop no longer closes Cache.stopCh: the cleaner is never told to exit and Stop waits on runningCh forever (Stop never returns)")
	case late != "":
		r.Violation("C15.U4-stop-signals", sname+" closes stopCh", late, "Stop closes Cache.stopCh only after it has waited on Cache.runningCh: the cleaner exits only on stopCh, so Stop never returns")
	default:
		r.OK("C15.U4-stop-signals", sname+" closes stopCh", p.Pos(stop.Pos()), "close(stopCh) precedes the wait")
	}

	// the goroutine(s)
	type goSite struct {
		in *ssa.Go
		g  *ssa.Function
	}
	var gos []goSite
	goFns := map[*ssa.Function]bool{}
	for _, fn := range p.FuncsOfPkg("ttlcache") {
		allInstrs(fn, func(in ssa.Instruction) {
			if g, ok := in.(*ssa.Go); ok {
				if f := staticCallee(g); f != nil {
					gos = append(gos, goSite{g, f})
					goFns[f] = true
				}
			}
		})
	}
	// closers of runningCh
	var closers []*ssa.Function
	nSites := 0
	for _, fn := range p.FuncsOfPkg("ttlcache") {
		has := false
		allInstrs(fn, func(in ssa.Instruction) {
			if isCloseOf(in, k.runCh) {
				has = true
				nSites++
				if !goFns[origin(fn)] {
					r.Violation("C15.U4-cleaner-exit", FuncName(p, fn)+" closes runningCh", p.Pos(instrPos(in)), "Cache.runningCh is closed by "+FuncName(p, fn)+", which is not the body of the background goroutine: Stop's wait is released although the cleaner may still be running")
				}
			}
		})
		if has && goFns[origin(fn)] {
			closers = append(closers, fn)
		}
	}
	if nSites == 0 {
		r.Violation("C15.U4-cleaner-exit", "ttlcache cleaner closes runningCh", p.Pos(stop.Pos()), "nothing closes Cache.runningCh: Stop never returns")
		return
	}
	cleanup := p.FuncOpt("ttlcache", "Cache.Cleanup")
	for _, g := range closers {
		gname := FuncName(p, g)
		// (i) closed on every exit
		okc, nr, wherec := c15Must(p, g, func(in ssa.Instruction) bool { return isCloseOf(in, k.runCh) }, 0)
		// a deferred close must be registered on every path to every exit
		allInstrs(g, func(in ssa.Instruction) {
			d, isD := in.(*ssa.Defer)
			if !isD || !isCloseOf(d, k.runCh) {
				return
			}
			allInstrs(g, func(j ssa.Instruction) {
				if _, isRD := j.(*ssa.RunDefers); isRD && liveBlock(j.Block()) && !instrDominates(d, j) {
					okc = false
					wherec = p.Pos(instrPos(j))
				}
			})
		})
		// (ii) nothing cleans after the close
		after := ""
		replay := false
		ff := &FlagFlow{Fn: g, Must: false, Transfer: func(in ssa.Instruction, st uint64) uint64 {
			switch in.(type) {
			case *ssa.RunDefers:
				replay = true
				return st
			case *ssa.Defer:
				if !replay {
					return st
				}
			default:
				replay = false
			}
			if isCloseOf(in, k.runCh) {
				return st | 1
			}
			if st&1 != 0 {
				if ci, ok := in.(ssa.CallInstruction); ok {
					if _, isMap := k.mapCall(in, ""); isMap {
						after = p.Pos(instrPos(in))
					}
					if f := staticCallee(ci); f != nil && cleanup != nil && f == origin(cleanup) {
						after = p.Pos(instrPos(in))
					}
				}
			}
			return st
		}}
		ff.Run()
		switch {
		case nr > 0 && !okc:
			r.Violation("C15.U4-cleaner-exit", gname+" closes runningCh on exit", wherec, "the cleaner goroutine can exit (at "+wherec+") without closing Cache.runningCh: Stop waits forever")
		case after != "":
			r.Violation("C15.U4-cleaner-exit", gname+" closes runningCh on exit", after, "the cleaner goroutine still touches the cache (at "+after+") after closing Cache.runningCh: Stop returns while the cleaner is still cleaning")
		default:
			r.OK("C15.U4-cleaner-exit", gname+" closes runningCh on exit", p.Pos(g.Pos()), "runningCh is closed on every exit of the goroutine body, after its last cleaning step")
		}

		// periodic cleaning goes through Cleanup only, synchronously
		{
			badCall, badPos := "", ""
			detached, detachedPos := "", ""
			var unresolved []string
			hasJoin := false
			seenF := map[*ssa.Function]bool{}
			var walk func(f *ssa.Function)
			// visit one possible callee h of call site in
			visit := func(h *ssa.Function, in ssa.Instruction, how string) {
				h = k.unwrapFn(h)
				if h == nil || h.Pkg == nil || h.Pkg.Pkg.Path() != k.pkg {
					return
				}
				if _, isGo := in.(*ssa.Go); isGo && k.reachesMutation(h, map[*ssa.Function]bool{}) {
					detached, detachedPos = FuncName(p, h)+how, p.Pos(instrPos(in))
				}
				if cleanup != nil && h == origin(cleanup) {
					return // audited by U3
				}
				if isExportedFunc(h) {
					switch h.Name() {
					case "Reset", "Delete", "Set":
						badCall, badPos = FuncName(p, h)+how, p.Pos(instrPos(in))
					}
					return
				}
				walk(h)
			}
			walk = func(f *ssa.Function) {
				f = origin(f)
				if f == nil || seenF[f] || len(f.Blocks) == 0 {
					return
				}
				seenF[f] = true
				for _, a := range f.AnonFuncs {
					walk(a)
				}
				allInstrs(f, func(in ssa.Instruction) {
					ci, ok := in.(ssa.CallInstruction)
					if !ok {
						return
					}
					if callIs(ci, "sync", "WaitGroup", "Wait") {
						hasJoin = true
					}
					if _, isMap := k.mapCall(in, ""); isMap {
						switch name := calleeObj(ci).Name(); name {
						case "Get", "ForEach", "Len", "Fillrate", "Grow":
						default:
							badCall, badPos = "Map."+name+" on Cache.m", p.Pos(instrPos(in))
							if _, isGo := in.(*ssa.Go); isGo {
								detached, detachedPos = "Map."+name+" on Cache.m", p.Pos(instrPos(in))
							}
						}
						return
					}
					cc := ci.Common()
					if cc.IsInvoke() || builtinName(ci) != "" {
						return // clock / ticker interface methods, builtins
					}
					if h := staticCallee(ci); h != nil {
						visit(h, in, "")
						return
					}
					// a call through a func value: every possible target counts
					targets, unknown := k.funcTargets(cc.Value, 0)
					if unknown {
						unresolved = append(unresolved, p.Pos(instrPos(in)))
					}
					for _, h := range targets {
						visit(h, in, " (through a func value)")
					}
				})
			}
			walk(g)
			// a Cleanup that detaches its own deletions is part of the cleaner too
			if cleanup != nil {
				for _, f := range k.family(cleanup) {
					allInstrs(f, func(in ssa.Instruction) {
						gi, ok := in.(*ssa.Go)
						if !ok {
							return
						}
						if _, isMap := k.mapCall(in, ""); isMap {
							detached, detachedPos = "a map operation of Cleanup", p.Pos(instrPos(in))
							return
						}
						ts := []*ssa.Function{staticCallee(gi)}
						if ts[0] == nil {
							ts, _ = k.funcTargets(gi.Call.Value, 0)
						}
						for _, h := range ts {
							if h = k.unwrapFn(h); h != nil && k.reachesMutation(h, map[*ssa.Function]bool{}) {
								detached, detachedPos = FuncName(p, h)+" (spawned inside Cleanup)", p.Pos(instrPos(in))
							}
						}
					})
				}
			}
			switch {
			case badCall != "":
				r.Violation("C15.U3-periodic-via-cleanup", gname+" mutates the cache only through Cleanup", badPos,
					"the background goroutine can call "+badCall+" (at "+badPos+"): the periodic cleaner removes or rewrites entries other than through the expired-only Cleanup, so live entries of keys nobody touched disappear (e.g. a key Set shortly before the tick)")
			case len(unresolved) > 0:
				r.Undecide("%s: a call through a func value at %s has targets that cannot be resolved; cannot decide that the periodic cleaner mutates the cache only through Cleanup", gname, strings.Join(unresolved, ", "))
			default:
				r.OK("C15.U3-periodic-via-cleanup", gname+" mutates the cache only through Cleanup", p.Pos(g.Pos()),
					"every call of the background goroutine that can mutate Cache.m — direct, through a method value, a func variable or a phi of them — resolves to Cache.Cleanup (audited by U3)")
			}
			switch {
			case detached != "" && hasJoin:
				r.Undecide("%s: %s is started with `go` at %s inside the cleaner and a WaitGroup.Wait is present; whether it is joined before runningCh is closed is not analysed", gname, detached, detachedPos)
			case detached != "":
				r.Violation("C15.U4-cleaner-synchronous", gname+" cleans synchronously", detachedPos,
					"the cleaner starts "+detached+" with `go` (at "+detachedPos+") and never joins it: when Cache.stopCh is closed the loop exits and closes Cache.runningCh while that detached goroutine may still be scanning and deleting — Stop returns before the background cleaning has ended")
			default:
				r.OK("C15.U4-cleaner-synchronous", gname+" cleans synchronously", p.Pos(g.Pos()),
					"no call that can reach a mutation of Cache.m is started with `go` inside the cleaner (or inside Cleanup)")
			}
		}

		// stop case in every wait
		nWait := 0
		for _, op := range blockingOps(nil, g) {
			nWait++
			construct := fmt.Sprintf("%s wait", gname)
			if nWait > 1 {
				construct = fmt.Sprintf("%s wait #%d", gname, nWait)
			}
			pos := p.Pos(instrPos(op.Instr))
			if op.Kind != "select" {
				r.Violation("C15.U4-cleaner-stopcase", construct, pos, "the cleaner goroutine blocks ("+op.Desc+") where a close of Cache.stopCh cannot wake it: Stop never returns")
				continue
			}
			good, loops := false, false
			for _, cs := range op.Sel.Cases {
				if cs.Dir == types.RecvOnly && cs.Chan == k.stpCh {
					good = true
					if cs.Body != nil && reachableFrom(cs.Body, nil)[op.Instr.Block()] {
						loops = true
					}
				}
			}
			switch {
			case !good:
				r.Violation("C15.U4-cleaner-stopcase", construct, pos, "the cleaner's select has no case on Cache.stopCh: the goroutine never exits and Stop never returns")
			case loops:
				r.Violation("C15.U4-cleaner-stopcase", construct, pos, "the Cache.stopCh case of the cleaner's select goes back to waiting instead of leaving the loop: the goroutine never exits and Stop never returns")
			default:
				r.OK("C15.U4-cleaner-stopcase", construct, pos, "select has a Cache.stopCh case that leaves the loop")
			}
		}

		// start: runningCh created before go; NewCache always reaches the go
		for _, gs := range gos {
			if origin(gs.g) != origin(g) {
				continue
			}
			spawner := gs.in.Parent()
			construct := FuncName(p, spawner) + " -> go " + gname
			created := false
			allInstrs(spawner, func(in ssa.Instruction) {
				st, ok := in.(*ssa.Store)
				if !ok {
					return
				}
				if fa, ok := st.Addr.(*ssa.FieldAddr); ok {
					if id := fieldIDOfAddr(fa); id.Type == k.x.cfg.CacheT && id.Field == "runningCh" {
						if _, isMk := st.Val.(*ssa.MakeChan); isMk && instrDominates(st, gs.in) {
							created = true
						}
					}
				}
			})
			nc := p.Func("ttlcache", "NewCache")
			if !created && origin(spawner) != origin(nc) {
				// maybe created by the constructor before calling the spawner
				allInstrs(nc, func(in ssa.Instruction) {
					st, ok := in.(*ssa.Store)
					if !ok {
						return
					}
					if fa, ok := st.Addr.(*ssa.FieldAddr); ok {
						if id := fieldIDOfAddr(fa); id.Type == k.x.cfg.CacheT && id.Field == "runningCh" {
							if _, isMk := st.Val.(*ssa.MakeChan); isMk {
								allInstrs(nc, func(j ssa.Instruction) {
									if ci, ok := j.(ssa.CallInstruction); ok && staticCallee(ci) == origin(spawner) && instrDominates(st, j) {
										created = true
									}
								})
							}
						}
					}
				})
			}
			started := origin(spawner) == origin(nc)
			if !started {
				okS, nS, _ := c15Must(p, nc, func(in ssa.Instruction) bool {
					ci, ok := in.(ssa.CallInstruction)
					if !ok {
						return false
					}
					if _, isGo := in.(*ssa.Go); isGo {
						return false
					}
					return staticCallee(ci) == origin(spawner)
				}, 0)
				started = okS && nS > 0
			} else {
				okS, nS, _ := c15Must(p, nc, func(in ssa.Instruction) bool { return in == ssa.Instruction(gs.in) }, 0)
				started = okS && nS > 0
			}
			switch {
			case !created:
				r.Violation("C15.U4-cleaner-start", construct, p.Pos(gs.in.Pos()), "Cache.runningCh is not created (make(chan)) before the cleaner goroutine is started: the goroutine may close a nil/unset channel, or Stop may wait on a channel nobody closes")
			case !started:
				r.Violation("C15.U4-cleaner-start", construct, p.Pos(nc.Pos()), "NewCache can return without starting the cleaner goroutine: Cache.runningCh is never closed and Stop never returns")
			default:
				r.OK("C15.U4-cleaner-start", construct, p.Pos(gs.in.Pos()), "runningCh is created before the go statement and NewCache always starts the cleaner")
			}
		}
	}
}

// unwrapFn maps bound-method / thunk / instantiation wrappers to the
// (origin of the) declared method they stand for.
func (k *c15K) unwrapFn(f *ssa.Function) *ssa.Function {
	if f == nil {
		return nil
	}
	f = origin(f)
	if f.Synthetic != "" {
		if obj, ok := f.Object().(*types.Func); ok && obj != nil {
			if t := k.p.SSA.FuncValue(obj.Origin()); t != nil {
				return origin(t)
			}
		}
	}
	return f
}

// funcTargets resolves the functions a func value can denote: a function, a
// (bound-method) closure, a phi of them, or a local / captured func variable
// all of whose stores resolve. unknown=true if some possibility does not.
func (k *c15K) funcTargets(v ssa.Value, depth int) (out []*ssa.Function, unknown bool) {
	if depth > 6 || v == nil {
		return nil, true
	}
	switch t := v.(type) {
	case *ssa.Function:
		return []*ssa.Function{t}, false
	case *ssa.MakeClosure:
		if f, ok := t.Fn.(*ssa.Function); ok {
			return []*ssa.Function{f}, false
		}
		return nil, true
	case *ssa.ChangeType:
		return k.funcTargets(t.X, depth+1)
	case *ssa.Phi:
		for _, e := range t.Edges {
			if e == ssa.Value(t) {
				continue
			}
			o, u := k.funcTargets(e, depth+1)
			out = append(out, o...)
			unknown = unknown || u
		}
		return
	case *ssa.UnOp:
		if t.Op != token.MUL {
			return nil, true
		}
		cell := c15CellOf(t)
		if cell == nil {
			return nil, true
		}
		stores, ok := c15CellStores(cell)
		if !ok || len(stores) == 0 {
			return nil, true
		}
		for _, st := range stores {
			o, u := k.funcTargets(st.Val, depth+1)
			out = append(out, o...)
			unknown = unknown || u
		}
		return
	case *ssa.FreeVar:
		if b := resolveFreeVar(t); b != nil {
			return k.funcTargets(b, depth+1)
		}
	case *ssa.Const:
		if t.IsNil() {
			return nil, false
		}
	}
	return nil, true
}

// reachesMutation: f (transitively, through static calls, closures and
// resolvable func values inside the package) can mutate Cache.m.
func (k *c15K) reachesMutation(f *ssa.Function, seen map[*ssa.Function]bool) bool {
	f = k.unwrapFn(f)
	if f == nil || seen[f] || len(f.Blocks) == 0 {
		return false
	}
	seen[f] = true
	found := false
	for _, a := range f.AnonFuncs {
		if k.reachesMutation(a, seen) {
			found = true
		}
	}
	allInstrs(f, func(in ssa.Instruction) {
		ci, ok := in.(ssa.CallInstruction)
		if !ok || found {
			return
		}
		if _, isMap := k.mapCall(in, ""); isMap {
			switch calleeObj(ci).Name() {
			case "Get", "ForEach", "Len", "Fillrate", "Grow":
			default:
				found = true
			}
			return
		}
		if ci.Common().IsInvoke() || builtinName(ci) != "" {
			return
		}
		ts := []*ssa.Function{staticCallee(ci)}
		if ts[0] == nil {
			ts, _ = k.funcTargets(ci.Common().Value, 0)
		}
		for _, h := range ts {
			if h = k.unwrapFn(h); h != nil && h.Pkg != nil && h.Pkg.Pkg.Path() == k.pkg && k.reachesMutation(h, seen) {
				found = true
			}
		}
	})
	return found
}

// ------------------------------------------------------ U5 Delete / Reset

func (k *c15K) checkDeleteReset() {
	p, r := k.p, k.r
	del := p.Func("ttlcache", "Cache.Delete")
	dname := FuncName(p, del)
	var keyParam *ssa.Parameter
	for i, pa := range del.Params {
		if i > 0 {
			if b, ok := pa.Type().Underlying().(*types.Basic); ok && b.Kind() == types.String {
				keyParam = pa
			}
		}
	}
	wrongKey := ""
	ok, n, where := c15Must(p, del, func(in ssa.Instruction) bool {
		cc, isDel := k.mapCall(in, "Del")
		if !isDel {
			if cc2, isGD := k.mapCall(in, "GetAndDel"); isGD {
				_ = cc2
				return true
			}
			return false
		}
		if elems, okE := varargsElems(cc.Args[1]); okE && keyParam != nil {
			// only the certain case is armed: no key at all is passed
			// (a normalised key is fine as long as Set/Get normalise alike)
			if len(elems) == 0 {
				wrongKey = p.Pos(instrPos(in))
				return false
			}
		}
		return true
	}, 0)
	if n == 0 {
		r.Undecide("%s has no return", dname)
	} else {
		msg := "Delete can return (at " + where + ") without deleting the key from Cache.m: a later Get still returns the deleted value"
		if wrongKey != "" {
			msg = "the delete at " + wrongKey + " passes no key at all: a later Get still returns the deleted value"
		}
		r.Check(ok, "C15.U5-delete", dname+" deletes the key", p.Pos(del.Pos()), "every return of Delete is preceded by Map.Del(key) on Cache.m", msg)
	}

	// Reset
	reset := p.Func("ttlcache", "Cache.Reset")
	rname := FuncName(p, reset)
	fam := k.family(reset)
	cbs := k.forEachCallbacks(fam)
	sites, args, variadic := k.deleteSites(fam)
	construct := rname + " removes every key"
	if len(cbs) == 0 || len(sites) == 0 {
		r.Undecide("%s: Reset is not of the form ForEach-collect + Del (anchor moved)", rname)
		return
	}
	bad, undec := "", ""
	pos := p.Pos(reset.Pos())
	for i, site := range sites {
		if !variadic[i] {
			undec = "per-key Delete in Reset"
			continue
		}
		cell := c15CellOf(args[i])
		src, unrec := keySources(args[i], site)
		if unrec != "" || cell == nil {
			undec = "delete at " + p.Pos(site.Pos()) + ": " + unrec
			continue
		}
		if len(src) == 0 {
			bad = "Reset deletes a key slice nothing is appended to: no entry is removed and Get keeps returning values Set before the Reset"
			continue
		}
		for _, s := range src {
			cb := origin(s.At.Parent())
			fe, isCb := cbs[cb]
			if !isCb || len(cb.Params) < 1 {
				undec = "a key is collected outside a ForEach callback"
				continue
			}
			if kv, _ := k.x.strip(s.V, nil); kv != ssa.Value(cb.Params[0]) {
				undec = "the key collected is not the callback's key parameter"
				continue
			}
			// callback: appends on every path, always returns true
			okA, nA, whereA := c15Must(p, cb, func(in ssa.Instruction) bool {
				st, ok := in.(*ssa.Store)
				if !ok {
					return false
				}
				call, ok := st.Val.(*ssa.Call)
				return ok && builtinName(call) == "append" && c15CellOf(call.Call.Args[0]) == cell && ssa.Instruction(call) == s.At
			}, 0)
			if nA > 0 && !okA {
				bad = "the ForEach callback of Reset can return (at " + whereA + ") without collecting the key: that entry survives Reset and Get keeps returning a value Set before the Reset"
				pos = whereA
			}
			for _, ret := range returnsOf(cb) {
				if len(ret.Results) != 1 {
					continue
				}
				f, vac := k.x.newCtx().factsWhen(ret.Results[0], false, nil, 0)
				_ = f
				if !vac {
					bad = "the ForEach callback of Reset can return false (at " + p.Pos(instrPos(ret)) + "), which stops the iteration: the remaining entries survive Reset and Get keeps returning values Set before the Reset"
					pos = p.Pos(instrPos(ret))
				}
			}
			// the delete follows the ForEach
			if fe != nil && fe.Parent() == site.Parent() && !instrDominates(fe, site) {
				bad = "Reset deletes the collected keys on a path that has not run the ForEach: nothing (or not everything) is removed"
			}
		}
	}
	// the delete happens on every path
	okD, nD, whereD := c15Must(p, reset, func(in ssa.Instruction) bool {
		for _, s := range sites {
			if in == ssa.Instruction(s) {
				return true
			}
		}
		return false
	}, 0)
	if nD > 0 && !okD && bad == "" {
		bad = "Reset can return (at " + whereD + ") without deleting the collected keys"
	}
	switch {
	case bad != "":
		r.Violation("C15.U5-reset", construct, pos, bad)
	case undec != "":
		r.Undecide("%s: %s", rname, undec)
	default:
		r.OK("C15.U5-reset", construct, pos, "callback collects every key on every path, never stops the iteration; the collected keys are deleted on every path")
	}
}

// -------------------------------------------------------------- U6 writers

func (k *c15K) checkWriters() {
	p, r := k.p, k.r
	// same key at Get / Set / Delete
	type keySite struct {
		construct, pos string
		raw            bool
	}
	var ks []keySite
	for _, spec := range [][2]string{{"Cache.Get", "Get"}, {"Cache.Set", "Set"}, {"Cache.Delete", "Del"}} {
		fn := p.Func("ttlcache", spec[0])
		allInstrs(fn, func(in ssa.Instruction) {
			cc, ok := k.mapCall(in, spec[1])
			if !ok || len(cc.Args) < 2 {
				return
			}
			keys := []ssa.Value{cc.Args[1]}
			if spec[1] == "Del" {
				if elems, ok := varargsElems(cc.Args[1]); ok {
					keys = elems
				}
			}
			raw := len(keys) > 0
			for _, kv := range keys {
				sv, _ := k.x.strip(kv, nil)
				if pa, ok := sv.(*ssa.Parameter); !ok || pa.Parent() != fn {
					raw = false
				}
			}
			ks = append(ks, keySite{FuncName(p, fn) + " key passed to Map." + spec[1], p.Pos(instrPos(in)), raw})
		})
	}
	nRaw := 0
	for _, s := range ks {
		if s.raw {
			nRaw++
		}
	}
	for _, s := range ks {
		switch {
		case s.raw:
			r.OK("C15.U6-same-key", s.construct, s.pos, "the key parameter is passed unchanged")
		case nRaw == 0:
			r.Undecide("%s: no site passes the key parameter unchanged; consistency of the key transformation is not analysed", s.construct)
		default:
			r.Undecide("%s (at %s) passes something other than the key parameter while other sites pass it unchanged: if the two differ, Get cannot see what Set stored / Delete removes another entry — cannot decide whether the transformation is the identity", s.construct, s.pos)
		}
	}
	allowed := map[string]map[string]bool{ // method -> exported API function whose family may call it
		"Set": {"Cache.Set": true},
		"Del": {"Cache.Delete": true, "Cache.Cleanup": true, "Cache.Reset": true},
	}
	readOnly := map[string]bool{"Get": true, "ForEach": true, "Len": true, "Fillrate": true, "MarshalJSON": true, "Grow": true}
	owner := map[*ssa.Function]string{}
	for _, api := range []string{"Cache.Set", "Cache.Delete", "Cache.Cleanup", "Cache.Reset", "Cache.Get", "Cache.Stop"} {
		if fn := p.FuncOpt("ttlcache", api); fn != nil {
			for _, f := range k.family(fn) {
				if _, dup := owner[f]; !dup || f == origin(fn) {
					owner[f] = api
				}
			}
		}
	}
	for _, fn := range p.FuncsOfPkg("ttlcache") {
		allInstrs(fn, func(in ssa.Instruction) {
			cc, ok := k.mapCall(in, "")
			if !ok {
				return
			}
			_ = cc
			name := calleeObj(in.(ssa.CallInstruction)).Name()
			if readOnly[name] {
				return
			}
			own := owner[origin(fn)]
			construct := fmt.Sprintf("%s calls Map.%s", FuncName(p, fn), name)
			if allowed[name][own] {
				r.OK("C15.U6-writers", construct, p.Pos(instrPos(in)), "audited mutation site (in the family of "+own+")")
				return
			}
			r.Undecide("%s at %s: a mutation of Cache.m outside the audited sites (Set in Set; Del in Delete/Cleanup/Reset) — the rules do not cover it", construct, p.Pos(instrPos(in)))
		})
	}
}
