package main

import (
	"fmt"
	"go/constant"
	"go/token"
	"go/types"
	"os"
	"sort"
	"strings"
	"time"

	"golang.org/x/tools/go/ssa"
)

// C15 — ttlcache: Get never returns an expired, deleted or superseded value;
// Cleanup removes only expired entries; Stop waits for the cleaner.
//
// Anchors are the EXPORTED api (Cache, CacheOptions, NewCache, Get, Set,
// Delete, Cleanup, Reset, Stop, CacheOptions.MaxTTL), the haxmap and time
// libraries. Everything unexported (fields, the entry type, helper methods,
// the goroutine body) is found by ROLE — see c15ResolveRoles — and all rules
// follow calls (x.walk / x.must / strip through helpers).

const c15Hax = "github.com/alphadose/haxmap"

func init() { register("C15", checkC15) }

type c15K struct {
	c     *Ctx
	r     *Report
	p     *Prog
	x     *c15X
	pkg   string
	mapF  string // field of Cache holding the *haxmap.Map
	valF  string // field of the entry type holding the value
	runF  string // chan field of Cache the cleaner closes on exit / Stop waits on ("" = unresolved)
	stpF  string // chan field of Cache Stop closes / the cleaner selects on
	runWG bool   // the join is a sync.WaitGroup field (Done on exit / Wait in Stop) instead of a channel
	optsT string // "pkg.CacheOptions"
	hax   string // package path of the map library ("" = c15Hax; fixtures use a stand-in)
}

func (k *c15K) fld(name string) string { return name }

func (k *c15K) haxPath() string {
	if k.hax != "" {
		return k.hax
	}
	return c15Hax
}

func checkC15(c *Ctx) {
	r := c.R
	r.Explanation = "Decides structural necessary conditions of C15 on package ttlcache. Only the exported API, haxmap and time are name anchors; unexported fields, the entry type, helpers and the goroutine body are resolved by role among the state fields of Cache and of the package's struct types nested in it (the haxmap.Map field, possibly behind an interface boxed once; the type stored in it and its time.Time / value fields; the field with a Now() method, or a func() time.Time field bound once to it; the integer field NewCache fills from CacheOptions.MaxTTL; the done channel or sync.WaitGroup the goroutine started by NewCache signals and Stop waits on; the stop channel Stop closes and that goroutine selects on) and every rule follows calls into same-package helpers, bound methods, closures, func values with known targets (parameters, locals, fields stored once, elements of literal tables run by a counted loop) and interface calls whose implementation is known; flags, tuples and small enums returned by such helpers stay correlated with the caller's branches; a boolean state field stored once stands for the condition stored. (U1) every return of Get that can report ok=true is reached, on every path, only under `entry.exp > clock.Now()` (strict), entry being the result of that call's lookup on the map and Now() a reading of the cache's own clock taken during the call; (U2) every returning path of Set stores into the map; the stored expiry is, on every path, exactly clock.Now().Add(T*time.Second) with Now() read from the cache clock during Set (an expiry taken from an existing entry, or that instant / its clock reading passed through Truncate(d) or Round(d) with d>0, is a violation; UTC/Local/In and Round(0)/Truncate(0) keep the instant); T is ttl only where maxTTL<=0 or ttl<=maxTTL is established and maxTTL only where maxTTL>0 and ttl>=maxTTL is; the stored value is Set's value parameter; NewCache wires CacheOptions.MaxTTL into the cap field; (U3) every key Cleanup hands to a delete is the key parameter of a ForEach callback over the map, committed on every path only under `clock.Now() >(=) exp` of that callback's own entry — the key slice must also START EMPTY in every run (a make with non-zero length hands n empty-string keys to the delete; a scratch buffer returned by one run and passed back un-truncated hands the earlier runs' keys to it again) and must not receive constant keys — (predicates passed as func values are evaluated in Cleanup's context); every delete the background goroutine can perform (through Cleanup or directly through the helpers Cleanup is made of, whatever the func value) satisfies the same expired-only condition, it performs no other mutation of the store, and none of it is started with `go`; (U4) every return of Stop is preceded by a wait for the done signal (receive on the done channel / WaitGroup.Wait); Stop closes the stop channel, not after waiting; the done signal is given only by the goroutine NewCache starts, on every exit, and is that goroutine's LAST action — no call (cleaning, or any other exit work such as a deferred ticker Stop registered before it) follows it, in the body, in the deferred calls or inside the helper that gives it; every wait of that goroutine is a select with a stop-channel case after which the wait is not reached again; the done signal is armed (make(chan) stored / WaitGroup.Add) before the goroutine starts and NewCache always starts it; (U5) Delete always deletes from the map; in Reset's context the ForEach callback commits every key on every feasible path and never stops the iteration, and the keys are deleted; (U6) the map is mutated only by the audited entry points and Get/Set/Delete pass their key unchanged. NOT decided: the history-level claim itself (rests on haxmap's semantics and the documented cleanup/refresh race); concurrency of Set/Get; ttl<=0 (outside the quantifier: NOTE only); overflow of ttl*time.Second; that the periodic cleaner actually runs Cleanup; a stop signal that is not a channel state field (context, polling), key slices filled by index, Unix()-style time comparisons, flags / func fields stored more than once and helper chains deeper than the inlining bound are UNDECIDED."
	r.Assumptions = append(r.Assumptions,
		"haxmap.Map Get/Set/Del/ForEach have their documented map semantics (ForEach stops when the callback returns false)",
		"time.Time.After/Before/Equal/Compare/Sub/Add and clock.Now/Since have their documented meaning",
		"the cap and clock fields of Cache are written only while NewCache runs (checked: a store elsewhere makes the check UNDECIDED)",
		"function-typed arguments handed to library code (ForEach, sync.Once.Do) run during that call",
		"state fields are identified by (struct type, field): two Cache values are not distinguished; a literal table of steps run by a counted loop without break executes every element in order; integer overflow is not modelled in a*k comparisons")

	r.Rule("C15.U1-get-strict", "Get reports a hit only under entry.exp > clock.Now() (strict; entry from this Get's lookup; cache clock read during Get)", 1)
	r.Rule("C15.U2-set-store", "every returning path of Set stores the entry into the map", 1)
	r.Rule("C15.U2-set-expiry", "stored expiry = clock.Now().Add(T*time.Second), Now() from the cache clock read in Set", 1)
	r.Rule("C15.U2-set-cap", "T = ttl only where no cap applies, T = maxTTL only where maxTTL>0 and ttl>=maxTTL", 2)
	r.Rule("C15.U2-set-value", "the entry stored by Set carries Set's value parameter", 1)
	r.Rule("C15.U2-wire-maxttl", "NewCache stores CacheOptions.MaxTTL into the cap field Set reads", 1)
	r.Rule("C15.U3-cleanup-expired-only", "every key deleted by Cleanup was committed under clock.Now() >(=) entry.exp for that key's own entry; the key slice starts empty and receives no constant key", 1)
	r.Rule("C15.U3-periodic-via-cleanup", "every delete the background goroutine can perform (through Cleanup, helpers, method values, func variables) removes expired entries only; it does not otherwise mutate the store", 1)
	r.Rule("C15.U4-stop-waits", "every return of Stop is preceded by a wait for the done signal (receive on the done channel / WaitGroup.Wait)", 1)
	r.Rule("C15.U4-stop-signals", "Stop closes the stop channel, and never after having waited on the done channel", 1)
	r.Rule("C15.U4-cleaner-exit", "the done signal is given only by the goroutine NewCache starts, on every exit, and is its last action (no call follows it)", 1)
	r.Rule("C15.U4-cleaner-synchronous", "inside the cleaner goroutine (and inside Cleanup) nothing that can mutate the map is started with go", 1)
	r.Rule("C15.U4-cleaner-stopcase", "every wait of the cleaner goroutine is a select with a stop-channel case after which the wait is not reached again", 1)
	r.Rule("C15.U4-cleaner-start", "the done signal is armed (make(chan) / WaitGroup.Add) before the cleaner is started and NewCache always starts it", 1)
	r.Rule("C15.U5-delete", "every return of Delete is preceded by a delete from the map", 1)
	r.Rule("C15.U5-reset", "Reset commits every key (callback never stops the iteration, commits on every feasible path) and deletes the committed keys", 1)
	r.Rule("C15.U6-same-key", "Get, Set and Delete address the map with the key exactly as given (a transformed key at only some of them cannot be decided)", 3)
	r.Rule("C15.U6-writers", "the map is mutated only through the audited entry points (Set in Set; Del in Delete/Cleanup/Reset/the cleaner goroutine)", 4)

	k := c15ResolveRoles(c)
	k.checkGet()
	k.checkSet()
	k.checkWire()
	k.checkCleanup()
	k.checkStop()
	k.checkDeleteReset()
	k.checkWriters()

	c15SweepFixture(c)
	c.Fixture("c15ttl", func(fp *Prog, fr *Report) {
		fx := &c15X{p: fp, cfg: c15Cfg{CacheT: fp.ModPath + ".cache", EntryT: fp.ModPath + ".entry", ExpF: "exp",
			ClockF: FieldID{fp.ModPath + ".cache", "clock"}.String(), MaxF: FieldID{fp.ModPath + ".cache", "maxTTL"}.String()},
			noInline: func(f *ssa.Function) bool { return f.Name() == "lookup" || f.Name() == "store" }}
		for _, fn := range fp.Funcs {
			if fn.Parent() != nil || fn.Signature.Recv() == nil {
				continue
			}
			name := strings.ToLower(fn.Name())
			switch {
			case strings.HasSuffix(name, "get"):
				c15GetRule(fp, fr, fx, fn, "hit", func(call *ssa.Call, _ *c15Env) bool {
					obj := calleeObj(call)
					return obj != nil && obj.Name() == "lookup"
				})
			case strings.HasSuffix(name, "set"):
				c15CapRule(fp, fr, fx, fn, "cap", "expiry", "value", "val", func(call *ssa.Call, _ *c15Env) bool {
					obj := calleeObj(call)
					return obj != nil && obj.Name() == "store"
				})
			}
		}
		if os.Getenv("C15_DEBUG") != "" {
			for _, o := range fr.Obs {
				if o.Status == StViolation {
					fmt.Println("FIXTURE:", o.Rule, o.Construct, o.Message, o.Witness)
				}
			}
			for _, u := range fr.Undecided {
				fmt.Println("FIXTURE-UNDECIDED:", u)
			}
		}
	})
}

// c15SweepFixture runs the expired-only delete rule (U3) on the methods of the
// c15sweep fixture whose name ends in Sweep.
func c15SweepFixture(c *Ctx) {
	c.Fixture("c15sweep", func(fp *Prog, fr *Report) {
		cacheT := fp.ModPath + ".cache"
		fk := &c15K{c: c, r: fr, p: fp, pkg: fp.ModPath, hax: fp.ModPath + "/hmap",
			mapF: FieldID{cacheT, "m"}.String(),
			x: &c15X{p: fp, cfg: c15Cfg{CacheT: cacheT, EntryT: fp.ModPath + ".entry", ExpF: "exp",
				ClockF: FieldID{cacheT, "clock"}.String()}}}
		for _, fn := range fp.Funcs {
			if fn.Parent() != nil || fn.Signature.Recv() == nil || !strings.HasSuffix(fn.Name(), "Sweep") {
				continue
			}
			ctx := fk.x.newCtx()
			a := fk.analyseDeletes(ctx, fn, nil)
			fk.expiredOnly(ctx, a, FuncName(fp, fn), c15Sink{
				ok:    func(cn, pos, msg string) { fr.OK("sweep", cn, pos, msg) },
				viol:  func(cn, pos, msg string, wit ...string) { fr.Violation("sweep", cn, pos, msg, wit...) },
				undec: fr.Undecide,
			})
		}
		if os.Getenv("C15_DEBUG") != "" {
			for _, o := range fr.Obs {
				if o.Status == StViolation {
					fmt.Println("FIXTURE:", o.Rule, o.Construct, o.Message)
				}
			}
			for _, u := range fr.Undecided {
				fmt.Println("FIXTURE-UNDECIDED:", u)
			}
		}
	})
}

// ------------------------------------------------------------------ roles

func c15StructOf(n *types.Named) *types.Struct {
	st, _ := n.Underlying().(*types.Struct)
	return st
}

func c15IsTimeTime(t types.Type) bool {
	n, ok := types.Unalias(t).(*types.Named)
	return ok && n.Obj().Pkg() != nil && n.Obj().Pkg().Path() == "time" && n.Obj().Name() == "Time"
}

// c15HasNow: t's method set has Now() time.Time.
func c15HasNow(t types.Type) bool {
	ms := types.NewMethodSet(t)
	for i := 0; i < ms.Len(); i++ {
		f, ok := ms.At(i).Obj().(*types.Func)
		if !ok || f.Name() != "Now" {
			continue
		}
		sig := f.Type().(*types.Signature)
		if sig.Params().Len() == 0 && sig.Results().Len() == 1 && c15IsTimeTime(sig.Results().At(0).Type()) {
			return true
		}
	}
	return false
}

// c15ResolveRoles finds the unexported constructs by their role.
func c15ResolveRoles(c *Ctx) *c15K {
	p := c.P
	pkg := p.ModPath + "/ttlcache"
	cacheN := p.Named("ttlcache", "Cache")
	optsN := p.Named("ttlcache", "CacheOptions")
	c15NeedFields(optsN, "MaxTTL")
	cst := c15StructOf(cacheN)
	if cst == nil {
		undecided("anchor type Cache is no longer a struct")
	}
	k := &c15K{c: c, r: c.R, p: p, pkg: pkg, optsT: pkg + ".CacheOptions"}
	cfg := c15Cfg{CacheT: pkg + ".Cache", Holders: map[string]bool{}, OptsT: pkg + ".CacheOptions", NowFuncs: map[string]bool{}}
	var mapT *types.Named
	var ints, chans, clocks, nowFuncs []string
	var ifaceFields []FieldID
	// the state fields: those of Cache and of the struct types of this package nested in it
	var scan func(holder string, st *types.Struct, depth int)
	scan = func(holder string, st *types.Struct, depth int) {
		for i := 0; i < st.NumFields(); i++ {
			f := st.Field(i)
			ft := types.Unalias(f.Type())
			key := FieldID{holder, f.Name()}.String()
			if n, ok := deref(ft).(*types.Named); ok && n.Obj().Pkg() != nil && n.Obj().Pkg().Path() == c15Hax && n.Obj().Name() == "Map" {
				if mapT != nil {
					undecided("Cache has more than one haxmap.Map field: the store cannot be identified")
				}
				mapT, k.mapF = n, key
				continue
			}
			if n, ok := deref(ft).(*types.Named); ok && n.Obj().Pkg() != nil && n.Obj().Pkg().Path() == pkg && depth < 2 {
				if nst := c15StructOf(n.Origin()); nst != nil && namedKey(n) != cfg.OptsT {
					cfg.Holders[namedKey(n)] = true
					scan(namedKey(n), nst, depth+1)
					continue
				}
			}
			switch u := ft.Underlying().(type) {
			case *types.Chan:
				chans = append(chans, key)
			case *types.Basic:
				if u.Info()&types.IsInteger != 0 {
					ints = append(ints, key)
				}
			case *types.Interface:
				if c15HasNow(ft) {
					clocks = append(clocks, key)
				} else {
					ifaceFields = append(ifaceFields, FieldID{holder, f.Name()})
				}
			case *types.Signature:
				if u.Params().Len() == 0 && u.Results().Len() == 1 && c15IsTimeTime(u.Results().At(0).Type()) {
					nowFuncs = append(nowFuncs, key)
				}
			default:
				if _, isPtr := ft.(*types.Pointer); isPtr && c15HasNow(ft) {
					clocks = append(clocks, key)
				}
			}
		}
	}
	scan(cfg.CacheT, cst, 0)
	if mapT == nil {
		// the map behind an interface seam: a state field of interface type
		// whose only store boxes a *haxmap.Map
		tmp := &c15X{p: p, cfg: cfg}
		for _, id := range ifaceFields {
			sts := tmp.fieldStores(id)
			if len(sts) != 1 {
				continue
			}
			var boxed types.Type
			switch v := sts[0].Val.(type) {
			case *ssa.MakeInterface:
				boxed = v.X.Type()
			case *ssa.Phi:
				for _, e := range v.Edges {
					if mi, ok := e.(*ssa.MakeInterface); ok {
						boxed = mi.X.Type()
					}
				}
			}
			if boxed == nil {
				continue
			}
			if n, ok := deref(boxed).(*types.Named); ok && n.Obj().Pkg() != nil && n.Obj().Pkg().Path() == c15Hax && n.Obj().Name() == "Map" {
				if mapT != nil {
					undecided("Cache has more than one field holding a haxmap.Map: the store cannot be identified")
				}
				mapT, k.mapF = n, id.String()
			}
		}
	}
	if mapT == nil {
		undecided("Cache no longer has a *haxmap.Map field, directly or behind an interface with a single boxed map (the store anchor moved)")
	}
	if len(clocks) != 1 {
		undecided("Cache has %d fields with a Now() time.Time method; the cache clock cannot be identified", len(clocks))
	}
	cfg.ClockF = clocks[0]
	// the entry type: the value type argument of the map
	if mapT.TypeArgs() == nil || mapT.TypeArgs().Len() != 2 {
		undecided("the map field of Cache is not an instantiated haxmap.Map[K,V]")
	}
	en, ok := deref(mapT.TypeArgs().At(1)).(*types.Named)
	if !ok || en.Obj().Pkg() == nil || en.Obj().Pkg().Path() != pkg {
		undecided("the values stored in the map are not of a struct type of package ttlcache")
	}
	cfg.EntryT = namedKey(en)
	est := c15StructOf(en.Origin())
	if est == nil {
		undecided("the entry type %s is not a struct", en.Obj().Name())
	}
	var times, others []string
	for i := 0; i < est.NumFields(); i++ {
		if c15IsTimeTime(est.Field(i).Type()) {
			times = append(times, est.Field(i).Name())
		} else {
			others = append(others, est.Field(i).Name())
		}
	}
	if len(times) != 1 {
		undecided("the entry type has %d time.Time fields; the expiry cannot be identified", len(times))
	}
	cfg.ExpF = times[0]
	for i := 0; i < est.NumFields(); i++ {
		if _, isTP := est.Field(i).Type().(*types.TypeParam); isTP {
			k.valF = est.Field(i).Name()
		}
	}
	if k.valF == "" && len(others) == 1 {
		k.valF = others[0]
	}
	if k.valF == "" {
		undecided("the value field of the entry type cannot be identified")
	}
	k.x = &c15X{p: p, cfg: cfg}
	k.resolveNowFuncs(nowFuncs)
	// the cap field: the integer field NewCache fills from CacheOptions.MaxTTL;
	// with a single integer field that one (so that a dropped wiring is seen as such)
	k.x.cfg.MaxF = k.wiredFrom(ints)
	if k.x.cfg.MaxF == "" {
		if len(ints) == 1 {
			k.x.cfg.MaxF = ints[0]
		} else if len(ints) > 1 {
			for _, n := range ints {
				if strings.Contains(strings.ToLower(n), "ttl") { // name as a hint only
					k.x.cfg.MaxF = n
				}
			}
		}
	}
	k.resolveChans(chans)
	return k
}

// resolveNowFuncs: a func() time.Time state field whose only store binds the
// Now method of a clock-typed value reads the cache clock; one bound to
// time.Now reads the wall clock.
func (k *c15K) resolveNowFuncs(keys []string) {
	want := map[string]bool{}
	for _, key := range keys {
		want[key] = true
	}
	k.x.fieldStores(FieldID{}) // build the index
	for id, sts := range k.x.stores {
		key := k.x.cfg.hkey(id)
		if !want[key] || len(sts) != 1 {
			continue
		}
		switch v := sts[0].Val.(type) {
		case *ssa.MakeClosure:
			f, ok := v.Fn.(*ssa.Function)
			if ok && strings.HasPrefix(f.Synthetic, "bound method wrapper") && len(v.Bindings) == 1 {
				if obj, ok := f.Object().(*types.Func); ok && obj.Name() == "Now" && c15HasNow(v.Bindings[0].Type()) {
					k.x.cfg.NowFuncs[key] = true
				}
			}
		case *ssa.Function:
			if obj, ok := v.Object().(*types.Func); ok && obj.Pkg() != nil && obj.Pkg().Path() == "time" && obj.Name() == "Now" {
				k.x.cfg.NowFuncs[key] = false
			}
		}
	}
}

// wiredFrom: the integer field of Cache that (in NewCache's walk) receives a
// value read from CacheOptions.MaxTTL.
func (k *c15K) wiredFrom(ints []string) string {
	nc := k.p.Func("ttlcache", "NewCache")
	isInt := map[string]bool{}
	for _, n := range ints {
		isInt[n] = true
	}
	found := ""
	ctx := k.x.newCtx()
	k.x.walk(ctx, nc, nil, nil, func(in ssa.Instruction, env *c15Env) {
		st, ok := in.(*ssa.Store)
		if !ok {
			return
		}
		fa, ok := st.Addr.(*ssa.FieldAddr)
		if !ok {
			return
		}
		id := fieldIDOfAddr(fa)
		if !isInt[k.x.cfg.hkey(id)] {
			return
		}
		for _, cs := range ctx.cases(st.Val, env, c15Set{}, 0) {
			if _, _, rid, ok := k.x.fieldRead(cs.V, cs.Env); ok && rid.Type == k.optsT && rid.Field == "MaxTTL" {
				found = k.x.cfg.hkey(id)
			}
		}
	}, nil)
	return found
}

// chanField: v (in env) is a read of a chan field of Cache; returns its name.
func (k *c15K) chanField(v ssa.Value, env *c15Env) string {
	if _, _, id, ok := k.x.fieldRead(v, env); ok && k.x.cfg.hkey(id) != "" {
		return k.x.cfg.hkey(id)
	}
	// the channel itself, made locally and also stored into a field of Cache
	sv, _ := k.x.strip(v, env)
	for i := 0; i < 4; i++ {
		if cv, ok := sv.(*ssa.ChangeType); ok {
			sv = cv.X
			continue
		}
		break
	}
	if mk, ok := sv.(*ssa.MakeChan); ok {
		// any store, in the function that makes it, of a value that is this very channel into a state field
		found := ""
		allInstrs(mk.Parent(), func(in ssa.Instruction) {
			st, isSt := in.(*ssa.Store)
			if !isSt {
				return
			}
			fa, isFA := st.Addr.(*ssa.FieldAddr)
			if !isFA || k.x.cfg.hkey(fieldIDOfAddr(fa)) == "" {
				return
			}
			w, _ := k.x.strip(st.Val, nil)
			for i := 0; i < 4; i++ {
				if cv, isCT := w.(*ssa.ChangeType); isCT {
					w = cv.X
					continue
				}
				break
			}
			if w == ssa.Value(mk) {
				found = k.x.cfg.hkey(fieldIDOfAddr(fa))
			}
		})
		return found
	}
	return ""
}

func (k *c15K) recvField(in ssa.Instruction, env *c15Env) string {
	if u, ok := in.(*ssa.UnOp); ok && u.Op == token.ARROW {
		return k.chanField(u.X, env)
	}
	return ""
}

func (k *c15K) closeField(in ssa.Instruction, env *c15Env) string {
	ci, ok := in.(ssa.CallInstruction)
	if !ok || builtinName(ci) != "close" || len(ci.Common().Args) != 1 {
		return ""
	}
	return k.chanField(ci.Common().Args[0], env)
}

// wgOp: in is (*sync.WaitGroup).<name> on a WaitGroup field of Cache; returns the field.
func (k *c15K) wgOp(in ssa.Instruction, name string) string {
	ci, ok := in.(ssa.CallInstruction)
	if !ok || !callIs(ci, "sync", "WaitGroup", name) || len(ci.Common().Args) == 0 {
		return ""
	}
	v := ci.Common().Args[0]
	if fa, ok := v.(*ssa.FieldAddr); ok {
		if id := fieldIDOfAddr(fa); k.x.cfg.hkey(id) != "" {
			return k.x.cfg.hkey(id)
		}
	}
	return ""
}

// joinWait / joinSignal / joinArm: the three operations of the join between
// Stop and the cleaner: wait for it (receive / Wait), signal the exit (close /
// Done), arm it before the goroutine starts (make(chan) / Add).
func (k *c15K) joinWait(in ssa.Instruction, env *c15Env) bool {
	if k.runWG {
		return k.wgOp(in, "Wait") == k.runF
	}
	return k.recvField(in, env) == k.runF
}

func (k *c15K) joinSignal(in ssa.Instruction, env *c15Env) bool {
	if k.runWG {
		return k.wgOp(in, "Done") == k.runF
	}
	return k.closeField(in, env) == k.runF
}

func (k *c15K) joinArm(in ssa.Instruction, env *c15Env) bool {
	if k.runWG {
		return k.wgOp(in, "Add") == k.runF
	}
	st, ok := in.(*ssa.Store)
	if !ok {
		return false
	}
	if fa, ok := st.Addr.(*ssa.FieldAddr); ok {
		if id := fieldIDOfAddr(fa); k.x.cfg.hkey(id) == k.runF {
			sv, _ := k.x.strip(st.Val, env)
			_, isMk := sv.(*ssa.MakeChan)
			return isMk
		}
	}
	return false
}

// goSites: the go statements reached from NewCache, with the activation of
// the function they start.
type c15Go struct {
	Site c15Site
	Tg   c15Target
	Env  *c15Env // activation of the goroutine body
}

func (k *c15K) goSites() []c15Go {
	nc := k.p.Func("ttlcache", "NewCache")
	var out []c15Go
	ctx := k.x.newCtx()
	k.x.walk(ctx, nc, nil, nil, func(in ssa.Instruction, env *c15Env) {
		g, ok := in.(*ssa.Go)
		if !ok || env != nil && k.underGo(env) {
			return
		}
		ts, _ := k.x.callTargets(&g.Call, env)
		for _, tg := range ts {
			if k.x.inlinable(tg.Fn) {
				ge := k.x.activate(tg, g.Call.Args, env, in, "go")
				ge.pre = nil
				out = append(out, c15Go{c15Site{in, env}, tg, ge})
			}
		}
	}, nil)
	return out
}

func (k *c15K) underGo(env *c15Env) bool {
	for e := env; e != nil; e = e.up {
		if e.how == "go" {
			return true
		}
	}
	return false
}

// resolveChans assigns the done / stop roles to the chan fields of Cache:
// done = closed by the goroutine NewCache starts and received by Stop;
// stop = received by that goroutine and closed by Stop. Names are a tie-break only.
func (k *c15K) resolveChans(chans []string) {
	if len(chans) == 0 {
		return
	}
	done, stop := map[string]int{}, map[string]int{}
	wgDone, wgWait := map[string]bool{}, map[string]bool{}
	ctx := k.x.newCtx()
	defer func() {
		// no channel plays the done role: a WaitGroup field the goroutine Done()s and Stop Wait()s on does
		if k.runF != "" && (done[k.runF] != 0 || len(wgDone) == 0) {
			return
		}
		for f := range wgDone {
			if wgWait[f] {
				if k.stpF == "" || k.stpF == k.runF {
					best := ""
					for _, c := range chans {
						if stop[c] != 0 {
							best = c
						}
					}
					k.stpF = best
				}
				k.runF, k.runWG = f, true
			}
		}
	}()
	for _, g := range k.goSites() {
		k.x.walk(ctx, g.Tg.Fn, g.Env, nil, func(in ssa.Instruction, env *c15Env) {
			if f := k.wgOp(in, "Done"); f != "" {
				wgDone[f] = true
			}
			if f := k.closeField(in, env); f != "" {
				done[f] |= 1
			}
			if f := k.recvField(in, env); f != "" {
				stop[f] |= 1
			}
			if sel, ok := in.(*ssa.Select); ok {
				for _, s := range sel.States {
					if s.Dir == types.RecvOnly {
						if f := k.chanField(s.Chan, env); f != "" {
							stop[f] |= 1
						}
					}
				}
			}
		}, nil)
	}
	if stopFn := k.p.FuncOpt("ttlcache", "Cache.Stop"); stopFn != nil {
		k.x.walk(ctx, stopFn, nil, nil, func(in ssa.Instruction, env *c15Env) {
			if f := k.wgOp(in, "Wait"); f != "" {
				wgWait[f] = true
			}
			if f := k.closeField(in, env); f != "" {
				stop[f] |= 2
			}
			if f := k.recvField(in, env); f != "" {
				done[f] |= 2
			}
			if sel, ok := in.(*ssa.Select); ok {
				for _, s := range sel.States {
					if s.Dir == types.RecvOnly {
						if f := k.chanField(s.Chan, env); f != "" {
							done[f] |= 2
						}
					}
				}
			}
		}, nil)
	}
	score := func(m map[string]int, f string) int { return m[f]&1 + m[f]>>1 }
	pick := func(mine, other map[string]int, hint string) string {
		best, bestN, tie := "", -1, false
		for _, f := range chans {
			n := score(mine, f) - score(other, f)
			if n > bestN {
				best, bestN, tie = f, n, false
			} else if n == bestN {
				tie = true
			}
		}
		if bestN <= 0 || tie {
			for _, f := range chans { // the name is only a tie-break
				if strings.Contains(strings.ToLower(f), hint) {
					return f
				}
			}
			if bestN <= 0 || tie {
				return ""
			}
		}
		return best
	}
	sort.Strings(chans)
	k.runF = pick(done, stop, "running")
	k.stpF = pick(stop, done, "stop")
	if k.runF == k.stpF {
		k.runF, k.stpF = "", ""
	}
	if len(chans) == 2 {
		// with exactly two channel fields one role determines the other
		other := func(f string) string {
			if chans[0] == f {
				return chans[1]
			}
			return chans[0]
		}
		if k.runF == "" && k.stpF != "" {
			k.runF = other(k.stpF)
		} else if k.stpF == "" && k.runF != "" {
			k.stpF = other(k.runF)
		}
	}
}

func c15NeedFields(n *types.Named, names ...string) {
	st, ok := n.Underlying().(*types.Struct)
	if !ok {
		undecided("anchor type %s is no longer a struct", n.Obj().Name())
	}
	for _, want := range names {
		found := false
		for i := 0; i < st.NumFields(); i++ {
			if st.Field(i).Name() == want {
				found = true
			}
		}
		if !found {
			undecided("anchor field %s.%s no longer resolves", n.Obj().Name(), want)
		}
	}
}

// mapMethod: in (in env) calls a method of haxmap.Map on the map loaded from
// the store field of the cache — directly, or through a method value
// (`range c.m.ForEach`, `del := c.m.Del`) whose target is known. Returns the
// method name and a call descriptor whose Args[0] is the receiver.
func (k *c15K) mapMethod(in ssa.Instruction, env *c15Env) (string, *ssa.CallCommon, bool) {
	ci, ok := in.(ssa.CallInstruction)
	if !ok {
		return "", nil, false
	}
	cc := ci.Common()
	obj := calleeObj(ci)
	args := cc.Args
	recvEnv := env
	if cc.IsInvoke() {
		// an interface seam in front of the map: the method of the boxed map
		tg, ok := k.x.invokeTarget(cc, env)
		if !ok || tg.Fn == nil {
			return "", nil, false
		}
		o, isF := tg.Fn.Object().(*types.Func)
		if !isF || o.Pkg() == nil || o.Pkg().Path() != k.haxPath() {
			return "", nil, false
		}
		if _, _, id, ok := k.x.fieldRead(cc.Value, env); ok && k.x.cfg.hkey(id) == k.mapF {
			return o.Name(), &ssa.CallCommon{Value: cc.Value, Args: append([]ssa.Value{cc.Value}, cc.Args...)}, true
		}
		return "", nil, false
	}
	if _, isFn := cc.Value.(*ssa.Function); !isFn && !cc.IsInvoke() {
		// a func value: a bound method of the map
		if _, isB := cc.Value.(*ssa.Builtin); isB {
			return "", nil, false
		}
		obj = nil
		ts, unk := k.x.funcValues(cc.Value, env, 0)
		if unk || len(ts) != 1 || ts[0].Fn == nil {
			return "", nil, false
		}
		if len(ts[0].Bound) != 1 {
			// a plain closure / function called through a value: not a map method
			return "", nil, false
		}
		o, isF := ts[0].Fn.Object().(*types.Func)
		if !isF {
			return "", nil, false
		}
		obj = o
		args = append([]ssa.Value{ts[0].Bound[0]}, cc.Args...)
		recvEnv = ts[0].BEnv
	}
	if obj == nil || obj.Pkg() == nil || obj.Pkg().Path() != k.haxPath() || len(args) == 0 {
		return "", nil, false
	}
	if sig, isSig := obj.Type().(*types.Signature); !isSig || sig.Recv() == nil {
		return "", nil, false
	}
	if _, _, id, ok := k.x.fieldRead(args[0], recvEnv); ok && k.x.cfg.hkey(id) == k.mapF {
		if len(args) != len(cc.Args) {
			return obj.Name(), &ssa.CallCommon{Value: cc.Value, Args: args}, true
		}
		return obj.Name(), cc, true
	}
	return "", nil, false
}

// mapCallE: in (in env) is haxmap.Map.<name> on the store ("" = any method).
func (k *c15K) mapCallE(in ssa.Instruction, env *c15Env, name string) (*ssa.CallCommon, bool) {
	n, cc, ok := k.mapMethod(in, env)
	if !ok || (name != "" && n != name) {
		return nil, false
	}
	return cc, true
}

func (k *c15K) mapCall(in ssa.Instruction, name string) (*ssa.CallCommon, bool) {
	return k.mapCallE(in, nil, name)
}

func c15ReadOnlyMapMethod(name string) bool {
	switch name {
	case "Get", "ForEach", "Len", "Fillrate", "Grow", "MarshalJSON":
		return true
	}
	return false
}

// visited: the functions an API entry point can execute (following calls).
func (k *c15K) visited(fn *ssa.Function) map[*ssa.Function]bool {
	out := map[*ssa.Function]bool{origin(fn): true}
	k.x.walk(k.x.newCtx(), fn, nil, nil, func(in ssa.Instruction, env *c15Env) {
		out[origin(in.Parent())] = true
	}, nil)
	return out
}

func (k *c15K) family(fn *ssa.Function) []*ssa.Function {
	var out []*ssa.Function
	for f := range k.visited(fn) {
		out = append(out, f)
	}
	sort.Slice(out, func(i, j int) bool { return FuncName(k.p, out[i]) < FuncName(k.p, out[j]) })
	return out
}

// mustCheck reports the verdict of a must-pass-through obligation: OK, or —
// when some return is reached without the event — VIOLATION if every call on
// the way was followed, UNDECIDED otherwise.
func (k *c15K) mustCheck(fn *ssa.Function, env *c15Env, ev func(ssa.Instruction, *c15Env) bool, rule, construct, okMsg string, badMsg func(where string) string) {
	k.x.mustUnsure = false
	ok, n, where := k.x.must(fn, env, ev, 0)
	switch {
	case n == 0:
		k.r.Undecide("%s: %s has no return", construct, FuncName(k.p, fn))
	case ok:
		k.r.OK(rule, construct, k.p.Pos(fn.Pos()), okMsg)
	case k.x.mustUnsure:
		k.r.Undecide("%s: a return (at %s) is reached without the required step being visible, but a call on the way could not be followed", construct, k.p.Pos(where))
	default:
		k.r.Violation(rule, construct, k.p.Pos(fn.Pos()), badMsg(k.p.Pos(where)))
	}
}

func liveBlock(b *ssa.BasicBlock) bool { return b.Index == 0 || len(b.Preds) > 0 }

func returnsOf(fn *ssa.Function) []*ssa.Return {
	var out []*ssa.Return
	for _, b := range fn.Blocks {
		if !liveBlock(b) || len(b.Instrs) == 0 {
			continue
		}
		if ret, ok := b.Instrs[len(b.Instrs)-1].(*ssa.Return); ok {
			out = append(out, ret)
		}
	}
	return out
}

// ------------------------------------------------------------------ U1 Get

type c15Hit struct {
	Ret   *ssa.Return
	Facts c15Set
}

// c15Hits enumerates the returns of fn whose result #okIdx can be true, with
// the facts that hold when it is; results forwarded from a helper with several
// returns are followed into the helper (single-return helpers are looked
// through by strip).
func c15Hits(x *c15X, ctx *c15Ctx, fn *ssa.Function, env *c15Env, okIdx int, pre c15Set, depth int) []c15Hit {
	var out []c15Hit
	for _, ret := range returnsOf(fn) {
		if okIdx >= len(ret.Results) {
			continue
		}
		rv := ret.Results[okIdx]
		sv, senv := x.strip(rv, env)
		for _, ps := range ctx.paths(ret.Block(), env) {
			facts := pre.union(ps)
			if facts.contradictory() {
				continue
			}
			if ex, ok := sv.(*ssa.Extract); ok && depth < 3 {
				if call, ok := ex.Tuple.(*ssa.Call); ok {
					ts, unk := x.callTargets(&call.Call, senv)
					if !unk && len(ts) == 1 && x.inlinable(ts[0].Fn) && !x.onStack(senv, ts[0].Fn) {
						nenv := x.activate(ts[0], call.Call.Args, senv, call, "call")
						// the forwarded result is known on this path (e.g. already tested false)
						f0, _ := ctx.factsWhen(rv, true, env, 0)
						if pre0 := facts.union(f0); !pre0.contradictory() {
							out = append(out, c15Hits(x, ctx, ts[0].Fn, nenv, ex.Index, pre0, depth+1)...)
						}
						continue
					}
				}
			}
			f, vac := ctx.factsWhen(rv, true, env, 0)
			if vac {
				continue
			}
			facts = facts.union(f).saturate()
			if facts.contradictory() {
				continue
			}
			out = append(out, c15Hit{ret, facts})
		}
	}
	return out
}

func lastBoolResult(fn *ssa.Function) int {
	res := fn.Signature.Results()
	for i := res.Len() - 1; i >= 0; i-- {
		if b, ok := res.At(i).Type().Underlying().(*types.Basic); ok && b.Info()&types.IsBoolean != 0 {
			return i
		}
	}
	return -1
}

func (k *c15K) checkGet() {
	get := k.p.Func("ttlcache", "Cache.Get")
	c15GetRule(k.p, k.r, k.x, get, "C15.U1-get-strict", func(call *ssa.Call, env *c15Env) bool {
		_, ok := k.mapCallE(call, env, "Get")
		return ok
	})
}

// c15GetRule is U1 for one getter: isLookup recognises the lookup call whose
// result #0 is the entry.
func c15GetRule(p *Prog, r *Report, x *c15X, get *ssa.Function, rule string, isLookup func(*ssa.Call, *c15Env) bool) {
	fname := FuncName(p, get)
	okIdx := lastBoolResult(get)
	if okIdx < 0 {
		r.Undecide("%s no longer has a boolean 'found' result", fname)
		return
	}
	ctx := x.newCtx()
	famSet := map[*ssa.Function]bool{origin(get): true}
	nLookup := 0
	lookups := map[*ssa.Call]bool{}
	unresolved := ""
	x.walk(ctx, get, nil, nil, func(in ssa.Instruction, env *c15Env) {
		famSet[origin(in.Parent())] = true
		if call, ok := in.(*ssa.Call); ok && isLookup(call, env) {
			nLookup++
			lookups[call] = true
		}
	}, func(in ssa.Instruction, env *c15Env) { unresolved = p.Pos(instrPos(in)) })
	var fam []*ssa.Function
	for f := range famSet {
		fam = append(fam, f)
	}
	sort.Slice(fam, func(i, j int) bool { return FuncName(p, fam[i]) < FuncName(p, fam[j]) })
	if nLookup == 0 {
		r.Undecide("%s: no lookup on the cache's map found in it or in the functions it calls (anchor moved)", fname)
		return
	}
	hits := c15Hits(x, ctx, get, nil, okIdx, c15Set{}, 0)
	if len(hits) == 0 {
		r.Undecide("%s: no return that can report a hit was found", fname)
		return
	}
	fromLookup := func(t c15Term) bool {
		if t.Kind != c15Exp || t.Entry == nil {
			return false
		}
		ex, ok := t.Entry.(*ssa.Extract)
		if !ok || ex.Index != 0 {
			return false
		}
		call, ok := ex.Tuple.(*ssa.Call)
		return ok && lookups[call]
	}
	var order []*ssa.Return
	byRet := map[*ssa.Return][]c15Hit{}
	for _, h := range hits {
		if _, ok := byRet[h.Ret]; !ok {
			order = append(order, h.Ret)
		}
		byRet[h.Ret] = append(byRet[h.Ret], h)
	}
	decodable, whyNot := c15ExpDecodable(fam, x.cfg)
	for i, ret := range order {
		construct := fname + " hit-return"
		if len(order) > 1 {
			construct = fmt.Sprintf("%s hit-return #%d", fname, i+1)
		}
		pos := p.Pos(instrPos(ret))
		var failing *c15Hit
		for j := range byRet[ret] {
			h := &byRet[ret][j]
			strict := h.Facts.has(func(f c15Fact) bool {
				return f.Op == ">" && fromLookup(f.X) && f.Y.Kind == c15Now && f.Y.Off >= 0
			})
			if !strict {
				failing = h
				break
			}
		}
		if failing == nil {
			r.OK(rule, construct, pos, "ok=true only under entry.exp > clock.Now() (strict, cache clock read during the call, entry from this call's lookup)")
			continue
		}
		h := failing
		known := strings.Join(h.Facts.list(), ", ")
		if known == "" {
			known = "nothing"
		}
		if len(ctx.Opaque) > 0 || !decodable || unresolved != "" {
			why := strings.Join(ctx.Opaque, "; ") + " " + whyNot
			if unresolved != "" {
				why += " a call through an unresolved func value at " + unresolved
			}
			r.Undecide("%s: the expiry is used in a way the decoder does not understand (%s); facts on the undecided path: %s", construct, strings.TrimSpace(why), known)
			continue
		}
		var rel []c15Fact
		for _, f := range h.Facts {
			if f.X.Kind == c15Exp || f.Y.Kind == c15Exp {
				rel = append(rel, f)
			}
		}
		if len(rel) == 0 {
			r.Violation(rule, construct, pos, "Get can report ok=true on a path where the entry's expiry has not been compared with the clock (known on that path: "+known+"): an entry whose TTL has elapsed, and that Cleanup has not removed yet, is returned as a hit", h.Facts.list()...)
			continue
		}
		sort.Slice(rel, func(a, b int) bool { return rel[a].key() < rel[b].key() })
		msg, undec := "", false
		for _, f := range rel {
			undec = false
			e, o, expLeft := f.X, f.Y, true
			if f.Y.Kind == c15Exp {
				e, o, expLeft = f.Y, f.X, false
			}
			switch {
			case !fromLookup(e):
				undec = true
				msg = "the expiry compared could not be traced to the entry looked up in this call"
			case o.Kind == c15WallNow:
				msg = "the expiry is compared with time.Now() instead of the cache's clock (Set stamps the expiry from the cache clock): expired entries are hits whenever the two clocks differ"
			case o.Kind == c15Now && o.Off < 0:
				msg = fmt.Sprintf("the expiry is compared with clock.Now() shifted back by %d ns: entries stay hits after their TTL has elapsed", -o.Off)
			case o.Kind == c15Now && f.Op == ">=" && expLeft:
				msg = "the hit condition is entry.exp >= clock.Now() (non-strict): at exactly TTL seconds after Set the entry is still returned, but a hit requires strictly less than the TTL to have elapsed"
			case o.Kind == c15Now:
				msg = "the hit condition relates the expiry and the clock as `" + f.String() + "`, which does not imply entry.exp > clock.Now(): expired entries can be returned"
			default:
				undec = true
				msg = "the expiry is compared with " + o.String() + ", which is not a reading of the cache clock taken in this call"
			}
			if !undec {
				break
			}
		}
		if undec {
			r.Undecide("%s: %s (cannot decide)", construct, msg)
			continue
		}
		r.Violation(rule, construct, pos, msg, h.Facts.list()...)
	}
}

// ------------------------------------------------------------------ U2 Set

func (k *c15K) isStoreCall(call *ssa.Call, env *c15Env) bool {
	_, ok := k.mapCallE(call, env, "Set")
	return ok
}

func (k *c15K) checkSet() {
	set := k.p.Func("ttlcache", "Cache.Set")
	fname := FuncName(k.p, set)
	k.mustCheck(set, nil, func(in ssa.Instruction, env *c15Env) bool {
		call, isCall := in.(*ssa.Call)
		return isCall && k.isStoreCall(call, env)
	}, "C15.U2-set-store", fname+" stores on every path",
		"every returning path of Set stores into the map (directly or through the helpers it calls)",
		func(where string) string {
			return "Set can return (at " + where + ") without storing the new entry: a later Get returns the superseded value (or a miss) instead of the most recently Set one"
		})
	sites := c15CapRule(k.p, k.r, k.x, set, "C15.U2-set-cap", "C15.U2-set-expiry", "C15.U2-set-value", k.valF, k.isStoreCall)

	// ttl <= 0 (outside the statement's quantifier): NOTE only
	ctx := k.x.newCtx()
	if ttl := c15TTLParam(set); ttl != nil {
		for _, s := range sites {
			guarded := true
			for _, f := range ctx.at(s.In.Block(), s.Env) {
				if !f.positive(isKey(k.x.term(ttl, nil).Key)) {
					guarded = false
				}
			}
			if !guarded {
				k.r.Note("C15: %s stores an entry without a ttl > 0 test on every path (at %s) — not armed: ttl<=0 is outside the property's quantifier (ttl 1..N) and such an entry is never a hit", fname, k.p.Pos(instrPos(s.In)))
			}
		}
	}
}

func c15TTLParam(fn *ssa.Function) *ssa.Parameter {
	var out *ssa.Parameter
	n := 0
	for i, pa := range fn.Params {
		if i == 0 && fn.Signature.Recv() != nil {
			continue
		}
		if b, ok := pa.Type().(*types.Basic); ok && b.Kind() == types.Int64 {
			out = pa
			n++
		}
	}
	if n != 1 {
		return nil
	}
	return out
}

// compositeField: v is the value of a struct built field-by-field in a local
// (composite literal / var + field assignments); returns the value stored to
// field name and the number of stores to it. plain=false if v is not such a
// composite.
func compositeField(v ssa.Value, name string) (val ssa.Value, n int, plain bool) {
	u, ok := v.(*ssa.UnOp)
	if !ok || u.Op != token.MUL {
		return nil, 0, false
	}
	a, ok := u.X.(*ssa.Alloc)
	if !ok {
		return nil, 0, false
	}
	for _, r := range refs(a) {
		switch t := r.(type) {
		case *ssa.FieldAddr:
			if fieldIDOfAddr(t).Field != name {
				continue
			}
			for _, rr := range refs(t) {
				if st, ok := rr.(*ssa.Store); ok && st.Addr == t {
					val = st.Val
					n++
				}
			}
		case *ssa.Store:
			if t.Addr == a {
				return nil, 0, false // whole-value store: not a plain composite
			}
		case *ssa.UnOp, *ssa.DebugRef:
		default:
			return nil, 0, false // address escapes
		}
	}
	return val, n, true
}

const c15Second = int64(1000000000)

// timePeel looks through time.Time wrappers around v: those that keep the
// instant (UTC, Local, In, Round(0), Truncate(0)) silently; Truncate(d) /
// Round(d) with d != 0 are reported in rounded ("Truncate(1s)").
func (x *c15X) timePeel(v ssa.Value, env *c15Env) (ssa.Value, *c15Env, string) {
	rounded := ""
	for i := 0; i < 6; i++ {
		name, args, aenv, ok := x.timeMethod(v, env)
		if !ok || len(args) == 0 {
			break
		}
		switch name {
		case "UTC", "Local", "In":
			v, env = args[0], aenv
			continue
		case "Truncate", "Round":
			if len(args) != 2 {
				return v, env, rounded
			}
			dv, _ := x.strip(args[1], aenv)
			if kc, isK := dv.(*ssa.Const); isK && kc.Value != nil && kc.Value.Kind() == constant.Int {
				if d, _ := constant.Int64Val(kc.Value); d <= 0 {
					v, env = args[0], aenv // only strips the monotonic reading
					continue
				} else if rounded == "" {
					rounded = fmt.Sprintf("%s(%s)", name, time.Duration(d))
				}
			} else if rounded == "" {
				rounded = name + "(a variable duration)"
			}
			v, env = args[0], aenv
			continue
		}
		break
	}
	return v, env, rounded
}

// c15CapRule is U2 (expiry formula + cap + value) for one setter; the store
// sites are looked for in the setter and in everything it calls. Returns the
// store sites.
func c15CapRule(p *Prog, r *Report, x *c15X, set *ssa.Function, capRule, expRule, valRule, valF string, isStore func(*ssa.Call, *c15Env) bool) []c15Site {
	fname := FuncName(p, set)
	ttl := c15TTLParam(set)
	if ttl == nil {
		r.Undecide("%s no longer has exactly one int64 (ttl) parameter", fname)
		return nil
	}
	ttlKey := x.term(ttl, nil).Key
	isTTL, isMax := isKey(ttlKey), isKind(c15MaxTTL)
	ctx := x.newCtx()
	var stores []c15Site
	unresolved := ""
	x.walk(ctx, set, nil, nil, func(in ssa.Instruction, env *c15Env) {
		if call, ok := in.(*ssa.Call); ok && isStore(call, env) {
			stores = append(stores, c15Site{in, env})
		} else if ok {
			// a library call named like a store whose receiver could not be tied to the cache
			if obj := calleeObj(call); obj != nil && !x.p.InModule(staticCallee(call)) && (obj.Name() == "Set" || obj.Name() == "Store" || obj.Name() == "Swap") && obj.Type().(*types.Signature).Recv() != nil {
				unresolved = p.Pos(instrPos(in))
			}
		}
	}, func(in ssa.Instruction, env *c15Env) { unresolved = p.Pos(instrPos(in)) })
	if len(stores) == 0 {
		if unresolved != "" {
			r.Undecide("%s: no store into the map found, and a call through a func value at %s could not be followed", fname, unresolved)
		} else {
			r.Violation(expRule, fname+" expiry", p.Pos(set.Pos()), "Set no longer stores an entry into the cache's map (neither directly nor in any function it calls)")
		}
		return nil
	}
	for si, site := range stores {
		st := site.In.(*ssa.Call)
		sfx := ""
		if len(stores) > 1 {
			sfx = fmt.Sprintf(" (store #%d)", si+1)
		}
		pos := p.Pos(st.Pos())
		entry := st.Call.Args[len(st.Call.Args)-1]
		expOK, expBad, expUndec := 0, "", ""
		valOK, valBad, valUndec := 0, "", ""
		var leaves []c15Case
		for _, base := range ctx.at(st.Block(), site.Env) {
			for _, en := range ctx.cases(entry, site.Env, base, 0) {
				ev, nExp, plain := compositeField(en.V, x.cfg.ExpF)
				if !plain || nExp != 1 {
					expUndec = "the entry passed to the store is not a composite value whose expiry field can be followed"
					continue
				}
				// value
				if valF != "" {
					vv, nVal, _ := compositeField(en.V, valF)
					switch {
					case nVal == 0:
						valBad = "the entry stored by Set never receives the caller's value (its value field is left zero): Get reports a hit with a value that is not the one most recently Set"
					case nVal > 1:
						valUndec = "the value field of the stored entry is assigned more than once"
					default:
						sv, _ := x.strip(vv, en.Env)
						if pa, ok := sv.(*ssa.Parameter); ok && pa.Parent() == set {
							valOK++
						} else {
							valUndec = "the value field of the stored entry is not Set's value parameter"
						}
					}
				}
				for _, ec := range ctx.cases(ev, en.Env, en.Facts, 0) {
					// wrappers that keep the instant (UTC/Local/In, Round(0)/Truncate(0)) are
					// looked through; Truncate(d)/Round(d) with d > 0 change it
					pv, penv, rounded := x.timePeel(ec.V, ec.Env)
					name, args, aenv, isTime := x.timeMethod(pv, penv)
					if !isTime || name != "Add" || len(args) != 2 {
						if t := x.term(pv, penv); t.Kind == c15Now || t.Kind == c15WallNow {
							expBad = "the stored expiry is the current time itself: the TTL is not added"
						} else if t.Kind == c15Exp {
							known := strings.Join(ec.Facts.list(), ", ")
							if known == "" {
								known = "nothing"
							}
							expBad = "on some path the expiry stored with the new value is not clock.Now()+T*time.Second but the expiry read from an existing entry (kept / later-of / earlier-of; known on that path: " + known + "): the value most recently Set then lives for a time other than its own TTL — e.g. Set(k,v1,10); Set(k,v2,2) and Get still returns v2 after 2 s (or, if the older expiry is earlier, Cleanup removes v2 before its TTL has elapsed)"
						} else {
							expUndec = "the stored expiry is not of the form <time>.Add(<duration>)"
						}
						continue
					}
					bv, benv, brounded := x.timePeel(args[0], aenv)
					bt := x.term(bv, benv)
					if rounded == "" {
						rounded = brounded
					}
					if rounded != "" && (bt.Kind == c15Now || bt.Kind == c15WallNow) {
						expBad = "the stored expiry is not clock.Now()+T*time.Second but that instant (or its clock reading) adjusted by " + rounded + ": the entry expires up to that much earlier (Cleanup then removes an entry whose TTL has not elapsed; Get misses a value for which strictly less than its TTL has elapsed) or later (Get returns it after its TTL) than its TTL says"
						continue
					}
					switch {
					case bt.Kind == c15WallNow:
						expBad = "the expiry is stamped from time.Now() instead of the cache's clock (Get compares with the cache clock): entries outlive or undershoot their TTL whenever the clocks differ"
						continue
					case bt.Kind != c15Now || bt.Off != 0:
						expUndec = "the base of the expiry (" + bt.String() + ") is not a reading of the cache clock taken in Set"
						continue
					}
					for _, dc := range ctx.cases(args[1], aenv, ec.Facts, 0) {
						dv, denv := x.strip(dc.V, dc.Env)
						mul, isMul := dv.(*ssa.BinOp)
						if !isMul || mul.Op != token.MUL {
							if t := x.term(dv, denv); t.Key == ttlKey || t.Kind == c15MaxTTL {
								expBad = "the duration added to Now() is the TTL itself, not TTL*time.Second: the TTL is taken as nanoseconds and live entries expire at once (Cleanup removes entries whose TTL has not elapsed)"
							} else {
								expUndec = "the duration added to Now() is not of the form T*time.Second"
							}
							continue
						}
						var unit *ssa.Const
						var tv ssa.Value
						if kc, ok := mul.Y.(*ssa.Const); ok {
							unit, tv = kc, mul.X
						} else if kc, ok := mul.X.(*ssa.Const); ok {
							unit, tv = kc, mul.Y
						}
						if unit == nil || unit.Value == nil || unit.Value.Kind() != constant.Int {
							expUndec = "the duration added to Now() is a product without a constant unit"
							continue
						}
						if u, _ := constant.Int64Val(unit.Value); u != c15Second {
							if u > c15Second {
								expBad = fmt.Sprintf("the TTL is multiplied by %d ns instead of time.Second: entries stay hits long after TTL seconds have elapsed", u)
							} else {
								expBad = fmt.Sprintf("the TTL is multiplied by %d ns instead of time.Second: entries expire (and are removed by Cleanup) before their TTL has elapsed", u)
							}
							continue
						}
						expOK++
						leaves = append(leaves, ctx.cases(tv, denv, dc.Facts, 0)...)
					}
				}
			}
		}
		switch {
		case expBad != "":
			r.Violation(expRule, fname+" expiry"+sfx, pos, expBad)
		case expUndec != "":
			r.Undecide("%s expiry%s: %s", fname, sfx, expUndec)
		case expOK > 0:
			r.OK(expRule, fname+" expiry"+sfx, pos, "expiry = clock.Now().Add(T*time.Second) with Now() read from the cache clock in Set")
		}
		if valF != "" {
			construct := fname + " stores its value argument" + sfx
			switch {
			case valBad != "":
				r.Violation(valRule, construct, pos, valBad)
			case valUndec != "":
				r.Undecide("%s: %s", construct, valUndec)
			case valOK > 0:
				r.OK(valRule, construct, pos, "the stored entry's value field is Set's value parameter")
			}
		}
		// cap: aggregate the path cases by the value that reaches the expiry
		type agg struct {
			n   int
			bad string
		}
		kinds := map[string]*agg{"ttl": {}, "maxTTL": {}, "min": {}}
		for _, lf := range leaves {
			t := x.term(lf.V, lf.Env)
			f := lf.Facts
			known := strings.Join(f.list(), ", ")
			if known == "" {
				known = "nothing"
			}
			switch {
			case t.Key == ttlKey:
				a := kinds["ttl"]
				a.n++
				if !(f.nonPositive(isMax) || f.ge(isMax, isTTL)) && a.bad == "" {
					a.bad = known
				}
			case t.Kind == c15MaxTTL:
				a := kinds["maxTTL"]
				a.n++
				if !(f.positive(isMax) && f.ge(isTTL, isMax)) && a.bad == "" {
					a.bad = known
				}
			default:
				if call, ok := lf.V.(*ssa.Call); ok && builtinName(call) == "min" && len(call.Call.Args) == 2 {
					a, b := x.term(call.Call.Args[0], lf.Env), x.term(call.Call.Args[1], lf.Env)
					// max(maxTTL, k) with k <= 0 is maxTTL itself wherever maxTTL > 0 holds (required below)
					clamped := func(t c15Term) c15Term {
						if mc, ok := t.V.(*ssa.Call); ok && builtinName(mc) == "max" && len(mc.Call.Args) == 2 {
							u, w := x.term(mc.Call.Args[0], lf.Env), x.term(mc.Call.Args[1], lf.Env)
							if u.Kind == c15MaxTTL && w.Kind == c15Const && w.Int <= 0 {
								return u
							}
							if w.Kind == c15MaxTTL && u.Kind == c15Const && u.Int <= 0 {
								return w
							}
						}
						return t
					}
					a, b = clamped(a), clamped(b)
					if (a.Key == ttlKey && b.Kind == c15MaxTTL) || (b.Key == ttlKey && a.Kind == c15MaxTTL) {
						ag := kinds["min"]
						ag.n++
						if !f.positive(isMax) && ag.bad == "" {
							ag.bad = known
						}
						continue
					}
				}
				r.Undecide("%s%s: the TTL reaching the expiry (%s) is neither the ttl parameter nor the cap field of the cache", fname, sfx, t.String())
			}
		}
		derived := false
		for _, lf := range leaves {
			for _, f := range lf.Facts {
				for _, t := range []c15Term{f.X, f.Y} {
					if t.Kind != c15Other || t.V == nil {
						continue
					}
					switch v := t.V.(type) {
					case *ssa.BinOp:
						derived = true
					case *ssa.Call:
						if builtinName(v) != "" {
							derived = true
						}
					}
				}
			}
		}
		if derived && (kinds["ttl"].bad != "" || kinds["maxTTL"].bad != "" || kinds["min"].bad != "") {
			r.Undecide("%s%s: the cap could not be established on some path, but the conditions on it involve arithmetic / builtin results that are not decoded", fname, sfx)
			continue
		}
		if len(ctx.Opaque) > 0 && (kinds["ttl"].bad != "" || kinds["maxTTL"].bad != "" || kinds["min"].bad != "") {
			r.Undecide("%s%s: the cap could not be established on some path, but a condition on that path could not be decoded (%s)", fname, sfx, strings.Join(ctx.Opaque, "; "))
			continue
		}
		if a := kinds["ttl"]; a.n > 0 {
			r.Check(a.bad == "", capRule, fname+" T=ttl"+sfx, pos,
				"the caller's ttl reaches the expiry only on paths where maxTTL<=0 or ttl<=maxTTL is established",
				"the caller's ttl reaches the expiry on a path where neither `maxTTL <= 0` nor `ttl <= maxTTL` is established (known on that path: "+a.bad+"): with MaxTTL configured, an entry Set with a larger ttl is still a hit after MaxTTL seconds (cap missing, applied after the expiry was computed, or its test weakened)")
		}
		if a := kinds["maxTTL"]; a.n > 0 {
			r.Check(a.bad == "", capRule, fname+" T=maxTTL"+sfx, pos,
				"maxTTL replaces the ttl only on paths where maxTTL>0 and ttl>=maxTTL is established",
				"maxTTL is used as the TTL on a path where `maxTTL > 0` and `ttl >= maxTTL` are not both established (known on that path: "+a.bad+"): an entry Set with a smaller ttl outlives it (late hit), or with MaxTTL unset the entry expires at once and Cleanup removes it although its TTL has not elapsed")
		}
		if a := kinds["min"]; a.n > 0 {
			// min(ttl,maxTTL) stands for both cases of the cap
			r.Check(a.bad == "", capRule, fname+" T=ttl"+sfx, pos, "min(ttl,maxTTL) used only where maxTTL>0",
				"min(ttl, maxTTL) reaches the expiry on a path where maxTTL > 0 is not established (known on that path: "+a.bad+"): with MaxTTL unset every entry gets a non-positive TTL and is removed although its TTL has not elapsed")
			r.Check(a.bad == "", capRule, fname+" T=maxTTL"+sfx, pos, "min(ttl,maxTTL) used only where maxTTL>0",
				"min(ttl, maxTTL) reaches the expiry on a path where maxTTL > 0 is not established (known on that path: "+a.bad+")")
		}
	}
	return stores
}

func (k *c15K) checkWire() {
	nc := k.p.Func("ttlcache", "NewCache")
	maxF := k.x.cfg.MaxF
	construct := "ttlcache.NewCache cap field <- CacheOptions.MaxTTL"
	if maxF == "" {
		// the option may live somewhere else than in an integer field of Cache (an embedded options struct, …)
		readsOpt := false
		for _, fn := range k.p.FuncsOfPkg("ttlcache") {
			if origin(fn) == origin(nc) {
				continue
			}
			allInstrs(fn, func(in ssa.Instruction) {
				switch t := in.(type) {
				case *ssa.FieldAddr:
					if id := fieldIDOfAddr(t); id.Type == k.optsT && id.Field == "MaxTTL" {
						readsOpt = true
					}
				case *ssa.Field:
					if id := fieldIDOfField(t); id.Type == k.optsT && id.Field == "MaxTTL" {
						readsOpt = true
					}
				}
			})
		}
		if readsOpt {
			k.r.Undecide("%s: CacheOptions.MaxTTL is read outside NewCache but not through an integer field of Cache; this way of keeping the cap is not analysed", construct)
			return
		}
		k.r.Violation("C15.U2-wire-maxttl", construct, k.p.Pos(nc.Pos()), "Cache has no integer field that receives CacheOptions.MaxTTL: the configured cap is ignored and entries Set with ttl > MaxTTL stay hits after MaxTTL seconds")
		return
	}
	inNew := k.visited(nc)
	// fields the rules rely on must not be rewritten after construction
	for _, fn := range k.p.FuncsOfPkg("ttlcache") {
		if inNew[origin(fn)] {
			continue
		}
		allInstrs(fn, func(in ssa.Instruction) {
			st, ok := in.(*ssa.Store)
			if !ok {
				return
			}
			if fa, ok := st.Addr.(*ssa.FieldAddr); ok {
				if id := fieldIDOfAddr(fa); k.x.cfg.hkey(id) != "" && (k.x.cfg.hkey(id) == maxF || k.x.cfg.hkey(id) == k.x.cfg.ClockF || k.x.cfg.hkey(id) == k.mapF) {
					k.r.Undecide("%s is written outside NewCache (in %s): the facts about it used by the rules may be stale", id.String(), FuncName(k.p, fn))
				}
			}
		})
	}
	n, good, undec := 0, false, ""
	var pos token.Pos
	ctx := k.x.newCtx()
	k.x.walk(ctx, nc, nil, nil, func(in ssa.Instruction, env *c15Env) {
		st, ok := in.(*ssa.Store)
		if !ok {
			return
		}
		fa, ok := st.Addr.(*ssa.FieldAddr)
		if !ok {
			return
		}
		if id := fieldIDOfAddr(fa); k.x.cfg.hkey(id) != maxF {
			return
		}
		n++
		pos = st.Pos()
		for _, cs := range ctx.cases(st.Val, env, c15Set{}, 0) {
			if _, _, rid, ok := k.x.fieldRead(cs.V, cs.Env); ok && rid.Type == k.optsT && rid.Field == "MaxTTL" {
				good = true
			} else if kc, ok := cs.V.(*ssa.Const); ok && kc.Value != nil {
				// a constant on some path (e.g. normalising negatives to 0) is fine
			} else {
				undec = "the value stored into " + maxF + " is not CacheOptions.MaxTTL"
			}
		}
	}, nil)
	switch {
	case n == 0:
		k.r.Violation("C15.U2-wire-maxttl", construct, k.p.Pos(nc.Pos()), "NewCache (and the functions it calls) never stores CacheOptions.MaxTTL into "+maxF+", the field Set caps with: the configured cap is ignored and entries Set with ttl > MaxTTL stay hits after MaxTTL seconds")
	case undec != "":
		k.r.Undecide("%s: %s", construct, undec)
	case good:
		k.r.OK("C15.U2-wire-maxttl", construct, k.p.Pos(pos), "NewCache copies the option into the field Set reads")
	default:
		k.r.Undecide("%s: only constants are stored into %s", construct, maxF)
	}
}

// -------------------------------------------- U3 Cleanup / U5 Reset (deletes)

// varargsElems: v is `slice(new [n]T)[:]`; returns the element values stored.
func varargsElems(v ssa.Value) ([]ssa.Value, bool) {
	if kc, ok := v.(*ssa.Const); ok && kc.IsNil() {
		return nil, true
	}
	sl, ok := v.(*ssa.Slice)
	if !ok {
		return nil, false
	}
	a, ok := sl.X.(*ssa.Alloc)
	if !ok {
		return nil, false
	}
	if _, ok := deref(a.Type()).Underlying().(*types.Array); !ok {
		return nil, false
	}
	var out []ssa.Value
	for _, r := range refs(a) {
		switch t := r.(type) {
		case *ssa.IndexAddr:
			for _, rr := range refs(t) {
				if st, ok := rr.(*ssa.Store); ok && st.Addr == t {
					out = append(out, st.Val)
				} else {
					return nil, false
				}
			}
		case *ssa.Slice:
		default:
			return nil, false
		}
	}
	return out, true
}

// c15CellOf: v is a load of a variable cell (directly or through a captured
// variable); returns the cell.
func c15CellOf(v ssa.Value) *ssa.Alloc {
	u, ok := v.(*ssa.UnOp)
	if !ok || u.Op != token.MUL {
		return nil
	}
	switch a := u.X.(type) {
	case *ssa.Alloc:
		return a
	case *ssa.FreeVar:
		for i := 0; i < 4; i++ {
			b := resolveFreeVar(a)
			switch t := b.(type) {
			case *ssa.Alloc:
				return t
			case *ssa.FreeVar:
				a = t
				continue
			}
			return nil
		}
	}
	return nil
}

// c15CellStores: every store to the cell, in its function and in closures that
// capture it; ok=false if the cell's address escapes otherwise.
func c15CellStores(a *ssa.Alloc) (stores []*ssa.Store, ok bool) {
	ok = true
	var walk func(v ssa.Value, depth int)
	walk = func(v ssa.Value, depth int) {
		if depth > 4 {
			ok = false
			return
		}
		for _, r := range refs(v) {
			switch t := r.(type) {
			case *ssa.Store:
				if t.Addr == v {
					stores = append(stores, t)
				} else {
					ok = false
				}
			case *ssa.UnOp:
				if t.Op != token.MUL {
					ok = false
				}
			case *ssa.DebugRef:
			case *ssa.MakeClosure:
				fn, isFn := t.Fn.(*ssa.Function)
				if !isFn {
					ok = false
					continue
				}
				for i, b := range t.Bindings {
					if b == v && i < len(fn.FreeVars) {
						walk(fn.FreeVars[i], depth+1)
					}
				}
			default:
				ok = false
			}
		}
	}
	walk(a, 0)
	return
}

// sliceStart classifies the contents a key-slice variable is given by an
// assignment of v (evaluated in env): "empty" (nil, make with length 0, x[:0],
// an empty literal), "zero" (made with a non-zero length), "carried" (the
// contents of the key slice of another activation of the same code: a buffer
// handed back in without being truncated), or "" with a reason.
func (k *c15K) sliceStart(v ssa.Value, env *c15Env, cell *ssa.Alloc, seen map[ssa.Value]bool, depth int) (string, string) {
	if depth > 6 {
		return "", "too indirect"
	}
	sv, senv := k.x.strip(v, env)
	if sv == nil {
		return "", "no value"
	}
	switch t := sv.(type) {
	case *ssa.Const:
		if t.IsNil() {
			return "empty", ""
		}
	case *ssa.MakeSlice:
		if kc, ok := t.Len.(*ssa.Const); ok && kc.Value != nil && kc.Int64() == 0 {
			return "empty", ""
		}
		return "zero", ""
	case *ssa.Slice:
		if hk, ok := t.High.(*ssa.Const); ok && hk.Value != nil && hk.Int64() == 0 {
			return "empty", ""
		}
		if elems, ok := varargsElems(t); ok {
			if len(elems) == 0 {
				return "empty", ""
			}
			return "", "a slice literal with elements"
		}
		return k.sliceStart(t.X, senv, cell, seen, depth+1) // a reslice keeps (some of) the contents
	case *ssa.Phi:
		if seen[t] {
			return "empty", "" // the loop-carried edge itself adds nothing new
		}
		seen[t] = true
		res := "empty"
		for _, e := range t.Edges {
			kind, why := k.sliceStart(e, senv, cell, seen, depth+1)
			switch kind {
			case "":
				return "", why
			case "carried":
				res = "carried"
			case "zero":
				if res == "empty" {
					res = "zero"
				}
			}
		}
		return res, ""
	case *ssa.UnOp:
		if c2 := c15CellOf(t); c2 != nil {
			if cell != nil && c2 == cell {
				return "carried", "" // the same variable of another activation: its collected keys
			}
			stores, ok := c15CellStores(c2)
			if !ok {
				return "", "a variable whose address escapes"
			}
			res := "empty"
			for _, st := range stores {
				if c15CellOf(st.Val) == c2 {
					continue
				}
				if call, isCall := st.Val.(*ssa.Call); isCall && builtinName(call) == "append" {
					return "carried", "" // a variable keys are appended to
				}
				kind, why := k.sliceStart(st.Val, nil, cell, seen, depth+1)
				switch kind {
				case "":
					return "", why
				case "carried":
					res = "carried"
				case "zero":
					if res == "empty" {
						res = "zero"
					}
				}
			}
			return res, ""
		}
	case *ssa.Parameter:
		return "", "a parameter of " + FuncName(k.p, t.Parent()) + " whose caller is not in view"
	case *ssa.Call:
		if builtinName(t) == "append" {
			return "", "an append made elsewhere"
		}
		return "", "the result of " + callDescC15(t)
	}
	return "", "an unrecognised value"
}

// c15Encloses: outer lexically encloses inner (inner is a closure nested in outer).
func c15Encloses(outer, inner *ssa.Function) bool {
	for f := inner.Parent(); f != nil; f = f.Parent() {
		if f == outer {
			return true
		}
	}
	return false
}

// c15IndexedFill: some element of the slice held in cell is assigned by index
// (keys[i] = k), in the cell's function or in a closure capturing it.
func c15IndexedFill(cell *ssa.Alloc) bool {
	found := false
	var walk func(v ssa.Value, depth int)
	walk = func(v ssa.Value, depth int) {
		if depth > 4 {
			return
		}
		for _, r := range refs(v) {
			switch t := r.(type) {
			case *ssa.UnOp:
				if t.Op != token.MUL {
					continue
				}
				for _, rr := range refs(t) {
					if ia, ok := rr.(*ssa.IndexAddr); ok && ia.X == ssa.Value(t) {
						for _, r3 := range refs(ia) {
							if st, ok := r3.(*ssa.Store); ok && st.Addr == ia {
								found = true
							}
						}
					}
				}
			case *ssa.MakeClosure:
				if fn, ok := t.Fn.(*ssa.Function); ok {
					for i, b := range t.Bindings {
						if b == v && i < len(fn.FreeVars) {
							walk(fn.FreeVars[i], depth+1)
						}
					}
				}
			}
		}
	}
	walk(cell, 0)
	return found
}

// c15KeyAdd: the point where a key is committed to deletion (appended to the
// slice later deleted, or passed to a delete directly), in its activation.
type c15KeyAdd struct {
	Site c15Site
	Key  ssa.Value
	// Zero: not a key put in by the program but the zero-value elements the
	// slice is created with (make([]string, n) with n != 0): n copies of "".
	Zero bool
	// Carried: the slice starts with the contents of a key slice of another
	// activation (a scratch buffer handed back in without being truncated).
	Carried bool
}

type c15Del struct {
	Site  c15Site
	Adds  []c15KeyAdd
	Unrec string
	Empty bool // a key slice nothing is appended to
}

type c15DelAnalysis struct {
	Dels       []c15Del
	Contexts   map[ssa.Instruction][]*c15Env
	Fns        map[*ssa.Function]bool
	Unresolved []string // calls through func values that could not be followed
	ForEach    []c15Site
}

// isForEachCallback: env is the activation of a callback handed to Map.ForEach on the store.
func (k *c15K) forEachOf(env *c15Env) bool {
	if env == nil || env.how != "callback" || env.via == nil {
		return false
	}
	_, ok := k.mapCallE(env.via, env.up, "ForEach")
	return ok
}

// analyseDeletes walks root and resolves, for every delete on the store, where
// its keys are committed.
func (k *c15K) analyseDeletes(ctx *c15Ctx, root *ssa.Function, renv *c15Env) *c15DelAnalysis {
	a := &c15DelAnalysis{Contexts: map[ssa.Instruction][]*c15Env{}, Fns: map[*ssa.Function]bool{origin(root): true}}
	var dels []c15Site
	k.x.walk(ctx, root, renv, nil, func(in ssa.Instruction, env *c15Env) {
		a.Fns[origin(in.Parent())] = true
		if _, isCall := in.(ssa.CallInstruction); isCall {
			a.Contexts[in] = append(a.Contexts[in], env)
			if _, ok := k.mapCallE(in, env, "Del"); ok {
				dels = append(dels, c15Site{in, env})
			} else if _, ok := k.mapCallE(in, env, "GetAndDel"); ok {
				dels = append(dels, c15Site{in, env})
			} else if _, ok := k.mapCallE(in, env, "ForEach"); ok {
				a.ForEach = append(a.ForEach, c15Site{in, env})
			}
		}
	}, func(in ssa.Instruction, env *c15Env) {
		a.Unresolved = append(a.Unresolved, k.p.Pos(instrPos(in)))
	})
	for _, d := range dels {
		_, cc, _ := k.mapMethod(d.In, d.Env)
		info := c15Del{Site: d}
		if n, _, _ := k.mapMethod(d.In, d.Env); n == "GetAndDel" {
			info.Adds = []c15KeyAdd{{Site: d, Key: cc.Args[1]}}
		} else {
			info.Adds, info.Unrec, info.Empty = k.keyAdds(a, cc.Args[1], d.Env, d, 0)
		}
		a.Dels = append(a.Dels, info)
	}
	return a
}

func (s c15Site) Site() ssa.CallInstruction { return s.In.(ssa.CallInstruction) }

// keyAdds resolves the slice value v (in env) handed to a delete at site into
// the places where its elements are committed.
func (k *c15K) keyAdds(a *c15DelAnalysis, v ssa.Value, env *c15Env, site c15Site, depth int) (adds []c15KeyAdd, unrec string, empty bool) {
	if depth > 4 {
		return nil, "the key slice is built too indirectly", false
	}
	sv, senv := k.x.strip(v, env)
	if elems, ok := varargsElems(sv); ok {
		at := site
		if sl, isSl := sv.(*ssa.Slice); isSl {
			at = c15Site{sl, senv}
		}
		for _, e := range elems {
			// a key read back from a collected slice: for _, k := range keys { Del(k) }
			if u, ok := e.(*ssa.UnOp); ok && u.Op == token.MUL {
				if ia, ok := u.X.(*ssa.IndexAddr); ok {
					inner, un, _ := k.keyAdds(a, ia.X, senv, site, depth+1)
					if un == "" {
						adds = append(adds, inner...)
						continue
					}
				}
			}
			adds = append(adds, c15KeyAdd{Site: at, Key: e})
		}
		return adds, "", false
	}
	cell := c15CellOf(sv)
	var slot FieldID
	var stores []*ssa.Store
	sameSlot := func(v ssa.Value) bool {
		if cell != nil {
			return c15CellOf(v) == cell
		}
		id, _, ok := fieldOfValue(v)
		_, isLoad := v.(*ssa.UnOp)
		return ok && isLoad && id == slot
	}
	if cell != nil {
		var ok bool
		stores, ok = c15CellStores(cell)
		if !ok {
			return nil, "the address of the key slice variable escapes", false
		}
	} else if id, _, ok := fieldOfValue(sv); ok && id.Type != "" && k.x.cfg.hkey(id) == "" {
		// the keys live in a field of a helper object (a collector struct):
		// every store to that field anywhere in the package is considered
		if _, isLoad := sv.(*ssa.UnOp); !isLoad {
			return nil, "the key slice is not read from a variable", false
		}
		slot = id
		stores = k.x.fieldStores(id)
	} else {
		return nil, "the key slice is neither an argument list, a local slice variable, a field of a helper object nor the result of a helper returning one", false
	}
	for _, st := range stores {
		if sameSlot(st.Val) {
			continue // the variable assigned to itself (`return keys` with a named result)
		}
		switch t := st.Val.(type) {
		case *ssa.MakeSlice:
			if kc, ok := t.Len.(*ssa.Const); ok && kc.Value != nil && kc.Int64() == 0 {
				continue // created empty (any capacity)
			}
			// created with a non-zero length: unless the elements are then filled by
			// index, the slice starts with that many zero-value keys
			if cell == nil || c15IndexedFill(cell) {
				return nil, "the key slice is created with a non-zero length and filled by index (or lives in a field): not analysed", false
			}
			adds = append(adds, c15KeyAdd{Site: c15Site{st, nil}, Zero: true})
			continue
		case *ssa.Const:
			if t.IsNil() {
				continue
			}
		case *ssa.Slice:
			if sameSlot(t.X) {
				continue
			}
			if hk, ok := t.High.(*ssa.Const); ok && hk.Value != nil && hk.Int64() == 0 {
				continue // x[:0]: empty whatever x is
			}
			// a slice literal: its elements are keys handed to the delete
			if elems, ok := varargsElems(t); ok {
				for _, e := range elems {
					adds = append(adds, c15KeyAdd{Site: c15Site{st, nil}, Key: e})
				}
				continue
			}
		case *ssa.Call:
			// a library reshaping of the same slice that cannot add keys: slices.Grow / Clip / Compact / Clone …
			// (first argument the variable itself, no other argument that could carry a key)
			if obj := calleeObj(t); obj != nil && obj.Pkg() != nil && obj.Pkg().Path() == "slices" && len(t.Call.Args) >= 1 && sameSlot(t.Call.Args[0]) {
				carries := false
				for _, a := range t.Call.Args[1:] {
					switch u := a.Type().Underlying().(type) {
					case *types.Basic:
						if u.Info()&types.IsString != 0 {
							carries = true
						}
					default:
						carries = true
					}
				}
				if !carries {
					continue
				}
			}
			if builtinName(t) == "append" && len(t.Call.Args) == 2 && sameSlot(t.Call.Args[0]) {
				elems, ok := varargsElems(t.Call.Args[1])
				if !ok {
					return nil, "a slice of unknown contents is appended to the key slice", false
				}
				ctxs := a.Contexts[t]
				if len(ctxs) == 0 {
					return nil, "keys are appended at " + k.p.Pos(instrPos(t)) + ", which is not reached from the function under analysis", false
				}
				for _, ce := range ctxs {
					for _, e := range elems {
						adds = append(adds, c15KeyAdd{Site: c15Site{t, ce}, Key: e})
					}
				}
				continue
			}
		}
		// anything else: where does the value come from? (a parameter bound by the
		// caller, a phi, the slice a helper returned, …)
		storeEnv := senv
		if u, ok := sv.(*ssa.UnOp); ok {
			if _, isFV := u.X.(*ssa.FreeVar); isFV {
				storeEnv = senv.lexOf()
			}
		}
		if cell == nil || st.Parent() != cell.Parent() {
			storeEnv = nil
		}
		switch kind, why := k.sliceStart(st.Val, storeEnv, cell, map[ssa.Value]bool{}, 0); kind {
		case "empty":
			continue
		case "carried":
			adds = append(adds, c15KeyAdd{Site: c15Site{st, nil}, Carried: true})
			continue
		case "zero":
			if cell != nil && !c15IndexedFill(cell) {
				adds = append(adds, c15KeyAdd{Site: c15Site{st, nil}, Zero: true})
				continue
			}
			return nil, "the key slice starts from a slice created with a non-zero length and filled by index: not analysed", false
		default:
			return nil, "the key slice variable is assigned a value whose contents are not known (" + why + ")", false
		}
	}
	// a delete executed in a loop with the key variable living outside the
	// iteration: the variable must be emptied inside the loop, else the keys of
	// earlier iterations are handed to the delete again
	// (only when the delete receives the slice as a whole, not one element of it per iteration)
	if depth == 0 && cell != nil && (site.In.Parent() == cell.Parent() || c15Encloses(cell.Parent(), site.In.Parent())) {
		delBlk := site.In.Block()
		fn := delBlk.Parent()
		inLoop := map[*ssa.BasicBlock]bool{}
		fwd := map[*ssa.BasicBlock]bool{}
		for _, s := range delBlk.Succs {
			for b := range reachableFrom(s, nil) {
				fwd[b] = true
			}
		}
		if fwd[delBlk] {
			for _, b := range fn.Blocks {
				if fwd[b] && reachableFrom(b, nil)[delBlk] {
					inLoop[b] = true
				}
			}
		}
		if len(inLoop) > 0 && (cell.Parent() != fn || !inLoop[cell.Block()]) {
			emptied, appended := false, false
			for _, st := range stores {
				if call, ok := st.Val.(*ssa.Call); ok && builtinName(call) == "append" {
					appended = true
					continue
				}
				if st.Parent() != fn || !inLoop[st.Block()] {
					continue
				}
				if kind, _ := k.sliceStart(st.Val, nil, nil, map[ssa.Value]bool{}, 0); kind == "empty" || kind == "zero" {
					emptied = true
				}
			}
			if appended && !emptied {
				adds = append(adds, c15KeyAdd{Site: site, Carried: true})
			}
		}
	}
	real := 0
	for _, a := range adds {
		if !a.Zero && !a.Carried {
			real++
		}
	}
	return adds, "", real == 0
}

// callbackOf resolves the key committed at add to the ForEach callback
// activation whose key parameter it is (nil if it is not one).
func (k *c15K) callbackOf(add c15KeyAdd) *c15Env {
	kv, kenv := k.x.strip(add.Key, add.Site.Env)
	pa, ok := kv.(*ssa.Parameter)
	if !ok {
		return nil
	}
	isCb := func(e *c15Env) bool {
		kp, _ := k.cbParams(e)
		return e.fn == origin(pa.Parent()) && k.forEachOf(e) && kp == pa
	}
	for _, start := range []*c15Env{kenv, add.Site.Env} {
		for e := start; e != nil; e = e.up {
			if isCb(e) {
				return e
			}
		}
		for e := start; e != nil; e = e.lex {
			if isCb(e) {
				return e
			}
		}
	}
	return nil
}

// cbParams: the (key, entry) parameters of a ForEach callback activation — the
// first two parameters that are not bound (a method value binds its receiver).
func (k *c15K) cbParams(e *c15Env) (key, entry *ssa.Parameter) {
	if e == nil || e.fn == nil {
		return nil, nil
	}
	off := len(e.params)
	if off+1 >= len(e.fn.Params) {
		return nil, nil
	}
	return e.fn.Params[off], e.fn.Params[off+1]
}

// c15Sink receives the verdicts of expiredOnly.
type c15Sink struct {
	ok    func(construct, pos, msg string)
	viol  func(construct, pos, msg string, wit ...string)
	undec func(format string, args ...any)
}

func (k *c15K) checkCleanup() {
	cl := k.p.Func("ttlcache", "Cache.Cleanup")
	fname := FuncName(k.p, cl)
	rule := "C15.U3-cleanup-expired-only"
	ctx := k.x.newCtx()
	a := k.analyseDeletes(ctx, cl, nil)
	if len(a.Dels) == 0 {
		k.r.Undecide("%s: no delete on the map found in Cleanup or the functions it calls (anchor moved; a Cleanup that removes nothing cannot violate the clause)", fname)
		return
	}
	k.expiredOnly(ctx, a, fname, c15Sink{
		ok:    func(c, pos, msg string) { k.r.OK(rule, c, pos, msg) },
		viol:  func(c, pos, msg string, wit ...string) { k.r.Violation(rule, c, pos, msg, wit...) },
		undec: k.r.Undecide,
	})
}

// expiredOnly: every key handed to a delete found by analysis a was committed
// under clock.Now() >(=) exp of its own entry.
func (k *c15K) expiredOnly(ctx *c15Ctx, a *c15DelAnalysis, fname string, sink c15Sink) {
	var fam []*ssa.Function
	for f := range a.Fns {
		fam = append(fam, f)
	}
	sort.Slice(fam, func(i, j int) bool { return FuncName(k.p, fam[i]) < FuncName(k.p, fam[j]) })
	n := 0
	for _, d := range a.Dels {
		if d.Unrec != "" {
			sink.undec("%s: delete at %s: %s", fname, k.p.Pos(instrPos(d.Site.In)), d.Unrec)
			continue
		}
		for _, add := range d.Adds {
			n++
			at := add.Site.In
			pos := k.p.Pos(instrPos(at))
			if add.Zero {
				sink.viol(fmt.Sprintf("%s key slice created non-empty in %s", fname, FuncName(k.p, at.Parent())), pos, "the slice of keys handed to the delete is created with a non-zero LENGTH (make([]string, n) instead of make([]string, 0, n)) and only appended to: besides the collected keys the delete receives n copies of the empty string, so a live entry stored under the key \"\" that nobody touched disappears on every Cleanup")
				continue
			}
			if add.Carried {
				sink.viol(fmt.Sprintf("%s key slice carried over in %s", fname, FuncName(k.p, at.Parent())), pos, "the slice of keys handed to the delete starts with the contents of the key slice of an earlier run (a scratch buffer passed back in as it was returned, not truncated to [:0]): the keys collected by earlier runs are deleted again without their entries being re-tested, so an entry that expired once, was removed, and was Set again (live, untouched since) disappears at the next run")
				continue
			}
			if kc, isConst := add.Key.(*ssa.Const); isConst && kc.Value != nil {
				sink.viol(fmt.Sprintf("%s constant key committed in %s", fname, FuncName(k.p, at.Parent())), pos, "the constant key "+kc.Value.String()+" is handed to the delete whatever the state of its entry: a live entry stored under that key disappears on every Cleanup")
				continue
			}
			cb := k.callbackOf(add)
			if cb == nil {
				sink.undec("%s: the key scheduled for deletion at %s is not the key parameter of a ForEach callback over the map", fname, pos)
				continue
			}
			construct := fmt.Sprintf("%s key committed in %s", fname, FuncName(k.p, at.Parent()))
			if n > 1 {
				construct += fmt.Sprintf(" #%d", n)
			}
			_, entryParam := k.cbParams(cb)
			own := func(t c15Term) bool {
				if t.Kind != c15Exp {
					return false
				}
				ev, _ := k.x.strip(t.Entry, nil)
				return t.Entry == ssa.Value(entryParam) || ev == ssa.Value(entryParam)
			}
			good := true
			var facts c15Set
			paths := ctx.at(at.Block(), add.Site.Env)
			for _, ps := range paths {
				ps = ps.saturate()
				if !ps.ge(func(t c15Term) bool { return t.Kind == c15Now && t.Off <= 0 }, own) {
					good, facts = false, ps
					break
				}
			}
			if good {
				sink.ok(construct, pos, "key committed only under clock.Now() >(=) exp of its own entry, cache clock read during Cleanup")
				continue
			}
			if dec, whyNot := c15ExpDecodable(fam, k.x.cfg); len(ctx.Opaque) > 0 || !dec || len(a.Unresolved) > 0 {
				why := strings.Join(ctx.Opaque, "; ") + " " + whyNot
				if len(a.Unresolved) > 0 {
					why += " call through an unresolved func value at " + strings.Join(a.Unresolved, ", ")
				}
				sink.undec("%s: the expiry test guarding %s could not be decoded (%s)", fname, construct, strings.TrimSpace(why))
				continue
			}
			var rel []c15Fact
			for _, f := range facts {
				if f.X.Kind == c15Exp || f.Y.Kind == c15Exp {
					rel = append(rel, f)
				}
			}
			if len(rel) == 0 {
				known := strings.Join(facts.list(), ", ")
				if known == "" {
					known = "nothing"
				}
				sink.viol(construct, pos, "Cleanup schedules a key for deletion on a path where its entry's expiry has not been compared with the clock (known on that path: "+known+"): live entries of keys nobody touched disappear", facts.list()...)
				continue
			}
			sort.Slice(rel, func(a, b int) bool { return rel[a].key() < rel[b].key() })
			msg, undec := "", false
			for _, f := range rel {
				undec = false
				e, o := f.X, f.Y
				if f.Y.Kind == c15Exp {
					e, o = f.Y, f.X
				}
				switch {
				case !own(e):
					undec = true
					msg = "the expiry tested could not be traced to the entry whose key is committed"
				case o.Kind == c15WallNow:
					msg = "the expiry is compared with time.Now() instead of the cache's clock: entries that are live on the cache's clock are removed whenever the clocks differ"
				case o.Kind == c15Now && o.Off > 0:
					msg = fmt.Sprintf("the expiry is compared with clock.Now() shifted forward by %d ns: entries that have not expired yet are removed", o.Off)
				case o.Kind == c15Now:
					msg = "the commit condition relates the expiry and the clock as `" + f.String() + "`, which does not imply that the entry has expired (clock.Now() >= entry.exp): live entries are removed"
				default:
					undec = true
					msg = "the expiry is compared with " + o.String() + ", which is not a reading of the cache clock taken during Cleanup"
				}
				if !undec {
					break
				}
			}
			if undec {
				sink.undec("%s: %s (cannot decide)", construct, msg)
				continue
			}
			sink.viol(construct, pos, msg, facts.list()...)
		}
	}
}

// ------------------------------------------------------ U5 Delete / Reset

func (k *c15K) checkDeleteReset() {
	p, r := k.p, k.r
	del := p.Func("ttlcache", "Cache.Delete")
	dname := FuncName(p, del)
	noKey := ""
	k.x.mustUnsure = false
	ok, n, where := k.x.must(del, nil, func(in ssa.Instruction, env *c15Env) bool {
		if _, isGD := k.mapCallE(in, env, "GetAndDel"); isGD {
			return true
		}
		cc, isDel := k.mapCallE(in, env, "Del")
		if !isDel {
			return false
		}
		sv, _ := k.x.strip(cc.Args[1], env)
		if elems, okE := varargsElems(sv); okE && len(elems) == 0 {
			// only the certain case is armed: no key at all is passed
			noKey = p.Pos(instrPos(in))
			return false
		}
		return true
	}, 0)
	if n == 0 {
		r.Undecide("%s has no return", dname)
	} else if !ok && k.x.mustUnsure && noKey == "" {
		r.Undecide("%s: a return is reached without a visible delete, but a call on the way could not be followed", dname)
	} else {
		msg := "Delete can return (at " + p.Pos(where) + ") without deleting the key from the map: a later Get still returns the deleted value"
		if noKey != "" {
			msg = "the delete at " + noKey + " passes no key at all: a later Get still returns the deleted value"
		}
		r.Check(ok, "C15.U5-delete", dname+" deletes the key", p.Pos(del.Pos()), "every return of Delete is preceded by a delete on the map (directly or in the helpers it calls)", msg)
	}

	// Reset
	reset := p.Func("ttlcache", "Cache.Reset")
	rname := FuncName(p, reset)
	construct := rname + " removes every key"
	ctx := k.x.newCtx()
	a := k.analyseDeletes(ctx, reset, nil)
	if len(a.Dels) == 0 || len(a.ForEach) == 0 {
		r.Undecide("%s: Reset is not of the form ForEach-commit + delete, in it or in the functions it calls (anchor moved)", rname)
		return
	}
	bad, undec := "", ""
	pos := p.Pos(reset.Pos())
	delSites := map[ssa.Instruction]bool{}
	for _, d := range a.Dels {
		delSites[d.Site.In] = true
		if d.Unrec != "" {
			undec = "delete at " + p.Pos(instrPos(d.Site.In)) + ": " + d.Unrec
			continue
		}
		if d.Empty {
			bad = "Reset deletes a key slice nothing is appended to: no entry is removed and Get keeps returning values Set before the Reset"
			continue
		}
		// group the commit sites by callback activation
		byCb := map[*c15Env][]ssa.Instruction{}
		var order []*c15Env
		for _, add := range d.Adds {
			if add.Zero || add.Carried {
				continue // extra keys are harmless where every key is removed
			}
			if _, isConst := add.Key.(*ssa.Const); isConst {
				continue
			}
			cb := k.callbackOf(add)
			if cb == nil {
				undec = "a key committed at " + p.Pos(instrPos(add.Site.In)) + " is not the key parameter of a ForEach callback over the map"
				continue
			}
			if _, seen := byCb[cb]; !seen {
				order = append(order, cb)
			}
			byCb[cb] = append(byCb[cb], add.Site.In)
		}
		for _, cb := range order {
			sites := byCb[cb]
			// a commit site nested in a helper called by the callback: the call leading to it counts
			isCommit := func(in ssa.Instruction) bool {
				for _, s := range sites {
					if s == in {
						return true
					}
					// store of the append result / the Slice feeding a direct delete sit next to it
					if st, ok := in.(*ssa.Store); ok {
						if vi, isI := st.Val.(ssa.Instruction); isI && vi == s {
							return true
						}
					}
					if false {
						return true
					}
				}
				return false
			}
			nested := false
			for _, s := range sites {
				if origin(s.Parent()) != cb.fn {
					nested = true
				}
			}
			okA, whereA, wit := ctx.feasibleMust(cb.fn, cb, isCommit)
			if !okA {
				if nested || len(a.Unresolved) > 0 || len(ctx.Opaque) > 0 {
					undec = "the ForEach callback of Reset may return without committing the key, but part of its logic could not be followed"
				} else {
					known := strings.Join(wit.list(), ", ")
					if known == "" {
						known = "nothing"
					}
					bad = "in Reset's context the ForEach callback can return (at " + p.Pos(whereA) + ") without committing the key (known on that path: " + known + "): that entry survives Reset and Get keeps returning a value Set before the Reset"
					pos = p.Pos(whereA)
				}
			}
			for _, ret := range returnsOf(cb.fn) {
				if len(ret.Results) != 1 || len(ctx.at(ret.Block(), cb)) == 0 {
					continue
				}
				if _, vac := ctx.factsWhen(ret.Results[0], false, cb, 0); !vac {
					bad = "the ForEach callback of Reset can return false (at " + p.Pos(instrPos(ret)) + "), which stops the iteration: the remaining entries survive Reset and Get keeps returning values Set before the Reset"
					pos = p.Pos(instrPos(ret))
				}
			}
			// the delete follows the ForEach (when both sit in the same function)
			if fe, ok := cb.via.(*ssa.Call); ok && fe.Parent() == d.Site.In.Parent() && !instrDominates(fe, d.Site.In) {
				bad = "Reset deletes the committed keys on a path that has not run the ForEach: nothing (or not everything) is removed"
			}
		}
	}
	// the delete happens on every path
	okD, nD, whereD := k.x.must(reset, nil, func(in ssa.Instruction, env *c15Env) bool { return delSites[in] }, 0)
	if nD > 0 && !okD && bad == "" {
		bad = "Reset can return (at " + p.Pos(whereD) + ") without deleting the committed keys"
	}
	switch {
	case bad != "":
		r.Violation("C15.U5-reset", construct, pos, bad)
	case undec != "":
		r.Undecide("%s: %s", rname, undec)
	default:
		r.OK("C15.U5-reset", construct, pos, "in Reset's context the callback commits every key on every feasible path and never stops the iteration; the committed keys are deleted on every path")
	}
}

// ----------------------------------------------------------------- U4 Stop

// reachesMutation: f (transitively) can mutate the store.
func (k *c15K) reachesMutation(tg c15Target, env *c15Env) bool {
	if !k.x.inlinable(tg.Fn) {
		return false
	}
	found := false
	ge := k.x.activate(tg, nil, env, nil, "call")
	k.x.walk(k.x.newCtx(), tg.Fn, ge, nil, func(in ssa.Instruction, env *c15Env) {
		if n, _, isMap := k.mapMethod(in, env); isMap && !c15ReadOnlyMapMethod(n) {
			found = true
		}
	}, nil)
	return found
}

// c15Link: one step of the call chain leading to a site: the instruction, and
// the activation it entered (nil for the site's own instruction).
type c15Link struct {
	in  ssa.Instruction
	env *c15Env
}

// c15Chain: the instructions leading from the root of a walk to site, outermost first.
func c15Chain(s c15Site) []c15Link {
	rev := []c15Link{{s.In, nil}}
	for e := s.Env; e != nil && e.via != nil; e = e.up {
		rev = append(rev, c15Link{e.via, e})
	}
	out := make([]c15Link, 0, len(rev))
	for i := len(rev) - 1; i >= 0; i-- {
		out = append(out, rev[i])
	}
	return out
}

// c15Before: a is executed before b on every execution that reaches b (both
// seen from the same walk root): at the first level where their call chains
// part, a's instruction dominates b's and is not merely deferred / spawned;
// two steps of one literal table run in table order.
func c15Before(a, b c15Site) bool {
	ca, cb := c15Chain(a), c15Chain(b)
	for i := 0; i < len(ca) && i < len(cb); i++ {
		if ca[i].in == cb[i].in {
			if ca[i].env != nil && cb[i].env != nil && ca[i].env.tab > 0 && cb[i].env.tab > 0 && ca[i].env.tab != cb[i].env.tab {
				if _, isGo := ca[i].in.(*ssa.Go); isGo {
					return false
				}
				if _, isDefer := ca[i].in.(*ssa.Defer); isDefer {
					return false
				}
				// the step itself must not merely spawn / defer what it leads to
				for j := i + 1; j < len(ca)-1; j++ {
					switch ca[j].in.(type) {
					case *ssa.Go, *ssa.Defer:
						return false
					}
				}
				return ca[i].env.tab < cb[i].env.tab
			}
			continue
		}
		if ca[i].in.Parent() != cb[i].in.Parent() {
			return false
		}
		if _, isDefer := ca[i].in.(*ssa.Defer); isDefer && i < len(ca)-1 {
			return false // runs at function exit
		}
		if _, isGo := ca[i].in.(*ssa.Go); isGo && i < len(ca)-1 {
			return false // runs concurrently
		}
		return instrDominates(ca[i].in, cb[i].in)
	}
	return false
}

func (k *c15K) checkStop() {
	p, r := k.p, k.r
	stop := p.Func("ttlcache", "Cache.Stop")
	nc := p.Func("ttlcache", "NewCache")
	sname := FuncName(p, stop)
	if k.runF == "" || k.stpF == "" {
		r.Undecide("the done / stop channels of Cache could not be identified by role (the goroutine started by NewCache closes / selects on no channel field of Cache that Stop waits on / closes): join or stop mechanisms other than channel fields are not analysed")
		return
	}
	runName, stpName := k.fld(k.runF), k.fld(k.stpF)
	isRecvRun := k.joinWait
	isCloseRun := k.joinSignal

	k.mustCheck(stop, nil, isRecvRun, "C15.U4-stop-waits", sname+" waits on the done channel",
		"every return of Stop is preceded by a wait on "+runName+" (directly or in a helper it always calls)",
		func(where string) string {
			return "Stop can return (at " + where + ") without having waited on " + runName + ": it returns while the background cleaner may still be running (e.g. the second of two concurrent Stop calls, or every call if the wait was dropped)"
		})

	// Stop signals: close(stop channel) is reachable from Stop, and not after the wait.
	ctx := k.x.newCtx()
	var closes, waits []c15Site
	k.x.walk(ctx, stop, nil, nil, func(in ssa.Instruction, env *c15Env) {
		if k.closeField(in, env) == k.stpF {
			closes = append(closes, c15Site{in, env})
		}
		if isRecvRun(in, env) {
			waits = append(waits, c15Site{in, env})
		}
	}, nil)
	late := ""
	for _, cl := range closes {
		for _, w := range waits {
			if c15Before(w, cl) {
				late = p.Pos(instrPos(cl.In))
			}
		}
	}
	switch {
	case len(closes) == 0:
		r.Violation("C15.U4-stop-signals", sname+" closes the stop channel", p.Pos(stop.Pos()), "neither Stop nor anything it calls closes "+stpName+": the cleaner is never told to exit and Stop waits on "+runName+" forever (Stop never returns)")
	case late != "":
		r.Violation("C15.U4-stop-signals", sname+" closes the stop channel", late, "Stop closes "+stpName+" only after it has waited on "+runName+": the cleaner exits only on the stop channel, so Stop never returns")
	default:
		r.OK("C15.U4-stop-signals", sname+" closes the stop channel", p.Pos(stop.Pos()), "close of the stop channel is reachable from Stop and precedes the wait")
	}

	// the goroutine(s) NewCache starts
	gos := k.goSites()
	// where is the done channel closed?
	type closer struct {
		g     c15Go
		sites []c15Site
	}
	var closers []closer
	var unattributed []string
	inG := map[ssa.Instruction]bool{}
	for _, g := range gos {
		cl := closer{g: g}
		k.x.walk(ctx, g.Tg.Fn, g.Env, nil, func(in ssa.Instruction, env *c15Env) {
			if ci, ok := in.(ssa.CallInstruction); ok && builtinName(ci) == "close" && k.closeField(in, env) == "" {
				unattributed = append(unattributed, p.Pos(instrPos(in)))
			}
			if isCloseRun(in, env) {
				cl.sites = append(cl.sites, c15Site{in, env})
				inG[in] = true
			}
		}, nil)
		if len(cl.sites) > 0 {
			closers = append(closers, cl)
		}
	}
	// closes of the done channel outside the goroutine
	api := map[string]*ssa.Function{}
	for _, nme := range []string{"Cache.Stop", "Cache.Get", "Cache.Set", "Cache.Delete", "Cache.Cleanup", "Cache.Reset", "NewCache"} {
		if f := p.FuncOpt("ttlcache", nme); f != nil {
			api[nme] = f
		}
	}
	nSites := len(inG)
	var apiNames []string
	for nme := range api {
		apiNames = append(apiNames, nme)
	}
	sort.Strings(apiNames)
	for _, nme := range apiNames {
		f := api[nme]
		k.x.walk(ctx, f, nil, func(g *ssa.Function) bool { return false }, func(in ssa.Instruction, env *c15Env) {
			if !isCloseRun(in, env) || inG[in] || k.underGo(env) {
				return
			}
			if _, isGo := in.(*ssa.Go); isGo {
				return
			}
			nSites++
			r.Violation("C15.U4-cleaner-exit", FuncName(p, in.Parent())+" closes the done channel", p.Pos(instrPos(in)), runName+" is closed by "+FuncName(p, in.Parent())+" (reached from "+nme+" outside the background goroutine): Stop's wait is released although the cleaner may still be running")
		}, nil)
	}
	if nSites == 0 && len(unattributed) > 0 {
		r.Undecide("nothing visibly closes %s, but the goroutine closes a channel at %s that could not be tied to a field of Cache", runName, strings.Join(unattributed, ", "))
		return
	}
	if nSites == 0 {
		r.Violation("C15.U4-cleaner-exit", "ttlcache cleaner closes the done channel", p.Pos(stop.Pos()), "nothing reachable from NewCache's goroutine or the API closes "+runName+": Stop never returns")
		return
	}
	cleanup := p.FuncOpt("ttlcache", "Cache.Cleanup")
	for _, cl := range closers {
		g := cl.g.Tg.Fn
		genv := cl.g.Env
		gname := FuncName(p, g)
		// (i) closed on every exit
		okc, nr, wherec := k.x.must(g, genv, isCloseRun, 0)
		wherecS := p.Pos(wherec)
		// a deferred close must be registered on every path to every exit
		allInstrs(g, func(in ssa.Instruction) {
			d, isD := in.(*ssa.Defer)
			if !isD {
				return
			}
			closesIt := isCloseRun(d, genv)
			if !closesIt {
				if ts, unk := k.x.callTargets(&d.Call, genv); !unk && len(ts) == 1 && k.x.inlinable(ts[0].Fn) {
					o, nn, _ := k.x.must(ts[0].Fn, k.x.activate(ts[0], d.Call.Args, genv, d, "defer"), isCloseRun, 1)
					closesIt = o && nn > 0
				}
			}
			if !closesIt {
				return
			}
			allInstrs(g, func(j ssa.Instruction) {
				if _, isRD := j.(*ssa.RunDefers); isRD && liveBlock(j.Block()) && !instrDominates(d, j) {
					okc = false
					wherecS = p.Pos(instrPos(j))
				}
			})
		})
		// (ii) the done signal is the goroutine's last action: after it nothing
		// cleans, and no other call is made (in the body, in the deferred calls
		// that run after it, or after it inside the helper that gives it)
		after, afterWhat := k.afterSignal(g, genv, cleanup, 0)
		switch {
		case nr > 0 && !okc:
			r.Violation("C15.U4-cleaner-exit", gname+" closes the done channel on exit", wherecS, "the cleaner goroutine can exit (at "+wherecS+") without closing "+runName+": Stop waits forever")
		case after != "" && afterWhat == "cleans":
			r.Violation("C15.U4-cleaner-exit", gname+" closes the done channel on exit", after, "the cleaner goroutine still touches the cache (at "+after+") after closing "+runName+": Stop returns while the cleaner is still cleaning")
		case after != "":
			r.Violation("C15.U4-cleaner-exit", gname+" closes the done channel on exit", after, "the cleaner goroutine still calls "+afterWhat+" (at "+after+") after it has signalled "+runName+" (deferred calls run last-registered-first: the done signal must be registered first / given last): Stop's wait is released, and Stop returns, while the cleaner goroutine is still running its exit work")
		default:
			r.OK("C15.U4-cleaner-exit", gname+" closes the done channel on exit", p.Pos(g.Pos()), "the done signal is given on every exit of the goroutine body and is its last action (no call follows it)")
		}

		k.checkPeriodic(ctx, cl.g, gname, cleanup)
		k.checkWaits(ctx, cl.g, gname, runName, stpName)

		// start: the done channel is created before the go statement; NewCache always reaches it
		construct := FuncName(p, cl.g.Site.In.Parent()) + " -> go " + gname
		var makes []c15Site
		k.x.walk(ctx, nc, nil, nil, func(in ssa.Instruction, env *c15Env) {
			if k.joinArm(in, env) {
				makes = append(makes, c15Site{in, env})
			}
		}, nil)
		created, anywhere := false, false
		for _, m := range makes {
			if c15Before(m, cl.g.Site) {
				created = true
			}
		}
		for _, fn := range p.FuncsOfPkg("ttlcache") {
			allInstrs(fn, func(in ssa.Instruction) {
				if st, ok := in.(*ssa.Store); ok {
					if fa, ok := st.Addr.(*ssa.FieldAddr); ok {
						if id := fieldIDOfAddr(fa); k.x.cfg.hkey(id) == k.runF {
							anywhere = true
						}
					}
				}
				if k.runWG && k.wgOp(in, "Add") == k.runF {
					anywhere = true
				}
			})
		}
		goIn := cl.g.Site.In
		okS, nS, _ := k.x.must(nc, nil, func(in ssa.Instruction, env *c15Env) bool { return in == goIn }, 0)
		switch {
		case !created && (len(makes) > 0 || !anywhere):
			r.Violation("C15.U4-cleaner-start", construct, p.Pos(instrPos(goIn)), runName+" is not created (make(chan)) before the cleaner goroutine is started: the goroutine may close a nil/unset channel, or Stop may wait on a channel nobody closes")
		case !created:
			r.Undecide("%s: %s is assigned somewhere, but not by a make(chan) that NewCache executes before the go statement in a way the check can follow", construct, runName)
		case !(okS && nS > 0):
			r.Violation("C15.U4-cleaner-start", construct, p.Pos(nc.Pos()), "NewCache can return without starting the cleaner goroutine: "+runName+" is never closed and Stop never returns")
		default:
			r.OK("C15.U4-cleaner-start", construct, p.Pos(instrPos(goIn)), "the done channel is created before the go statement and NewCache always starts the cleaner")
		}
	}
}

// afterSignal: in the activation (fn, env), can a call be executed after the
// done signal has been given? Returns the position of such a call and what it
// is ("cleans" for a mutation of the store / Cleanup, else the callee's name).
// Deferred calls are taken where they run; a helper that gives the signal is
// looked into (a call after the signal inside it counts, and everything after
// the helper call in the caller does too).
func (k *c15K) afterSignal(fn *ssa.Function, env *c15Env, cleanup *ssa.Function, depth int) (pos, what string) {
	p := k.p
	gives := func(tg c15Target) bool {
		if !k.x.inlinable(tg.Fn) {
			return false
		}
		found := false
		ne := k.x.activate(tg, nil, env, nil, "call")
		k.x.walk(k.x.newCtx(), tg.Fn, ne, nil, func(in ssa.Instruction, ie *c15Env) {
			if !k.joinSignal(in, ie) {
				return
			}
			for e := ie; e != nil && e != env; e = e.up {
				if e.how == "go" {
					return // given by a goroutine the helper spawns, not by the helper
				}
			}
			found = true
		}, nil)
		return found
	}
	note := func(np, nw string) {
		if pos == "" || (nw == "cleans" && what != "cleans") {
			pos, what = np, nw
		}
	}
	var ff *FlagFlow
	ff = &FlagFlow{Fn: fn, Must: false, Transfer: func(in ssa.Instruction, st uint64) uint64 {
		if _, isD := in.(*ssa.Defer); isD && !ff.Replaying {
			return st
		}
		if k.joinSignal(in, env) {
			return st | 1
		}
		ci, isCall := in.(ssa.CallInstruction)
		if !isCall {
			return st
		}
		if _, isGo := in.(*ssa.Go); isGo {
			return st
		}
		if st&1 != 0 {
			if builtinName(ci) != "" {
				return st
			}
			w := "a function value"
			if obj := calleeObj(ci); obj != nil {
				w = obj.FullName()
			}
			if _, isMap := k.mapCallE(in, env, ""); isMap {
				w = "cleans"
			}
			ts, _ := k.x.callTargets(ci.Common(), env)
			for _, tg := range ts {
				if (cleanup != nil && tg.Fn == origin(cleanup)) || k.reachesMutation(tg, env) {
					w = "cleans"
				}
			}
			note(p.Pos(instrPos(in)), w)
			return st
		}
		// a helper that gives the signal: look inside it; afterwards the signal has been given
		if depth < 3 && builtinName(ci) == "" {
			ts, _ := k.x.callTargets(ci.Common(), env)
			for _, tg := range ts {
				if gives(tg) {
					ne := k.x.activate(tg, ci.Common().Args, env, in, "call")
					if ip, iw := k.afterSignal(tg.Fn, ne, cleanup, depth+1); ip != "" {
						note(ip, iw)
					}
					return st | 1
				}
			}
		}
		return st
	}}
	ff.Run()
	return pos, what
}

// checkPeriodic: the goroutine mutates the store only through Cleanup, synchronously.
func (k *c15K) checkPeriodic(ctx *c15Ctx, g c15Go, gname string, cleanup *ssa.Function) {
	p, r := k.p, k.r
	detached, detachedPos := "", ""
	badCall, badPos := "", ""
	hasJoin := false
	isCleanup := func(f *ssa.Function) bool { return cleanup != nil && f == origin(cleanup) }
	underGoInG := func(env *c15Env, in ssa.Instruction) bool {
		if _, isGo := in.(*ssa.Go); isGo {
			return true
		}
		for e := env; e != nil && e != g.Env; e = e.up {
			if e.how == "go" {
				return true
			}
		}
		return false
	}
	var unresolved []string
	k.x.walk(ctx, g.Tg.Fn, g.Env, nil, func(in ssa.Instruction, env *c15Env) {
		ci, ok := in.(ssa.CallInstruction)
		if !ok {
			return
		}
		if callIs(ci, "sync", "WaitGroup", "Wait") && k.wgOp(in, "Wait") != k.runF {
			hasJoin = true
		}
		if name, _, isMap := k.mapMethod(in, env); isMap {
			if c15ReadOnlyMapMethod(name) {
				return
			}
			if name != "Del" && name != "GetAndDel" {
				badCall, badPos = "Map."+name+" on the store", p.Pos(instrPos(in))
			}
			if underGoInG(env, in) && detached == "" {
				detached, detachedPos = "Map."+name+" on the store", p.Pos(instrPos(in))
			}
			return
		}
		if _, isGo := in.(*ssa.Go); isGo {
			ts, _ := k.x.callTargets(ci.Common(), env)
			for _, tg := range ts {
				if k.x.inlinable(tg.Fn) && (isCleanup(tg.Fn) || k.reachesMutation(tg, env)) {
					detached, detachedPos = FuncName(p, tg.Fn), p.Pos(instrPos(in))
				}
			}
		}
	}, func(in ssa.Instruction, env *c15Env) {
		unresolved = append(unresolved, p.Pos(instrPos(in)))
	})
	// every delete the goroutine can perform (through Cleanup or otherwise,
	// through whatever func value) removes expired entries only
	construct := gname + " removes only expired entries"
	viol, violPos, undec, nOK := "", "", "", 0
	a := k.analyseDeletes(ctx, g.Tg.Fn, g.Env)
	k.expiredOnly(ctx, a, gname, c15Sink{
		ok: func(c, pos, msg string) { nOK++ },
		viol: func(c, pos, msg string, wit ...string) {
			if viol == "" {
				viol, violPos = c+": "+msg, pos
			}
		},
		undec: func(format string, args ...any) { undec = fmt.Sprintf(format, args...) },
	})
	switch {
	case badCall != "":
		r.Violation("C15.U3-periodic-via-cleanup", construct, badPos, "the background goroutine can call "+badCall+" (at "+badPos+"): the periodic cleaner rewrites entries instead of only removing expired ones")
	case viol != "":
		r.Violation("C15.U3-periodic-via-cleanup", construct, violPos, "a delete the background goroutine can perform (directly, through a helper, a method value, a func variable or a phi of them) is not restricted to expired entries — "+viol+" — so the periodic cleaner makes live entries of keys nobody touched disappear (e.g. a key Set shortly before the tick)")
	case len(unresolved) > 0:
		r.Undecide("%s: a call through a func value at %s has targets that cannot be resolved; cannot decide what the periodic cleaner removes", gname, strings.Join(unresolved, ", "))
	case undec != "":
		r.Undecide("%s: %s", construct, undec)
	default:
		r.OK("C15.U3-periodic-via-cleanup", construct, p.Pos(g.Tg.Fn.Pos()),
			fmt.Sprintf("all %d key commits reachable from the goroutine (through Cleanup, helpers or func values) are made under clock.Now() >(=) entry.exp; no other mutation of the store", nOK))
	}
	switch {
	case detached != "" && hasJoin:
		r.Undecide("%s: %s is started with `go` at %s inside the cleaner and a WaitGroup.Wait is present; whether it is joined before the done signal is not analysed", gname, detached, detachedPos)
	case detached != "":
		r.Violation("C15.U4-cleaner-synchronous", gname+" cleans synchronously", detachedPos,
			"the cleaner starts "+detached+" with `go` (at "+detachedPos+") and never joins it: when the stop channel is closed the loop exits and signals done while that detached goroutine may still be scanning and deleting — Stop returns before the background cleaning has ended")
	default:
		r.OK("C15.U4-cleaner-synchronous", gname+" cleans synchronously", p.Pos(g.Tg.Fn.Pos()),
			"no call that can reach a mutation of the store is started with `go` inside the cleaner (or inside Cleanup)")
	}
}

// checkWaits: every blocking operation of the goroutine (in its body or in the
// helpers it calls, Cleanup excluded) is a select with a stop-channel case, and
// after that case fires the wait is not reached again.
func (k *c15K) checkWaits(ctx *c15Ctx, g c15Go, gname, runName, stpName string) {
	p, r := k.p, k.r
	cleanup := p.FuncOpt("ttlcache", "Cache.Cleanup")
	nWait := 0
	k.x.walk(ctx, g.Tg.Fn, g.Env, func(f *ssa.Function) bool { return cleanup != nil && f == origin(cleanup) }, func(in ssa.Instruction, env *c15Env) {
		switch t := in.(type) {
		case *ssa.UnOp:
			if t.Op != token.ARROW {
				return
			}
			nWait++
			construct := k.waitName(gname, nWait)
			if k.chanField(t.X, env) == k.stpF {
				r.OK("C15.U4-cleaner-stopcase", construct, p.Pos(instrPos(in)), "plain wait on the stop channel")
				return
			}
			r.Violation("C15.U4-cleaner-stopcase", construct, p.Pos(instrPos(in)), "the cleaner goroutine blocks on a receive (at "+p.Pos(instrPos(in))+") where a close of "+stpName+" cannot wake it: Stop never returns")
		case *ssa.Send:
			nWait++
			r.Undecide("%s: the cleaner goroutine sends on a channel at %s; whether Stop can always get past it is not analysed", k.waitName(gname, nWait), p.Pos(instrPos(in)))
		case *ssa.Call:
			if callIs(t, "sync", "WaitGroup", "Wait") {
				nWait++
				r.Undecide("%s: the cleaner goroutine waits on a WaitGroup at %s; not analysed", k.waitName(gname, nWait), p.Pos(instrPos(in)))
			}
		case *ssa.Select:
			if !t.Blocking {
				return
			}
			nWait++
			construct := k.waitName(gname, nWait)
			pos := p.Pos(instrPos(in))
			si := decodeSelect(t)
			var stopBody *ssa.BasicBlock
			has := false
			for i, s := range t.States {
				if s.Dir == types.RecvOnly && k.chanField(s.Chan, env) == k.stpF {
					has = true
					if i < len(si.Cases) {
						stopBody = si.Cases[i].Body
					}
				}
			}
			if !has {
				r.Violation("C15.U4-cleaner-stopcase", construct, pos, "the cleaner's select has no case on "+stpName+": the goroutine never exits and Stop never returns")
				return
			}
			if stopBody == nil {
				r.Undecide("%s: the body of the stop-channel case could not be located", construct)
				return
			}
			switch k.waitsAgain(stopBody, in.Block(), env, g.Env, 0) {
			case 2:
				r.Violation("C15.U4-cleaner-stopcase", construct, pos, "after the "+stpName+" case of the cleaner's select fires, control goes back to the same wait unconditionally instead of leaving the loop: the goroutine never exits and Stop never returns")
			case 1:
				r.Undecide("%s: after the stop-channel case fires the wait can be reached again through a branch whose outcome could not be determined", construct)
			default:
				r.OK("C15.U4-cleaner-stopcase", construct, pos, "select has a stop-channel case after which the wait is not reached again")
			}
		}
	}, nil)
	if nWait == 0 {
		r.Undecide("%s: no wait found in the cleaner goroutine or the helpers it calls", gname)
	}
}

func (k *c15K) waitName(gname string, n int) string {
	if n > 1 {
		return fmt.Sprintf("%s wait #%d", gname, n)
	}
	return gname + " wait"
}

// waitsAgain: after control enters `from` (the stop case body) can the block
// `target` (holding the wait) of activation env be reached again? When the
// activation returns, the search continues in its caller with the returned
// constant known, up to the goroutine's own activation.
func (k *c15K) waitsAgain(from, target *ssa.BasicBlock, env, root *c15Env, depth int) int {
	best := 0
	if from == target {
		return 2 // the case has no body of its own: it falls straight back into the wait
	}
	var pred *ssa.BasicBlock
	if len(from.Preds) == 1 {
		pred = from.Preds[0]
	}
	type retInfo struct {
		val     *bool
		certain bool
	}
	var rets []retInfo
	res := c15Reach(from, pred, target, map[ssa.Value]bool{}, func(ret *ssa.Return, kn map[ssa.Value]bool, certain bool) {
		ri := retInfo{certain: certain}
		if len(ret.Results) == 1 {
			if c, ok := ret.Results[0].(*ssa.Const); ok && c.Value != nil && c.Value.Kind() == constant.Bool {
				b := constant.BoolVal(c.Value)
				ri.val = &b
			} else if b, ok := kn[ret.Results[0]]; ok {
				ri.val = &b
			}
		}
		rets = append(rets, ri)
	})
	if res > best {
		best = res
	}
	if env == root || env == nil || env.via == nil || depth > 4 {
		return best // returning from the goroutine body ends it
	}
	call, isCall := env.via.(*ssa.Call)
	if !isCall || env.how != "call" {
		// deferred / callback activations: what runs next is not modelled
		if len(rets) > 0 && best < 1 {
			best = 1
		}
		return best
	}
	for _, ri := range rets {
		known := map[ssa.Value]bool{}
		if ri.val != nil {
			known[call] = *ri.val
		}
		// continue after the call: the wait is reached again iff the call is executed again
		var sub int
		subRets := 0
		sub = c15Reach(call.Block(), nil, call.Block(), known, func(*ssa.Return, map[ssa.Value]bool, bool) { subRets++ })
		if sub == 0 && subRets > 0 && env.up != root && env.up != nil {
			// the caller itself returns: go one level further up without value knowledge
			if k.callerLoops(env.up, root, depth+1) {
				sub = 1
			}
		}
		if !ri.certain && sub == 2 {
			sub = 1
		}
		if sub > best {
			best = sub
		}
	}
	return best
}

// callerLoops: the call that created activation env sits on a cycle of its caller (conservative).
func (k *c15K) callerLoops(env, root *c15Env, depth int) bool {
	if env == nil || env == root || env.via == nil || depth > 4 {
		return false
	}
	b := env.via.Block()
	for _, s := range b.Succs {
		if reachableFrom(s, nil)[b] {
			return true
		}
	}
	return k.callerLoops(env.up, root, depth+1)
}

// -------------------------------------------------------------- U6 writers

func (k *c15K) checkWriters() {
	p, r := k.p, k.r
	// same key at Get / Set / Delete
	type keySite struct {
		construct, pos string
		raw            bool
	}
	var ks []keySite
	for _, spec := range [][2]string{{"Cache.Get", "Get"}, {"Cache.Set", "Set"}, {"Cache.Delete", "Del"}} {
		fn := p.Func("ttlcache", spec[0])
		nSite := 0
		k.x.walk(k.x.newCtx(), fn, nil, nil, func(in ssa.Instruction, env *c15Env) {
			cc, ok := k.mapCallE(in, env, spec[1])
			if !ok && spec[1] == "Del" {
				cc, ok = k.mapCallE(in, env, "GetAndDel")
			}
			if !ok || len(cc.Args) < 2 {
				return
			}
			nSite++
			keys := []ssa.Value{cc.Args[1]}
			if n, _, _ := k.mapMethod(in, env); n == "Del" {
				sv, senv := k.x.strip(cc.Args[1], env)
				if elems, ok := varargsElems(sv); ok {
					keys, env = elems, senv
				}
			}
			raw := len(keys) > 0
			for _, kv := range keys {
				sv, _ := k.x.strip(kv, env)
				if pa, ok := sv.(*ssa.Parameter); !ok || pa.Parent() != fn {
					raw = false
				}
			}
			construct := FuncName(p, fn) + " key passed to Map." + spec[1]
			if nSite > 1 {
				construct += fmt.Sprintf(" #%d", nSite)
			}
			ks = append(ks, keySite{construct, p.Pos(instrPos(in)), raw})
		}, nil)
	}
	nRaw := 0
	for _, s := range ks {
		if s.raw {
			nRaw++
		}
	}
	for _, s := range ks {
		switch {
		case s.raw:
			r.OK("C15.U6-same-key", s.construct, s.pos, "the key parameter reaches the map unchanged")
		case nRaw == 0:
			r.Undecide("%s: no site passes the key parameter unchanged; consistency of the key transformation is not analysed", s.construct)
		default:
			r.Undecide("%s (at %s) passes something other than the key parameter while other sites pass it unchanged: if the two differ, Get cannot see what Set stored / Delete removes another entry — cannot decide whether the transformation is the identity", s.construct, s.pos)
		}
	}

	// mutation sites belong to the audited entry points
	allowed := map[string][]string{
		"Set":       {"Cache.Set"},
		"Del":       {"Cache.Delete", "Cache.Cleanup", "Cache.Reset", "cleaner goroutine"},
		"GetAndDel": {"Cache.Delete"},
	}
	reach := map[string]map[*ssa.Function]bool{}
	for _, api := range []string{"Cache.Set", "Cache.Delete", "Cache.Cleanup", "Cache.Reset"} {
		if fn := p.FuncOpt("ttlcache", api); fn != nil {
			reach[api] = k.visited(fn)
		}
	}
	// the deletes of the goroutine NewCache starts are audited by U3-periodic
	gReach := map[*ssa.Function]bool{}
	for _, g := range k.goSites() {
		gReach[origin(g.Tg.Fn)] = true
		k.x.walk(k.x.newCtx(), g.Tg.Fn, g.Env, nil, func(in ssa.Instruction, env *c15Env) {
			gReach[origin(in.Parent())] = true
		}, nil)
	}
	reach["cleaner goroutine"] = gReach
	for _, fn := range p.FuncsOfPkg("ttlcache") {
		allInstrs(fn, func(in ssa.Instruction) {
			ci, isCall := in.(ssa.CallInstruction)
			if !isCall {
				return
			}
			name := ""
			if n, _, ok := k.mapMethod(in, nil); ok {
				name = n
			} else if obj := calleeObj(ci); obj != nil {
				if obj.Pkg() == nil || obj.Pkg().Path() != c15Hax {
					return
				}
				if sig, ok := obj.Type().(*types.Signature); !ok || sig.Recv() == nil {
					return // constructors
				}
				name = obj.Name()
			}
			if name == "" || c15ReadOnlyMapMethod(name) {
				return
			}
			var owners []string
			for _, api := range allowed[name] {
				if reach[api][origin(fn)] {
					owners = append(owners, api)
				}
			}
			for _, api := range owners {
				r.OK("C15.U6-writers", fmt.Sprintf("ttlcache.%s reaches Map.%s", api, name), p.Pos(instrPos(in)), "audited mutation site (in "+FuncName(p, fn)+")")
			}
			if len(owners) > 0 {
				return
			}
			r.Undecide("Map.%s in %s at %s: a mutation of the store outside the audited entry points (Set in Set; Del in Delete/Cleanup/Reset) — the rules do not cover it", name, FuncName(p, fn), p.Pos(instrPos(in)))
		})
	}
}
