package main

// C12: life-cycle channels (K4) and the fatal-shutdown closer (K5).

import (
	"fmt"
	"go/token"
	"go/types"
	"sort"
	"strings"

	"golang.org/x/tools/go/ssa"
)

func c12ChanField(f FieldID) string { return "field:" + f.Type + "." + f.Field }

func c12IsClose(in ssa.Instruction, ch string) bool {
	ci, ok := in.(ssa.CallInstruction)
	if !ok || builtinName(ci) != "close" || len(ci.Common().Args) != 1 {
		return false
	}
	return chanIdent(ci.Common().Args[0]) == ch
}

func c12Join(m map[string]bool) string {
	var s []string
	for k := range m {
		s = append(s, k)
	}
	sort.Strings(s)
	return strings.Join(s, "; ")
}

// c12WaitsOn: every return of fn is dominated by a plain receive on channel ch.
func c12WaitsOn(fn *ssa.Function, ch string) bool {
	var rs []*ssa.UnOp
	allInstrs(fn, func(in ssa.Instruction) {
		if u, ok := in.(*ssa.UnOp); ok && u.Op == token.ARROW && chanIdent(u.X) == ch {
			rs = append(rs, u)
		}
	})
	rets := c12Returns(fn)
	if len(rets) == 0 {
		return false
	}
	for _, ret := range rets {
		ok := false
		for _, u := range rs {
			if instrDominates(u, ret) {
				ok = true
			}
		}
		if !ok {
			return false
		}
	}
	return true
}

func (x *c12) checkStopped() {
	r, p := x.r, x.p
	stopped := c12ChanField(x.cmStopped)

	// (a) every close(stopped) is on the success edge of the running test-and-set
	nSites := 0
	for _, fn := range p.FuncsOfPkg("concurrency") {
		own := c12OwnEdges(fn, x.cmRunning)
		for _, cl := range closeSites(fn) {
			if cl.Chan != stopped {
				continue
			}
			nSites++
			r.Check(c12AnyDominates(own, cl.Instr.Block()), "C12.K4-stopped", FuncName(p, fn)+" close(stopped) guarded", x.pos(cl.Instr),
				"close(stopped) happens only after this caller switched running from false to true (at most one close per manager)",
				"close(stopped) is not dominated by the success edge of the atomic test-and-set of running: Run and Close (or two Close calls) can both close it — panic — or it is closed while the manager was never owned")
		}
	}
	if nSites == 0 {
		r.Violation("C12.K4-stopped", FuncName(p, x.cmRun)+" close(stopped) guarded", p.Pos(x.cmRun.Pos()), "stopped is never closed: Close and WaitUntilShutdown never return")
	}

	// (b) Run: closes stopped on every owned return, after retErr was stored
	{
		fn := x.cmRun
		own := c12OwnEdges(fn, x.cmRunning)
		const (
			bStored = 1 << 0
			bReg    = 1 << 1
			bClosed = 1 << 2
		)
		probs := map[string]bool{}
		nStore := 0
		fl := &c12Flow{Fn: fn, Entry: 1,
			Instr: func(in ssa.Instruction, replay bool, st uint64) uint64 {
				if s, ok := in.(*ssa.Store); ok {
					if fa, ok := s.Addr.(*ssa.FieldAddr); ok && fieldIDOfAddr(fa) == x.cmRetErr {
						nStore++
						return mapStates(st, func(s int) int {
							if s&bClosed != 0 {
								probs["retErr is stored at "+x.pos(in)+" after stopped was closed: a Close call released by stopped can read the old value"] = true
							}
							return s | bStored
						})
					}
				}
				if !c12IsClose(in, stopped) {
					return st
				}
				if _, isDefer := in.(*ssa.Defer); isDefer {
					if !replay {
						return mapStates(st, func(s int) int { return s | bReg })
					}
					return mapStates(st, func(s int) int {
						if s&bReg == 0 {
							return s
						}
						return s | bClosed
					})
				}
				return mapStates(st, func(s int) int { return s | bClosed })
			}}
		fl.Run()
		fl.AtReturns(func(ret *ssa.Return, st uint64) {
			if !c12AnyDominates(own, ret.Block()) {
				return
			}
			c12ForStates(st, func(s int) {
				if s&bClosed == 0 {
					probs["Run can return at "+x.pos(ret)+" after winning running without closing stopped: Close / WaitUntilShutdown block forever"] = true
				} else if s&bStored == 0 {
					probs["Run can close stopped and return at "+x.pos(ret)+" without having stored retErr: Close returns nil instead of the joined error"] = true
				}
			})
		})
		r.Check(len(probs) == 0, "C12.K4-stopped", FuncName(p, fn)+" retErr then close(stopped)", p.Pos(fn.Pos()),
			"on every owned return retErr is stored and then stopped is closed", c12Join(probs))
	}

	// (c,d) Close
	{
		fn := x.cmClose
		own := c12OwnEdges(fn, x.cmRunning)
		isOwn := func(from, to *ssa.BasicBlock) bool {
			for _, e := range own {
				if e.From == from && e.To() == to {
					return true
				}
			}
			return false
		}
		isWait := func(in ssa.Instruction) bool {
			switch v := in.(type) {
			case *ssa.UnOp:
				return v.Op == token.ARROW && chanIdent(v.X) == stopped
			case *ssa.Call:
				if f := staticCallee(v); f != nil && x.p.InModule(f) && len(f.Blocks) > 0 {
					return c12WaitsOn(f, stopped)
				}
			}
			return false
		}
		const (
			bOwn    = 1 << 0
			bClosed = 1 << 1
			bWaited = 1 << 2
			bTried  = 1 << 3
		)
		isTry := map[ssa.Instruction]bool{}
		for _, e := range own {
			isTry[e.Call] = true
		}
		probs := map[string]bool{}
		nWait := 0
		fl := &c12Flow{Fn: fn, Entry: 1,
			Instr: func(in ssa.Instruction, replay bool, st uint64) uint64 {
				if c12IsClose(in, stopped) {
					if _, isDefer := in.(*ssa.Defer); isDefer && !replay {
						return st
					}
					return mapStates(st, func(s int) int { return s | bClosed })
				}
				if isTry[in] {
					return mapStates(st, func(s int) int { return s | bTried })
				}
				if isWait(in) {
					nWait++
					return mapStates(st, func(s int) int {
						if s&bTried == 0 && len(own) > 0 {
							probs["Close waits for stopped at "+x.pos(in)+" before trying to take running: on a manager that never ran nobody closes stopped and Close blocks forever instead of returning at once"] = true
						}
						if s&bOwn != 0 && s&bClosed == 0 {
							probs["Close on a manager that never ran waits for stopped at "+x.pos(in)+" before closing it: it blocks forever instead of returning at once"] = true
						}
						return s | bWaited
					})
				}
				if u, ok := in.(*ssa.UnOp); ok && u.Op == token.MUL {
					if id, _, ok := fieldOfValue(u); ok && id == x.cmRetErr {
						c12ForStates(st, func(s int) {
							if s&bWaited == 0 {
								probs["Close reads retErr at "+x.pos(in)+" before waiting for stopped: it can return before the closers finished, with a stale error"] = true
							}
						})
					}
				}
				return st
			},
			Edge: func(from, to *ssa.BasicBlock, st uint64) uint64 {
				if isOwn(from, to) {
					return mapStates(st, func(s int) int { return s | bOwn })
				}
				return st
			}}
		fl.Run()
		fl.AtReturns(func(ret *ssa.Return, st uint64) {
			c12ForStates(st, func(s int) {
				if s&bWaited == 0 {
					probs["Close can return at "+x.pos(ret)+" without waiting for stopped: it returns before the closers finished"] = true
				}
				if s&bOwn != 0 && s&bClosed == 0 {
					probs["Close wins running at a never-run manager but returns at "+x.pos(ret)+" without closing stopped"] = true
				}
			})
			for _, root := range c12ReturnRoots(ret, 0) {
				if id, _, ok := fieldOfValue(root); !ok || id != x.cmRetErr {
					probs["Close returns at "+x.pos(ret)+" something other than retErr (the joined runner and closer errors stored by Run)"] = true
				}
			}
		})
		r.Check(len(probs) == 0, "C12.K4-stopped", FuncName(p, fn)+" wait then retErr", p.Pos(fn.Pos()),
			"Close closes stopped itself when it wins running, waits for stopped on every path, then returns retErr", c12Join(probs))
		r.Check(len(own) > 0, "C12.K4-stopped", FuncName(p, fn)+" takes running", p.Pos(fn.Pos()),
			"Close test-and-sets the same running flag as Run (a later Run is refused)",
			"Close no longer test-and-sets RunnerCloserManager.running: Close on a manager that never ran does not prevent a later Run (or blocks forever waiting for stopped)")
	}
}

// c12VarargVals: values stored into the backing array of a variadic slice argument.
func c12VarargVals(v ssa.Value) []ssa.Value {
	sl, ok := v.(*ssa.Slice)
	if !ok {
		return nil
	}
	var out []ssa.Value
	for _, r := range refs(sl.X) {
		if ia, ok := r.(*ssa.IndexAddr); ok {
			for _, rr := range refs(ia) {
				if st, ok := rr.(*ssa.Store); ok && st.Addr == ssa.Value(ia) {
					out = append(out, st.Val)
				}
			}
		}
	}
	return out
}

func c12ClosureOf(v ssa.Value) *ssa.Function {
	for _, r := range c12Roots(v, nil) {
		if mc, ok := r.(*ssa.MakeClosure); ok {
			if f, ok := mc.Fn.(*ssa.Function); ok {
				return f
			}
		}
		if f, ok := r.(*ssa.Function); ok {
			return f
		}
	}
	return nil
}

func (x *c12) atomicBoolFields() []FieldID {
	var out []FieldID
	st := x.p.Named("concurrency", "RunnerCloserManager").Underlying().(*types.Struct)
	for i := 0; i < st.NumFields(); i++ {
		if namedKey(st.Field(i).Type()) == "sync/atomic.Bool" {
			out = append(out, FieldID{x.pkg + ".RunnerCloserManager", st.Field(i).Name()})
		}
	}
	return out
}

func (x *c12) checkCloseCh() {
	r, p := x.r, x.p
	closeCh := c12ChanField(x.cmCloseCh)
	// (a) guarded close in Close, executed on the owning edge
	{
		fn := x.cmClose
		construct := FuncName(p, fn) + " close(closeCh) once"
		var own []c12Edge
		for _, f := range x.atomicBoolFields() {
			own = append(own, c12OwnEdges(fn, f)...)
		}
		n := 0
		probs := map[string]bool{}
		for _, f := range p.FuncsOfPkg("concurrency") {
			for _, cl := range closeSites(f) {
				if cl.Chan != closeCh {
					continue
				}
				if f != fn {
					var o2 []c12Edge
					for _, fld := range x.atomicBoolFields() {
						o2 = append(o2, c12OwnEdges(f, fld)...)
					}
					if !c12AnyDominates(o2, cl.Instr.Block()) {
						probs["closeCh is also closed in "+FuncName(p, f)+" without a test-and-set guard: a second close panics"] = true
					}
					continue
				}
				n++
				if !c12AnyDominates(own, cl.Instr.Block()) {
					probs["close(closeCh) at "+x.pos(cl.Instr)+" is not guarded by the success edge of an atomic test-and-set: a repeated or concurrent Close closes it twice and panics"] = true
				}
			}
		}
		if n == 0 {
			probs["Close no longer closes closeCh: Close during Run does not make the runners stop, so it waits until they end by themselves"] = true
		}
		r.Check(len(probs) == 0, "C12.K4-closech", construct, p.Pos(fn.Pos()), "closeCh closed exactly by the first Close", c12Join(probs))
	}
	// (b) Run registers the stop runner before starting the inner manager
	{
		fn := x.cmRun
		construct := FuncName(p, fn) + " stop runner on closeCh"
		var addCall *ssa.Call
		var stopFn *ssa.Function
		allInstrs(fn, func(in ssa.Instruction) {
			call, ok := in.(*ssa.Call)
			if !ok || !callIs(call, x.pkg, "RunnerManager", "Add") || len(call.Call.Args) < 2 {
				return
			}
			for _, v := range c12VarargVals(call.Call.Args[1]) {
				if f := c12ClosureOf(v); f != nil {
					allInstrs(f, func(j ssa.Instruction) {
						if sel, ok := j.(*ssa.Select); ok && sel.Blocking {
							for _, st := range sel.States {
								if st.Dir == types.RecvOnly && chanIdent(st.Chan) == closeCh {
									addCall, stopFn = call, f
								}
							}
						}
					})
				}
			}
		})
		if addCall == nil {
			// maybe a plain receive on closeCh
			r.Violation("C12.K4-closech", construct, p.Pos(fn.Pos()), "Run no longer adds to the inner manager a runner that waits (select) for closeCh: Close during Run cannot stop the runners and blocks until they end by themselves")
			return
		}
		probs := map[string]bool{}
		// the stop runner: select{ctx.Done, closeCh}, then returns
		allInstrs(stopFn, func(j ssa.Instruction) {
			sel, ok := j.(*ssa.Select)
			if !ok || !sel.Blocking {
				return
			}
			hasDone := false
			for _, st := range sel.States {
				if call, ok := st.Chan.(*ssa.Call); ok && st.Dir == types.RecvOnly && call.Call.IsInvoke() && call.Call.Method.Name() == "Done" && len(stopFn.Params) > 0 && call.Call.Value == ssa.Value(stopFn.Params[0]) {
					hasDone = true
				}
			}
			if !hasDone {
				probs["the stop runner does not also wait for its own ctx.Done(): when the user's runners have all returned it keeps the inner manager (and so Run) from returning until Close is called"] = true
			}
			if c12InAnyCycle(sel.Block()) {
				probs["the stop runner loops around its select instead of returning"] = true
			}
		})
		// before the inner manager starts
		started := false
		allInstrs(fn, func(in ssa.Instruction) {
			switch v := in.(type) {
			case *ssa.Go:
				if f := staticCallee(v); f != nil {
					inner := false
					allInstrs(f, func(j ssa.Instruction) {
						if c, ok := j.(*ssa.Call); ok && x.isInnerRunCall(c) {
							inner = true
						}
					})
					if inner {
						started = true
						if !instrDominates(addCall, v) && !c12IsGuardOnly(addCall, v) {
							probs["the inner manager is started at "+x.pos(v)+" on a path that does not pass the registration of the stop runner"] = true
						}
					}
				}
			case *ssa.Call:
				if x.isInnerRunCall(v) {
					started = true
					if !instrDominates(addCall, v) && !c12IsGuardOnly(addCall, v) {
						probs["the inner manager is run at "+x.pos(v)+" on a path that does not pass the registration of the stop runner"] = true
					}
				}
			}
		})
		_ = started
		// guard conditions of the registration
		for _, dc := range domConds(addCall.Block()) {
			if call, _, ok := boolCallCond(dc.If.Cond, dc.Branch); ok && callIs(call, "sync/atomic", "Bool", call.Call.Value.Name()) {
				continue
			}
			if call, _, ok := boolCallCond(dc.If.Cond, dc.Branch); ok {
				if obj := calleeObj(call); obj != nil && obj.Pkg() != nil && obj.Pkg().Path() == "sync/atomic" {
					continue
				}
			}
			cmp, ok := decodeCond(dc.If.Cond, dc.Branch)
			if !ok {
				r.Undecide("%s: the registration of the stop runner is under a condition the check cannot classify (%s)", construct, x.pos(dc.If))
				return
			}
			lenV, k, op := cmp.X, cmp.Y, cmp.Op
			if _, isC := c12ConstInt(lenV); isC {
				lenV, k = cmp.Y, cmp.X
				switch op {
				case token.LSS:
					op = token.GTR
				case token.GTR:
					op = token.LSS
				case token.LEQ:
					op = token.GEQ
				case token.GEQ:
					op = token.LEQ
				}
			}
			s, off, isLen := c12LenExpr(lenV)
			kc, isC := c12ConstInt(k)
			if !isLen || !isC || !c12IsFieldLoad(s, nil, x.rmRunners) {
				r.Undecide("%s: the registration of the stop runner is under a condition the check cannot classify (%s)", construct, x.pos(dc.If))
				return
			}
			kc -= off
			okGuard := (op == token.GTR && kc <= 0) || (op == token.NEQ && kc == 0) || (op == token.GEQ && kc <= 1)
			if !okGuard {
				probs[fmt.Sprintf("the stop runner is registered only if len(runners) %s %d: with a non-empty set of runners below that bound, Close during Run does not stop them (it blocks until they end by themselves)", op, kc)] = true
			}
		}
		r.Check(len(probs) == 0, "C12.K4-closech", construct, x.pos(addCall),
			"a runner returning on closeCh or ctx.Done is registered whenever there are runners, before the inner manager starts", c12Join(probs))
	}
}

// c12IsGuardOnly: a does not dominate b only because a sits under conditions
// (if len(runners) > 0 { add }); i.e. a's block is followed by b's block on
// every path from a, and a precedes b (a's block reaches b, b's does not reach a).
func c12IsGuardOnly(a, b ssa.Instruction) bool {
	return c12Reaches(a.Block(), b.Block()) && !c12Reaches(b.Block(), a.Block())
}

func (x *c12) checkFatal() {
	r, p := x.r, x.p
	closeFatal := c12ChanField(x.cmCloseFatal)
	// the grace period parameter of the constructor
	var graceParam *ssa.Parameter
	for _, pa := range x.cmNew.Params {
		if pt, ok := pa.Type().Underlying().(*types.Pointer); ok && namedKey(pt.Elem()) == "time.Duration" {
			graceParam = pa
		}
	}
	if graceParam == nil {
		r.Undecide("NewRunnerCloserManager no longer takes the grace period as *time.Duration")
		return
	}

	// (a) call sites of fatalShutdownFn
	type site struct {
		fn   *ssa.Function
		call ssa.CallInstruction
	}
	var sites []site
	for _, fn := range p.FuncsOfPkg("concurrency") {
		allInstrs(fn, func(in ssa.Instruction) {
			ci, ok := in.(ssa.CallInstruction)
			if !ok || ci.Common().IsInvoke() {
				return
			}
			if id, _, ok := fieldOfValue(ci.Common().Value); ok && id == x.cmFatalFn {
				sites = append(sites, site{fn, ci})
			}
		})
	}
	if len(sites) == 0 {
		r.Violation("C12.K5-fatal", "concurrency fatalShutdownFn call", p.Pos(x.cmNew.Pos()), "fatalShutdownFn is never called: closers that outlast the grace period are not cut short")
		return
	}
	var fatalFn *ssa.Function
	for _, s := range sites {
		fname := FuncName(p, s.fn)
		construct := fname + " fatalShutdownFn on timer case"
		probs := map[string]bool{}
		var sel *SelectInfo
		allInstrs(s.fn, func(in ssa.Instruction) {
			if se, ok := in.(*ssa.Select); ok && se.Blocking {
				si := decodeSelect(se)
				for _, cs := range si.Cases {
					if cs.Body != nil && len(cs.Body.Preds) == 1 && cs.Body.Dominates(s.call.Block()) {
						sel = si
					}
				}
			}
		})
		if _, isDefer := s.call.(*ssa.Defer); isDefer || sel == nil {
			r.Violation("C12.K5-fatal", construct, x.pos(s.call), "fatalShutdownFn is called outside a case of a blocking select: it fires regardless of whether the closers outlasted the grace period")
			continue
		}
		fatalFn = s.fn
		var timerCase, releaseCase *SelCase
		sharedBody := false
		for i := range sel.Cases {
			cs := &sel.Cases[i]
			for j := range sel.Cases {
				if i != j && sel.Cases[j].Body == cs.Body {
					sharedBody = true
				}
			}
			if cs.Dir != types.RecvOnly {
				continue
			}
			if cs.Chan == closeFatal {
				releaseCase = cs
			} else if d := x.timerDuration(cs.ChanV); d != nil {
				timerCase = cs
				ok := false
				if u, isU := d.(*ssa.UnOp); isU && u.Op == token.MUL && c12OnlyRoot(u.X, nil, graceParam) {
					ok = true
				}
				if !ok {
					probs["the timer of the fatal closer at "+x.pos(sel.Sel)+" is not set to *gracePeriod (the constructor's grace period): the fatal action fires earlier or later than the grace period"] = true
				}
			}
		}
		if timerCase == nil {
			probs["the select around the fatalShutdownFn call has no grace-timer case"] = true
		}
		if releaseCase == nil {
			probs["the select around the fatalShutdownFn call has no case on closeFatalShutdown: the fatal closer can only end through its timer, so the fatal action fires even when all closers finished in time"] = true
		}
		if timerCase != nil && !sharedBody {
			if !(timerCase.Body != nil && len(timerCase.Body.Preds) == 1 && timerCase.Body.Dominates(s.call.Block())) {
				probs["fatalShutdownFn is called at "+x.pos(s.call)+" on a case other than the grace timer (e.g. when closeFatalShutdown is closed): it fires although the closers finished within the grace period"] = true
			}
			// always on the timer case
			body := timerCase.Body
			const bT, bF = 1, 2
			fl := &c12Flow{Fn: s.fn, Entry: 1,
				Instr: func(in ssa.Instruction, replay bool, st uint64) uint64 {
					if in == s.call.(ssa.Instruction) {
						return mapStates(st, func(s int) int { return s | bF })
					}
					return st
				},
				Edge: func(from, to *ssa.BasicBlock, st uint64) uint64 {
					if to == body {
						return mapStates(st, func(s int) int { return s | bT })
					}
					return st
				}}
			fl.Run()
			fl.AtReturns(func(ret *ssa.Return, st uint64) {
				c12ForStates(st, func(s int) {
					if s&bT != 0 && s&bF == 0 {
						probs["the grace timer case can return at "+x.pos(ret)+" without calling fatalShutdownFn: closers outlasting the grace period are not cut short"] = true
					}
				})
			})
		} else if sharedBody {
			r.Undecide("%s: select cases share a body", construct)
		}
		r.Check(len(probs) == 0, "C12.K5-fatal", construct, x.pos(s.call), "fatalShutdownFn is called exactly on the *gracePeriod timer case; the other case is closeFatalShutdown", c12Join(probs))
	}

	// (b) registration iff gracePeriod != nil
	if fatalFn != nil {
		construct := FuncName(p, x.cmNew) + " registers fatal closer iff grace period"
		var reg *ssa.Call
		allInstrs(x.cmNew, func(in ssa.Instruction) {
			call, ok := in.(*ssa.Call)
			if !ok || staticCallee(call) != x.cmAddCloser || len(call.Call.Args) < 2 {
				return
			}
			for _, v := range c12VarargVals(call.Call.Args[1]) {
				if c12ClosureOf(v) == fatalFn {
					reg = call
				}
			}
		})
		if fatalFn.Parent() != x.cmNew {
			r.Undecide("%s: the function calling fatalShutdownFn is not a closure of the constructor", construct)
		} else if reg == nil {
			r.Violation("C12.K5-fatal", construct, p.Pos(x.cmNew.Pos()), "the constructor no longer registers the fatal-shutdown closer with AddCloser: the fatal action never fires")
		} else {
			guarded := false
			for _, dc := range domConds(reg.Block()) {
				if cmp, ok := decodeCond(dc.If.Cond, dc.Branch); ok && cmp.Op == token.NEQ {
					a, b := cmp.X, cmp.Y
					if isNilConst(a) {
						a, b = b, a
					}
					if isNilConst(b) && c12OnlyRoot(a, nil, graceParam) {
						guarded = true
					}
				}
			}
			r.Check(guarded, "C12.K5-fatal", construct, x.pos(reg), "fatal closer registered exactly when gracePeriod != nil",
				"the fatal closer is registered without the gracePeriod != nil guard: with the grace period unset it dereferences nil / fires although no grace period applies")
		}
	}

	// (c) release when only the fatal closer remains
	{
		fn := x.cmRun
		construct := FuncName(p, fn) + " close(closeFatalShutdown) when one result outstanding"
		var sites []ssa.Instruction
		for _, f := range p.FuncsOfPkg("concurrency") {
			for _, cl := range closeSites(f) {
				if cl.Chan == closeFatal {
					if f != fn {
						r.Undecide("closeFatalShutdown is closed outside RunnerCloserManager.Run (%s)", FuncName(p, f))
						return
					}
					sites = append(sites, cl.Instr)
				}
			}
		}
		if len(sites) == 0 {
			r.Violation("C12.K5-fatal", construct, p.Pos(fn.Pos()), "closeFatalShutdown is never closed: the fatal closer ends only through its timer, so Run lasts the whole grace period and the fatal action fires although the closers finished in time")
			return
		}
		loops := c12Loops(fn)
		probs := map[string]bool{}
		for _, cs := range sites {
			l := c12LoopOf(loops, cs.Block())
			if _, isDefer := cs.(*ssa.Defer); isDefer || l == nil || l.LenField != x.cmClosers || l.Problem != "" {
				r.Undecide("%s: the close at %s is not inside a counted collection loop over closers", construct, x.pos(cs))
				return
			}
			// the receive of the loop
			var recv *ssa.UnOp
			for b := range l.Blocks {
				for _, in := range b.Instrs {
					if u, ok := in.(*ssa.UnOp); ok && u.Op == token.ARROW {
						if recv != nil {
							r.Undecide("%s: several receives in the collection loop", construct)
							return
						}
						recv = u
					}
				}
			}
			if recv == nil {
				r.Undecide("%s: the loop around the close at %s collects nothing", construct, x.pos(cs))
				return
			}
			// guard: idx == len(closers)+g on a dominating edge inside the loop
			found := false
			for _, dc := range domConds(cs.Block()) {
				if !l.Blocks[dc.If.Block()] || dc.If == l.If {
					continue
				}
				cmp, ok := decodeCond(dc.If.Cond, dc.Branch)
				if !ok {
					continue
				}
				a, b := cmp.X, cmp.Y
				pk, isIdx := c12PhiPlus(a, l.Phi)
				if !isIdx {
					a, b = b, a
					pk, isIdx = c12PhiPlus(a, l.Phi)
				}
				if !isIdx {
					continue
				}
				// value of the loop's tested index in this iteration = phi + (Idx-phi);
				// the guard compares phi+pk: express it relative to the tested index
				ik, _ := c12PhiPlus(l.Idx, l.Phi)
				idxAdd := pk - ik // guard value = Idx + idxAdd
				s, g, isLen := c12LenExpr(b)
				if !isLen || !c12IsFieldLoad(s, nil, x.cmClosers) {
					continue
				}
				found = true
				// Normalise the guard to "tested index ⋈ len(closers)+thr". The tested
				// index runs over First .. len(closers)+Off-1, one step per iteration.
				op := cmp.Op
				if a != cmp.X { // operands were swapped
					switch op {
					case token.LSS:
						op = token.GTR
					case token.GTR:
						op = token.LSS
					case token.LEQ:
						op = token.GEQ
					case token.GEQ:
						op = token.LEQ
					}
				}
				thr := g - idxAdd
				last := l.Off - 1 // index of the last iteration, relative to len(closers)
				switch op {
				case token.EQL:
				case token.GEQ, token.GTR:
					if op == token.GTR {
						thr++
					}
					// true from thr to the last iteration: once iff thr is the last one
					if thr < last {
						probs[fmt.Sprintf("closeFatalShutdown is closed under `index %s len(closers)%+d`, which holds in %d iterations of the collection loop: the second close panics", cmp.Op, g-idxAdd, last-thr+1)] = true
						continue
					}
				default:
					probs[fmt.Sprintf("closeFatalShutdown is closed under `index %s len(closers)…`: it is closed from the first iteration on (before the other closers have finished, and more than once: panic)", cmp.Op)] = true
					continue
				}
				// is the receive executed before the close within one iteration?
				before := !reachableFrom(l.Body, map[*ssa.BasicBlock]bool{l.Header: true, recv.Block(): true})[cs.Block()]
				if recv.Block() == cs.Block() {
					before = instrIndex(recv) < instrIndex(cs)
				}
				received := thr - l.First // + len(closers)
				if before {
					received++
				}
				// Degenerate count: the fatal closer is the only closer (grace period
				// set, no user closer; len(closers) == 1). Then "len(closers)-1
				// results collected" holds before the first receive of the loop, and
				// that receive can only be satisfied by the fatal closer itself: the
				// release has to be executed in an iteration that exists for
				// len(closers) == 1 (tested index First .. 1+Off-1) and before that
				// iteration's receive. A release placed after the receive has
				// collected one result more than its guard index says, so for the
				// arithmetic to come out at len(closers)-1 its guard must name the
				// iteration before the last one — which does not exist when there is
				// only one closer.
				if received == -1 {
					at := 1 + thr // tested index at which the guard holds when len(closers) == 1
					if at < l.First || at > 1+l.Off-1 || before {
						where := "after"
						if !before {
							where = "before"
						}
						probs[fmt.Sprintf("closeFatalShutdown is closed %s the receive of the iteration whose index equals len(closers)%+d; the first iteration has index %d, so when the fatal-shutdown closer is the only closer (grace period set, no user closer) that iteration does not exist and the loop blocks on the fatal closer's own result without ever releasing it: Run and Close hang until the grace timer expires and the fatal action fires although no closer was pending. The release must run when len(closers)-1 results are collected and BEFORE the next receive", where, thr, l.First)] = true
					}
				}
				if received != -1 {
					probs[fmt.Sprintf("closeFatalShutdown is closed when len(closers)%+d closer results have been collected instead of len(closers)-1: too early and the fatal closer is released while closers are still running (they can outlast the grace period without the fatal action); too late and Run waits out the grace period and fires the fatal action although the closers finished", received)] = true
				}
			}
			if !found {
				r.Undecide("%s: the close at %s is not guarded by a comparison of the loop index with len(closers)", construct, x.pos(cs))
				return
			}
		}
		r.Check(len(probs) == 0, "C12.K5-fatal", construct, x.pos(sites[0]), "closed exactly once, when len(closers)-1 results have been collected", c12Join(probs))
	}
}

// timerDuration: if ch is the channel of a timer (x.NewTimer(d).C(), time.NewTimer(d).C,
// x.After(d)), returns d.
func (x *c12) timerDuration(ch ssa.Value) ssa.Value {
	durOf := func(v ssa.Value) ssa.Value {
		call, ok := v.(*ssa.Call)
		if !ok {
			return nil
		}
		name := ""
		if call.Call.IsInvoke() {
			name = call.Call.Method.Name()
		} else if obj := calleeObj(call); obj != nil {
			name = obj.Name()
		}
		if name != "NewTimer" && name != "After" {
			return nil
		}
		for _, a := range call.Call.Args {
			if namedKey(a.Type()) == "time.Duration" {
				return a
			}
		}
		return nil
	}
	for _, root := range c12Roots(ch, nil) {
		switch v := root.(type) {
		case *ssa.Call:
			if d := durOf(v); d != nil { // After(d)
				return d
			}
			if v.Call.IsInvoke() && v.Call.Method.Name() == "C" {
				for _, rr := range c12Roots(v.Call.Value, nil) {
					if d := durOf(rr); d != nil {
						return d
					}
				}
			}
		case *ssa.UnOp: // (*time.Timer).C field
			if fa, ok := v.X.(*ssa.FieldAddr); ok {
				for _, rr := range c12Roots(fa.X, nil) {
					if d := durOf(rr); d != nil {
						return d
					}
				}
			}
		}
	}
	return nil
}

// checkChans: the constructor creates the three signalling channels (a nil
// channel makes close panic and a receive block forever).
func (x *c12) checkChans() {
	r, p := x.r, x.p
	for _, f := range []FieldID{x.cmStopped, x.cmCloseCh, x.cmCloseFatal} {
		made := false
		allInstrs(x.cmNew, func(in ssa.Instruction) {
			st, ok := in.(*ssa.Store)
			if !ok {
				return
			}
			fa, ok := st.Addr.(*ssa.FieldAddr)
			if !ok || fieldIDOfAddr(fa) != f {
				return
			}
			for _, root := range c12Roots(st.Val, nil) {
				if _, ok := root.(*ssa.MakeChan); ok {
					made = true
				}
			}
		})
		r.Check(made, "C12.K4-chans", FuncName(p, x.cmNew)+" makes "+f.Field, p.Pos(x.cmNew.Pos()), "channel created by the constructor",
			"the constructor no longer creates "+f.Field+": closing a nil channel panics and waiting on it blocks forever (Close / the stop runner / the fatal closer)")
	}
}

func (x *c12) notes() {
	r, p := x.r, x.p
	// RunnerManager.Run reads runners without the lock
	unlocked := false
	for _, a := range FieldAccesses(x.rmRun, func(id FieldID) bool { return id == x.rmRunners }) {
		if x.e.At(a.Instr)[x.lockID] == ModeNone {
			unlocked = true
		}
	}
	if unlocked {
		r.Note("RunnerManager.Run reads `runners` without RunnerManager.lock: an Add racing the start of Run (it passed running.Load() before Run's CompareAndSwap) can append after the spawn loop, and the collection loop then waits for one result too many. Outside the statement's quantifier (no Add concurrent with the start of Run); not armed.")
	}
	// RunnerCloserManager.Add: own running test
	unset := c12UnsetEdges(x.cmAdd, x.cmRunning)
	allInstrs(x.cmAdd, func(in ssa.Instruction) {
		if call, ok := in.(*ssa.Call); ok && callIs(call, x.pkg, "RunnerManager", "Add") && !c12AnyDominates(unset, call.Block()) {
			r.Note("RunnerCloserManager.Add forwards to the inner manager at %s without testing its own running flag first (good practice; the inner manager's flag is only set once its goroutine runs); not armed.", p.Pos(call.Pos()))
		}
	})
}

func (x *c12) fixture() {
	x.c.Fixture("c12flow", func(fp *Prog, fr *Report) {
		fe := NewLockEngine(fp)
		fe.Run()
		fx := &c12{r: fr, p: fp, e: fe, pkg: fp.ModPath, lockID: fp.ModPath + ".mgr.mu"}
		tasks := FieldID{fp.ModPath + ".mgr", "tasks"}
		items := FieldID{fp.ModPath + ".mgr", "items"}
		flag := FieldID{fp.ModPath + ".mgr", "closing"}
		for _, fn := range fp.Funcs {
			if fn.Parent() != nil || fn.Name() == "init" {
				continue
			}
			fname := FuncName(fp, fn)
			if len(c12GoSites(fn)) > 0 {
				ws, ok := fx.workers(fn)
				if !ok {
					continue
				}
				var ch *ssa.MakeChan
				allInstrs(fn, func(in ssa.Instruction) {
					if mk, ok := in.(*ssa.MakeChan); ok {
						ch = mk
					}
				})
				isChRun := func(v ssa.Value) bool { mk, _ := c12ChanRoot(v, nil); return mk == ch }
				var spawns []*ssa.Go
				for _, w := range ws {
					w := w
					spawns = append(spawns, w.Go)
					isTask := func(call *ssa.Call) bool {
						if call.Call.IsInvoke() {
							return false
						}
						_, ok := c12ElemOfField(call.Call.Value, w.Bind, tasks)
						return ok
					}
					res := c12WorkerFlow(fx, w, isTask, func(v ssa.Value) bool { mk, _ := c12ChanRoot(v, w.Bind); return mk == ch }, nil)
					fr.Check(len(res.Problems) == 0, "worker", w.Name+" once/send", fx.pos(w.Go), "ok", strings.Join(res.Problems, "; "))
				}
				recvs, _ := c12Recvs(fx, fn, isChRun)
				c12CheckCounts(fx, fn, "count", fname+" started==collected", spawns, recvs)
				continue
			}
			c12CheckFlagUnderLock(fx, fn, "flag", flag, items, "")
		}
	})
}
