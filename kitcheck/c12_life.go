package main

// C12: Close (K4), the constructor and the fatal-shutdown closer (K4-chans, K5),
// notes and the fixture.

import (
	"go/token"
	"go/types"
	"strings"

	"golang.org/x/tools/go/ssa"
)

func (x *c12) checkClose() {
	p := x.p
	fn := x.cmClose
	fname := FuncName(p, fn)
	cGuard := fname + " close(stopped) guarded"
	cWait := fname + " wait then retErr"
	cTake := fname + " takes running"
	cOnce := fname + " close(closeCh) once"
	for _, c := range []string{cGuard, cWait, cTake} {
		x.seen("C12.K4-stopped", c, p.Pos(fn.Pos()))
	}
	x.seen("C12.K4-closech", cOnce, p.Pos(fn.Pos()))

	flags := x.fieldsWhere("RunnerCloserManager", c12IsFlagType)
	const (
		bOwnRun   = 1 << 0
		bTriedRun = 1 << 1
		bStopped  = 1 << 2
		bWaited   = 1 << 3
		bOwnOther = 1 << 4 // won a test-and-set of a flag other than running
		bClosedCh = 1 << 5
		bUnkTAS   = 1 << 6 // a test-and-set of an unidentifiable flag was branched on
	)
	sawUnk := false
	var guardFlag FieldID
	sawTake, sawCloseCh := false, false
	cl := &xClient{NoInline: func(f *ssa.Function) bool { return x.anchors[f] && f != fn }}
	cl.OnBranch = func(s *xState, ifi *ssa.If, cond xVal, truth bool) bool {
		if x.unresolvedTAS(cond) {
			s.Client |= bUnkTAS
			sawUnk = true
		}
		if x.tasTried(cond, x.cmRunning) {
			s.Client |= bTriedRun
			sawTake = true
			if x.tasWon(cond, truth, x.cmRunning) {
				s.Client |= bOwnRun
			}
			return true
		}
		for _, f := range flags {
			if f != x.cmRunning && x.tasWon(cond, truth, f) {
				s.Client |= bOwnOther
				guardFlag = f
			}
		}
		return true
	}
	cl.OnOnce = func(s *xState, call *ssa.Call, entered bool) bool {
		if entered {
			// the body of the first Do of a sync.Once: an at-most-once guard
			s.Client |= bOwnOther
		}
		return true
	}
	cl.OnInstr = func(s *xState, in ssa.Instruction, replay bool) bool {
		if _, isDefer := in.(*ssa.Defer); isDefer && !replay {
			return true
		}
		if x.closeOf(s, in, x.cmStopped) {
			if s.Client&bOwnRun == 0 && s.Client&bUnkTAS != 0 {
				x.undecide("%s closes the shutdown channel at %s after a test-and-set of a flag the check cannot identify", fname, x.pos(in))
			} else if s.Client&bOwnRun == 0 {
				x.bad("C12.K4-stopped", cGuard, x.pos(in), "Close closes the shutdown channel at "+x.pos(in)+" on a path on which its own test-and-set of running did not succeed: Run and Close (or two Close calls) can both close it — panic")
			}
			if s.Client&bStopped != 0 {
				x.bad("C12.K4-stopped", cGuard, x.pos(in), "Close can close the shutdown channel twice")
			}
			s.Client |= bStopped
		}
		if x.closeOf(s, in, x.cmCloseCh) {
			sawCloseCh = true
			if s.Client&bOwnOther == 0 && s.Client&bUnkTAS != 0 {
				x.undecide("%s closes the channel that stops the runners at %s after a test-and-set of a flag the check cannot identify", fname, x.pos(in))
			} else if s.Client&bOwnOther == 0 {
				x.bad("C12.K4-closech", cOnce, x.pos(in), "the channel that stops the runners is closed at "+x.pos(in)+" on a path on which no atomic test-and-set of a dedicated flag succeeded: a repeated or concurrent Close closes it twice and panics")
			}
			if s.Client&bClosedCh != 0 {
				x.bad("C12.K4-closech", cOnce, x.pos(in), "Close can close the channel that stops the runners twice in one call")
			}
			s.Client |= bClosedCh
		}
		switch v := in.(type) {
		case *ssa.UnOp:
			if v.Op == token.ARROW && x.isField(s, v.X, x.cmStopped) {
				if s.Client&bTriedRun == 0 {
					x.bad("C12.K4-stopped", cWait, x.pos(in), "Close waits for the shutdown channel at "+x.pos(in)+" before trying to take running: on a manager that never ran nobody closes that channel and Close blocks forever instead of returning at once")
				} else if s.Client&bOwnRun != 0 && s.Client&bStopped == 0 {
					x.bad("C12.K4-stopped", cWait, x.pos(in), "Close on a manager that never ran waits for the shutdown channel at "+x.pos(in)+" before closing it: it blocks forever instead of returning at once")
				}
				s.Client |= bWaited
			}
			if v.Op == token.MUL {
				if fa, ok := v.X.(*ssa.FieldAddr); ok && fieldIDOfAddr(fa) == x.cmRetErr && s.Client&bWaited == 0 {
					x.bad("C12.K4-stopped", cWait, x.pos(in), "Close reads the stored error at "+x.pos(in)+" before waiting for the shutdown channel: it can return before the closers finished, with a stale error")
				}
			}
		case *ssa.Select:
			for k, sc := range v.States {
				_ = k
				if sc.Dir == types.RecvOnly && x.isField(s, sc.Chan, x.cmStopped) && len(v.States) == 1 && v.Blocking {
					s.Client |= bWaited
				}
			}
		}
		return true
	}
	cl.OnReturn = func(s *xState, ret *ssa.Return, res []xVal) {
		if s.Client&bWaited == 0 {
			x.bad("C12.K4-stopped", cWait, x.pos(ret), "Close can return at "+x.pos(ret)+" without waiting for the shutdown channel: it returns before the closers finished")
		}
		if s.Client&bOwnRun != 0 && s.Client&bStopped == 0 {
			x.bad("C12.K4-stopped", cWait, x.pos(ret), "Close wins running at a never-run manager but returns at "+x.pos(ret)+" without closing the shutdown channel")
		}
		if s.Client&bOwnOther != 0 && s.Client&bClosedCh == 0 {
			x.bad("C12.K4-closech", cOnce, x.pos(ret), "the first Close can return at "+x.pos(ret)+" without closing the channel that stops the runners: Close during Run waits until they end by themselves")
		}
		if len(res) == 1 && !(res[0].K == xField && res[0].Fld == x.cmRetErr) {
			x.bad("C12.K4-stopped", cWait, x.pos(ret), "Close returns at "+x.pos(ret)+" something other than the stored error (the joined runner and closer errors)")
		}
	}
	ex := newXplorer(p, x.ssaPkg, cl)
	ex.Explore(fn, nil, 0)
	if !sawTake && sawUnk {
		x.undecide("%s test-and-sets a flag the check cannot identify; whether it takes the running flag is not decided", fname)
	} else if !sawTake {
		x.bad("C12.K4-stopped", cTake, p.Pos(fn.Pos()), "Close no longer test-and-sets the running flag of the manager: Close on a manager that never ran does not prevent a later Run (or blocks forever waiting for the shutdown channel)")
	}
	if !sawCloseCh {
		x.bad("C12.K4-closech", cOnce, p.Pos(fn.Pos()), "Close no longer closes the channel that stops the runners: Close during Run does not make the runners stop, so it waits until they end by themselves")
	}
	// nobody else writes the guard flag
	if guardFlag != (FieldID{}) {
		for _, f := range p.FuncsOfPkg("concurrency") {
			if x.tree(fn)[f] {
				continue
			}
			for _, name := range []string{"Store", "Swap", "CompareAndSwap"} {
				for _, c := range c12FlagCalls(f, guardFlag, name) {
					x.bad("C12.K4-closech", cOnce, x.pos(c), "the flag that guards the close of the channel stopping the runners is also written in "+FuncName(p, f)+": the first Close may then skip the close and Close during Run no longer stops the runners")
				}
			}
		}
	}
}

// throughFields replaces roots that are loads of a struct field of the
// package's types by the roots of everything the package stores in that field.
func (x *c12) throughFields(roots []ssa.Value, depth int) []ssa.Value {
	var out []ssa.Value
	for _, r := range roots {
		// a parameter of a helper (not of an exported entry point): the
		// arguments of all its static call sites in the package
		if pa, isPa := r.(*ssa.Parameter); isPa && depth <= 3 && pa.Parent() != nil && !x.anchors[pa.Parent()] && x.inPkg(pa.Parent()) {
			idx := -1
			for i, q := range pa.Parent().Params {
				if q == pa {
					idx = i
				}
			}
			n := 0
			if idx >= 0 {
				for _, f := range x.p.Funcs {
					if !x.inPkg(f) {
						continue
					}
					allInstrs(f, func(in ssa.Instruction) {
						ci, ok := in.(ssa.CallInstruction)
						if !ok || ci.Common().IsInvoke() || staticCallee(ci) != pa.Parent() || idx >= len(ci.Common().Args) {
							return
						}
						n++
						out = append(out, x.throughFields(c12Roots(ci.Common().Args[idx], nil), depth+1)...)
					})
				}
			}
			if n > 0 {
				continue
			}
		}
		id, _, ok := fieldOfValue(r)
		if _, isAddr := r.(*ssa.FieldAddr); !ok || isAddr || depth > 2 || !strings.HasPrefix(id.Type, x.pkg+".") {
			out = append(out, r)
			continue
		}
		n := 0
		for _, f := range x.p.FuncsOfPkg("concurrency") {
			allInstrs(f, func(in ssa.Instruction) {
				if st, ok := in.(*ssa.Store); ok {
					if fa, ok := st.Addr.(*ssa.FieldAddr); ok && fieldIDOfAddr(fa) == id {
						n++
						out = append(out, x.throughFields(c12Roots(st.Val, nil), depth+1)...)
					}
				}
			})
		}
		if n == 0 {
			out = append(out, r)
		}
	}
	return out
}

// timerDurationOf: if ch (evaluated) is the channel of a timer — X.NewTimer(d).C(),
// time.NewTimer(d).C, X.After(d) — returns d evaluated.
func (x *c12) timerDurationOf(st *xState, ch ssa.Value) (xVal, bool) {
	ev := st.Eval(ch)
	durOf := func(v xVal) (xVal, bool) {
		if v.K != xAtom || v.F == nil {
			return xVal{}, false
		}
		call, ok := v.V.(*ssa.Call)
		if !ok {
			return xVal{}, false
		}
		name := ""
		if call.Call.IsInvoke() {
			name = call.Call.Method.Name()
		} else if obj := calleeObj(call); obj != nil {
			name = obj.Name()
		}
		if name != "NewTimer" && name != "After" {
			return xVal{}, false
		}
		for _, a := range call.Call.Args {
			if namedKey(a.Type()) == "time.Duration" {
				return st.EvalIn(v.F, a), true
			}
		}
		return xVal{}, false
	}
	if d, ok := durOf(ev); ok {
		return d, true
	}
	if ev.K == xAtom && ev.F != nil {
		if call, ok := ev.V.(*ssa.Call); ok && call.Call.IsInvoke() && call.Call.Method.Name() == "C" {
			return durOf(st.EvalIn(ev.F, call.Call.Value))
		}
	}
	if ev.K == xField && ev.Fld.Type == "time.Timer" && ev.Fld.Field == "C" && ev.Base != nil {
		return durOf(*ev.Base)
	}
	return xVal{}, false
}

// isDerefOf: v is the constructor's *pa however it travelled: every root of
// the value — looking through captured variables, helper parameters,
// temporaries and struct fields the package stores it in — is a dereference
// whose address in turn only stems from the parameter pa.
func (x *c12) isDerefOf(st *xState, v xVal, pa *ssa.Parameter) bool {
	var vroots []ssa.Value
	if v.K == xAtom && v.V != nil {
		if u, ok := v.V.(*ssa.UnOp); ok && u.Op == token.MUL && (v.Base != nil || v.F != nil) {
			// a load evaluated on this path: resolve its address in the path state
			var ar []ssa.Value
			if v.Base != nil {
				ar = st.Static(*v.Base)
			} else {
				ar = st.Static(st.EvalIn(v.F, u.X))
			}
			ar = x.throughFields(ar, 0)
			if len(ar) > 0 {
				all := true
				for _, r := range ar {
					if r != ssa.Value(pa) {
						all = false
					}
				}
				if all {
					return true
				}
			}
		}
	}
	vroots = x.throughFields(st.Static(v), 0)
	if len(vroots) == 0 {
		return false
	}
	for _, r := range vroots {
		u, ok := r.(*ssa.UnOp)
		if !ok || u.Op != token.MUL {
			return false
		}
		ar := x.throughFields(c12Roots(u.X, nil), 0)
		if len(ar) == 0 {
			return false
		}
		for _, a := range ar {
			if a != ssa.Value(pa) {
				return false
			}
		}
	}
	return true
}

func (x *c12) checkConstructor() {
	p := x.p
	fn := x.cmNew
	fname := FuncName(p, fn)
	var grace *ssa.Parameter
	for _, pa := range fn.Params {
		if pt, ok := pa.Type().Underlying().(*types.Pointer); ok && namedKey(pt.Elem()) == "time.Duration" {
			grace = pa
		}
	}
	if grace == nil {
		x.undecide("NewRunnerCloserManager no longer takes the grace period as *time.Duration")
		return
	}
	// functions that call the fatal shutdown function
	callers := map[*ssa.Function]bool{}
	for _, f := range p.FuncsOfPkg("concurrency") {
		allInstrs(f, func(in ssa.Instruction) {
			ci, ok := in.(ssa.CallInstruction)
			if !ok || ci.Common().IsInvoke() {
				return
			}
			if id, _, ok := fieldOfValue(ci.Common().Value); ok && id == x.cmFatalFn {
				callers[f] = true
			}
		})
	}
	cFatal := "concurrency fatal closer: fatalShutdownFn on timer case"
	cReg := fname + " registers fatal closer iff grace period"
	x.seen("C12.K5-fatal", cFatal, p.Pos(fn.Pos()))
	x.seen("C12.K5-fatal", cReg, p.Pos(fn.Pos()))
	cOwnClosers := fname + " internal closers contribute no error"
	x.seen("C12.K2-filter", cOwnClosers, p.Pos(fn.Pos()))
	if len(callers) == 0 {
		x.bad("C12.K5-fatal", cFatal, p.Pos(fn.Pos()), "the fatal shutdown function is never called: closers that outlast the grace period are not cut short")
		return
	}
	isFatalCloser := func(f *ssa.Function) bool {
		for g := range x.tree(f) {
			if callers[g] {
				return true
			}
		}
		return false
	}
	const (
		bNonNil = 1 << 0
		bNil    = 1 << 1
		bReg    = 1 << 2
	)
	var fatalFns []*ssa.Function
	cl := &xClient{NoInline: func(f *ssa.Function) bool { return x.anchors[f] && f != fn }}
	cl.OnBranch = func(st *xState, ifi *ssa.If, cond xVal, truth bool) bool {
		if cond.K == xCmp && (cond.Op == token.EQL || cond.Op == token.NEQ) {
			a, b := *cond.X, *cond.Y
			if a.K == xNil {
				a, b = b, a
			}
			if b.K == xNil && a.K == xAtom && a.V == ssa.Value(grace) {
				if (cond.Op == token.EQL) == truth {
					st.Client |= bNil
				} else {
					st.Client |= bNonNil
				}
			}
		}
		return true
	}
	cl.OnInstr = func(st *xState, in ssa.Instruction, replay bool) bool {
		call, ok := in.(*ssa.Call)
		if !ok || staticCallee(call) != x.cmAddCloser || len(call.Call.Args) < 2 {
			return true
		}
		vals, ok := varargValues(st, st.fr, call.Call.Args[1])
		if !ok {
			x.undecide("%s: cannot see what is registered with AddCloser at %s", fname, x.pos(in))
			return true
		}
		for _, v := range vals {
			f := funcOfValue(st, v)
			if f != nil {
				// a closer the constructor registers itself
				x.ownErrorFree(f, false, "C12.K2-filter", cOwnClosers, "the internal closer")
			}
			if f == nil || !isFatalCloser(f) {
				continue
			}
			seen := false
			for _, g := range fatalFns {
				if g == f {
					seen = true
				}
			}
			if !seen {
				fatalFns = append(fatalFns, f)
			}
			if st.Client&bNonNil == 0 {
				x.bad("C12.K5-fatal", cReg, x.pos(in), "the fatal closer is registered at "+x.pos(in)+" on a path that has not established gracePeriod != nil: with the grace period unset it dereferences nil / fires although no grace period applies")
			}
			st.Client |= bReg
		}
		return true
	}
	chanFields := []FieldID{x.cmStopped, x.cmCloseCh, x.cmCloseFatal}
	for _, f := range chanFields {
		x.seen("C12.K4-chans", fname+" makes "+x.roleName(f), p.Pos(fn.Pos()))
	}
	cl.OnReturn = func(st *xState, ret *ssa.Return, res []xVal) {
		if st.Client&bNonNil != 0 && st.Client&bReg == 0 {
			x.bad("C12.K5-fatal", cReg, x.pos(ret), "the constructor can return at "+x.pos(ret)+" with a grace period set but without having registered the fatal-shutdown closer: the fatal action never fires")
		}
		for _, f := range chanFields {
			v, ok := st.cells[xCell{fld: f, idx: -1}]
			made := false
			if ok && v.K == xAtom {
				_, made = v.V.(*ssa.MakeChan)
			}
			if !made {
				x.bad("C12.K4-chans", fname+" makes "+x.roleName(f), x.pos(ret), "the constructor can return at "+x.pos(ret)+" without having created the channel "+f.Field+": closing a nil channel panics and waiting on it blocks forever (Close / the stop runner / the fatal closer)")
			}
		}
	}
	ex := newXplorer(p, x.ssaPkg, cl)
	ex.Explore(fn, nil, 0)
	if len(fatalFns) == 0 {
		x.bad("C12.K5-fatal", cReg, p.Pos(fn.Pos()), "the constructor no longer registers the fatal-shutdown closer with AddCloser: the fatal action never fires")
	}
	// every caller of the fatal function must belong to a registered fatal closer
	covered := map[*ssa.Function]bool{}
	for _, f := range fatalFns {
		for g := range x.tree(f) {
			covered[g] = true
		}
	}
	for f := range callers {
		if !covered[f] {
			x.bad("C12.K5-fatal", cFatal, p.Pos(f.Pos()), "the fatal shutdown function is called in "+FuncName(p, f)+", outside the fatal closer's select on the grace timer: it fires regardless of whether the closers outlasted the grace period")
		}
	}
	for _, f := range fatalFns {
		x.checkFatalCloser(f, grace, cFatal)
	}
}

// roleName: position- and name-free label of a channel role.
func (x *c12) roleName(f FieldID) string {
	switch f {
	case x.cmStopped:
		return "shutdown channel"
	case x.cmCloseCh:
		return "close channel"
	case x.cmCloseFatal:
		return "fatal release channel"
	}
	return f.Field
}

func (x *c12) checkFatalCloser(f *ssa.Function, grace *ssa.Parameter, construct string) {
	const (
		bTimer   = 1 << 0
		bRelease = 1 << 1
		bOther   = 1 << 2
		bFired   = 1 << 3
		bInSel   = 1 << 4
	)
	sawTimer, sawRelease := false, false
	cl := &xClient{NoInline: x.noInline}
	cl.OnSelect = func(st *xState, sel *ssa.Select, k int) bool {
		hasRelease, timerIdx := false, -1
		for i, sc := range sel.States {
			if sc.Dir != types.RecvOnly {
				continue
			}
			if x.isField(st, sc.Chan, x.cmCloseFatal) {
				hasRelease = true
			} else if _, ok := x.timerDurationOf(st, sc.Chan); ok {
				timerIdx = i
			}
		}
		if !hasRelease && timerIdx < 0 {
			return true // an unrelated select
		}
		st.Client &^= bTimer | bRelease | bOther
		st.Client |= bInSel
		switch {
		case k >= 0 && k == timerIdx:
			sawTimer = true
			st.Client |= bTimer
			d, _ := x.timerDurationOf(st, sel.States[k].Chan)
			if !x.isDerefOf(st, d, grace) {
				x.bad("C12.K5-fatal", construct, x.pos(sel), "the timer of the fatal closer at "+x.pos(sel)+" is not set to *gracePeriod (the constructor's grace period): the fatal action fires earlier or later than the grace period")
			}
		case k >= 0 && sel.States[k].Dir == types.RecvOnly && x.isField(st, sel.States[k].Chan, x.cmCloseFatal):
			sawRelease = true
			st.Client |= bRelease
		default:
			st.Client |= bOther
		}
		if !hasRelease {
			x.bad("C12.K5-fatal", construct, x.pos(sel), "the select around the fatal shutdown call has no case on the release channel: the fatal closer can only end through its timer, so the fatal action fires even when all closers finished in time")
		}
		if timerIdx < 0 {
			x.bad("C12.K5-fatal", construct, x.pos(sel), "the select of the fatal closer has no grace-timer case")
		}
		return true
	}
	cl.OnInstr = func(st *xState, in ssa.Instruction, replay bool) bool {
		ci, ok := in.(ssa.CallInstruction)
		if !ok || ci.Common().IsInvoke() {
			return true
		}
		if _, isDefer := in.(*ssa.Defer); isDefer && !replay {
			return true
		}
		if id, _, ok := fieldOfValue(ci.Common().Value); !ok || id != x.cmFatalFn {
			return true
		}
		if st.Client&bTimer == 0 {
			x.bad("C12.K5-fatal", construct, x.pos(in), "the fatal shutdown function is called at "+x.pos(in)+" on a path that did not take the grace-timer case of the select (e.g. when the release channel is closed, or unconditionally): it fires although the closers finished within the grace period")
		}
		st.Client |= bFired
		return true
	}
	cl.OnReturn = func(st *xState, ret *ssa.Return, _ []xVal) {
		if st.Client&bTimer != 0 && st.Client&bFired == 0 {
			x.bad("C12.K5-fatal", construct, x.pos(ret), "the grace timer case can return at "+x.pos(ret)+" without calling the fatal shutdown function: closers outlasting the grace period are not cut short")
		}
	}
	ex := newXplorer(x.p, x.ssaPkg, cl)
	ex.Explore(f, nil, 0)
	if !sawTimer || !sawRelease {
		x.bad("C12.K5-fatal", construct, x.p.Pos(f.Pos()), "the fatal closer does not wait in a select with both a grace-timer case and a case on the release channel")
	}
}

func (x *c12) notes() {
	r, p := x.r, x.p
	unlocked := false
	for f := range x.tree(x.rmRun) {
		for _, a := range FieldAccesses(f, func(id FieldID) bool { return id == x.rmRunners }) {
			if x.e.At(a.Instr)[x.lockID] == ModeNone {
				unlocked = true
			}
		}
	}
	if unlocked {
		r.Note("RunnerManager.Run reads the runners without the manager's lock: an Add racing the start of Run (it passed running.Load() before Run's CompareAndSwap) can append after the spawn loop, and the collection loop then waits for one result too many. Outside the statement's quantifier (no Add concurrent with the start of Run); not armed.")
	}
	tested := false
	for f := range x.tree(x.cmAdd) {
		if len(c12FlagCalls(f, x.cmRunning, "Load")) > 0 {
			tested = true
		}
	}
	if !tested {
		r.Note("RunnerCloserManager.Add forwards to the inner manager without testing its own running flag first (good practice; the inner manager's flag is only set once its goroutine runs); not armed (%s).", p.Pos(x.cmAdd.Pos()))
	}
}

func (x *c12) fixture() {
	x.c.Fixture("c12flow", func(fp *Prog, fr *Report) {
		fe := NewLockEngine(fp)
		fe.Run()
		var anyFn *ssa.Function
		for _, fn := range fp.Funcs {
			if fn.Pkg != nil {
				anyFn = fn
			}
		}
		if anyFn == nil {
			return
		}
		fx := &c12{r: fr, p: fp, e: fe, pkg: fp.ModPath, ssaPkg: anyFn.Pkg, viol: map[string]map[string]bool{}, posn: map[string]string{}, und: map[string]bool{}, anchors: map[*ssa.Function]bool{}}
		tasks := FieldID{fp.ModPath + ".mgr", "tasks"}
		items := FieldID{fp.ModPath + ".mgr", "items"}
		flag := FieldID{fp.ModPath + ".mgr", "closing"}
		lock := FieldID{fp.ModPath + ".mgr", "mu"}
		fx.rmLock, fx.lockID = lock, lock.Type+"."+lock.Field
		fx.cmClosing = flag
		for _, fn := range fp.Funcs {
			if fn.Parent() != nil || fn.Name() == "init" {
				continue
			}
			fname := FuncName(fp, fn)
			if len(c12GoSites(fn)) > 0 {
				fx.fixtureSpawnCollect(fn, fname, tasks)
				continue
			}
			if strings.Contains(fn.Name(), "Once") {
				fx.fixtureOnce(fn, fname, FieldID{fp.ModPath + ".mgr", "started"})
				continue
			}
			if len(fn.Params) == 2 {
				fx.flagUnderLock(fn, "flag", flag, items, lock, nil, "")
			}
		}
		fx.flush()
	})
}

func c12GoSites(fn *ssa.Function) []*ssa.Go {
	var out []*ssa.Go
	allInstrs(fn, func(in ssa.Instruction) {
		if g, ok := in.(*ssa.Go); ok {
			out = append(out, g)
		}
	})
	return out
}

// fixtureOnce: a return that reports success (nil) must lie on a path on which
// the function's own test-and-set of `flag` succeeded.
func (x *c12) fixtureOnce(fn *ssa.Function, fname string, flag FieldID) {
	construct := fname + " once"
	x.seen("once", construct, x.p.Pos(fn.Pos()))
	cl := &xClient{}
	cl.OnBranch = func(st *xState, ifi *ssa.If, cond xVal, truth bool) bool {
		if x.tasWon(cond, truth, flag) {
			st.Client |= 1
		}
		return true
	}
	cl.OnReturn = func(st *xState, ret *ssa.Return, res []xVal) {
		if st.Client&1 == 0 && len(res) == 1 && res[0].K == xNil {
			x.bad("once", construct, x.pos(ret), "returns nil without having taken the flag")
		}
	}
	ex := newXplorer(x.p, x.ssaPkg, cl)
	ex.Explore(fn, nil, 0)
}

// fixtureSpawnCollect: the generic spawn/collect rule on a fixture function
// (workers over field `tasks`, one result each, n results collected).
func (x *c12) fixtureSpawnCollect(fn *ssa.Function, fname string, tasks FieldID) {
	cache := c12SpawnCache{}
	classify := func(f *ssa.Function) (c12WorkerKind, FieldID, bool) { return wkFixture, tasks, true }
	construct := fname + " started==collected"
	x.seen("count", construct, x.p.Pos(fn.Pos()))
	const (
		shSpawn = 0
		shRecv  = 3
	)
	for n := 0; n <= 3; n++ {
		n := n
		cl := &xClient{Lens: map[FieldID]int{tasks: n}}
		cl.OnInstr = func(st *xState, in ssa.Instruction, replay bool) bool {
			switch v := in.(type) {
			case *ssa.Go:
				x.workerOf(st, v, cache, classify)
				sp := (st.Client >> shSpawn) & 7
				st.Client = st.Client&^(7<<shSpawn) | (sp+1)<<shSpawn
			case *ssa.UnOp:
				if v.Op == token.ARROW {
					rc := (st.Client >> shRecv) & 7
					if rc >= (st.Client>>shSpawn)&7 {
						x.bad("count", construct, x.pos(in), "receives more results than goroutines started")
						return false
					}
					st.Client = st.Client&^(7<<shRecv) | (rc+1)<<shRecv
				}
			}
			return true
		}
		cl.OnReturn = func(st *xState, ret *ssa.Return, _ []xVal) {
			if (st.Client>>shRecv)&7 != (st.Client>>shSpawn)&7 || int((st.Client>>shSpawn)&7) != n {
				x.bad("count", construct, x.pos(ret), "returns with started != collected")
			}
		}
		ex := newXplorer(x.p, x.ssaPkg, cl)
		ex.Explore(fn, nil, 0)
	}
	for _, w := range cache {
		if w == nil {
			continue
		}
		c := w.Name + " once/send"
		x.seen("worker", c, x.p.Pos(w.Fn.Pos()))
		for m := range w.Problems {
			x.bad("worker", c, x.p.Pos(w.Fn.Pos()), m)
		}
		if w.Unknown != "" {
			x.bad("worker", c, x.p.Pos(w.Fn.Pos()), w.Unknown)
		}
	}
	_ = strings.Join
}
