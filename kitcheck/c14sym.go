package main

// Canonical symbolic terms for the relational equivalence prover of C14
// (ring ≡ container/ring). Terms are hash-consed; integer arithmetic is kept
// in a linear normal form, comparisons are reduced to `E < 0` / `E == 0` /
// `a == b` atoms with a canonical sign, so that guard inversion, operand
// order, `n <= 0` vs `n < 1`, `i < n` vs `n > i`, counted-loop variants etc.
// all produce the same term.

import (
	"fmt"
	"sort"
	"strings"
)

type symTerm struct {
	id   int
	op   string
	aux  string
	k    int64
	args []*symTerm
	coef []int64
}

type symPool struct {
	byKey map[string]*symTerm
	n     int
	fresh int
	terms []*symTerm // by id-1
}

func newSymPool() *symPool { return &symPool{byKey: map[string]*symTerm{}} }

func (p *symPool) mk(op, aux string, k int64, args []*symTerm, coef []int64) *symTerm {
	var sb strings.Builder
	sb.WriteString(op)
	sb.WriteByte('|')
	sb.WriteString(aux)
	sb.WriteByte('|')
	fmt.Fprintf(&sb, "%d", k)
	for i, a := range args {
		fmt.Fprintf(&sb, "|%d", a.id)
		if coef != nil {
			fmt.Fprintf(&sb, "*%d", coef[i])
		}
	}
	key := sb.String()
	if t, ok := p.byKey[key]; ok {
		return t
	}
	p.n++
	t := &symTerm{id: p.n, op: op, aux: aux, k: k, args: args, coef: coef}
	p.byKey[key] = t
	p.terms = append(p.terms, t)
	return t
}

func (p *symPool) sym(kind, name string) *symTerm { return p.mk("sym", kind+":"+name, 0, nil, nil) }
func (p *symPool) freshSym(kind string) *symTerm {
	p.fresh++
	return p.mk("sym", fmt.Sprintf("%s#%d", kind, p.fresh), 0, nil, nil)
}
func (p *symPool) intc(k int64) *symTerm { return p.mk("int", "", k, nil, nil) }
func (p *symPool) boolc(b bool) *symTerm {
	if b {
		return p.mk("true", "", 0, nil, nil)
	}
	return p.mk("false", "", 0, nil, nil)
}
func (p *symPool) nilc() *symTerm { return p.mk("nil", "", 0, nil, nil) }
func (p *symPool) app(op, aux string, args ...*symTerm) *symTerm {
	return p.mk(op, aux, 0, args, nil)
}

func (t *symTerm) isBoolConst() (bool, bool) {
	switch t.op {
	case "true":
		return true, true
	case "false":
		return false, true
	}
	return false, false
}

func (t *symTerm) String() string { return t.str(0) }

func (t *symTerm) str(d int) string {
	if d > 6 {
		return "…"
	}
	switch t.op {
	case "sym":
		return t.aux
	case "int":
		return fmt.Sprintf("%d", t.k)
	case "true", "false", "nil":
		return t.op
	case "lin":
		var parts []string
		for i, a := range t.args {
			c := t.coef[i]
			switch c {
			case 1:
				parts = append(parts, a.str(d+1))
			case -1:
				parts = append(parts, "-"+a.str(d+1))
			default:
				parts = append(parts, fmt.Sprintf("%d*%s", c, a.str(d+1)))
			}
		}
		if t.k != 0 {
			parts = append(parts, fmt.Sprintf("%d", t.k))
		}
		return "(" + strings.Join(parts, " + ") + ")"
	case "not":
		return "!" + t.args[0].str(d+1)
	case "lt0":
		return t.args[0].str(d+1) + " < 0"
	case "eq0":
		return t.args[0].str(d+1) + " == 0"
	case "eq":
		return t.args[0].str(d+1) + " == " + t.args[1].str(d+1)
	}
	var parts []string
	for _, a := range t.args {
		parts = append(parts, a.str(d+1))
	}
	s := t.op
	if t.aux != "" {
		s += "[" + t.aux + "]"
	}
	return s + "(" + strings.Join(parts, ", ") + ")"
}

// ---- linear arithmetic

func (p *symPool) linParts(t *symTerm) (int64, map[*symTerm]int64) {
	switch t.op {
	case "int":
		return t.k, map[*symTerm]int64{}
	case "lin":
		m := make(map[*symTerm]int64, len(t.args))
		for i, a := range t.args {
			m[a] = t.coef[i]
		}
		return t.k, m
	}
	return 0, map[*symTerm]int64{t: 1}
}

func (p *symPool) lin(k int64, atoms map[*symTerm]int64) *symTerm {
	var as []*symTerm
	for a, c := range atoms {
		if c != 0 {
			as = append(as, a)
		}
	}
	if len(as) == 0 {
		return p.intc(k)
	}
	sort.Slice(as, func(i, j int) bool { return as[i].id < as[j].id })
	if len(as) == 1 && k == 0 && atoms[as[0]] == 1 {
		return as[0]
	}
	coef := make([]int64, len(as))
	for i, a := range as {
		coef[i] = atoms[a]
	}
	return p.mk("lin", "", k, as, coef)
}

func (p *symPool) add(a, b *symTerm) *symTerm {
	ka, ma := p.linParts(a)
	kb, mb := p.linParts(b)
	for t, c := range mb {
		ma[t] += c
	}
	return p.lin(ka+kb, ma)
}

func (p *symPool) scale(a *symTerm, c int64) *symTerm {
	k, m := p.linParts(a)
	for t := range m {
		m[t] *= c
	}
	return p.lin(k*c, m)
}

func (p *symPool) sub(a, b *symTerm) *symTerm { return p.add(a, p.scale(b, -1)) }

// ---- booleans

func (p *symPool) not(t *symTerm) *symTerm {
	if b, ok := t.isBoolConst(); ok {
		return p.boolc(!b)
	}
	if t.op == "not" {
		return t.args[0]
	}
	return p.app("not", "", t)
}

// leading coefficient (of the atom with the smallest id) of a linear term
func (p *symPool) leading(e *symTerm) int64 {
	switch e.op {
	case "int":
		return 0
	case "lin":
		return e.coef[0]
	}
	return 1
}

// lt0: E < 0 over the integers, canonical sign.
func (p *symPool) lt0(e *symTerm) *symTerm {
	if e.op == "int" {
		return p.boolc(e.k < 0)
	}
	if p.leading(e) < 0 {
		// E < 0  <=>  !(-E-1 < 0)
		ne := p.add(p.scale(e, -1), p.intc(-1))
		return p.not(p.app("lt0", "", ne))
	}
	return p.app("lt0", "", e)
}

func (p *symPool) eq0(e *symTerm) *symTerm {
	if e.op == "int" {
		return p.boolc(e.k == 0)
	}
	if p.leading(e) < 0 {
		e = p.scale(e, -1)
	}
	return p.app("eq0", "", e)
}

func (t *symTerm) isAlloc() bool { return t.op == "alloc" }

// distinct: the two pointer terms are known to denote different addresses.
func symDistinct(a, b *symTerm) bool {
	if a == b {
		return false
	}
	pre := func(t *symTerm) bool { // denotes nil or an object that existed at entry
		return t.op == "nil" || (t.op == "sym" && strings.HasPrefix(t.aux, "param:"))
	}
	switch {
	case a.op == "elem" && b.op == "elem":
		// elements of arrays: different arrays, or different constant indices
		if symDistinct(a.args[0], b.args[0]) {
			return true
		}
		return a.args[0] == b.args[0] && a.args[1].op == "int" && b.args[1].op == "int" && a.args[1].k != b.args[1].k
	case a.op == "elem" && (b.isAlloc() || pre(b)), b.op == "elem" && (a.isAlloc() || pre(a)):
		return true
	case a.isAlloc() && b.isAlloc():
		return true
	case a.isAlloc() && pre(b), b.isAlloc() && pre(a):
		return true
	}
	return false
}

func (p *symPool) eq(a, b *symTerm) *symTerm {
	if a == b {
		return p.boolc(true)
	}
	if symDistinct(a, b) {
		return p.boolc(false)
	}
	if ba, ok := a.isBoolConst(); ok {
		if ba {
			return b
		}
		return p.not(b)
	}
	if bb, ok := b.isBoolConst(); ok {
		if bb {
			return a
		}
		return p.not(a)
	}
	if a.id > b.id {
		a, b = b, a
	}
	return p.app("eq", "", a, b)
}

// ---- path condition

type symPC struct {
	pool   *symPool
	lits   map[int]bool
	bounds map[string][2]int64 // linear form without constant -> [lo, hi]
	infeas bool
}

const symInf = int64(1) << 50

func newSymPC(p *symPool) *symPC {
	return &symPC{pool: p, lits: map[int]bool{}, bounds: map[string][2]int64{}}
}

func (pc *symPC) clone() *symPC {
	n := &symPC{pool: pc.pool, lits: make(map[int]bool, len(pc.lits)), bounds: make(map[string][2]int64, len(pc.bounds)), infeas: pc.infeas}
	for k, v := range pc.lits {
		n.lits[k] = v
	}
	for k, v := range pc.bounds {
		n.bounds[k] = v
	}
	return n
}

// vec splits a canonical linear term into (key of the non-constant part, constant).
func symVec(e *symTerm) (string, int64) {
	switch e.op {
	case "lin":
		var sb strings.Builder
		for i, a := range e.args {
			fmt.Fprintf(&sb, "%d*%d,", e.coef[i], a.id)
		}
		return sb.String(), e.k
	case "int":
		return "", e.k
	}
	return fmt.Sprintf("1*%d,", e.id), 0
}

// lookup: the truth value of the boolean term c under the path condition.
func (pc *symPC) lookup(c *symTerm) (val, known bool) {
	if b, ok := c.isBoolConst(); ok {
		return b, true
	}
	if c.op == "not" {
		v, k := pc.lookup(c.args[0])
		return !v, k
	}
	if v, ok := pc.lits[c.id]; ok {
		return v, true
	}
	switch c.op {
	case "lt0":
		key, k := symVec(c.args[0])
		if b, ok := pc.bounds[key]; ok {
			if b[1] <= -k-1 {
				return true, true
			}
			if b[0] >= -k {
				return false, true
			}
		}
	case "eq0":
		key, k := symVec(c.args[0])
		if b, ok := pc.bounds[key]; ok {
			if b[0] == -k && b[1] == -k {
				return true, true
			}
			if -k < b[0] || -k > b[1] {
				return false, true
			}
		}
	}
	return false, false
}

// assume adds c == val.
func (pc *symPC) assume(c *symTerm, val bool) {
	if b, ok := c.isBoolConst(); ok {
		if b != val {
			pc.infeas = true
		}
		return
	}
	if c.op == "not" {
		pc.assume(c.args[0], !val)
		return
	}
	if v, known := pc.lookup(c); known {
		if v != val {
			pc.infeas = true
		}
		return
	}
	pc.lits[c.id] = val
	switch c.op {
	case "lt0":
		key, k := symVec(c.args[0])
		b, ok := pc.bounds[key]
		if !ok {
			b = [2]int64{-symInf, symInf}
		}
		if val { // v + k < 0  =>  v <= -k-1
			if -k-1 < b[1] {
				b[1] = -k - 1
			}
		} else { // v >= -k
			if -k > b[0] {
				b[0] = -k
			}
		}
		if b[0] > b[1] {
			pc.infeas = true
		}
		pc.bounds[key] = b
	case "eq0":
		key, k := symVec(c.args[0])
		b, ok := pc.bounds[key]
		if !ok {
			b = [2]int64{-symInf, symInf}
		}
		if val {
			if -k > b[0] {
				b[0] = -k
			}
			if -k < b[1] {
				b[1] = -k
			}
		} else {
			if b[0] == -k {
				b[0]++
			}
			if b[1] == -k {
				b[1]--
			}
		}
		if b[0] > b[1] {
			pc.infeas = true
		}
		pc.bounds[key] = b
	}
}
