package main

// C18 helper: analysis of an "atomic directory writer" function (dir.Write and
// the fixture functions shaped like it).

import (
	"go/token"
	"go/types"
	"sort"
	"strings"

	"golang.org/x/tools/go/ssa"
)

type c18Kind int

const (
	c18MkdirIdem  c18Kind = iota // MkdirAll: succeeds if the directory exists
	c18CreateExcl                // Symlink, Link, Mkdir: fail with EEXIST
	c18WriteKind                 // WriteFile, Create, OpenFile: create or overwrite
	c18Rename
	c18Remove
	c18OtherMut
)

type c18Op struct {
	Call *ssa.Call
	Fn   string // "os.Symlink"
	Kind c18Kind
	Path *c18T // the path that is created / replaced / removed / modified
	Aux  *c18T // Symlink/Link: what the link points to; Rename: the source
	Data ssa.Value
	idx  int
	vdir *c18T // display only: the term of the version directory, abbreviated in constructs
}

func (o *c18Op) show(t *c18T) string {
	if o.vdir != nil {
		if under, self := c18Under(t, o.vdir); self {
			return "<version dir>"
		} else if under && t.Op == "join" {
			n := 1
			if o.vdir.Op == "join" {
				n = len(o.vdir.Args)
			}
			s := "<version dir>"
			for _, a := range t.Args[n:] {
				s += "/" + a.String()
			}
			return s
		}
	}
	return t.String()
}

func (o *c18Op) desc() string {
	if o.Aux != nil {
		switch o.Kind {
		case c18Rename:
			return o.Fn + "(" + o.show(o.Aux) + " -> " + o.show(o.Path) + ")"
		default:
			return o.Fn + "(" + o.show(o.Path) + " => " + o.show(o.Aux) + ")"
		}
	}
	return o.Fn + "(" + o.show(o.Path) + ")"
}

// file-system API model: package os (and io/ioutil) functions that mutate the
// name space, with the index of the mutated path argument.
var c18Mutators = map[string]struct {
	kind c18Kind
	path int
	aux  int
	data int
}{
	"os.MkdirAll":         {c18MkdirIdem, 0, -1, -1},
	"os.Mkdir":            {c18CreateExcl, 0, -1, -1},
	"os.Symlink":          {c18CreateExcl, 1, 0, -1},
	"os.Link":             {c18CreateExcl, 1, 0, -1},
	"os.WriteFile":        {c18WriteKind, 0, -1, 1},
	"io/ioutil.WriteFile": {c18WriteKind, 0, -1, 1},
	"os.Create":           {c18WriteKind, 0, -1, -1},
	"os.OpenFile":         {c18WriteKind, 0, -1, -1},
	"os.Rename":           {c18Rename, 1, 0, -1},
	"os.Remove":           {c18Remove, 0, -1, -1},
	"os.RemoveAll":        {c18Remove, 0, -1, -1},
	"os.Chmod":            {c18OtherMut, 0, -1, -1},
	"os.Chown":            {c18OtherMut, 0, -1, -1},
	"os.Lchown":           {c18OtherMut, 0, -1, -1},
	"os.Chtimes":          {c18OtherMut, 0, -1, -1},
	"os.Truncate":         {c18OtherMut, 0, -1, -1},
}

// functions of package os known not to change the name space.
var c18ReadOnly = map[string]bool{
	"Stat": true, "Lstat": true, "Readlink": true, "ReadFile": true, "ReadDir": true, "Open": true,
	"IsExist": true, "IsNotExist": true, "IsPermission": true, "Getenv": true, "LookupEnv": true,
	"Getwd": true, "Getpid": true, "Hostname": true, "TempDir": true, "UserHomeDir": true, "Getuid": true,
	"Getgid": true, "SameFile": true, "IsPathSeparator": true, "Executable": true, "NewSyscallError": true,
	"Environ": true, "Expand": true, "ExpandEnv": true, "DirFS": true, "Geteuid": true, "Getegid": true,
}

// c18Cfg names the fields of the writer's state.
type c18Cfg struct {
	Target    string // FieldID.String() of the published path
	Prev      string // field holding *string of the previous version directory
	Base      string
	TargetDir string
	Frozen    map[string]bool // fields written only at construction
	Rules     c18Rules
}

type c18Rules struct{ Order, Complete, Paths, Fresh, Leftover, Prev, NilRet string }

func c18FullName(obj *types.Func) string {
	if obj == nil || obj.Pkg() == nil {
		return ""
	}
	sig := obj.Type().(*types.Signature)
	if sig.Recv() != nil {
		return obj.Pkg().Path() + "." + typeBaseName(sig.Recv().Type()) + "." + obj.Name()
	}
	return obj.Pkg().Path() + "." + obj.Name()
}

// c18CollectOps enumerates the file-system mutations performed directly by fn.
// unknown lists calls the model cannot classify.
func c18CollectOps(p *Prog, tt *c18Terms, fn *ssa.Function) (ops []*c18Op, unknown []string) {
	allInstrs(fn, func(in ssa.Instruction) {
		ci, ok := in.(ssa.CallInstruction)
		if !ok {
			return
		}
		if d, ok := in.(*ssa.Defer); ok && c18IsModelledDefer(fn, d) {
			return // handled by c18CollectDeferred
		}
		obj := calleeObj(ci)
		full := c18FullName(obj)
		if full == "" {
			return
		}
		pkg := obj.Pkg().Path()
		if m, ok := c18Mutators[full]; ok {
			call, isCall := in.(*ssa.Call)
			if !isCall {
				unknown = append(unknown, full+" in a defer/go statement")
				return
			}
			op := &c18Op{Call: call, Fn: full, Kind: m.kind, Path: tt.Term(call.Call.Args[m.path])}
			if m.aux >= 0 {
				op.Aux = tt.Term(call.Call.Args[m.aux])
			}
			if m.data >= 0 {
				op.Data = call.Call.Args[m.data]
			}
			op.idx = len(ops)
			ops = append(ops, op)
			return
		}
		sig := obj.Type().(*types.Signature)
		switch {
		case pkg == "os" && sig.Recv() == nil && !c18ReadOnly[obj.Name()]:
			unknown = append(unknown, full)
		case pkg == "os" && sig.Recv() != nil && typeBaseName(sig.Recv().Type()) == "File":
			unknown = append(unknown, full)
		case pkg == "syscall" || pkg == "golang.org/x/sys/unix" || pkg == "os/exec" || pkg == "io/ioutil":
			unknown = append(unknown, full)
		}
		if f := staticCallee(ci); f != nil && p.InModule(f) && c18TouchesFS(p, f, map[*ssa.Function]bool{}) {
			unknown = append(unknown, "in-module helper "+FuncName(p, f)+" that performs file-system operations (not inlined by this check)")
		}
	})
	return
}

func c18TouchesFS(p *Prog, fn *ssa.Function, seen map[*ssa.Function]bool) bool {
	if seen[fn] {
		return false
	}
	seen[fn] = true
	found := false
	allInstrs(fn, func(in ssa.Instruction) {
		ci, ok := in.(ssa.CallInstruction)
		if !ok || found {
			return
		}
		obj := calleeObj(ci)
		if obj != nil && obj.Pkg() != nil {
			if _, ok := c18Mutators[c18FullName(obj)]; ok {
				found = true
				return
			}
		}
		if f := staticCallee(ci); f != nil && p.InModule(f) && c18TouchesFS(p, f, seen) {
			found = true
		}
	})
	for _, a := range fn.AnonFuncs {
		if c18TouchesFS(p, a, seen) {
			found = true
		}
	}
	return found
}

// c18ErrTests: the If instructions that test the error result of call against
// nil. For each: the block entered when the call succeeded / failed.
type c18ErrTest struct {
	If         *ssa.If
	Succ, Fail *ssa.BasicBlock
}

func c18ErrValue(call *ssa.Call) ssa.Value {
	res := call.Call.Signature().Results()
	if res.Len() == 0 {
		return nil
	}
	return callResult(call, res.Len()-1)
}

func c18ErrTests(call *ssa.Call) (tests []c18ErrTest, errv ssa.Value) {
	errv = c18ErrValue(call)
	if errv == nil {
		return nil, nil
	}
	allInstrs(call.Parent(), func(in ssa.Instruction) {
		ifi, ok := in.(*ssa.If)
		if !ok {
			return
		}
		cmp, ok := decodeCond(ifi.Cond, true)
		if !ok {
			return
		}
		if !((isNilConst(cmp.Y) && c18Root(cmp.X) == errv) || (isNilConst(cmp.X) && c18Root(cmp.Y) == errv)) {
			return
		}
		b := ifi.Block()
		switch cmp.Op {
		case token.NEQ:
			tests = append(tests, c18ErrTest{ifi, b.Succs[1], b.Succs[0]})
		case token.EQL:
			tests = append(tests, c18ErrTest{ifi, b.Succs[0], b.Succs[1]})
		}
	})
	return
}

// c18Same: structural equality of path terms modulo the layout alias
// join(base, targetDir) == target.
func (cfg *c18Cfg) norm(t *c18T) string {
	s := t.String()
	if cfg.Base != "" && s == "join(F("+cfg.Base+"),F("+cfg.TargetDir+"))" {
		return "F(" + cfg.Target + ")"
	}
	return s
}

func (cfg *c18Cfg) isTarget(t *c18T) bool { return cfg.norm(t) == "F("+cfg.Target+")" }
func (cfg *c18Cfg) isPrev(t *c18T) bool   { return t.String() == "*F("+cfg.Prev+")" }
func (cfg *c18Cfg) isBase(t *c18T) bool   { return cfg.Base != "" && t.String() == "F("+cfg.Base+")" }

// under reports whether t is dir itself or join(dir, ...).
func c18Under(t, dir *c18T) (under, self bool) {
	if t.String() == dir.String() {
		return true, true
	}
	if t.Op == "join" && len(t.Args) >= 1 {
		// dir may itself be a join (flattened): compare prefixes
		var pre []*c18T
		if dir.Op == "join" {
			pre = dir.Args
		} else {
			pre = []*c18T{dir}
		}
		if len(t.Args) > len(pre) {
			for i := range pre {
				if t.Args[i].String() != pre[i].String() {
					return false, false
				}
			}
			return true, false
		}
	}
	if t.Op == "cat" && len(t.Args) >= 2 && t.Args[0].String() == dir.String() {
		if l := t.Args[1]; l.Op == "lit" && strings.HasPrefix(l.Lit, "/") {
			return true, false
		}
	}
	return false, false
}

// c18CheckWriter runs the W1/W2/W3 rules on one writer function.
// name = position-free function name used as construct prefix.
func c18CheckWriter(p *Prog, r *Report, fn *ssa.Function, name string, cfg *c18Cfg) {
	_, unknown := c18CollectOps(p, newC18Terms(p), fn)
	_, dunk := c18CollectDeferred(p, newC18Terms(p), fn)
	unknown = append(unknown, dunk...)
	if len(unknown) == 0 {
		c18CheckWriterCore(p, r, fn, name, cfg)
		return
	}
	// The function has file-system effects the model does not see (helpers, *os.File, …): a "required step
	// is missing" finding may be wrong (the step may sit in the helper) and is downgraded to UNDECIDED; a
	// "harmful step is present" finding stays a violation.
	tmp := NewReport(r.Prop, r.Tier)
	c18CheckWriterCore(p, tmp, fn, name, cfg)
	for _, o := range tmp.Obs {
		switch {
		case o.Status != StViolation && o.Nontrivial:
			r.OK(o.Rule, o.Construct, o.Pos, o.Message)
		case o.Status != StViolation:
			r.Trivial(o.Rule, o.Construct, o.Pos, o.Message)
		case o.Rule == cfg.Rules.Paths || strings.HasSuffix(o.Construct, " after publish"):
			r.Violation(o.Rule, o.Construct, o.Pos, o.Message, o.Witness...)
		default:
			r.Undecide("%s %s: %s — not reported as a violation because %s has file-system effects this check does not model", o.Rule, o.Construct, o.Message, name)
		}
	}
	r.Undecided = append(r.Undecided, tmp.Undecided...)
	r.Notes = append(r.Notes, tmp.Notes...)
}

func c18CheckWriterCore(p *Prog, r *Report, fn *ssa.Function, name string, cfg *c18Cfg) {
	R := cfg.Rules
	tt := newC18Terms(p)
	ops, unknown := c18CollectOps(p, tt, fn)
	deferred, dunk := c18CollectDeferred(p, tt, fn)
	unknown = append(unknown, dunk...)
	sort.Strings(unknown)
	for _, u := range unknown {
		r.Undecide("%s calls %s: a file-system effect this check does not model", name, u)
	}
	pos := func(in ssa.Instruction) string { return p.Pos(instrPos(in)) }

	// ---- roles -----------------------------------------------------------
	var publish []*c18Op
	for _, o := range ops {
		if o.Kind == c18Rename && cfg.isTarget(o.Path) {
			publish = append(publish, o)
		}
	}
	if len(publish) == 0 {
		r.Violation(R.Order, name+" publish: rename over target", p.Pos(fn.Pos()),
			"no os.Rename whose destination is the target path: the target is no longer switched atomically from one complete version to the next (any other way of replacing it has an instant where it is absent or half-made)")
	}
	if len(publish) > 1 {
		r.Undecide("%s renames over the target at %d places: shape not modelled", name, len(publish))
	}
	var pub, link, mk *c18Op
	var vdir *c18T
	if len(publish) >= 1 {
		pub = publish[0]
		for _, o := range ops {
			if o.Kind == c18CreateExcl && o.Fn == "os.Symlink" && o.Path.String() == pub.Aux.String() {
				link = o
			}
		}
		if link == nil {
			var other *c18Op
			for _, o := range ops {
				if o.Fn == "os.Symlink" {
					other = o
				}
			}
			if other != nil {
				r.Violation(R.Order, name+" publish: rename over target", p.Pos(instrPos(pub.Call)),
					"the rename over the target takes "+pub.Aux.String()+" as its source but the symlink made in this call is at "+other.Path.String()+": the link to the new version is never what gets published (the rename fails, or publishes whatever an earlier call left at its source)")
			} else {
				r.Undecide("%s: the source of the publishing rename (%s) is not created by an os.Symlink in the same function: mechanism changed, not modelled", name, pub.Aux)
			}
		} else {
			vdir = link.Aux
			for _, o := range ops {
				o.vdir = vdir
			}
		}
	}

	vsrc := link
	if vdir == nil {
		// classification only: a symlink made directly onto the target still names the version directory
		for _, o := range ops {
			if o.Fn == "os.Symlink" && cfg.isTarget(o.Path) {
				vdir, vsrc = o.Aux, o
			}
		}
	}

	// ---- W2: provenance of every mutated path ---------------------------------
	for _, o := range ops {
		construct := name + " " + o.desc()
		var bad, why string
		switch {
		case cfg.isTarget(o.Path):
			if o.Kind != c18Rename {
				bad = "the target path itself is mutated by " + o.Fn + ", not by an atomic rename: a crash (or a reader) between this step and the next sees the target absent or half-replaced"
			} else {
				why = "target only replaced by rename"
			}
		case o.Kind == c18Rename && cfg.isTarget(o.Aux):
			bad = "the target is renamed away: from that instant the target is absent although a version was published"
		case cfg.isPrev(o.Path):
			if o.Kind != c18Remove {
				bad = "the previous version directory is modified by " + o.Fn + " (it may still be what the target resolves to)"
			} else {
				why = "previous version directory removed"
			}
		case cfg.isBase(o.Path):
			if o.Kind != c18MkdirIdem {
				bad = "the base directory (parent of the target and of every version) is changed by " + o.Fn
			} else {
				why = "base directory ensured (idempotent)"
			}
		case link != nil && o.Path.String() == link.Path.String():
			why = "temporary link path"
		case vdir != nil:
			if under, self := c18Under(o.Path, vdir); under {
				switch {
				case self && (o.Kind == c18MkdirIdem || o.Kind == c18CreateExcl):
					why = "version directory created"
				case !self && o.Kind == c18WriteKind:
					why = "file written below the version directory"
				case o.Kind == c18Remove:
					why = "cleanup of the unpublished version directory (position checked by " + R.Order + ")"
				default:
					why = "operation below the version directory"
				}
			}
		}
		if bad == "" && why == "" {
			r.Undecide("%s: cannot relate the path of %s to the target, the version directory, the temporary link or prev", name, o.desc())
			continue
		}
		r.Check(bad == "", R.Paths, construct, pos(o.Call), why, bad)
	}

	// ---- W2: freshness of the version directory ----------------------------------
	if vdir != nil {
		construct := name + " version directory name"
		switch c18Classify(vdir, cfg.Frozen) {
		case c18Invariant:
			r.Violation(R.Fresh, construct, pos(vsrc.Call),
				"the version directory has the same name on every call ("+vdir.String()+"): the second Write creates its files inside the directory the target currently resolves to, so readers see a mixed/partial set while it runs and after a crash")
		case c18Varying:
			r.Undecide("%s: cannot tell whether the version directory name %s is unique per call", name, vdir)
		case c18Fresh:
			coarse := ""
			unknownRes := false
			for _, ch := range c18TimeMethods(vdir) {
				last := ""
				for _, m := range ch {
					switch m {
					case "UTC", "Local", "In", "Round", "Truncate", "Add":
					default:
						last = m
					}
				}
				switch last {
				case "UnixNano", "UnixMicro":
				case "Unix", "UnixMilli", "Year", "Month", "Day", "Hour", "Minute", "Second", "YearDay", "Weekday":
					coarse = last
				default:
					unknownRes = true
				}
			}
			hasOther := false
			vdir.walk(func(x *c18T) {
				if x.Op == "fresh" {
					hasOther = true
				}
			})
			switch {
			case hasOther:
				r.OK(R.Fresh, construct, pos(vsrc.Call), "name contains a per-call unique component")
			case coarse != "":
				r.Violation(R.Fresh, construct, pos(vsrc.Call),
					"the only per-call component of the version directory name is time.Now()."+coarse+"(), coarser than the duration of a Write: two Writes within the same tick share a version directory, the second one overwrites files in the directory the target already resolves to (mixed set) and its RemoveAll(prev) then deletes the published directory")
			case unknownRes:
				r.Undecide("%s: resolution of the time component in %s not recognised", name, vdir)
			default:
				r.OK(R.Fresh, construct, pos(vsrc.Call), "name contains time.Now() at nano/microsecond resolution")
			}
		}
	}

	if link != nil && cfg.Base != "" && strings.HasPrefix(vdir.String(), "join(F("+cfg.Base+")") {
		r.Note("%s: the link content %s is base-relative when the target was given as a relative path with a directory part (the OS resolves link contents relative to the link's own directory, so target \"certs/id\" yields a dangling link certs/id -> certs/<n>-id); not armed: the statement does not quantify over relative targets", name, vdir)
	}

	// ---- W3: crash leftovers ------------------------------------------------------
	removedFirst := c18CheckLeftovers(p, r, fn, name, cfg, ops)

	if pub == nil || link == nil {
		if len(deferred) > 0 {
			r.Undecide("%s: deferred file-system operations are not judged because the publishing rename / link was not identified", name)
		}
		return
	}
	for _, o := range ops {
		if o.Kind == c18MkdirIdem || o.Kind == c18CreateExcl {
			if _, self := c18Under(o.Path, vdir); self {
				mk = o
			}
		}
	}

	// ---- dataflow: success / failure facts --------------------------------------
	// must-bits: bit i = "op i was executed and its error result was seen nil"
	// may-bits : bit i = "op i failed (error seen non-nil) on some path to here"
	type edgeKey struct{ from, to *ssa.BasicBlock }
	succEdge, failEdge := map[edgeKey]uint64{}, map[edgeKey]uint64{}
	unchecked := map[*c18Op]string{}
	for _, o := range ops {
		tests, errv := c18ErrTests(o.Call)
		for _, t := range tests {
			if t.Succ != t.Fail {
				succEdge[edgeKey{t.If.Block(), t.Succ}] |= 1 << uint(o.idx)
				failEdge[edgeKey{t.If.Block(), t.Fail}] |= 1 << uint(o.idx)
			}
		}
		if len(tests) == 0 {
			if errv == nil || len(c18Refs(errv)) == 0 {
				unchecked[o] = "discarded"
			} else {
				unchecked[o] = "used-otherwise"
			}
		}
	}
	if len(ops) > 20 {
		r.Undecide("%s performs %d file-system operations: too many for this check", name, len(ops))
		return
	}
	const (
		bPublished  = 40 + iota // the publishing rename was executed
		bPrevSet                // prev points at this call's version directory
		bPrevDone               // prev seen nil, or RemoveAll(*prev) executed
		bPrevStored             // prev was overwritten
		bLoopDone               // the loop over the file map ran to its end
		bPubOK                  // the publishing rename may have succeeded
	)
	prevStoreKind := func(in ssa.Instruction) int { // 0 none, 1 = this version dir, 2 = something else
		st, ok := in.(*ssa.Store)
		if !ok {
			return 0
		}
		fa, ok := st.Addr.(*ssa.FieldAddr)
		if !ok || fieldIDOfAddr(fa).String() != cfg.Prev {
			return 0
		}
		t := tt.Term(st.Val)
		if t.Op == "call" && t.Lit == "addr" && len(t.Args) == 1 && t.Args[0].String() == vdir.String() {
			return 1
		}
		return 2
	}
	isPrevRemove := func(in ssa.Instruction) *c18Op {
		for _, o := range ops {
			if o.Call == in && o.Kind == c18Remove && cfg.isPrev(o.Path) {
				return o
			}
		}
		return nil
	}
	prevNilEdge := func(from, to *ssa.BasicBlock) bool {
		if len(from.Instrs) == 0 || len(from.Succs) != 2 || from.Succs[0] == from.Succs[1] {
			return false
		}
		ifi, ok := from.Instrs[len(from.Instrs)-1].(*ssa.If)
		if !ok {
			return false
		}
		cmp, ok := decodeCond(ifi.Cond, from.Succs[0] == to)
		if !ok || cmp.Op != token.EQL {
			return false
		}
		for _, pr := range [][2]ssa.Value{{cmp.X, cmp.Y}, {cmp.Y, cmp.X}} {
			if id, _, ok := fieldOfValue(pr[0]); ok && id.String() == cfg.Prev && isNilConst(pr[1]) {
				return true
			}
		}
		return false
	}
	// the loop over the files
	writeBlocks := map[*ssa.BasicBlock]bool{}
	for _, o := range ops {
		if under, self := c18Under(o.Path, vdir); under && !self && o.Kind == c18WriteKind {
			writeBlocks[o.Call.Block()] = true
		}
	}
	loop := c18FindFileLoop(fn, writeBlocks)
	must := &FlagFlow{Fn: fn, Must: true,
		Transfer: func(in ssa.Instruction, st uint64) uint64 {
			if in == ssa.Instruction(pub.Call) {
				st |= 1 << bPublished
			}
			switch prevStoreKind(in) {
			case 1:
				st |= 1 << bPrevSet
			case 2:
				st &^= 1 << bPrevSet
			}
			if isPrevRemove(in) != nil {
				st |= 1 << bPrevDone
			}
			return st
		},
		EdgeTransfer: func(from, to *ssa.BasicBlock, st uint64) uint64 {
			st |= succEdge[edgeKey{from, to}]
			if prevNilEdge(from, to) {
				st |= 1 << bPrevDone
			}
			if loop != nil && from == loop.Header && to == loop.Exit {
				st |= 1 << bLoopDone
			}
			return st
		}}
	must.Run()
	may := &FlagFlow{Fn: fn, Must: false,
		Transfer: func(in ssa.Instruction, st uint64) uint64 {
			if in == ssa.Instruction(pub.Call) {
				st |= 1 << bPublished
			}
			if prevStoreKind(in) != 0 {
				st |= 1 << bPrevStored
			}
			return st
		},
		EdgeTransfer: func(from, to *ssa.BasicBlock, st uint64) uint64 {
			if succEdge[edgeKey{from, to}]&(1<<uint(pub.idx)) != 0 {
				st |= 1 << bPubOK
			}
			return st | failEdge[edgeKey{from, to}]
		}}
	if unchecked[pub] != "" {
		prev := may.Transfer
		may.Transfer = func(in ssa.Instruction, st uint64) uint64 {
			st = prev(in, st)
			if in == ssa.Instruction(pub.Call) {
				st |= 1 << bPubOK
			}
			return st
		}
	}
	may.Run()
	bit := func(st uint64, b int) bool { return st&(1<<uint(b)) != 0 }

	// ---- W1: order of the steps ---------------------------------------------------
	mustAtPub, _ := must.Before(pub.Call)
	mayAtPub, _ := may.Before(pub.Call)

	// every step that has to succeed before publishing
	for _, o := range ops {
		under, _ := c18Under(o.Path, vdir)
		isLink := o == link
		if !(isLink || (under && o.Kind != c18Remove)) {
			continue
		}
		if !instrReaches(o.Call, pub.Call) {
			continue // after the publish: handled below
		}
		construct := name + " " + o.desc() + " must succeed before publish"
		// A missing/failed link step is harmful only when a stale link of an earlier, crashed call can sit at
		// the link path (then the rename publishes that one); if the path is removed first the rename just fails.
		violate := func(msg string) {
			if isLink && !removedFirst[o] {
				// the outcome (stale link published / blocked forever / recovered) is decided by W3-leftover
				r.Trivial(R.Order, construct, pos(o.Call), "link path not removed first: failure handling judged by "+R.Leftover)
				return
			}
			if isLink && removedFirst[o] {
				r.Note("%s: %s (not armed: the link path is removed first, so the rename then fails instead of publishing something else)", construct, msg)
				r.Trivial(R.Order, construct, pos(o.Call), "NOTE only: "+msg)
				return
			}
			r.Violation(R.Order, construct, pos(o.Call), msg)
		}
		switch unchecked[o] {
		case "discarded":
			violate("the error result of " + o.Fn + " is discarded: when it fails the function goes on and renames a link to an incomplete (or missing, or stale) version directory over the target")
			continue
		case "used-otherwise":
			if isLink && !removedFirst[o] {
				violate("the error result of " + o.Fn + " is not tested against nil")
				continue
			}
			r.Undecide("%s: the error result of %s is not tested against nil directly; shape not modelled", name, o.desc())
			continue
		}
		if bit(mayAtPub, o.idx) {
			// the failure edge reaches the publish. Tolerant shapes (errors.Is / os.IsExist on the failure path) are not judged.
			if isLink {
				violate("a path on which " + o.Fn + " failed still reaches the rename over the target")
			} else if c18FailureIsInspected(o) {
				r.Undecide("%s: a failure of %s is inspected (errors.Is/os.IsExist…) and may be tolerated; shape not modelled", name, o.desc())
			} else {
				violate("a path on which " + o.Fn + " failed still reaches the rename over the target: an incomplete (or stale) version directory gets published")
			}
			continue
		}
		if o == link || o == mk {
			if bit(mustAtPub, o.idx) {
				r.OK(R.Order, construct, pos(o.Call), "every path to the publishing rename passes the success edge of this step")
			} else {
				violate("the publishing rename can be reached without " + o.Fn + " having been executed successfully")
			}
			continue
		}
		r.OK(R.Order, construct, pos(o.Call), "no path on which this step failed reaches the publishing rename")
	}
	if mk == nil {
		r.Violation(R.Order, name+" version directory created", pos(link.Call), "the version directory "+vdir.String()+" is never created in this function")
	} else {
		// files are written only once the directory exists
		for _, o := range ops {
			if under, self := c18Under(o.Path, vdir); under && !self && o.Kind == c18WriteKind {
				st, _ := must.Before(o.Call)
				r.Check(bit(st, mk.idx), R.Order, name+" "+o.desc()+" after version directory creation", pos(o.Call),
					"dominated by the success edge of the directory creation", "a file is written below the version directory on a path where the directory was not (successfully) created first")
			}
		}
	}
	// link points at the version dir that was filled in this call: by construction vdir = link.Aux; files must be under it
	nFiles := 0
	for _, o := range ops {
		if under, self := c18Under(o.Path, vdir); under && !self && o.Kind == c18WriteKind {
			nFiles++
		}
	}
	if nFiles == 0 {
		r.Violation(R.Complete, name+" files written below the linked directory", pos(link.Call), "no file is written below the directory the new link points to ("+vdir.String()+"): what gets published is not the set written by this call")
	}
	// nothing touches the published version after the rename
	for _, o := range ops {
		if under, _ := c18Under(o.Path, vdir); under && o != link {
			st, reach := may.Before(o.Call)
			if reach && bit(st, bPublished) {
				r.Violation(R.Order, name+" "+o.desc()+" after publish", pos(o.Call), o.Fn+" acts on the version directory after it was renamed over the target: readers resolve the target to a directory that is still changing (partial set), or that is deleted")
			}
		}
	}
	r.Check(true, R.Order, name+" publish: rename over target", pos(pub.Call), "single rename whose destination is the target and whose source is the link created in this call", "")

	// ---- W1: complete set -----------------------------------------------------------
	c18CheckLoop(p, r, fn, name, cfg, tt, loop, ops, vdir, pub, bit(mustAtPub, bLoopDone))

	// ---- W1: prev handling ---------------------------------------------------------
	nPrevRemove := 0
	for _, o := range ops {
		if o.Kind == c18Remove && cfg.isPrev(o.Path) {
			nPrevRemove++
			stMust, _ := must.Before(o.Call)
			stMay, _ := may.Before(o.Call)
			r.Check(bit(stMust, pub.idx), R.Prev, name+" "+o.desc()+" only after successful publish", pos(o.Call),
				"dominated by the success edge of the publishing rename",
				"the previous version directory can be removed before the target was switched away from it (or although the switch failed): the target then resolves to a deleted directory")
			r.Check(!bit(stMay, bPrevStored), R.Prev, name+" "+o.desc()+" before prev is overwritten", pos(o.Call),
				"prev still names the previous version when it is removed",
				"prev is overwritten before this removal: what gets deleted is the version directory that was just published, the target dangles")
		}
	}
	if nPrevRemove == 0 {
		r.Violation(R.Prev, name+" removes previous version", p.Pos(fn.Pos()), "no os.Remove/RemoveAll of *"+cfg.Prev+": superseded version directories are never deleted (without crashes more than the current version remains)")
	}

	// ---- deferred clean-up ---------------------------------------------------------------
	closureWrites := c18ClosureWrites(fn)
	c18CheckDeferred(p, r, fn, name, cfg, deferred, vdir, link, closureWrites, func(in ssa.Instruction) bool {
		st, ok := may.Before(in)
		return ok && bit(st, bPubOK)
	})

	// ---- returns ------------------------------------------------------------------------
	nNil := 0
	must.AtReturns(func(ret *ssa.Return, st uint64) {
		if len(ret.Results) == 0 {
			return
		}
		if c18ReturnErrKind(ret, closureWrites) != "nil" {
			return
		}
		nNil++
		r.Check(bit(st, pub.idx), R.NilRet, name+" return nil => target renamed", pos(ret),
			"every nil return is dominated by the success edge of the publishing rename",
			"the function can return nil (at "+pos(ret)+") although the rename over the target did not happen or failed: the caller is told the new set is in place while the target still shows the old one (or nothing)")
		if nPrevRemove > 0 {
			r.Check(bit(st, bPrevDone), R.Prev, name+" return nil => previous version removed or none", pos(ret),
				"on every successful path prev was nil or was removed",
				"a successful return (at "+pos(ret)+") is reachable without removing the previous version directory although prev was set: old versions accumulate")
		}
		r.Check(bit(st, bPrevSet), R.Prev, name+" return nil => prev = this version directory", pos(ret),
			"prev is set to the directory published by this call on every successful path",
			"a successful return (at "+pos(ret)+") leaves prev not pointing at the directory just published: the next Write deletes the wrong directory or never deletes this one")
	})
	if nNil == 0 {
		r.Undecide("%s has no return that provably yields a nil error: success exits not recognised", name)
	}
}

// instrReaches: b is reachable from a (same function), including a later position in the same block.
func instrReaches(a, b ssa.Instruction) bool {
	if a.Block() == b.Block() && instrIndex(a) < instrIndex(b) {
		return true
	}
	for _, s := range a.Block().Succs {
		if reachableFrom(s, nil)[b.Block()] {
			return true
		}
	}
	return false
}

// c18FailureIsInspected: on the blocks dominated by a failure edge of op, the
// error is passed to errors.Is/As or os.IsExist/IsNotExist (a tolerant shape).
func c18FailureIsInspected(o *c18Op) bool {
	tests, errv := c18ErrTests(o.Call)
	found := false
	for _, r := range c18Refs(errv) {
		if c, ok := r.(*ssa.Call); ok {
			if obj := calleeObj(c); obj != nil && obj.Pkg() != nil {
				n := obj.Pkg().Path() + "." + obj.Name()
				switch n {
				case "errors.Is", "errors.As", "os.IsExist", "os.IsNotExist", "os.IsPermission":
					found = true
				}
			}
		}
		if _, ok := r.(*ssa.TypeAssert); ok {
			found = true
		}
		if _, ok := r.(*ssa.Phi); ok {
			found = true
		}
	}
	_ = tests
	return found
}

type c18Loop struct {
	Range  *ssa.Range
	Next   *ssa.Next
	Header *ssa.BasicBlock
	Body   *ssa.BasicBlock
	Exit   *ssa.BasicBlock
	Blocks map[*ssa.BasicBlock]bool
}

// c18FindFileLoop finds the `for k, v := range <map parameter>` loop that
// contains one of the blocks in want (the file writes).
func c18FindFileLoop(fn *ssa.Function, want map[*ssa.BasicBlock]bool) *c18Loop {
	var out *c18Loop
	allInstrs(fn, func(in ssa.Instruction) {
		nx, ok := in.(*ssa.Next)
		if !ok {
			return
		}
		rg, ok := nx.Iter.(*ssa.Range)
		if !ok {
			return
		}
		pa, ok := rg.X.(*ssa.Parameter)
		if !ok {
			return
		}
		if _, ok := pa.Type().Underlying().(*types.Map); !ok {
			return
		}
		// the If on extract #0
		for _, r := range refs(nx) {
			ex, ok := r.(*ssa.Extract)
			if !ok || ex.Index != 0 {
				continue
			}
			for _, rr := range refs(ex) {
				if ifi, ok := rr.(*ssa.If); ok && ifi.Block() == nx.Block() {
					l := &c18Loop{Range: rg, Next: nx, Header: nx.Block(), Body: ifi.Block().Succs[0], Exit: ifi.Block().Succs[1], Blocks: map[*ssa.BasicBlock]bool{}}
					fromH := reachableFrom(l.Header, nil)
					for _, b := range fn.Blocks {
						if fromH[b] && reachableFrom(b, nil)[l.Header] {
							l.Blocks[b] = true
						}
					}
					has := false
					for b := range l.Blocks {
						if want[b] {
							has = true
						}
					}
					if out == nil && has {
						out = l
					}
				}
			}
		}
	})
	return out
}

func c18CheckLoop(p *Prog, r *Report, fn *ssa.Function, name string, cfg *c18Cfg, tt *c18Terms, loop *c18Loop, ops []*c18Op, vdir *c18T, pub *c18Op, loopDoneAtPub bool) {
	R := cfg.Rules
	construct := name + " every entry of the file map written before publish"
	if loop == nil {
		r.Undecide("%s: the files are not written inside a `for name, content := range <map parameter>` loop: how the file set is enumerated is not modelled", name)
		return
	}
	pos := p.Pos(instrPos(loop.Next))
	// the write inside the loop
	var w *c18Op
	for _, o := range ops {
		if o.Kind != c18WriteKind || !loop.Blocks[o.Call.Block()] {
			continue
		}
		under, self := c18Under(o.Path, vdir)
		if !under || self {
			continue
		}
		w = o
	}
	if w == nil {
		r.Undecide("%s: the loop over the file map contains no write below the version directory; shape not modelled", name)
		return
	}
	// name and content come from the same iteration
	keyT := &c18T{Op: "key", Args: []*c18T{tt.Term(loop.Range.X)}}
	valT := &c18T{Op: "val", Args: []*c18T{tt.Term(loop.Range.X)}}
	nameOK := false
	if w.Path.Op == "join" && len(w.Path.Args) >= 1 && w.Path.Args[len(w.Path.Args)-1].String() == keyT.String() {
		nameOK = true
	}
	dataOK := w.Data != nil && tt.Term(w.Data).String() == valT.String()
	r.Check(nameOK && dataOK, R.Complete, name+" file name and content of the same map entry", p.Pos(instrPos(w.Call)),
		"path = join(version dir, key), data = value of the same iteration",
		"the file written in the loop is not <version dir>/<map key> with the map value of the same entry as content (path "+w.Path.String()+", data "+func() string {
			if w.Data == nil {
				return "?"
			}
			return tt.Term(w.Data).String()
		}()+"): the published directory does not hold the set passed to Write")

	// every iteration writes: each back edge is preceded by the success edge of w on all paths from the body entry
	tests, _ := c18ErrTests(w.Call)
	iterOK := len(tests) > 0
	why := ""
	iter := &FlagFlow{Fn: fn, Must: true,
		Transfer: func(in ssa.Instruction, st uint64) uint64 {
			if in == loop.Header.Instrs[0] {
				return 0 // new iteration
			}
			return st
		},
		EdgeTransfer: func(from, to *ssa.BasicBlock, st uint64) uint64 {
			for _, t := range tests {
				if t.If.Block() == from && t.Succ == to && t.Succ != t.Fail {
					st |= 1
				}
			}
			return st
		}}
	iter.Run()
	for _, pred := range loop.Header.Preds {
		if !loop.Blocks[pred] {
			continue
		}
		st, ok := iter.Out(pred)
		if !ok {
			continue
		}
		if st = iter.EdgeTransfer(pred, loop.Header, st); st&1 == 0 {
			iterOK = false
			why = "an iteration can end (back edge from the block at " + p.Pos(instrPos(pred.Instrs[len(pred.Instrs)-1])) + ") without having written its file successfully: that entry is missing from the published directory"
		}
	}
	if len(tests) == 0 {
		why = "the result of the write in the loop is not tested"
	}
	// the loop is left only at its end on the way to the publish
	if iterOK && !loopDoneAtPub {
		// early exits
		early := false
		for b := range loop.Blocks {
			for _, s := range b.Succs {
				if !loop.Blocks[s] && !(b == loop.Header && s == loop.Exit) && reachableFrom(s, nil)[pub.Call.Block()] {
					// straight line to publish?
					x := s
					for len(x.Succs) == 1 && x != pub.Call.Block() {
						x = x.Succs[0]
					}
					if x == pub.Call.Block() || len(x.Succs) == 0 {
						early = true
					} else {
						r.Undecide("%s: the loop over the file map is left early and a later test decides whether to publish; shape not modelled", name)
						return
					}
				}
			}
		}
		if early {
			iterOK = false
			why = "the loop over the file map can be left before all entries were written (break) and the publishing rename is still reached: a partial set gets published"
		} else {
			iterOK = false
			why = "the publishing rename can be reached without the loop over the file map having run to its end (publish before/inside the loop): the target shows a partial set"
		}
	}
	r.Check(iterOK, R.Complete, construct, pos, "each iteration writes its entry successfully or leaves without publishing; the rename is reached only through the loop's end", why)
}

// c18CheckLeftovers (W3): a create-type operation that fails when its path
// exists, on a path that is the same on every call, is left behind by a crash
// between it and the step that consumes it; the next call then fails forever
// unless the path is removed first (or EEXIST is handled).
func c18CheckLeftovers(p *Prog, r *Report, fn *ssa.Function, name string, cfg *c18Cfg, ops []*c18Op) map[*c18Op]bool {
	R := cfg.Rules
	removedFirst := map[*c18Op]bool{}
	for _, o := range ops {
		if o.Kind != c18CreateExcl {
			continue
		}
		construct := name + " " + o.desc() + " survives a leftover"
		at := p.Pos(instrPos(o.Call))
		switch c18Classify(o.Path, cfg.Frozen) {
		case c18Fresh:
			r.OK(R.Leftover, construct, at, "path is unique per call: a leftover of a crashed call cannot collide")
			continue
		case c18Varying:
			r.Undecide("%s: cannot tell whether the path of %s is the same on every call", name, o.desc())
			continue
		}
		// invariant path: must be removed before on every path
		want := o.Path.String()
		ff := &FlagFlow{Fn: fn, Must: true, Transfer: func(in ssa.Instruction, st uint64) uint64 {
			for _, q := range ops {
				if q.Call != in {
					continue
				}
				if q.Kind == c18Remove && q.Path.String() == want {
					st |= 1
				}
				if (q.Kind == c18CreateExcl || q.Kind == c18WriteKind || q.Kind == c18MkdirIdem) && q.Path.String() == want && q != o {
					st &^= 1
				}
				if q.Kind == c18Rename && q.Path.String() == want {
					st &^= 1
				}
			}
			return st
		}}
		ff.Run()
		st, _ := ff.Before(o.Call)
		if st&1 != 0 {
			removedFirst[o] = true
			r.OK(R.Leftover, construct, at, "the path is removed on every path before it is created")
			continue
		}
		sa := c18StaleAnalysis(p, fn, o, ops)
		blocked := o.Fn + " fails with EEXIST when " + want + " already exists, the path is the same on every call and nothing removes it first: a process that dies after this step and before the step that consumes the path (rename) leaves it behind, and every later Write — also from a fresh instance — returns \"file exists\" forever"
		switch {
		case sa.Opaque != "":
			r.Undecide("%s: %s is created on a call-invariant path that is not removed first, and %s", name, o.desc(), sa.Opaque)
		case sa.Readlink:
			r.Undecide("%s: %s is created on a call-invariant path that is not removed first and the function reads a link back with os.Readlink: content comparison not modelled", name, o.desc())
		case sa.StaleAtUse:
			r.Violation(R.Leftover, construct, at,
				"when "+want+" already exists (left by a call that died between this step and the rename) the failure of "+o.Fn+" is ignored/tolerated and the path is consumed as it is (rename at "+sa.Where+"): what gets renamed over the target is the STALE link, whose content is the crashed call's version directory — the recovering Write returns nil while the target shows the crashed call's (possibly incomplete) files instead of the new set, the new version directory is orphaned and prev names a directory the target does not resolve to. Tolerating EEXIST is not a substitute for removing the leftover first")
		case sa.Recreated:
			r.OK(R.Leftover, construct, at, "after a failed creation the link is created again successfully before the path is consumed")
		default:
			r.Violation(R.Leftover, construct, at, blocked)
		}
	}
	return removedFirst
}

// c18CheckDeferred judges deferred operations: they run at every return that
// follows the defer statement. A deferred mutation of the version directory
// that can run at a return reachable after the successful rename destroys the
// published set.
func c18CheckDeferred(p *Prog, r *Report, fn *ssa.Function, name string, cfg *c18Cfg, deferred []*c18Deferred, vdir *c18T, link *c18Op,
	closureWrites map[*ssa.Alloc]bool, pubMayHaveSucceeded func(ssa.Instruction) bool) {
	R := cfg.Rules
	if len(deferred) == 0 {
		return
	}
	var cells []*ssa.Alloc
	seen := map[*ssa.Alloc]bool{}
	for _, d := range deferred {
		for _, g := range d.Guard {
			if g.Kind == "flag" && !seen[g.Cell] {
				seen[g.Cell] = true
				cells = append(cells, g.Cell)
			}
		}
	}
	if len(cells) > 30 {
		r.Undecide("%s: too many flags in deferred functions", name)
		return
	}
	flags := c18FlagFlow(fn, cells, closureWrites)
	cellIdx := map[*ssa.Alloc]int{}
	for i, c := range cells {
		cellIdx[c] = i
	}
	for _, d := range deferred {
		o := d.Op
		o.vdir = vdir
		construct := name + " deferred " + o.desc() + " after publish"
		at := p.Pos(instrPos(d.Where))
		under, _ := c18Under(o.Path, vdir)
		switch {
		case under:
		case cfg.isTarget(o.Path) || (o.Kind == c18Rename && cfg.isTarget(o.Aux)):
			r.Violation(R.Paths, name+" deferred "+o.desc(), at, "a deferred "+o.Fn+" acts on the target path itself: the target is not only replaced by the atomic rename")
			continue
		case link != nil && o.Path.String() == link.Path.String() && o.Kind == c18Remove:
			r.OK(R.Paths, name+" deferred "+o.desc(), at, "deferred removal of the temporary link path (harmless)")
			continue
		default:
			r.Undecide("%s: cannot relate the path of the deferred %s to the version directory or the temporary link", name, o.desc())
			continue
		}
		if d.Opaque != "" {
			r.Undecide("%s: deferred %s: %s", name, o.desc(), d.Opaque)
			continue
		}
		// every return after the defer statement
		verdict, where := "ok", ""
		nRet := 0
		allInstrs(fn, func(in ssa.Instruction) {
			rd, ok := in.(*ssa.RunDefers)
			if !ok || !instrReaches(d.Defer, rd) {
				return
			}
			var ret *ssa.Return
			for _, j := range rd.Block().Instrs {
				if x, ok := j.(*ssa.Return); ok {
					ret = x
				}
			}
			if ret == nil {
				return
			}
			nRet++
			if !pubMayHaveSucceeded(rd) {
				return // pre-publish phase: cleaning up the unpublished directory is fine
			}
			kind := c18ReturnErrKind(ret, closureWrites)
			fst, _ := flags.Before(rd)
			runs := "yes"
			for _, g := range d.Guard {
				val := "unknown"
				switch g.Kind {
				case "err":
					switch kind {
					case "nil":
						val = map[bool]string{true: "false", false: "true"}[g.Val]
					case "nonnil":
						val = map[bool]string{true: "true", false: "false"}[g.Val]
					}
				case "flag":
					i := uint(2 * cellIdx[g.Cell])
					switch {
					case fst&(1<<i) != 0: // known true
						val = map[bool]string{true: "true", false: "false"}[g.Val]
					case fst&(2<<i) != 0: // known false
						val = map[bool]string{true: "false", false: "true"}[g.Val]
					}
				}
				if val == "false" {
					runs = "no"
					break
				}
				if val == "unknown" {
					runs = "maybe"
				}
			}
			switch runs {
			case "yes":
				verdict, where = "bad", p.Pos(instrPos(ret))
			case "maybe":
				if verdict != "bad" {
					verdict, where = "unknown", p.Pos(instrPos(ret))
				}
			}
		})
		switch verdict {
		case "bad":
			r.Violation(R.Order, construct, at,
				"the deferred "+o.Fn+" of the version directory runs at the return at "+where+", which is reachable after the rename over the target succeeded (and satisfies the deferred function's condition): the directory the target now resolves to is deleted, the target dangles although a complete set was published. Clean-up of the version directory must be confined to the phase before the rename")
		case "unknown":
			r.Undecide("%s: cannot tell whether the deferred %s runs at the return at %s, which is reachable after the successful rename", name, o.desc(), where)
		default:
			r.OK(R.Order, construct, at, "the deferred clean-up of the version directory cannot run at a return that follows the successful rename")
		}
	}
}
