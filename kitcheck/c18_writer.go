package main

// C18 helper: analysis of an "atomic directory writer" function (dir.Write and
// the fixture functions shaped like it).

import (
	"go/token"
	"go/types"
	"strings"

	"golang.org/x/tools/go/ssa"
)

type c18Kind int

const (
	c18MkdirIdem  c18Kind = iota // MkdirAll: succeeds if the directory exists
	c18CreateExcl                // Symlink, Link, Mkdir: fail with EEXIST
	c18WriteKind                 // WriteFile, Create, OpenFile: create or overwrite
	c18Rename
	c18Remove
	c18OtherMut
)

type c18Op struct {
	Call  *ssa.Call
	Fn    string // "os.Symlink"
	Kind  c18Kind
	Path  *c18T // the path that is created / replaced / removed / modified
	Aux   *c18T // Symlink/Link: what the link points to; Rename: the source
	Data  ssa.Value
	idx   int
	Excl  bool       // create-or-fail flavour of a write-kind call (os.OpenFile with O_CREATE|O_EXCL)
	vdir  *c18T      // display only: the term of the version directory, abbreviated in constructs
	Fr    *c18Frame  // the expanded frame the call sits in
	Nodes []*c18Node // its instances in the graph
	cfg   *c18Cfg    // display only
}

func (o *c18Op) show(t *c18T) string {
	if o.vdir != nil {
		if under, self := c18Under(t, o.vdir); self {
			return "<version dir>"
		} else if under && t.Op == "join" {
			n := 1
			if o.vdir.Op == "join" {
				n = len(o.vdir.Args)
			}
			s := "<version dir>"
			for _, a := range t.Args[n:] {
				s += "/" + a.String()
			}
			return s
		}
	}
	if o.cfg != nil {
		return strings.ReplaceAll(t.String(), "F("+o.cfg.Prev+")", "<prev>")
	}
	return t.String()
}

func (o *c18Op) desc() string {
	if o.Aux != nil {
		switch o.Kind {
		case c18Rename:
			return o.Fn + "(" + o.show(o.Aux) + " -> " + o.show(o.Path) + ")"
		default:
			return o.Fn + "(" + o.show(o.Path) + " => " + o.show(o.Aux) + ")"
		}
	}
	return o.Fn + "(" + o.show(o.Path) + ")"
}

// file-system API model: package os (and io/ioutil) functions that mutate the
// name space, with the index of the mutated path argument.
var c18Mutators = map[string]struct {
	kind c18Kind
	path int
	aux  int
	data int
}{
	"os.MkdirAll":         {c18MkdirIdem, 0, -1, -1},
	"os.Mkdir":            {c18CreateExcl, 0, -1, -1},
	"os.Symlink":          {c18CreateExcl, 1, 0, -1},
	"os.Link":             {c18CreateExcl, 1, 0, -1},
	"os.WriteFile":        {c18WriteKind, 0, -1, 1},
	"io/ioutil.WriteFile": {c18WriteKind, 0, -1, 1},
	"os.Create":           {c18WriteKind, 0, -1, -1},
	"os.OpenFile":         {c18WriteKind, 0, -1, -1},
	"os.Rename":           {c18Rename, 1, 0, -1},
	"os.Remove":           {c18Remove, 0, -1, -1},
	"os.RemoveAll":        {c18Remove, 0, -1, -1},
	"os.Chmod":            {c18OtherMut, 0, -1, -1},
	"os.Chown":            {c18OtherMut, 0, -1, -1},
	"os.Lchown":           {c18OtherMut, 0, -1, -1},
	"os.Chtimes":          {c18OtherMut, 0, -1, -1},
	"os.Truncate":         {c18OtherMut, 0, -1, -1},
}

// functions of package os known not to change the name space.
var c18ReadOnly = map[string]bool{
	"Stat": true, "Lstat": true, "Readlink": true, "ReadFile": true, "ReadDir": true, "Open": true,
	"IsExist": true, "IsNotExist": true, "IsPermission": true, "Getenv": true, "LookupEnv": true,
	"Getwd": true, "Getpid": true, "Hostname": true, "TempDir": true, "UserHomeDir": true, "Getuid": true,
	"Getgid": true, "SameFile": true, "IsPathSeparator": true, "Executable": true, "NewSyscallError": true,
	"Environ": true, "Expand": true, "ExpandEnv": true, "DirFS": true, "Geteuid": true, "Getegid": true,
}

// c18Cfg names the fields of the writer's state.
type c18Cfg struct {
	Target    string // FieldID.String() of the published path
	Prev      string // field holding *string of the previous version directory
	Base      string
	TargetDir string
	Frozen    map[string]bool // fields written only at construction
	Rules     c18Rules
	// set by c18ResolveRoles when the state type has a constructor: the target
	// path as a term over the constructor's inputs (field reads are substituted)
	resolved  bool
	targetStr string
	// the previous-version field is a plain string ("" = none) instead of a *string
	prevIsString bool
	// nodes downstream of a branch the graph could not correlate with the path (set per analysis)
	shaky map[*c18Node]bool
}

type c18Rules struct{ Order, Complete, Paths, Fresh, Leftover, Prev, NilRet string }

func c18FullName(obj *types.Func) string {
	if obj == nil || obj.Pkg() == nil {
		return ""
	}
	sig := obj.Type().(*types.Signature)
	if sig.Recv() != nil {
		return obj.Pkg().Path() + "." + typeBaseName(sig.Recv().Type()) + "." + obj.Name()
	}
	return obj.Pkg().Path() + "." + obj.Name()
}

// c18CollectOps enumerates the file-system mutations performed directly by fn.
// unknown lists calls the model cannot classify.
func c18CollectOps(p *Prog, tt *c18Terms, fn *ssa.Function) (ops []*c18Op, unknown []string) {
	allInstrs(fn, func(in ssa.Instruction) {
		ci, ok := in.(ssa.CallInstruction)
		if !ok {
			return
		}
		if d, ok := in.(*ssa.Defer); ok && c18IsModelledDefer(fn, d) {
			return // handled by c18CollectDeferred
		}
		obj := calleeObj(ci)
		full := c18FullName(obj)
		if full == "" {
			return
		}
		pkg := obj.Pkg().Path()
		if m, ok := c18Mutators[full]; ok {
			call, isCall := in.(*ssa.Call)
			if !isCall {
				unknown = append(unknown, full+" in a defer/go statement")
				return
			}
			op := &c18Op{Call: call, Fn: full, Kind: m.kind, Excl: c18OpKind(p, full, m.kind, call) == c18CreateExcl && m.kind != c18CreateExcl, Path: tt.Term(call.Call.Args[m.path])}
			if m.aux >= 0 {
				op.Aux = tt.Term(call.Call.Args[m.aux])
			}
			if m.data >= 0 {
				op.Data = call.Call.Args[m.data]
			}
			op.idx = len(ops)
			ops = append(ops, op)
			return
		}
		sig := obj.Type().(*types.Signature)
		switch {
		case pkg == "os" && sig.Recv() == nil && !c18ReadOnly[obj.Name()]:
			unknown = append(unknown, full)
		case pkg == "os" && sig.Recv() != nil && typeBaseName(sig.Recv().Type()) == "File" && !c18FileHarmless[obj.Name()]:
			unknown = append(unknown, full)
		case pkg == "syscall" || pkg == "golang.org/x/sys/unix" || pkg == "os/exec" || pkg == "io/ioutil":
			unknown = append(unknown, full)
		}
		if f := staticCallee(ci); f != nil && p.InModule(f) && c18TouchesFS(p, f, map[*ssa.Function]bool{}) {
			unknown = append(unknown, "in-module helper "+FuncName(p, f)+" that performs file-system operations (not inlined by this check)")
		}
	})
	return
}

func c18TouchesFS(p *Prog, fn *ssa.Function, seen map[*ssa.Function]bool) bool {
	if seen[fn] {
		return false
	}
	seen[fn] = true
	found := false
	allInstrs(fn, func(in ssa.Instruction) {
		ci, ok := in.(ssa.CallInstruction)
		if !ok || found {
			return
		}
		obj := calleeObj(ci)
		if obj != nil && obj.Pkg() != nil {
			if _, ok := c18Mutators[c18FullName(obj)]; ok {
				found = true
				return
			}
		}
		if f := staticCallee(ci); f != nil && p.InModule(f) && c18TouchesFS(p, f, seen) {
			found = true
		}
	})
	for _, a := range fn.AnonFuncs {
		if c18TouchesFS(p, a, seen) {
			found = true
		}
	}
	return found
}

// c18ErrTests: the If instructions that test the error result of call against
// nil. For each: the block entered when the call succeeded / failed.
type c18ErrTest struct {
	If         *ssa.If
	Succ, Fail *ssa.BasicBlock
}

func c18ErrValue(call *ssa.Call) ssa.Value {
	res := call.Call.Signature().Results()
	if res.Len() == 0 {
		return nil
	}
	return callResult(call, res.Len()-1)
}

func c18ErrTests(call *ssa.Call) (tests []c18ErrTest, errv ssa.Value) {
	errv = c18ErrValue(call)
	if errv == nil {
		return nil, nil
	}
	allInstrs(call.Parent(), func(in ssa.Instruction) {
		ifi, ok := in.(*ssa.If)
		if !ok {
			return
		}
		cmp, ok := decodeCond(ifi.Cond, true)
		if !ok {
			return
		}
		if !((isNilConst(cmp.Y) && c18Root(cmp.X) == errv) || (isNilConst(cmp.X) && c18Root(cmp.Y) == errv)) {
			return
		}
		b := ifi.Block()
		switch cmp.Op {
		case token.NEQ:
			tests = append(tests, c18ErrTest{ifi, b.Succs[1], b.Succs[0]})
		case token.EQL:
			tests = append(tests, c18ErrTest{ifi, b.Succs[0], b.Succs[1]})
		}
	})
	return
}

// norm: structural equality of path terms modulo the layout aliases
// join(Dir(X), Base(X)) == X and (fixture mode) join(base, targetDir) == target.
func (cfg *c18Cfg) norm(t *c18T) string {
	s := t.String()
	if !cfg.resolved && cfg.Base != "" && s == "join(F("+cfg.Base+"),F("+cfg.TargetDir+"))" {
		return "F(" + cfg.Target + ")"
	}
	if t.Op == "join" && len(t.Args) == 2 {
		a, b := t.Args[0], t.Args[1]
		if a.Op == "pathfn" && a.Lit == "Dir" && b.Op == "pathfn" && b.Lit == "Base" && len(a.Args) == 1 && len(b.Args) == 1 && a.Args[0].String() == b.Args[0].String() {
			return a.Args[0].String()
		}
	}
	return s
}

func (cfg *c18Cfg) targetTerm() string {
	if cfg.resolved {
		return cfg.targetStr
	}
	return "F(" + cfg.Target + ")"
}

func (cfg *c18Cfg) isTarget(t *c18T) bool { return cfg.norm(t) == cfg.targetTerm() }
func (cfg *c18Cfg) isPrev(t *c18T) bool {
	if cfg.prevIsString {
		return t.String() == "F("+cfg.Prev+")"
	}
	return t.String() == "*F("+cfg.Prev+")"
}

// isSibling: target + "<suffix without separator>": a file next to the target (lock, marker, staging).
func (cfg *c18Cfg) isSibling(t *c18T) bool {
	if t.Op != "cat" || len(t.Args) < 2 || t.Args[0].String() != cfg.targetTerm() {
		return false
	}
	for _, a := range t.Args[1:] {
		if a.Op != "lit" || strings.Contains(a.Lit, "/") || a.Lit == "" {
			return false
		}
	}
	return true
}

func (cfg *c18Cfg) isBase(t *c18T) bool {
	if cfg.resolved {
		return t.String() == "Dir("+cfg.targetStr+")"
	}
	return cfg.Base != "" && t.String() == "F("+cfg.Base+")"
}

// under reports whether t is dir itself or join(dir, ...).
func c18Under(t, dir *c18T) (under, self bool) {
	if t.String() == dir.String() {
		return true, true
	}
	if t.Op == "join" && len(t.Args) >= 1 {
		// dir may itself be a join (flattened): compare prefixes
		var pre []*c18T
		if dir.Op == "join" {
			pre = dir.Args
		} else {
			pre = []*c18T{dir}
		}
		if len(t.Args) > len(pre) {
			for i := range pre {
				if t.Args[i].String() != pre[i].String() {
					return false, false
				}
			}
			return true, false
		}
	}
	if t.Op == "cat" && len(t.Args) >= 2 && t.Args[0].String() == dir.String() {
		if l := t.Args[1]; l.Op == "lit" && strings.HasPrefix(l.Lit, "/") {
			return true, false
		}
	}
	return false, false
}

// c18FailureIsInspected: on the blocks dominated by a failure edge of op, the
// error is passed to errors.Is/As or os.IsExist/IsNotExist (a tolerant shape).
func c18FailureIsInspected(o *c18Op) bool {
	tests, errv := c18ErrTests(o.Call)
	found := false
	for _, r := range c18Refs(errv) {
		if c, ok := r.(*ssa.Call); ok {
			if obj := calleeObj(c); obj != nil && obj.Pkg() != nil {
				n := obj.Pkg().Path() + "." + obj.Name()
				switch n {
				case "errors.Is", "errors.As", "os.IsExist", "os.IsNotExist", "os.IsPermission":
					found = true
				}
			}
		}
		if _, ok := r.(*ssa.TypeAssert); ok {
			found = true
		}
		if _, ok := r.(*ssa.Phi); ok {
			found = true
		}
	}
	_ = tests
	return found
}
