package main

// C04: the field-by-field search of SpecSchedule.Next, analysed on terms
// (c04term.go): bit tests, steps, resets, DST fix-ups and carry tests are
// recognised wherever they are written — in Next, in a helper function, in a
// method or in a closure — and whatever the loop / branch / goto form is.

import (
	"fmt"
	"go/token"
	"go/types"
	"sort"
	"strings"

	"golang.org/x/tools/go/ssa"
)

type c04AtomAt struct {
	c04Atom
	Fn  string
	Pos token.Pos
}

type c04Loop struct {
	Fn      *ssa.Function // the function holding the loop: Next itself or a phase helper it calls
	Frame   *c04Frame2
	Unit    string // "Month","Day","Hour","Minute","Second"
	If      *ssa.If
	Header  *ssa.BasicBlock // target of the back edges
	Clear   *ssa.BasicBlock // successor taken while the field does not match
	Set     *ssa.BasicBlock
	Body    map[*ssa.BasicBlock]bool // natural loop of Header, Header included
	IsLoop  bool
	Flipped bool      // the matching edge is the one that loops
	DayCall *ssa.Call // Day: the call computing the day condition (nil if computed in Next itself)
	DayVal  ssa.Value // Day: the boolean value computed in Next itself (DayCall == nil)
	DayNeg  bool      // Day: the branch condition is the negation of that call/value
}

// c04NextA is the analysis state shared by the rules about Next.
type c04NextA struct {
	st    *c04State
	next  *ssa.Function
	tb    *c04TermBuilder
	root  *c04Frame2
	atoms []c04AtomAt
	loops map[string]*c04Loop
	// dayMeansMatch: the day function returns true when the day matches (false: it is a "mismatch" predicate)
	dayMeansMatch bool
	dayDecided    bool
}

func (st *c04State) analyseNext() *c04NextA {
	p := st.p
	na := &c04NextA{st: st, next: p.Func("cron", "SpecSchedule.Next")}
	na.tb = newC04TermBuilder(p)
	na.root = na.tb.Root(na.next)
	seen := map[string]bool{}
	na.tb.VisitTree(na.root, func(fr *c04Frame2, in ssa.Instruction) {
		bo, ok := in.(*ssa.BinOp)
		if !ok || bo.Op != token.AND {
			return
		}
		bt := na.tb.Term(fr, bo)
		var found []c04Atom
		if a, ok := c04BitAtom(bt, st.spec); ok {
			found = append(found, a)
		} else {
			found = c04MaskAtoms(bt, st.spec)
		}
		for _, a := range found {
			if c04RoleOf(a.Field) == nil {
				continue
			}
			k := a.Kind + "|" + a.Field + "|" + a.Accessor + "|" + fmt.Sprint(a.K) + "|" + FuncName(p, fr.fn)
			if seen[k] {
				continue
			}
			seen[k] = true
			na.atoms = append(na.atoms, c04AtomAt{a, FuncName(p, fr.fn), bo.Pos()})
		}
	})
	return na
}

// nextClosure: Next and the module functions it statically calls.
func (st *c04State) nextClosure() []*ssa.Function {
	next := st.p.Func("cron", "SpecSchedule.Next")
	seen := map[*ssa.Function]bool{next: true}
	order := []*ssa.Function{next}
	tgt := newC04TermBuilder(st.p)
	for i := 0; i < len(order); i++ {
		allInstrs(order[i], func(in ssa.Instruction) {
			if c, ok := in.(ssa.CallInstruction); ok {
				cands := []*ssa.Function{staticCallee(c)}
				if cands[0] == nil {
					cands = tgt.Targets(c)
				}
				for _, f := range cands {
					if f != nil && c04Enterable(st.p, f) && !seen[f] {
						seen[f] = true
						order = append(order, f)
					}
				}
			}
		})
	}
	return order
}

func (st *c04State) specFieldLoad(v ssa.Value) (string, bool) {
	switch x := v.(type) {
	case *ssa.UnOp:
		if x.Op == token.MUL {
			if fa, ok := x.X.(*ssa.FieldAddr); ok {
				if id := fieldIDOfAddr(fa); id.Type == st.spec {
					return id.Field, true
				}
			}
		}
	case *ssa.Field:
		if id := fieldIDOfField(x); id.Type == st.spec {
			return id.Field, true
		}
	}
	return "", false
}

// checkMatcher: P3, and the star bit (the mask the day rule tests Dom/Dow with).
func (st *c04State) checkMatcher() *c04NextA {
	r, p := st.r, st.p
	na := st.analyseNext()
	loaded := map[string]bool{}
	unresolved := ""
	tgt := newC04TermBuilder(p)
	for _, fn := range st.nextClosure() {
		allInstrs(fn, func(in ssa.Instruction) {
			if v, ok := in.(ssa.Value); ok {
				if f, ok := st.specFieldLoad(v); ok {
					loaded[f] = true
				}
			}
			if c, ok := in.(ssa.CallInstruction); ok && builtinName(c) == "" && staticCallee(c) == nil && len(tgt.Targets(c)) == 0 {
				if !c.Common().IsInvoke() || strings.HasPrefix(c.Common().Method.Pkg().Path(), p.ModPath) {
					unresolved = FuncName(p, fn)
				}
			}
		})
	}
	for _, role := range c04Roles {
		construct := "cron.SpecSchedule." + role.Field + " bit test"
		var good, bad []c04AtomAt
		for _, a := range na.atoms {
			if a.Kind != "match" || a.Field != role.Field {
				continue
			}
			if a.Accessor == role.Accessor {
				good = append(good, a)
			} else {
				bad = append(bad, a)
			}
		}
		switch {
		case len(bad) > 0:
			r.Violation("C04.P3-matcher", construct, p.Pos(bad[0].Pos), fmt.Sprintf("%s tests SpecSchedule.%s (parsed from the %s column) against t.%s() instead of t.%s()", bad[0].Fn, role.Field, role.Field, bad[0].Accessor, role.Accessor))
		case len(good) > 0:
			r.OK("C04.P3-matcher", construct, p.Pos(good[0].Pos), fmt.Sprintf("%s: 1<<t.%s() & s.%s", good[0].Fn, role.Accessor, role.Field))
		case !loaded[role.Field] && unresolved == "":
			r.Violation("C04.P3-matcher", construct, p.Pos(na.next.Pos()), "Next (and the functions it calls) never reads SpecSchedule."+role.Field+": the "+role.Field+" column of the expression does not restrict the result")
		case !loaded[role.Field]:
			r.Undecide("SpecSchedule.%s is not read by Next or the functions it is seen to call, but %s makes a call whose target is not known", role.Field, unresolved)
		default:
			r.Undecide("SpecSchedule.%s is read by Next but not in the form 1<<t.%s() & s.%s: matcher pairing cannot be decided", role.Field, role.Accessor, role.Field)
		}
	}
	// the star bit: the one constant Dom/Dow are masked with
	masks := map[uint64]bool{}
	for _, a := range na.atoms {
		if a.Kind == "mask" && (a.Field == "Dom" || a.Field == "Dow") {
			masks[a.K] = true
		}
	}
	if len(masks) == 1 {
		for k := range masks {
			st.starBit = k
		}
	} else if len(masks) > 1 {
		r.Undecide("Next masks SpecSchedule.Dom/Dow with %d different constants: the star bit does not resolve", len(masks))
	}
	return na
}

// ---------------------------------------------------------------------------
// loops

// c04LoopOf: natural loop of header h (h included): blocks dominated by h that reach a back edge to h.
func c04LoopOf(h *ssa.BasicBlock) map[*ssa.BasicBlock]bool {
	body := map[*ssa.BasicBlock]bool{}
	var up func(b *ssa.BasicBlock)
	up = func(b *ssa.BasicBlock) {
		if body[b] || !h.Dominates(b) {
			return
		}
		body[b] = true
		if b == h {
			return
		}
		for _, pb := range b.Preds {
			up(pb)
		}
	}
	for _, pb := range h.Preds {
		if h.Dominates(pb) {
			body[h] = true
			up(pb)
		}
	}
	return body
}

func (na *c04NextA) findLoops() {
	st := na.st
	na.loops = map[string]*c04Loop{}
	unitOfField := map[string]string{"Second": "Second", "Minute": "Minute", "Hour": "Hour", "Month": "Month"}
	dayValOf := map[*ssa.If]ssa.Value{}
	na.tb.VisitTree(na.root, func(fr *c04Frame2, in ssa.Instruction) {
		ifi, ok := in.(*ssa.If)
		if !ok {
			return
		}
		b := ifi.Block()
		var unit string
		var clear, set *ssa.BasicBlock
		var dayCall *ssa.Call
		dayNeg := false
		ct := na.tb.Term(fr, ifi.Cond)
		if op, x, y, ok := c04CmpTerm(ct, true); ok {
			if _, isAtom := c04BitAtom(y, st.spec); isAtom {
				x, y = y, x
				op = c04FlipOp(op)
			}
			a, isAtom := c04BitAtom(x, st.spec)
			if isAtom && a.Kind == "match" && y.Op == "const" && y.IsK {
				if u, okU := unitOfField[a.Field]; okU {
					k := y.K
					zeroOnTrue, known := false, true
					switch {
					case op == token.EQL && k == 0, op == token.LEQ && k == 0, op == token.LSS && k == 1:
						zeroOnTrue = true
					case op == token.NEQ && k == 0, op == token.GTR && k == 0, op == token.GEQ && k == 1:
					default:
						known = false
					}
					if known {
						unit = u
						if zeroOnTrue {
							clear, set = b.Succs[0], b.Succs[1]
						} else {
							clear, set = b.Succs[1], b.Succs[0]
						}
					}
				}
			}
		}
		if unit == "" {
			// the day condition: a call whose inlined body tests Dom and Dow
			cond := ifi.Cond
			for {
				u, ok := cond.(*ssa.UnOp)
				if !ok || u.Op != token.NOT {
					break
				}
				cond, dayNeg = u.X, !dayNeg
			}
			var dayVal ssa.Value
			call, ok := cond.(*ssa.Call)
			if !ok {
				// the day rule written out in Next itself: a boolean merged from tests of Dom and Dow
				// (with && / || the tests are partly control flow, so look at the blocks between the
				// enclosing loop header and this branch rather than at the value's operands)
				if _, isPhi := cond.(*ssa.Phi); !isPhi {
					return
				}
				var h0 *ssa.BasicBlock
				for h := b; h != nil && h0 == nil; h = h.Idom() {
					for _, pb := range h.Preds {
						if h.Dominates(pb) {
							h0 = h
						}
					}
				}
				if h0 == nil || h0 == b {
					return
				}
				fwd := reachableFrom(h0, map[*ssa.BasicBlock]bool{b: true})
				dom, dow := false, false
				for blk := range fwd {
					if !h0.Dominates(blk) || (blk != h0 && !reachableFrom(blk, map[*ssa.BasicBlock]bool{h0: true})[b]) {
						continue
					}
					for _, in2 := range blk.Instrs {
						if bo, ok := in2.(*ssa.BinOp); ok && bo.Op == token.AND {
							if a, ok := c04BitAtom(na.tb.Term(fr, bo), st.spec); ok && a.Kind == "match" {
								dom = dom || a.Field == "Dom"
								dow = dow || a.Field == "Dow"
							}
						}
					}
				}
				if !(dom && dow) {
					return
				}
				dayVal = cond
			}
			dom, dow := dayVal != nil, dayVal != nil
			visited := dayVal != nil || na.tb.VisitCall(fr, call, func(fr2 *c04Frame2, in2 ssa.Instruction) {
				if bo, ok := in2.(*ssa.BinOp); ok && bo.Op == token.AND {
					if a, ok := c04BitAtom(na.tb.Term(fr2, bo), st.spec); ok && a.Kind == "match" {
						dom = dom || a.Field == "Dom"
						dow = dow || a.Field == "Dow"
					}
				}
			})
			if !visited || !(dom && dow) {
				return
			}
			unit, dayCall = "Day", call
			dayValOf[ifi] = dayVal
			// which edge is "matches" is decided by the truth table (N1); assume the call
			// means "matches" for the loop shape, corrected in checkSearch if it means the opposite
			if !dayNeg {
				set, clear = b.Succs[0], b.Succs[1]
			} else {
				set, clear = b.Succs[1], b.Succs[0]
			}
		}
		l := &c04Loop{Fn: fr.fn, Frame: fr, Unit: unit, If: ifi, Clear: clear, Set: set, DayCall: dayCall, DayNeg: dayNeg, DayVal: dayValOf[ifi]}
		// header: the innermost dominator of the branch (the block itself first) whose natural loop
		// contains exactly one of the two successors
		for h := b; h != nil; h = h.Idom() {
			body := c04LoopOf(h)
			if len(body) == 0 || !body[b] {
				continue
			}
			inClear, inSet := body[clear], body[set]
			if inClear && inSet {
				// both edges stay inside: this is an enclosing loop (the outer search); keep looking only if nothing found
				break
			}
			if inClear || inSet {
				l.Header, l.Body = h, body
				l.IsLoop = inClear
				l.Flipped = inSet
				break
			}
		}
		if prev := na.loops[unit]; prev == nil || (!prev.IsLoop && l.IsLoop) {
			na.loops[unit] = l
		}
	})
}

// ---------------------------------------------------------------------------
// N1 either-day truth table

func (st *c04State) checkDayTable(na *c04NextA) {
	r, p := st.r, st.p
	na.findLoops()
	l := na.loops["Day"]
	construct := "cron day rule truth table"
	if l == nil || (l.DayCall == nil && l.DayVal == nil) {
		r.Undecide("Next: no branch on a value that tests both SpecSchedule.Dom and SpecSchedule.Dow found: the either-day rule cannot be evaluated")
		return
	}
	var callee *ssa.Function
	what := "the day condition computed in " + FuncName(p, l.Fn)
	wpos := c04IfPos(l.If)
	if l.DayCall != nil {
		callee = staticCallee(l.DayCall)
		what = FuncName(p, callee)
		wpos = callee.Pos()
	} else if l.Header == nil {
		r.Undecide("Next: the day condition is not the condition of a loop")
		return
	}
	var wrong, wrongNeg []string
	for m := 0; m < 16; m++ {
		domStar, dowStar, dom, dow := m&8 != 0, m&4 != 0, m&2 != 0, m&1 != 0
		ev := &c04Eval{InModule: c04InMod(p)}
		ev.Resolve = func(t *c04T) (any, bool) {
			a, ok := c04BitAtom(t, st.spec)
			if !ok {
				// a mask over several fields at once: (s.Dom|s.Dow)&K is K iff one of them carries the bit
				if ms := c04MaskAtoms(t, st.spec); len(ms) > 0 {
					val := uint64(0)
					for _, m := range ms {
						switch m.Field {
						case "Dom":
							if domStar {
								val = m.K
							}
						case "Dow":
							if dowStar {
								val = m.K
							}
						default:
							return nil, false
						}
					}
					return c04Int{V: val, Bits: 64}, true
				}
				return nil, false
			}
			on := false
			val := uint64(2)
			switch {
			case a.Kind == "match" && a.Field == "Dom":
				on = dom
			case a.Kind == "match" && a.Field == "Dow":
				on = dow
			case a.Kind == "mask" && a.Field == "Dom":
				on, val = domStar, a.K
			case a.Kind == "mask" && a.Field == "Dow":
				on, val = dowStar, a.K
			default:
				return nil, false
			}
			if !on {
				val = 0
			}
			return c04Int{V: val, Bits: 64}, true
		}
		var res any
		var err error
		if callee != nil {
			var args []any
			for _, a := range l.DayCall.Call.Args {
				args = append(args, c04SymV{T: na.tb.Term(l.Frame, a)})
			}
			ev.RootBind = nil
			if mc, ok := l.DayCall.Call.Value.(*ssa.MakeClosure); ok {
				for _, bv := range mc.Bindings {
					ev.RootBind = append(ev.RootBind, c04SymV{T: na.tb.Term(l.Frame, bv)})
				}
			}
			res, err = ev.Run(callee, args)
		} else {
			// evaluate the blocks from the loop header to the branch, with everything computed before as symbols
			init := map[ssa.Value]any{}
			for i, in := range l.Header.Instrs {
				ph, ok := in.(*ssa.Phi)
				if !ok {
					break
				}
				init[ph] = c04SymV{T: &c04T{Op: "leaf", Name: fmt.Sprintf("carried:%d", i)}}
			}
			ev.Outer = func(v ssa.Value) (any, bool) {
				if par, ok := v.(*ssa.Parameter); ok {
					return c04SymV{T: &c04T{Op: "leaf", Name: "param:" + par.Name()}}, true
				}
				return nil, false
			}
			res, err = ev.RunRegion(l.Fn, l.Header, init, l.If)
			if err == nil {
				// res is the value of the branch condition itself here; undo the NOT stripping done for DayNeg
				if bv, ok := res.(bool); ok && l.DayNeg {
					res = !bv
				}
			}
		}
		if err != nil {
			r.Undecide("%s cannot be evaluated as a boolean function of its four bit tests: %v", what, err)
			return
		}
		got, ok := res.(bool)
		if !ok {
			r.Undecide("%s does not fold to a boolean: %s", what, c04Describe(res))
			return
		}
		want := dom || dow
		if domStar || dowStar {
			want = dom && dow
		}
		row := fmt.Sprintf("dom '*'=%v dow '*'=%v dom matches=%v dow matches=%v: returns %v", domStar, dowStar, dom, dow, got)
		if got != want {
			wrong = append(wrong, row+fmt.Sprintf(", documented rule gives %v", want))
		}
		if got != !want {
			wrongNeg = append(wrongNeg, row)
		}
	}
	na.dayDecided = true
	switch {
	case len(wrong) == 0:
		na.dayMeansMatch = true
		r.OK("C04.N1-either-day", construct, p.Pos(wpos), what+": 16/16 rows agree")
	case len(wrongNeg) == 0:
		// a "does not match" predicate: equally good, the loop polarity is read accordingly
		na.dayMeansMatch = false
		r.OK("C04.N1-either-day", construct, p.Pos(wpos), what+" is the negation of the day rule in 16/16 rows")
	default:
		na.dayMeansMatch = true
		r.Violation("C04.N1-either-day", construct, p.Pos(wpos), fmt.Sprintf("%s differs from the documented day rule (both fields must match when one of them is '*'/'?', either when both are restricted) in %d of 16 cases", what, len(wrong)), wrong...)
	}
}

// ---------------------------------------------------------------------------
// N2 search loops on terms

// timeKids: the instants a time-valued term is computed from.
func c04TimeKids(t *c04T) (kids []*c04T, known bool) {
	switch {
	case t.Op == "leaf", t.Op == "muvar":
		return nil, true
	case t.Op == "choice", t.Op == "mu":
		return t.Args, true
	case t.Op == "tm:Add" || t.Op == "tm:AddDate" || t.Op == "tm:Truncate" || t.Op == "tm:In" || t.Op == "tm:UTC" || t.Op == "tm:Local" || t.Op == "tm:Round":
		return t.Args[:1], true
	case t.Op == "date":
		seen := map[string]bool{}
		for _, a := range t.Args {
			a.walk(func(x *c04T) {
				if strings.HasPrefix(x.Op, "tm:") && len(x.Args) > 0 && c04AccessorUnit[x.Op[3:]] != 0 || x.Op == "tm:Second" || x.Op == "tm:Nanosecond" {
					if len(x.Args) > 0 && !seen[x.Args[0].Key()] {
						seen[x.Args[0].Key()] = true
						kids = append(kids, x.Args[0])
					}
				}
			})
		}
		return kids, true
	}
	return nil, false
}

// c04Spine collects the nodes of the time spine of t (down to the loop instant T).
type c04Spine struct {
	nodes   []*c04T
	unknown []string
}

func c04SpineOf(t *c04T) *c04Spine {
	sp := &c04Spine{}
	seen := map[string]bool{}
	var walk func(x *c04T)
	walk = func(x *c04T) {
		if seen[x.Key()] {
			return
		}
		seen[x.Key()] = true
		kids, known := c04TimeKids(x)
		if !known {
			sp.unknown = append(sp.unknown, x.Op+" "+x.Name)
			return
		}
		sp.nodes = append(sp.nodes, x)
		for _, k := range kids {
			walk(k)
		}
	}
	walk(t)
	return sp
}

// below: node y is on the time spine under node x (x is computed from y).
func c04Below(x, y *c04T) bool {
	found := false
	seen := map[string]bool{}
	var walk func(n *c04T)
	walk = func(n *c04T) {
		if found || seen[n.Key()] {
			return
		}
		seen[n.Key()] = true
		kids, _ := c04TimeKids(n)
		for _, k := range kids {
			if k.Key() == y.Key() {
				found = true
				return
			}
			walk(k)
		}
	}
	walk(x)
	return found
}

func c04TermPos(p *Prog, t *c04T, def token.Pos) string {
	if t != nil && t.Src != nil {
		if in, ok := t.Src.(ssa.Instruction); ok {
			if ps := instrPos(in); ps.IsValid() {
				return p.Pos(ps)
			}
		}
	}
	return p.Pos(def)
}

func c04TermHasAccessor(t *c04T, names ...string) bool {
	return t.contains(func(x *c04T) bool {
		if !strings.HasPrefix(x.Op, "tm:") {
			return false
		}
		for _, n := range names {
			if x.Op[3:] == n {
				return true
			}
		}
		return false
	})
}

func (st *c04State) checkSearch(na *c04NextA) {
	r, p := st.r, st.p
	next := na.next
	if na.loops == nil {
		na.findLoops()
	}
	loops := na.loops
	rule := "C04.N2-search"
	// a day predicate that means "does not match" flips the day loop's edges
	if l := loops["Day"]; l != nil && na.dayDecided && !na.dayMeansMatch {
		l.Clear, l.Set = l.Set, l.Clear
		l.IsLoop, l.Flipped = l.Flipped, l.IsLoop
	}
	// blocks of Next that the top of the search must dominate: the headers of the loops written
	// in Next and the call sites of the phase helpers holding the others
	var headers []*ssa.BasicBlock
	for _, l := range loops {
		if sb := na.siteInNext(l); sb != nil {
			headers = append(headers, sb)
		}
	}
	isTop := func(w *ssa.BasicBlock) bool {
		if w.Parent() != next {
			return false
		}
		for _, h := range headers {
			if !w.Dominates(h) {
				return false
			}
		}
		return true
	}
	units := []string{"Month", "Day", "Hour", "Minute", "Second"}
	fieldOfUnit := map[string]string{"Month": "Month", "Day": "Dom/Dow", "Hour": "Hour", "Minute": "Minute", "Second": "Second"}
	floorOf := map[string]int64{"Month": 1, "Day": 1, "Hour": 0, "Minute": 0, "Second": 0}
	for _, u := range units {
		l := loops[u]
		base := "cron.SpecSchedule.Next " + u + " loop"
		if l == nil {
			r.Undecide("Next: no branch on the %s bit test found: the search structure for %s cannot be decided", fieldOfUnit[u], u)
			continue
		}
		pos := p.Pos(c04IfPos(l.If))
		if !l.IsLoop {
			if l.Flipped {
				r.Violation(rule, base+": polarity", pos, "the "+u+" search advances while the field MATCHES and stops when it does not: Next returns instants the expression excludes")
			} else {
				r.Undecide("Next: the %s bit test is not the condition of a loop: search structure not recognised", u)
			}
			continue
		}
		r.OK(rule, base+": polarity", pos, "advances while the bit is clear, leaves when it is set")

		// the loop instant and the terms of the values it continues with
		var loopPhi *ssa.Phi
		nPhi := 0
		tb := newC04TermBuilder(p)
		for i, in := range l.Header.Instrs {
			ph, ok := in.(*ssa.Phi)
			if !ok {
				break
			}
			if c04IsTimeType(ph.Type()) {
				loopPhi = ph
				nPhi++
				tb.Leaves[ph] = &c04T{Op: "leaf", Name: "T", Src: ph}
			} else {
				tb.Leaves[ph] = &c04T{Op: "leaf", Name: fmt.Sprintf("carried:%d", i), Src: ph}
			}
		}
		root := tb.Root(l.Fn)
		var backs []*c04T
		backOf := map[*ssa.BasicBlock]*c04T{}
		if nPhi == 0 {
			// the loop's variables may live in a local struct: the instant is the one time.Time
			// field of such a struct that the loop stores to
			al, fld, n := c04MemInstant(l)
			if n != 1 {
				r.Undecide("Next %s loop: the loop does not carry exactly one time.Time value (%d in variables, %d in struct fields)", u, nPhi, n)
				continue
			}
			for k, other := range c04MemStoredFields(l, al) {
				name := fmt.Sprintf("carried:m%d", k)
				if other == fld {
					name = "T"
				}
				tb.MemLeaves[c04MemKey{al, other, l.Header}] = &c04T{Op: "leaf", Name: name}
			}
			for _, pb := range l.Header.Preds {
				if l.Body[pb] {
					bt := tb.MemAt(root, al, fld, pb, len(pb.Instrs))
					backs = append(backs, bt)
					backOf[pb] = bt
				}
			}
		} else if nPhi != 1 {
			r.Undecide("Next %s loop: the loop does not carry exactly one time.Time value (%d found)", u, nPhi)
			continue
		}
		for i, pb := range l.Header.Preds {
			if nPhi == 1 && l.Body[pb] {
				bt := tb.Term(root, loopPhi.Edges[i])
				backs = append(backs, bt)
				backOf[pb] = bt
			}
		}
		B := c04Choice(backs)
		sp := c04SpineOf(B)
		lc := &c04LoopCtx{st: st, na: na, l: l, u: u, base: base, tb: tb, root: root, B: B, sp: sp, backOf: backOf}
		lc.checkStep()
		if u != "Second" {
			lc.checkReset()
		}
		if u == "Month" || u == "Day" {
			lc.checkGap()
			lc.checkBackstep()
		}
		if u == "Month" {
			lc.checkResetStart()
		}
		if u != "Month" {
			lc.checkCarry(isTop, floorOf[u])
		}
	}
	st.checkLimit(na)
	st.checkZone(na)
}

type c04LoopCtx struct {
	st     *c04State
	na     *c04NextA
	l      *c04Loop
	u      string
	base   string
	tb     *c04TermBuilder
	root   *c04Frame2
	B      *c04T
	sp     *c04Spine
	backOf map[*ssa.BasicBlock]*c04T
}

func c04AllConst(ts []*c04T) ([]int64, bool) {
	var out []int64
	for _, t := range ts {
		if t.Op != "const" || !t.IsK {
			return nil, false
		}
		out = append(out, t.K)
	}
	return out, true
}

// dateStep: time.Date(..., acc_u(x)+c, ...) advances unit u by c (and sets the other positions explicitly).
func (lc *c04LoopCtx) dateStep(n *c04T) (int64, bool) {
	pos, ok := map[string]int{"Month": 1, "Day": 2, "Hour": 3, "Minute": 4, "Second": 5}[lc.u]
	if !ok || n.Op != "date" || len(n.Args) != 8 {
		return 0, false
	}
	a := n.Args[pos]
	if a.Op != "bin:+" {
		return 0, false
	}
	acc := map[string]string{"Month": "Month", "Day": "Day", "Hour": "Hour", "Minute": "Minute", "Second": "Second"}[lc.u]
	for _, pr := range [][2]*c04T{{a.Args[0], a.Args[1]}, {a.Args[1], a.Args[0]}} {
		if pr[0].Op == "tm:"+acc && pr[1].Op == "const" && pr[1].IsK {
			return pr[1].K, true
		}
	}
	return 0, false
}

func (lc *c04LoopCtx) steps() (constSteps, computed []*c04T) {
	for _, n := range lc.sp.nodes {
		switch n.Op {
		case "date":
			if _, ok := lc.dateStep(n); ok {
				constSteps = append(constSteps, n)
			}
		case "tm:AddDate":
			if _, ok := c04AllConst(n.Args[1:]); ok {
				constSteps = append(constSteps, n)
			} else {
				computed = append(computed, n)
			}
		case "tm:Add":
			if _, ok := c04AllConst(n.Args[1:]); ok {
				constSteps = append(constSteps, n)
			} else {
				computed = append(computed, n)
			}
		}
	}
	return
}

func (lc *c04LoopCtx) checkStep() {
	r, p, u, l := lc.st.r, lc.st.p, lc.u, lc.l
	rule := "C04.N2-search"
	construct := lc.base + ": step"
	unitNs := map[string]int64{"Hour": 3600e9, "Minute": 60e9, "Second": 1e9}
	constSteps, computed := lc.steps()
	judged := 0
	bad := ""
	var badT *c04T
	fixedDay := false
	var fixedDayT *c04T
	for _, s := range constSteps {
		if k, ok := lc.dateStep(s); ok {
			judged++
			if k > 1 {
				bad, badT = fmt.Sprintf("time.Date(..., t.%s()+%d, ...) advances by more than one %s", u, k, u), s
			}
			continue
		}
		ks, _ := c04AllConst(s.Args[1:])
		if s.Op == "tm:AddDate" {
			if len(ks) != 3 {
				continue
			}
			y, m, d := ks[0], ks[1], ks[2]
			judged++
			switch u {
			case "Month":
				if y != 0 || m > 1 || (m == 1 && d > 0) {
					bad, badT = fmt.Sprintf("AddDate(%d,%d,%d) advances by more than one month", y, m, d), s
				}
			case "Day":
				if y != 0 || m != 0 || d > 1 {
					bad, badT = fmt.Sprintf("AddDate(%d,%d,%d) advances by more than one day", y, m, d), s
				}
			default:
				if y != 0 || m != 0 || d != 0 {
					bad, badT = fmt.Sprintf("AddDate(%d,%d,%d) advances by more than one %s", y, m, d, u), s
				}
			}
			continue
		}
		if len(ks) != 1 {
			continue
		}
		d := ks[0]
		lim := int64(0)
		switch u {
		case "Month":
			continue // a month is not a constant duration: only AddDate is judged
		case "Day":
			lim = 36 * 3600e9 // the DST fix-ups of the day loop snap 23..25 h steps back to midnight; beyond 36 h a day is skipped
			// a day is not a fixed duration: across a DST shift that is not a whole number of hours
			// (Australia/Lord_Howe: 30 minutes) t + 24h is 00:30 or 23:30, and a fix-up that moves by
			// whole hours keeps the 30 minutes. The step is only sound if the wall clock is rebuilt
			// (time.Date(y, m, d, 0, 0, 0, 0) / Truncate below the step's result).
			rebuilt := false
			for _, n := range lc.sp.nodes {
				if (n.Op == "date" || n.Op == "tm:Truncate") && c04Below(n, s) {
					rebuilt = true
				}
			}
			// (a walk in finer units — the hour-by-hour walk of a progress guard — is not a day step)
			if !rebuilt && d > 12*3600e9 {
				fixedDay, fixedDayT = true, s
			}
		default:
			lim = unitNs[u]
		}
		judged++
		if d > lim {
			bad, badT = fmt.Sprintf("Add(%dns) advances by more than one %s", d, u), s
		}
	}
	switch {
	case bad == "" && fixedDay && len(lc.sp.unknown) == 0:
		r.Violation(rule, construct, c04TermPos(p, fixedDayT, c04IfPos(l.If)), "the Day loop advances by a fixed duration (Add) instead of a calendar day and does not rebuild the wall clock afterwards: across a DST shift that is not a whole number of hours (Australia/Lord_Howe, 30 minutes) t+24h is 00:30 or 23:30, whole-hour fix-ups keep the 30 minutes, and because the lower-order fields are not reset again the matching time on the target day is missed — Next returns a later instant than the earliest match")
	case bad != "":
		r.Violation(rule, construct, c04TermPos(p, badT, c04IfPos(l.If)), bad+": values of the "+u+" field are skipped, so an earlier matching instant can be missed")
	case judged > 0:
		r.OK(rule, construct, p.Pos(c04IfPos(l.If)), "advances by at most one "+u)
	case len(lc.sp.unknown) > 0:
		r.Undecide("Next %s loop: the instant the loop continues with is computed through %s: the advance cannot be judged", u, lc.sp.unknown[0])
	case len(computed) > 0 || len(constSteps) > 0:
		r.Undecide("Next %s loop: the advance is not an Add/AddDate with constant arguments", u)
	case lc.B.Key() == "leaf[T]":
		r.Violation(rule, construct, p.Pos(c04IfPos(l.If)), "the "+u+" loop continues with the very instant it started the iteration with: the search cannot reach a later matching "+u)
	default:
		r.Undecide("Next %s loop: no Add/AddDate/Date step recognised on the value the loop continues with", u)
	}
}

// checkReset: when unit u has to be advanced, all lower-order fields must be
// set to their minimum in the same iteration, else a later-than-earliest instant is returned.
func (lc *c04LoopCtx) checkReset() {
	r, p, u, l := lc.st.r, lc.st.p, lc.u, lc.l
	rule := "C04.N2-search"
	construct := lc.base + ": reset"
	pos := p.Pos(c04IfPos(l.If))
	firstLower := map[string]int{"Month": 2, "Day": 3, "Hour": 4, "Minute": 5}[u]
	wantAcc := []string{"Year", "Month", "Day", "Hour", "Minute", "Second"}
	var good, badT *c04T
	bad, undecided := "", ""
	for _, n := range lc.sp.nodes {
		switch n.Op {
		case "date":
			if len(n.Args) != 8 {
				continue
			}
			ok := true
			for k := 0; k < 7; k++ {
				a := n.Args[k]
				isAcc := strings.HasPrefix(a.Op, "tm:") && len(a.Args) == 1
				if k >= firstLower {
					want := int64(0)
					if k == 2 {
						want = 1
					}
					switch {
					case a.Op == "const" && a.IsK && a.K == want:
					case a.Op == "const" && a.IsK:
						ok = false
						bad, badT = fmt.Sprintf("time.Date argument #%d is %d, the minimum is %d", k+1, a.K, want), n
					case isAcc:
						ok = false
						bad, badT = fmt.Sprintf("time.Date keeps t.%s() in a lower-order position (argument #%d) instead of resetting it to %d", a.Op[3:], k+1, want), n
					default:
						ok = false
						undecided = fmt.Sprintf("time.Date argument #%d in the %s loop is neither a constant nor an accessor", k+1, u)
					}
				} else {
					if a.Op == "bin:+" && len(a.Args) == 2 {
						// acc(x)+const in the unit position: Date steps and resets at once
						for _, pr := range [][2]*c04T{{a.Args[0], a.Args[1]}, {a.Args[1], a.Args[0]}} {
							if strings.HasPrefix(pr[0].Op, "tm:") && len(pr[0].Args) == 1 && pr[1].Op == "const" && pr[1].IsK {
								a = pr[0]
								isAcc = true
							}
						}
					}
					switch {
					case isAcc && a.Op[3:] == wantAcc[k]:
					case isAcc:
						ok = false
						bad, badT = fmt.Sprintf("time.Date argument #%d (%s) is filled from t.%s()", k+1, wantAcc[k], a.Op[3:]), n
					default:
						ok = false
						undecided = fmt.Sprintf("time.Date argument #%d in the %s loop is not a time.Time accessor", k+1, u)
					}
				}
			}
			if ok {
				good = n
			}
		case "tm:Truncate":
			if len(n.Args) != 2 || !(n.Args[1].Op == "const" && n.Args[1].IsK) {
				undecided = "Truncate with a computed duration in the " + u + " loop"
				continue
			}
			d := n.Args[1].K
			switch {
			case u == "Minute" && d == 60e9:
				good = n
			case u == "Minute" && d == 1e9, u == "Hour" && (d == 1e9 || d == 60e9), u == "Day", u == "Month":
				if d < map[string]int64{"Minute": 60e9, "Hour": 3600e9, "Day": 24 * 3600e9, "Month": 24 * 3600e9}[u] {
					bad, badT = fmt.Sprintf("Truncate(%dns) does not reset all fields below %s", d, u), n
				} else {
					bad, badT = fmt.Sprintf("Truncate(%dns) rounds on the absolute time line, which is not the start of the local %s in zones whose offset is not a multiple of it", d, u), n
				}
			case u == "Minute" && d > 60e9 && d%60e9 == 0, u == "Second" && d > 1e9 && d%1e9 == 0:
				bad, badT = fmt.Sprintf("Truncate(%dns) also clears the %s field the loop is searching: the search restarts before the instant Next was given, so Next can return an instant that is not after t (6-field '0 5 * * * *' from 10:17:35 yields 10:05:00 of the same hour)", d, u), n
			case u == "Hour" && d == 3600e9:
				bad, badT = "Truncate(1h) rounds on the absolute time line: in zones with a 30/45-minute offset (Asia/Kolkata, Asia/Kathmandu) this is not the start of the local hour", n
			default:
				undecided = fmt.Sprintf("Truncate(%dns) in the %s loop", d, u)
			}
		}
	}
	constSteps, computed := lc.steps()
	manual := false
	for _, c := range computed {
		if c.Op == "tm:Add" && len(c.Args) == 2 && c04TermHasAccessor(c.Args[1], "Minute", "Second", "Nanosecond") {
			manual = true
		}
	}
	switch {
	case good != nil:
		resetFeedsStep, stepFeedsReset := false, false
		if _, isStep := lc.dateStep(good); isStep {
			resetFeedsStep = true // one time.Date call both advances the unit and sets the lower-order fields
		}
		for _, s := range constSteps {
			if c04Below(s, good) {
				resetFeedsStep = true
			}
			if c04Below(good, s) {
				stepFeedsReset = true
			}
		}
		switch {
		case resetFeedsStep || len(constSteps) == 0:
			r.OK(rule, construct, c04TermPos(p, good, c04IfPos(l.If)), "lower-order fields are set to their minimum before the advance")
		case stepFeedsReset && u != "Month":
			r.OK(rule, construct, c04TermPos(p, good, c04IfPos(l.If)), "lower-order fields are set to their minimum right after the advance")
		case stepFeedsReset:
			r.Violation(rule, construct, c04TermPos(p, good, c04IfPos(l.If)), "the month is advanced BEFORE the day is reset to 1: AddDate normalises an overflowing day (Jan 31 + 1 month = Mar 3), so from the 29th-31st the following month is skipped and Next misses its matches")
		default:
			r.Violation(rule, construct, c04TermPos(p, good, c04IfPos(l.If)), "the reset of the lower-order fields is not applied to the instant that is advanced (its result does not reach the step of "+u+" in the same iteration): the first candidate after advancing is not the start of the next "+u)
		}
	case bad != "":
		r.Violation(rule, construct, c04TermPos(p, badT, c04IfPos(l.If)), bad+": after advancing "+u+" the search continues from a time of day/month later than the start of the new "+u+", so Next can return a later instant than the earliest match")
	case undecided != "":
		r.Undecide("Next %s loop reset: %s", u, undecided)
	case len(lc.sp.unknown) > 0:
		r.Undecide("Next %s loop: the instant the loop continues with is computed through %s: the lower-order reset may be in there", u, lc.sp.unknown[0])
	case manual:
		r.Undecide("Next %s loop: lower-order fields seem to be reset by subtracting accessor values (Add of a duration computed from t.Minute()/Second()/Nanosecond()): not a recognised reset form", u)
	default:
		r.Violation(rule, construct, pos, "when "+u+" has to be advanced the lower-order fields are no longer reset (no time.Date/Truncate on the value the loop continues with): "+map[string]string{
			"Month":  "e.g. from 15 Jan 10:30 a schedule for March yields 15 Mar 10:30 or later instead of 1 Mar 00:00",
			"Day":    "e.g. from the 1st 10:30 a schedule for the 5th yields the 5th at 10:30 or later instead of 00:00",
			"Hour":   "e.g. from 10:30 a schedule for hour 12 yields 12:30 or later instead of 12:00",
			"Minute": "e.g. from 10:30:45 a schedule for minute 40 yields 10:40:45 instead of 10:40:00",
		}[u])
	}
}

// checkCarry: leaving the loop on a carry into the next higher unit must go
// back to the top of the search; the carry test must look at the instant the
// loop continues with and must not depend on the smallest value of the unit
// existing on the wall clock.
func (lc *c04LoopCtx) checkCarry(isTop func(*ssa.BasicBlock) bool, floor int64) {
	r, p, u, l := lc.st.r, lc.st.p, lc.u, lc.l
	rule := "C04.N2-search"
	construct := lc.base + ": carry"
	acc := u
	type exit struct {
		ifi   *ssa.If
		toTop bool
	}
	var exits []exit
	otherExits, flagIgnored := false, false
	var blocks []*ssa.BasicBlock
	for b := range l.Body {
		blocks = append(blocks, b)
	}
	sort.Slice(blocks, func(i, j int) bool { return blocks[i].Index < blocks[j].Index })
	for _, b := range blocks {
		if len(b.Instrs) == 0 || b == l.If.Block() {
			continue
		}
		ifi, ok := b.Instrs[len(b.Instrs)-1].(*ssa.If)
		if !ok {
			continue
		}
		for i, s := range b.Succs {
			if l.Body[s] {
				continue
			}
			if l.Fn == lc.na.next {
				if isTop(s) {
					exits = append(exits, exit{ifi, i == 0})
				}
				continue
			}
			// the loop lives in a phase helper: the edge leaves towards a return whose flag result
			// the caller (Next) branches on to go back to the top of the search
			otherExits = true
			toTop, ignored := lc.flagReturnToTop(s, isTop)
			if toTop {
				exits = append(exits, exit{ifi, i == 0})
			}
			if ignored {
				flagIgnored = true
			}
		}
	}
	if len(exits) == 0 && l.Fn != lc.na.next {
		if flagIgnored {
			r.Violation(rule, construct, p.Pos(c04IfPos(l.If)), FuncName(p, l.Fn)+" reports the carry of the "+u+" loop through a boolean result, but Next never looks at that result of the call: when advancing "+u+" carries into the next higher field the search is not restarted, so Next returns instants on days/hours the expression excludes")
			return
		}
		if otherExits {
			r.Undecide("Next %s loop (in %s): the loop is left on other edges than the match, but how the caller learns of the carry (flag result branched on to restart the search) was not recognised", u, FuncName(p, l.Fn))
		} else {
			r.Undecide("Next %s loop (in %s): no carry exit found in the helper: the caller may detect the carry itself, which is not decided", u, FuncName(p, l.Fn))
		}
		return
	}
	if len(exits) == 0 {
		r.Violation(rule, construct, p.Pos(c04IfPos(l.If)), "no path from the "+u+" loop back to the top of the search: when advancing "+u+" carries into the next higher field that field (and the year limit) is not verified again, so Next returns instants on days/hours the expression excludes")
		return
	}
	// freshness of a carry test against the value(s) the loop continues with on the stay edge
	freshness := func(ifi *ssa.If, toTop bool, instants []*c04T) string {
		stay := ifi.Block().Succs[0]
		if toTop {
			stay = ifi.Block().Succs[1]
		}
		var backs []*c04T
		if stay == l.Header {
			if bt := lc.backOf[ifi.Block()]; bt != nil {
				backs = append(backs, bt)
			}
		} else {
			reach := reachableFrom(stay, map[*ssa.BasicBlock]bool{l.Header: true})
			for pb, bt := range lc.backOf {
				if reach[pb] {
					backs = append(backs, bt)
				}
			}
		}
		if len(backs) == 0 {
			return "unknown"
		}
		isInstant := func(t *c04T) bool {
			for _, x := range instants {
				if x.Key() == t.Key() {
					return true
				}
			}
			return false
		}
		res := "fresh"
		for _, bt := range backs {
			if isInstant(bt) {
				continue
			}
			// bt wraps a tested instant in further Add/AddDate (and merges)?
			var wraps func(t *c04T, added bool) bool
			wraps = func(t *c04T, added bool) bool {
				if isInstant(t) {
					return added
				}
				switch t.Op {
				case "choice":
					for _, a := range t.Args {
						if wraps(a, added) {
							return true
						}
					}
				case "tm:Add", "tm:AddDate":
					return wraps(t.Args[0], true)
				}
				return false
			}
			if wraps(bt, false) {
				return "stale"
			}
			res = "unknown"
		}
		return res
	}
	robust, floorEq := false, false
	var floorPos, stalePos token.Pos
	unknown, stale := false, false
	for _, e := range exits {
		ct := lc.tb.Term(lc.root, e.ifi.Cond)
		op, x, y, ok := c04CmpTerm(ct, e.toTop)
		if !ok {
			unknown = true
			continue
		}
		isAcc := func(t *c04T) bool { return strings.HasPrefix(t.Op, "tm:") && len(t.Args) == 1 }
		var instants []*c04T
		kind := ""
		switch {
		case isAcc(x) && isAcc(y) && x.Op == y.Op && x.Args[0].Key() != y.Args[0].Key():
			instants = []*c04T{x.Args[0], y.Args[0]}
			nx := x.Op[3:]
			if c04AccessorUnit[nx] > c04UnitOrder[u] && (op == token.NEQ || op == token.LSS || op == token.GTR) {
				kind = "robust" // the next higher field changed
			} else if nx == acc && (op == token.LSS || op == token.GTR || op == token.LEQ || op == token.GEQ) {
				kind = "robust" // the field itself went down: wrapped
			}
		case isAcc(x) && y.Op == "const" && y.IsK && x.Op[3:] == acc && op == token.EQL && y.K == floor:
			instants, kind = []*c04T{x.Args[0]}, "floor"
		case isAcc(y) && x.Op == "const" && x.IsK && y.Op[3:] == acc && op == token.EQL && x.K == floor:
			instants, kind = []*c04T{y.Args[0]}, "floor"
		}
		if kind == "" {
			unknown = true
			continue
		}
		switch freshness(e.ifi, e.toTop, instants) {
		case "stale":
			stale = true
			stalePos = c04IfPos(e.ifi)
			continue
		case "unknown":
			unknown = true
			continue
		}
		if kind == "robust" {
			robust = true
		} else {
			floorEq = true
			floorPos = c04IfPos(e.ifi)
		}
	}
	if stale && !robust && !floorEq {
		why := "the instant is adjusted again (Add/AddDate) between the carry test and the next iteration, and the adjusted instant can lie in the next " + map[string]string{"Day": "month", "Hour": "day", "Minute": "hour", "Second": "minute"}[u] + " although the test did not fire"
		if u == "Day" {
			why += ": when local midnight of the 1st does not exist (DST gap at 00:00 on the 1st: America/Asuncion 2017-10-01, America/Havana 2012-04-01) AddDate lands on 23:00 of the last day of the month, t.Day() is not 1, and the DST fix-up then moves t to 01:00 of the 1st without the month being verified again — e.g. 'TZ=America/Asuncion 0 0 12 15 9 *' from 2017-09-20 yields 15 October"
		}
		r.Violation(rule, construct, p.Pos(stalePos), "the carry test of the "+u+" loop is made on a stale instant, not on the one the loop continues with: "+why)
		return
	}
	switch {
	case robust:
		r.OK(rule, construct, p.Pos(c04IfPos(exits[0].ifi)), "carry detected by comparing the instants before and after the step; goes back to the top")
	case floorEq && (u == "Hour" || u == "Minute"):
		why := "local midnight does not exist on days whose DST gap starts at 00:00 (America/Havana every March, America/Sao_Paulo until 2018, Asia/Beirut, Africa/Cairo ...): 23:00 + 1h = 01:00, t.Hour() is never 0, the change of day goes unnoticed and the search goes on matching hours on the NEXT day without verifying day-of-month/day-of-week/month again — e.g. CRON_TZ=America/Havana '0 0 5 9 3 *' from 2024-03-09 06:00 yields 2024-03-10 05:00 (day 10, expression says 9)"
		if u == "Minute" {
			why = "minute 0 does not exist in the hour entered through a 30-minute DST gap (Australia/Lord_Howe: 01:59 + 1m = 02:30): t.Minute() is never 0, the change of hour goes unnoticed and the search goes on matching minutes in the NEXT hour without verifying the hour field again — e.g. CRON_TZ=Australia/Lord_Howe '0 45 1 * * *' from 2023-10-01 01:50 yields 02:45 (hour 2, expression says 1)"
		}
		r.Violation(rule, construct, p.Pos(floorPos), "the carry out of the "+u+" loop is detected only by t."+acc+"() == "+fmt.Sprint(floor)+": "+why)
	case floorEq:
		r.OK(rule, construct, p.Pos(floorPos), fmt.Sprintf("carry detected by t.%s() == %d (this value exists in every %s); goes back to the top", acc, floor, map[string]string{"Day": "month", "Second": "minute"}[u]))
	case unknown:
		r.Undecide("Next %s loop: the condition under which the search goes back to the top is not a recognised carry test", u)
	}
}

// ---------------------------------------------------------------------------
// N3 limit

func (st *c04State) checkLimit(na *c04NextA) {
	r, p := st.r, st.p
	next := na.next
	rule := "C04.N3-limit"
	construct := "cron.SpecSchedule.Next year limit"
	found := false
	var msg, limitRel string
	var pos token.Pos
	yearPlus := func(a, b *c04T) (int64, bool) {
		if a.Op != "tm:Year" {
			return 0, false
		}
		if b.Op != "bin:+" {
			return 0, false
		}
		for _, pr := range [][2]*c04T{{b.Args[0], b.Args[1]}, {b.Args[1], b.Args[0]}} {
			if pr[0].Op == "tm:Year" && pr[1].Op == "const" && pr[1].IsK {
				return pr[1].K, true
			}
		}
		return 0, false
	}
	allInstrs(next, func(in ssa.Instruction) {
		ifi, ok := in.(*ssa.If)
		if !ok || found {
			return
		}
		ct := na.tb.Term(na.root, ifi.Cond)
		op, x, y, ok := c04CmpTerm(ct, true)
		if !ok {
			return
		}
		k, ok1 := yearPlus(x, y)
		if !ok1 {
			k, ok1 = yearPlus(y, x)
			op = c04FlipOp(op)
		}
		if !ok1 {
			return
		}
		found = true
		pos = c04IfPos(ifi)
		var beyond *ssa.BasicBlock
		switch op {
		case token.GTR, token.GEQ:
			beyond = ifi.Block().Succs[0]
		case token.LEQ, token.LSS:
			beyond = ifi.Block().Succs[1]
		default:
			msg = "the year limit is tested with " + op.String()
			return
		}
		firstGivenUp := k
		rel := "t.Year() >= start year + " + fmt.Sprint(k)
		if op == token.GTR || op == token.LEQ {
			firstGivenUp = k + 1
			rel = "t.Year() > start year + " + fmt.Sprint(k)
		}
		if firstGivenUp < 6 {
			msg = fmt.Sprintf("the search gives up when %s, i.e. candidates in calendar year start+%d are never examined although they can lie less than five years after t: e.g. '0 0 0 29 Feb ?' from 2099-03-01 must yield 2104-02-29 (2100 is not a leap year), and Next returns the zero time instead", rel, firstGivenUp)
			return
		}
		limitRel = rel
		// the give-up edge returns the zero time (possibly after jumps)
		zero := false
		for blk, hops := beyond, 0; blk != nil && hops < 4; hops++ {
			n := len(blk.Instrs)
			if n == 0 {
				break
			}
			if ret, ok := blk.Instrs[n-1].(*ssa.Return); ok && len(ret.Results) == 1 {
				if kz, ok := ret.Results[0].(*ssa.Const); ok && kz.Value == nil {
					zero = true
				}
				break
			}
			if _, ok := blk.Instrs[n-1].(*ssa.Jump); ok && n == 1 {
				blk = blk.Succs[0]
				continue
			}
			break
		}
		if !zero {
			msg = "beyond the year limit Next does not return the zero time"
			return
		}
		for _, l := range na.loops {
			if sb := na.siteInNext(l); sb != nil && !ifi.Block().Dominates(sb) {
				msg = "the year-limit test is not at the top of the search (it does not dominate the " + l.Unit + " loop)"
			}
		}
	})
	if !found {
		other := false
		allInstrs(next, func(in ssa.Instruction) {
			if c, ok := in.(*ssa.Call); ok {
				if n, _, ok := c04TimeCall(c); ok && (n == "After" || n == "Before" || n == "Compare" || n == "Sub" || n == "Equal") {
					other = true
				}
				if f := staticCallee(c); f != nil && c04Enterable(p, f) {
					other = true // a helper may hold the test in a form the term view does not expose
				}
			}
		})
		if other {
			r.Undecide("Next: the five-year bound is not a comparison of t.Year() with start year + constant (instants are compared some other way)")
			return
		}
		r.Violation(rule, construct, p.Pos(next.Pos()), "no comparison of t.Year() with start year + constant found in Next: the search is unbounded (an unsatisfiable schedule such as 30 February never returns) or the bound is not the documented five years")
		return
	}
	r.Check(msg == "", rule, construct, p.Pos(pos), "gives up (returns time.Time{}) only when "+limitRel+", tested at the top of the search: every year up to start+5 is examined", msg)
}

// ---------------------------------------------------------------------------
// N4 zone and start instant

// c04LinT folds a duration term into k + sum coef*symbol.
func c04LinT(t *c04T, sym func(*c04T) (string, bool)) (c04Lin, bool) {
	if name, ok := sym(t); ok {
		return c04Lin{coef: map[string]int64{name: 1}}, true
	}
	if t.Op == "const" && t.IsK {
		return c04Lin{coef: map[string]int64{}, k: t.K}, true
	}
	isConst := func(l c04Lin) bool {
		for _, c := range l.coef {
			if c != 0 {
				return false
			}
		}
		return true
	}
	switch t.Op {
	case "un:-":
		a, ok := c04LinT(t.Args[0], sym)
		if !ok {
			return c04Lin{}, false
		}
		out := c04Lin{coef: map[string]int64{}, k: -a.k}
		for s, c := range a.coef {
			out.coef[s] = -c
		}
		return out, true
	case "bin:+", "bin:-":
		a, ok1 := c04LinT(t.Args[0], sym)
		b, ok2 := c04LinT(t.Args[1], sym)
		if !ok1 || !ok2 {
			return c04Lin{}, false
		}
		sign := int64(1)
		if t.Op == "bin:-" {
			sign = -1
		}
		out := c04Lin{coef: map[string]int64{}, k: a.k + sign*b.k}
		for s, c := range a.coef {
			out.coef[s] += c
		}
		for s, c := range b.coef {
			out.coef[s] += sign * c
		}
		return out, true
	case "bin:*":
		a, ok1 := c04LinT(t.Args[0], sym)
		b, ok2 := c04LinT(t.Args[1], sym)
		if !ok1 || !ok2 {
			return c04Lin{}, false
		}
		if isConst(b) {
			a, b = b, a
		}
		if !isConst(a) {
			return c04Lin{}, false
		}
		out := c04Lin{coef: map[string]int64{}, k: a.k * b.k}
		for s, c := range b.coef {
			out.coef[s] = a.k * c
		}
		return out, true
	}
	return c04Lin{}, false
}

func (st *c04State) checkZone(na *c04NextA) {
	r, p := st.r, st.p
	next := na.next
	rule := "C04.N4-zone"
	locName := st.spec + ".Location"
	isSchedLoc := func(t *c04T) bool { return t.Op == "load" && t.Name == locName }
	// the instant the search starts from: entry value of the time phi of the outermost search loop
	var top *ssa.BasicBlock
	for _, l := range na.loops {
		if sb := na.siteInNext(l); sb != nil && (top == nil || sb.Dominates(top)) {
			top = sb
		}
	}
	var start ssa.Value
	for b := top; b != nil; b = b.Idom() {
		for _, in := range b.Instrs {
			ph, ok := in.(*ssa.Phi)
			if !ok {
				break
			}
			if !c04IsTimeType(ph.Type()) {
				continue
			}
			isHeader := false
			for i := range ph.Edges {
				if b.Dominates(b.Preds[i]) {
					isHeader = true
				}
			}
			if isHeader {
				start = ph // the outermost search loop wins (last one up the dominator chain)
			}
		}
	}
	tb := newC04TermBuilder(p)
	root := tb.Root(next)
	var startT *c04T
	if start == nil {
		// the search state may live in a local struct: take the content of its time field
		// where the outermost loop of Next is entered
		var outer *ssa.BasicBlock
		for b := top; b != nil; b = b.Idom() {
			for _, pb := range b.Preds {
				if b.Dominates(pb) {
					outer = b
				}
			}
		}
		if outer != nil {
			var cand []c04MemKey
			allInstrs(next, func(in ssa.Instruction) {
				if st, ok := in.(*ssa.Store); ok && c04IsTimeType(st.Val.Type()) {
					var k c04MemKey
					okK := false
					if fa, ok := st.Addr.(*ssa.FieldAddr); ok {
						if a, ok := fa.X.(*ssa.Alloc); ok && c04LocalStructOnly(a) {
							k, okK = c04MemKey{a, fa.Field, nil}, true
						}
					} else if a, ok := st.Addr.(*ssa.Alloc); ok && c04LocalCellOnly(a) && outer.Dominates(st.Block()) {
						// a variable captured by closures, written inside the search
						k, okK = c04MemKey{a, -1, nil}, true
					}
					if okK {
						dup := false
						for _, c := range cand {
							if c == k {
								dup = true
							}
						}
						if !dup {
							cand = append(cand, k)
						}
					}
				}
			})
			if len(cand) == 1 {
				var alts []*c04T
				for _, pb := range outer.Preds {
					if !outer.Dominates(pb) {
						alts = append(alts, tb.MemAt(root, cand[0].Alloc, cand[0].Field, pb, len(pb.Instrs)))
					}
				}
				if len(alts) > 0 {
					startT = c04Choice(alts)
				}
			}
		}
		if startT == nil {
			r.Undecide("Next: the instant the search starts from could not be identified")
			return
		}
	} else {
		// header phis contribute their entry edges only (the value before a loop is entered)
		startT = c04EntryTerm(tb, root, start)
	}
	// (a) conversion into the schedule's location
	hasIn := startT.contains(func(x *c04T) bool {
		return x.Op == "tm:In" && len(x.Args) == 2 && x.Args[1].contains(isSchedLoc)
	})
	if hasIn {
		r.OK(rule, "cron.SpecSchedule.Next In(Location)", p.Pos(next.Pos()), "t is converted into SpecSchedule.Location")
	} else if len(c04SpineOf(startT).unknown) > 0 {
		r.Undecide("Next: the start instant is computed through %s: the conversion into SpecSchedule.Location cannot be traced", c04SpineOf(startT).unknown[0])
	} else {
		r.Violation(rule, "cron.SpecSchedule.Next In(Location)", p.Pos(next.Pos()), "Next never converts t into SpecSchedule.Location: the fields are read on the wall clock of t's own zone, so 'CRON_TZ=Asia/Tokyo 0 6 * * ?' fires at 06:00 of the caller's zone")
	}
	// (b) every time.Date reached from Next builds its instant in the schedule's location or t's own
	nDate := 0
	bad, undec := "", ""
	callerZone := false
	var badPos token.Pos
	tb.VisitTree(root, func(fr *c04Frame2, in ssa.Instruction) {
		c, ok := in.(*ssa.Call)
		if !ok || !callIs(c, "time", "", "Date") || len(c.Call.Args) != 8 {
			return
		}
		nDate++
		lt := c04EntryTermIn(tb, fr, c.Call.Args[7])
		canBeSched := false
		for _, alt := range lt.alts() {
			switch {
			case isSchedLoc(alt):
				canBeSched = true
			case alt.Op == "tm:Location":
				// the zone of an instant: the schedule's zone if that instant was converted into it
				if len(alt.Args) == 1 && alt.Args[0].contains(func(x *c04T) bool {
					return x.Op == "tm:In" && len(x.Args) == 2 && x.Args[1].contains(isSchedLoc)
				}) {
					canBeSched = true
				}
			case alt.Op == "global":
				bad = "a time.Date reached from Next is built in the fixed location " + alt.Name
				badPos = c.Pos()
			default:
				undec = "the location of a time.Date reached from Next is computed as " + alt.Key() + " in " + fr.fn.Name()
			}
		}
		if !canBeSched && undec == "" && bad == "" {
			bad = "a time.Date reached from Next is always built in the zone of the instant passed in (t.Location() before the conversion), never in SpecSchedule.Location"
			badPos = c.Pos()
			callerZone = true
		}
	})
	switch {
	case bad != "":
		if callerZone {
			r.Violation(rule, "cron.SpecSchedule.Next time.Date location", p.Pos(badPos), bad+": for a schedule with its own zone the reset moves the search onto the caller's wall clock, and all later field tests are read there — e.g. 'TZ=Asia/Tokyo 0 0 0 1 Mar *' asked from a UTC instant yields 1 March 00:00 UTC instead of 00:00 JST")
		} else {
			r.Violation(rule, "cron.SpecSchedule.Next time.Date location", p.Pos(badPos), bad+", neither SpecSchedule.Location nor t.Location(): the reset lands on midnight/the hour of another zone and the fields are then read in a different zone than they were set in")
		}
	case undec != "":
		r.Undecide("Next: %s", undec)
	case nDate > 0:
		r.OK(rule, "cron.SpecSchedule.Next time.Date location", p.Pos(next.Pos()), fmt.Sprintf("%d time.Date calls use the schedule's location", nDate))
	}
	// (c) the search starts exactly at t truncated to the second plus one second
	construct := "cron.SpecSchedule.Next start instant"
	var verdicts []string
	var walk func(t *c04T, added int64)
	walk = func(t *c04T, added int64) {
		switch t.Op {
		case "choice":
			for _, a := range t.Args {
				walk(a, added)
			}
		case "leaf":
			verdicts = append(verdicts, "raw")
		case "tm:In", "tm:UTC", "tm:Local":
			walk(t.Args[0], added)
		case "tm:Truncate":
			if len(t.Args) == 2 && t.Args[1].Op == "const" && t.Args[1].IsK && t.Args[1].K > 0 && t.Args[1].K%1e9 == 0 {
				d := t.Args[1].K
				switch {
				case d != 1e9:
					verdicts = append(verdicts, fmt.Sprintf("bad:t is truncated to %dns, coarser than a second", d))
				case added == 1e9:
					verdicts = append(verdicts, "ok")
				case added <= 0:
					verdicts = append(verdicts, "bad:the search starts at t truncated to the second, which is not after t: Next(t) returns t itself when t is a matching whole second")
				default:
					verdicts = append(verdicts, fmt.Sprintf("bad:the search starts %dns after t truncated to the second: the next whole second is skipped", added))
				}
				return
			}
			verdicts = append(verdicts, "unknown:Truncate")
		case "tm:Add":
			recv := t.Args[0]
			lin, okLin := c04LinT(t.Args[1], func(x *c04T) (string, bool) {
				if x.Op == "tm:Nanosecond" && len(x.Args) == 1 && x.Args[0].Key() == recv.Key() {
					return "n", true
				}
				return "", false
			})
			switch {
			case okLin && lin.coef["n"] == 0:
				walk(recv, added+lin.k)
			case okLin && lin.coef["n"] != -1:
				verdicts = append(verdicts, "bad:the sub-second part of t is not removed exactly")
			case okLin && lin.k+added == 1e9:
				verdicts = append(verdicts, "ok")
			case okLin && lin.k+added <= 0:
				verdicts = append(verdicts, "bad:the search starts at t truncated to the second, which is not after t: Next(t) returns t itself when t is a matching whole second")
			case okLin:
				verdicts = append(verdicts, fmt.Sprintf("bad:the search starts %dns after t truncated to the second: the next whole second is skipped or the start is not a whole second", lin.k+added))
			case c04TermHasAccessor(t.Args[1], "Nanosecond"):
				verdicts = append(verdicts, "aligned")
			default:
				verdicts = append(verdicts, "unknown:Add of a computed duration")
			}
		default:
			verdicts = append(verdicts, "unknown:"+t.Op+" "+t.Name)
		}
	}
	walk(startT, 0)
	allOK, aligned := len(verdicts) > 0, true
	var badMsg, unk string
	raw := false
	for _, v := range verdicts {
		switch {
		case v == "ok":
		case v == "aligned":
			allOK = false
		case v == "raw":
			allOK, aligned, raw = false, false, true
		case strings.HasPrefix(v, "bad:"):
			allOK, aligned = false, false
			badMsg = v[4:]
		default:
			allOK, aligned = false, false
			unk = strings.TrimPrefix(v, "unknown:")
		}
	}
	switch {
	case allOK:
		r.OK(rule, construct, p.Pos(next.Pos()), "the search starts at t truncated to the second plus one second")
	case badMsg != "":
		r.Violation(rule, construct, p.Pos(next.Pos()), badMsg+" (Next must be the earliest whole second strictly after t)")
	case unk != "":
		r.Undecide("Next: the start instant is computed through %s: alignment to a whole second not decided", unk)
	case raw:
		r.Violation(rule, construct, p.Pos(next.Pos()), "the search starts from t without removing its sub-second part (no Truncate to seconds, no Add of a duration computed from t.Nanosecond()): Next returns instants that are not whole seconds, e.g. 10:00:01.5")
	case aligned:
		r.Note("Next: the start instant removes t's sub-second part, but that it is exactly the next whole second is not decided (non-linear expression)")
		r.OK(rule, construct, p.Pos(next.Pos()), "the search starts from t with its sub-second part removed")
	}
}

// c04EntryTerm: the term of v where loop-header phis contribute only their
// entry edges (the value before the loop is entered).
func c04EntryTerm(tb *c04TermBuilder, root *c04Frame2, v ssa.Value) *c04T {
	return c04EntryTermIn(tb, root, v)
}

func c04EntryTermIn(tb *c04TermBuilder, fr *c04Frame2, v ssa.Value) *c04T {
	// Leaves apply to the root frame only; for header phis of the root function
	// substitute the choice of their entry edges.
	if fr.parent == nil {
		for _, b := range fr.fn.Blocks {
			for _, in := range b.Instrs {
				ph, ok := in.(*ssa.Phi)
				if !ok {
					break
				}
				if _, done := tb.Leaves[ph]; done {
					continue
				}
				header := false
				for i := range ph.Edges {
					if b.Dominates(b.Preds[i]) {
						header = true
					}
				}
				if header {
					tb.Leaves[ph] = c04Unknown("pending")
				}
			}
		}
		// resolve the pending header phis lazily: entry edges only
		for ph, t := range tb.Leaves {
			if t.Op != "unknown" || t.Name != "pending" {
				continue
			}
			phi := ph.(*ssa.Phi)
			var alts []*c04T
			for i, e := range phi.Edges {
				if !phi.Block().Dominates(phi.Block().Preds[i]) {
					alts = append(alts, c04EntryEdge(tb, fr, e, 0))
				}
			}
			if len(alts) > 0 {
				tb.Leaves[ph] = c04Choice(alts)
			} else {
				tb.Leaves[ph] = c04Unknown("loop header without entry edge")
			}
		}
	}
	return tb.Term(fr, v)
}

// c04EntryEdge builds the term of an entry-edge value while header phis it
// depends on are still pending (nested loops: outer header phis first).
func c04EntryEdge(tb *c04TermBuilder, fr *c04Frame2, v ssa.Value, depth int) *c04T {
	if depth > 8 {
		return c04Unknown("nested loop headers")
	}
	if ph, ok := v.(*ssa.Phi); ok {
		if t, pending := tb.Leaves[ph]; pending && t.Op == "unknown" && t.Name == "pending" {
			var alts []*c04T
			for i, e := range ph.Edges {
				if !ph.Block().Dominates(ph.Block().Preds[i]) {
					alts = append(alts, c04EntryEdge(tb, fr, e, depth+1))
				}
			}
			if len(alts) == 0 {
				return c04Unknown("loop header without entry edge")
			}
			res := c04Choice(alts)
			tb.Leaves[ph] = res
			return res
		}
	}
	return tb.Term(fr, v)
}

// siteInNext: the block of Next a loop belongs to — its header if the loop is
// written in Next, else the block of the call (in Next) that leads to the
// helper holding it.
func (na *c04NextA) siteInNext(l *c04Loop) *ssa.BasicBlock {
	if l.Header == nil && l.Fn == na.next {
		return nil
	}
	if l.Fn == na.next {
		return l.Header
	}
	fr := l.Frame
	for fr != nil && fr.parent != nil && fr.parent.parent != nil {
		fr = fr.parent
	}
	if fr == nil || fr.call == nil {
		return nil
	}
	return fr.call.Block()
}

// flagReturnToTop: block s (outside the helper's loop) leads to a return of the
// helper in which some boolean result is the constant true, and Next branches
// on that result of the helper call with its true edge going to the top of the
// search (false edge: goes on).
func (lc *c04LoopCtx) flagReturnToTop(s *ssa.BasicBlock, isTop func(*ssa.BasicBlock) bool) (toTop, ignored bool) {
	fr := lc.l.Frame
	if fr == nil || fr.parent == nil || fr.call == nil {
		return false, false
	}
	// follow jump-only blocks to the return
	var ret *ssa.Return
	for blk, hops := s, 0; blk != nil && hops < 6; hops++ {
		n := len(blk.Instrs)
		if n == 0 {
			break
		}
		if rt, ok := blk.Instrs[n-1].(*ssa.Return); ok {
			ret = rt
			break
		}
		if _, ok := blk.Instrs[n-1].(*ssa.Jump); ok {
			blk = blk.Succs[0]
			continue
		}
		break
	}
	if ret == nil {
		return false, false
	}
	nFlags, nUnused := 0, 0
	for j, rv := range ret.Results {
		k, isK := rv.(*ssa.Const)
		if !isK || k.Value == nil || k.Value.String() != "true" {
			// the flag may be a phi/variable whose value on this edge is true
			if ph, ok := rv.(*ssa.Phi); ok && ph.Block() == ret.Block() {
				val := ssa.Value(nil)
				for i, pb := range ph.Block().Preds {
					if pb == s || reachableFrom(s, map[*ssa.BasicBlock]bool{ph.Block(): true})[pb] {
						val = ph.Edges[i]
					}
				}
				if kk, ok := val.(*ssa.Const); !ok || kk.Value == nil || kk.Value.String() != "true" {
					continue
				}
			} else {
				continue
			}
		}
		nFlags++
		top, unused := lc.flagUse(fr, j, len(ret.Results), isTop, 0)
		if top {
			return true, false
		}
		if unused {
			nUnused++
		}
	}
	return false, nFlags > 0 && nFlags == nUnused
}

// flagUse: result #j of the call that entered frame fr — is it branched on in
// Next with the true edge going to the top of the search? Wrappers that return
// the helper's results unchanged are looked through.
func (lc *c04LoopCtx) flagUse(fr *c04Frame2, j, nres int, isTop func(*ssa.BasicBlock) bool, depth int) (toTop, unused bool) {
	call, ok := fr.call.(*ssa.Call)
	if !ok || fr.parent == nil || depth > 4 {
		return false, false
	}
	var flag ssa.Value
	if nres == 1 {
		flag = call
	} else {
		flag = callResult(call, j)
	}
	if flag == nil || len(c04RealRefs(flag)) == 0 {
		return false, true // the result is dropped (assigned to _ or never extracted)
	}
	for _, ref := range refs(flag) {
		switch x := ref.(type) {
		case *ssa.If:
			if fr.parent.fn == lc.na.next && isTop(x.Block().Succs[0]) {
				return true, false
			}
		case *ssa.UnOp:
			if x.Op == token.NOT {
				for _, r2 := range refs(x) {
					if ifi, ok := r2.(*ssa.If); ok && fr.parent.fn == lc.na.next && isTop(ifi.Block().Succs[1]) {
						return true, false
					}
				}
			}
		case *ssa.Return:
			// a wrapper handing the result on: which of its results?
			for jj, rv := range x.Results {
				if rv == flag && fr.parent.parent != nil {
					if top, un := lc.flagUse(fr.parent, jj, len(x.Results), isTop, depth+1); top || un {
						return top, un
					}
				}
			}
		}
	}
	return false, false
}

// c04MemStoredFields: the fields of local struct al stored to inside the loop (sorted); for a plain variable: [-1].
func c04MemStoredFields(l *c04Loop, al *ssa.Alloc) []int {
	if _, isStruct := deref1(al.Type()).Underlying().(*types.Struct); !isStruct || c04IsTimeType(deref1(al.Type())) {
		return []int{-1}
	}
	set := map[int]bool{}
	for b := range l.Body {
		for _, in := range b.Instrs {
			if st, ok := in.(*ssa.Store); ok {
				if fa, ok := st.Addr.(*ssa.FieldAddr); ok && fa.X == ssa.Value(al) {
					set[fa.Field] = true
				}
			}
		}
	}
	var out []int
	for f := range set {
		out = append(out, f)
	}
	sort.Ints(out)
	return out
}

// c04MemInstant: the time.Time variable held in memory that the loop stores to:
// a field of a local struct (only accessed through its fields), or a local
// variable that closures capture (a heap cell). n = number of candidates found.
func c04MemInstant(l *c04Loop) (al *ssa.Alloc, field int, n int) {
	seen := map[c04MemKey]bool{}
	var blocks []*ssa.BasicBlock
	for b := range l.Body {
		blocks = append(blocks, b)
	}
	sort.Slice(blocks, func(i, j int) bool { return blocks[i].Index < blocks[j].Index })
	for _, b := range blocks {
		for _, in := range b.Instrs {
			st, ok := in.(*ssa.Store)
			if !ok || !c04IsTimeType(st.Val.Type()) {
				continue
			}
			var k c04MemKey
			switch x := st.Addr.(type) {
			case *ssa.FieldAddr:
				a, ok := x.X.(*ssa.Alloc)
				if !ok || !c04LocalStructOnly(a) {
					continue
				}
				k = c04MemKey{a, x.Field, nil}
			case *ssa.Alloc:
				if !c04LocalCellOnly(x) {
					continue
				}
				k = c04MemKey{x, -1, nil}
			default:
				continue
			}
			if !seen[k] {
				seen[k] = true
				al, field = k.Alloc.(*ssa.Alloc), k.Field
				n++
			}
		}
	}
	return
}

// checkGap: a calendar step (AddDate, or time.Date with field+1) asks for "the
// same wall-clock time on another date"; when that time does not exist (DST gap
// at local midnight) the time package answers with an instant off by the gap —
// 23:00 of the previous day, which for the month step is still the OLD month.
// The loop must therefore look at the stepped instant and adjust it (the day
// loop's "hour is no longer midnight" fix-up) before it goes on. Necessary:
// some Add/AddDate/Date applied after the step whose amount depends on an
// accessor of the stepped instant.
func (lc *c04LoopCtx) checkGap() {
	r, p, u, l := lc.st.r, lc.st.p, lc.u, lc.l
	rule := "C04.N2-search"
	construct := lc.base + ": dst gap"
	constSteps, _ := lc.steps()
	var calSteps []*c04T
	for _, s := range constSteps {
		if s.Op == "tm:AddDate" {
			calSteps = append(calSteps, s)
		} else if _, ok := lc.dateStep(s); ok {
			calSteps = append(calSteps, s)
		}
	}
	if len(calSteps) == 0 {
		// a fixed-duration step: judged by the step rule (needs a full reset after it)
		if len(lc.sp.unknown) > 0 {
			r.Undecide("Next %s loop: the value the loop continues with is computed through %s: the handling of a non-existent local midnight is not decided", u, lc.sp.unknown[0])
		} else {
			r.OK(rule, construct, p.Pos(c04IfPos(l.If)), "no calendar step (AddDate / Date) in this loop")
		}
		return
	}
	// an adjustment above a calendar step: a node whose arguments read an accessor of an instant derived from the step
	adjusted := func(step *c04T) bool {
		for _, n := range lc.sp.nodes {
			if n.Key() == step.Key() || !c04Below(n, step) {
				continue
			}
			var amount []*c04T
			switch n.Op {
			case "tm:Add", "tm:AddDate":
				amount = n.Args[1:]
			case "date":
				amount = n.Args[:7]
			default:
				continue
			}
			for _, a := range amount {
				dep := a.contains(func(x *c04T) bool {
					if !strings.HasPrefix(x.Op, "tm:") || len(x.Args) != 1 {
						return false
					}
					switch x.Op[3:] {
					case "Hour", "Day", "Month", "Minute", "YearDay":
					default:
						return false
					}
					return x.Args[0].Key() == step.Key() || c04Below(x.Args[0], step)
				})
				if dep && n.Op != "date" {
					return true
				}
				if dep && n.Op == "date" {
					// rebuilding the date from the stepped instant's own fields does not repair anything
					continue
				}
			}
		}
		return false
	}
	for _, s := range calSteps {
		if !adjusted(s) {
			if len(lc.sp.unknown) > 0 {
				r.Undecide("Next %s loop: the value the loop continues with is computed through %s: the handling of a non-existent local midnight is not decided", u, lc.sp.unknown[0])
				return
			}
			why := "when local midnight of the target date does not exist (DST gap starting at 00:00: America/Asuncion 2017-10-01, America/Havana 2012-04-01, America/Sao_Paulo until 2018) the calendar step lands one hour early, on 23:00 of the previous day"
			if u == "Month" {
				why += " — still in the OLD month, so the month is counted again, t drifts to the 30th 23:00 of the following months, and when the month finally matches the day search crosses into the next month and the whole year is skipped: 'TZ=America/Asuncion 0 0 0 1 Dec *' from 2017-09-15 yields 2018-12-01 instead of 2017-12-01"
			} else {
				why += ", the same day is tested again and the search continues from 23:00 instead of the start of the next day"
			}
			r.Violation(rule, construct, c04TermPos(p, s, c04IfPos(l.If)), "the "+u+" loop steps by calendar date and continues with the result as it is (no look at the hour/day of the stepped instant, as the day loop's not-midnight fix-up does): "+why)
			return
		}
	}
	r.OK(rule, construct, p.Pos(c04IfPos(l.If)), "the calendar step is followed by an adjustment that reads the stepped instant (not-midnight fix-up)")
}
