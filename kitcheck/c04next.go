package main

// C04: structure of the field-by-field search in SpecSchedule.Next.

import (
	"fmt"
	"go/token"
	"go/types"

	"golang.org/x/tools/go/ssa"
)

// unit order used for "lower-order" / "higher-order" reasoning
var c04UnitOrder = map[string]int{"Second": 0, "Minute": 1, "Hour": 2, "Day": 3, "Month": 4, "Year": 5}

// accessors of time.Time that identify a unit at least as coarse as the key
var c04AccessorUnit = map[string]int{"Second": 0, "Minute": 1, "Hour": 2, "Day": 3, "Weekday": 3, "YearDay": 3, "Month": 4, "Year": 5}

type c04Loop struct {
	Unit    string // "Month","Day","Hour","Minute","Second"
	If      *ssa.If
	Header  *ssa.BasicBlock
	Clear   *ssa.BasicBlock // successor taken while the field does not match
	Set     *ssa.BasicBlock
	Body    map[*ssa.BasicBlock]bool
	IsLoop  bool
	Flipped bool // the matching edge is the one that loops
}

func c04ConstInt(v ssa.Value) (int64, bool) {
	k, ok := v.(*ssa.Const)
	if !ok || k.Value == nil {
		return 0, false
	}
	if _, isInt := k.Type().Underlying().(*types.Basic); !isInt {
		return 0, false
	}
	if b := k.Type().Underlying().(*types.Basic); b.Info()&types.IsInteger == 0 {
		return 0, false
	}
	return k.Int64(), true
}

// natural loop of header h entered through succ `into`.
func c04NaturalLoop(h, into *ssa.BasicBlock) map[*ssa.BasicBlock]bool {
	fwd := reachableFrom(into, map[*ssa.BasicBlock]bool{h: true})
	body := map[*ssa.BasicBlock]bool{}
	// blocks dominated by h, reachable from `into` without h, that can reach h
	var canReach func(b *ssa.BasicBlock, seen map[*ssa.BasicBlock]bool) bool
	canReach = func(b *ssa.BasicBlock, seen map[*ssa.BasicBlock]bool) bool {
		if seen[b] {
			return false
		}
		seen[b] = true
		for _, s := range b.Succs {
			if s == h {
				return true
			}
			if fwd[s] && h.Dominates(s) && canReach(s, seen) {
				return true
			}
		}
		return false
	}
	for b := range fwd {
		if h.Dominates(b) && canReach(b, map[*ssa.BasicBlock]bool{}) {
			body[b] = true
		}
	}
	return body
}

func (st *c04State) findLoops(next *ssa.Function, ands []c04And) map[string]*c04Loop {
	loops := map[string]*c04Loop{}
	dayMatches := st.p.FuncOpt("cron", "dayMatches")
	andOf := map[ssa.Value]c04And{}
	for _, a := range ands {
		if a.Kind == "match" && a.Fn == next {
			andOf[a.Op] = a
		}
	}
	unitOfField := map[string]string{"Second": "Second", "Minute": "Minute", "Hour": "Hour", "Month": "Month"}
	allInstrs(next, func(in ssa.Instruction) {
		ifi, ok := in.(*ssa.If)
		if !ok {
			return
		}
		b := ifi.Block()
		var unit string
		var clear, set *ssa.BasicBlock
		if cmp, ok := decodeCond(ifi.Cond, true); ok {
			x, y, op := cmp.X, cmp.Y, cmp.Op
			if _, isAnd := andOf[y]; isAnd {
				x, y = y, x
				switch op {
				case token.LSS:
					op = token.GTR
				case token.GTR:
					op = token.LSS
				case token.LEQ:
					op = token.GEQ
				case token.GEQ:
					op = token.LEQ
				}
			}
			a, isAnd := andOf[x]
			if !isAnd {
				return
			}
			k, isK := c04ConstInt(y)
			if !isK {
				return
			}
			u, okU := unitOfField[a.Field]
			if !okU {
				return
			}
			// on the true edge "and op k" holds; decide which edge means and == 0
			var zeroOnTrue bool
			switch {
			case op == token.EQL && k == 0, op == token.LEQ && k == 0, op == token.LSS && k == 1:
				zeroOnTrue = true
			case op == token.NEQ && k == 0, op == token.GTR && k == 0, op == token.GEQ && k == 1:
				zeroOnTrue = false
			default:
				return
			}
			unit = u
			if zeroOnTrue {
				clear, set = b.Succs[0], b.Succs[1]
			} else {
				clear, set = b.Succs[1], b.Succs[0]
			}
		} else if call, val, ok := boolCallCond(ifi.Cond, true); ok && dayMatches != nil && staticCallee(call) == dayMatches {
			unit = "Day"
			if val {
				set, clear = b.Succs[0], b.Succs[1]
			} else {
				set, clear = b.Succs[1], b.Succs[0]
			}
		} else {
			return
		}
		l := &c04Loop{Unit: unit, If: ifi, Header: b, Clear: clear, Set: set}
		l.Body = c04NaturalLoop(b, clear)
		l.IsLoop = len(l.Body) > 0
		if !l.IsLoop {
			if other := c04NaturalLoop(b, set); len(other) > 0 {
				l.Flipped = true
			}
		}
		if prev := loops[unit]; prev == nil || (!prev.IsLoop && l.IsLoop) {
			loops[unit] = l
		}
	})
	return loops
}

// derivesFrom: v is reached from `from` through phis only (value identity up to merges).
func c04ThroughPhis(v ssa.Value, pred func(ssa.Value) bool) bool {
	seen := map[ssa.Value]bool{}
	var walk func(v ssa.Value) bool
	walk = func(v ssa.Value) bool {
		if seen[v] {
			return false
		}
		seen[v] = true
		if pred(v) {
			return true
		}
		if ph, ok := v.(*ssa.Phi); ok {
			for _, e := range ph.Edges {
				if walk(e) {
					return true
				}
			}
		}
		return false
	}
	return walk(v)
}

func c04IsTimeType(t types.Type) bool { return namedKey(t) == "time.Time" }

// manualReset: some Add in the loop takes a duration computed from the finest
// accessors of an instant (a hand-written "subtract minutes and seconds").
func manualReset(steps []*ssa.Call) bool {
	for _, s := range steps {
		if !callIs(s, "time", "Time", "Add") || len(s.Call.Args) != 2 {
			continue
		}
		if c04DependsOnAccessor(s.Call.Args[1], "Minute", "Second", "Nanosecond") {
			return true
		}
	}
	return false
}

// c04IfPos: a useful source position for a branch (the If itself has none).
func c04IfPos(ifi *ssa.If) token.Pos {
	if in, ok := ifi.Cond.(ssa.Instruction); ok && in.Pos().IsValid() {
		return in.Pos()
	}
	if u, ok := ifi.Cond.(*ssa.UnOp); ok {
		if in, ok := u.X.(ssa.Instruction); ok && in.Pos().IsValid() {
			return in.Pos()
		}
	}
	return instrPos(ifi)
}

func (st *c04State) checkSearch(ands []c04And) {
	r, p := st.r, st.p
	next := p.Func("cron", "SpecSchedule.Next")
	loops := st.findLoops(next, ands)
	rule := "C04.N2-search"
	var headers []*ssa.BasicBlock
	for _, l := range loops {
		headers = append(headers, l.Header)
	}
	// the "top" of the search: a block outside every search loop that dominates every header
	// and is itself re-entered (target of a back edge). Determined per carry below.
	isTop := func(w *ssa.BasicBlock) bool {
		for _, h := range headers {
			if !w.Dominates(h) {
				return false
			}
		}
		return true
	}
	units := []string{"Month", "Day", "Hour", "Minute", "Second"}
	fieldOfUnit := map[string]string{"Month": "Month", "Day": "Dom/Dow", "Hour": "Hour", "Minute": "Minute", "Second": "Second"}
	floorOf := map[string]int64{"Month": 1, "Day": 1, "Hour": 0, "Minute": 0, "Second": 0}
	accOf := map[string]string{"Month": "Month", "Day": "Day", "Hour": "Hour", "Minute": "Minute", "Second": "Second"}
	for _, u := range units {
		l := loops[u]
		base := "cron.SpecSchedule.Next " + u + " loop"
		if l == nil {
			// P3 reports a field that is not consulted at all; here the shape is unknown
			r.Undecide("Next: no branch on the %s bit test found: the search structure for %s cannot be decided", fieldOfUnit[u], u)
			continue
		}
		pos := p.Pos(c04IfPos(l.If))
		// polarity
		if !l.IsLoop {
			if l.Flipped {
				r.Violation(rule, base+": polarity", pos, "the "+u+" search advances while the field MATCHES and stops when it does not: Next returns instants the expression excludes")
			} else {
				r.Undecide("Next: the %s bit test is not the condition of a loop: search structure not recognised", u)
			}
			continue
		}
		r.OK(rule, base+": polarity", pos, "advances while the bit is clear, leaves when it is set")

		// collect the time-valued calls of the body
		var resets, steps []*ssa.Call
		var unknownTime []*ssa.Call
		for b := range l.Body {
			for _, in := range b.Instrs {
				call, ok := in.(*ssa.Call)
				if !ok || !c04IsTimeType(call.Type()) {
					continue
				}
				switch {
				case callIs(call, "time", "", "Date"), callIs(call, "time", "Time", "Truncate"):
					resets = append(resets, call)
				case callIs(call, "time", "Time", "Add"), callIs(call, "time", "Time", "AddDate"):
					steps = append(steps, call)
				default:
					unknownTime = append(unknownTime, call)
				}
			}
		}

		// ---- step: at most one unit
		st.checkStep(l, u, base, steps, unknownTime)

		// ---- reset (not needed for seconds: the search runs on whole seconds)
		if u != "Second" {
			st.checkReset(l, u, base, resets, steps, unknownTime)
		}

		// ---- carry
		if u != "Month" {
			st.checkCarry(l, u, base, isTop, floorOf[u], accOf[u])
		}
	}

	st.checkLimit(next, loops)
	st.checkZone(next, loops)
}

func (st *c04State) checkStep(l *c04Loop, u, base string, steps, unknown []*ssa.Call) {
	r, p := st.r, st.p
	rule := "C04.N2-search"
	unitNs := map[string]int64{"Hour": 3600e9, "Minute": 60e9, "Second": 1e9}
	var constSteps, nonAddDate int
	var bad string
	var badPos token.Pos
	for _, s := range steps {
		if callIs(s, "time", "Time", "AddDate") {
			if len(s.Call.Args) != 4 {
				continue
			}
			y, ok1 := c04ConstInt(s.Call.Args[1])
			m, ok2 := c04ConstInt(s.Call.Args[2])
			d, ok3 := c04ConstInt(s.Call.Args[3])
			if !ok1 || !ok2 || !ok3 {
				continue
			}
			constSteps++
			switch u {
			case "Month":
				if y != 0 || m > 1 || (m == 1 && d > 0) {
					bad, badPos = fmt.Sprintf("AddDate(%d,%d,%d) advances by more than one month", y, m, d), s.Pos()
				}
			case "Day":
				if y != 0 || m != 0 || d > 1 {
					bad, badPos = fmt.Sprintf("AddDate(%d,%d,%d) advances by more than one day", y, m, d), s.Pos()
				}
			default:
				if y != 0 || m != 0 || d != 0 {
					bad, badPos = fmt.Sprintf("AddDate(%d,%d,%d) advances by more than one %s", y, m, d, u), s.Pos()
				}
			}
			continue
		}
		d, ok := c04ConstInt(s.Call.Args[len(s.Call.Args)-1])
		if !ok {
			continue // computed durations (DST fix-ups) are not steps of the search
		}
		constSteps++
		lim := int64(0)
		switch u {
		case "Month":
			constSteps--
			nonAddDate++
			continue // a month is not a constant duration: only AddDate is judged
		case "Day":
			lim = 36 * 3600e9 // the DST fix-ups of the day loop snap 23..25 h steps back to midnight; beyond 36 h a day is skipped
		default:
			lim = unitNs[u]
		}
		if d > lim {
			bad, badPos = fmt.Sprintf("Add(%dns) advances by more than one %s", d, u), s.Pos()
		}
	}
	construct := base + ": step"
	switch {
	case bad != "":
		r.Violation(rule, construct, p.Pos(badPos), bad+": values of the "+u+" field are skipped, so an earlier matching instant can be missed")
	case constSteps > 0:
		r.OK(rule, construct, p.Pos(c04IfPos(l.If)), "advances by at most one "+u)
	case len(unknown) > 0:
		r.Undecide("Next %s loop: the advance is made by %s, not by Add/AddDate with constants", u, callDesc(unknown[0]))
	case len(steps) > 0 || nonAddDate > 0:
		r.Undecide("Next %s loop: the advance is not an Add/AddDate with constant arguments", u)
	default:
		r.Violation(rule, construct, p.Pos(c04IfPos(l.If)), "the "+u+" loop no longer advances the time (no Add/AddDate in the loop): the search cannot reach a later matching "+u)
	}
}

// checkReset: when unit u has to be advanced, all lower-order fields must be
// set to their minimum first, else a later-than-earliest instant is returned.
func (st *c04State) checkReset(l *c04Loop, u, base string, resets, steps, unknown []*ssa.Call) {
	r, p := st.r, st.p
	rule := "C04.N2-search"
	construct := base + ": reset"
	pos := p.Pos(c04IfPos(l.If))
	// positions of time.Date arguments: year month day hour min sec nsec loc
	firstLower := map[string]int{"Month": 2, "Day": 3, "Hour": 4, "Minute": 5}[u]
	wantAcc := []string{"Year", "Month", "Day", "Hour", "Minute", "Second"}
	var good *ssa.Call
	var goodOuter ssa.Value // the value in the loop that carries the reset (the call itself, or the module helper wrapping it)
	var bad string
	var badPos token.Pos
	undecided := ""
	outerOf := map[*ssa.Call]ssa.Value{}
	// one level of module helpers: startOfDay(t, loc) { return time.Date(...) }
	for _, uc := range unknown {
		callee := staticCallee(uc)
		if callee == nil || !p.InModule(callee) {
			continue
		}
		allInstrs(callee, func(in ssa.Instruction) {
			if c, ok := in.(*ssa.Call); ok && (callIs(c, "time", "", "Date") || callIs(c, "time", "Time", "Truncate")) {
				resets = append(resets, c)
				outerOf[c] = uc
			}
		})
	}
	for _, c := range resets {
		if callIs(c, "time", "", "Date") {
			if len(c.Call.Args) != 8 {
				continue
			}
			ok := true
			for k := 0; k < 7; k++ {
				a := c.Call.Args[k]
				if k >= firstLower {
					want := int64(0)
					if k == 2 {
						want = 1
					}
					v, isK := c04ConstInt(a)
					switch {
					case isK && v == want:
					case isK:
						ok = false
						bad, badPos = fmt.Sprintf("time.Date argument #%d is %d, the minimum is %d", k+1, v, want), c.Pos()
					default:
						ok = false
						if name, _, isAcc := c04TimeCall(a); isAcc {
							bad, badPos = fmt.Sprintf("time.Date keeps t.%s() in a lower-order position (argument #%d) instead of resetting it to %d", name, k+1, want), c.Pos()
						} else {
							undecided = fmt.Sprintf("time.Date argument #%d in the %s loop is neither a constant nor an accessor", k+1, u)
						}
					}
				} else {
					name, _, isAcc := c04TimeCall(a)
					switch {
					case isAcc && name == wantAcc[k]:
					case isAcc:
						ok = false
						bad, badPos = fmt.Sprintf("time.Date argument #%d (%s) is filled from t.%s()", k+1, wantAcc[k], name), c.Pos()
					default:
						ok = false
						undecided = fmt.Sprintf("time.Date argument #%d in the %s loop is not a time.Time accessor", k+1, u)
					}
				}
			}
			if ok {
				good = c
			}
			continue
		}
		// Truncate(d): resets everything below d on the absolute time line; equals the
		// wall-clock reset only for units whose zone offsets are multiples of d
		d, isK := c04ConstInt(c.Call.Args[len(c.Call.Args)-1])
		if !isK {
			undecided = "Truncate with a computed duration in the " + u + " loop"
			continue
		}
		switch {
		case u == "Minute" && d == 60e9:
			good = c
		case u == "Minute" && d == 1e9, u == "Hour" && (d == 1e9 || d == 60e9), u == "Day", u == "Month":
			if d < map[string]int64{"Minute": 60e9, "Hour": 3600e9, "Day": 24 * 3600e9, "Month": 24 * 3600e9}[u] {
				bad, badPos = fmt.Sprintf("Truncate(%dns) does not reset all fields below %s", d, u), c.Pos()
			} else {
				bad, badPos = fmt.Sprintf("Truncate(%dns) rounds on the absolute time line, which is not the start of the local %s in zones whose offset is not a multiple of it", d, u), c.Pos()
			}
		case u == "Hour" && d == 3600e9:
			bad, badPos = "Truncate(1h) rounds on the absolute time line: in zones with a 30/45-minute offset (Asia/Kolkata, Asia/Kathmandu) this is not the start of the local hour", c.Pos()
		default:
			undecided = fmt.Sprintf("Truncate(%dns) in the %s loop", d, u)
		}
	}
	var feedArgs []ssa.Value
	if good != nil {
		goodOuter = good
		feedArgs = good.Call.Args
		if o, ok := outerOf[good]; ok {
			goodOuter = o
			feedArgs = o.(*ssa.Call).Call.Args
		}
	}
	switch {
	case good != nil:
		// reset and step must be composed within one iteration (merges inside the
		// loop only, not the loop-carried phi of the header)
		inIter := func(from ssa.Value, target func(ssa.Value) bool) bool {
			seen := map[ssa.Value]bool{}
			var walk func(v ssa.Value) bool
			walk = func(v ssa.Value) bool {
				if seen[v] {
					return false
				}
				seen[v] = true
				if target(v) {
					return true
				}
				if ph, ok := v.(*ssa.Phi); ok && ph.Block() != l.Header && l.Body[ph.Block()] {
					for _, e := range ph.Edges {
						if walk(e) {
							return true
						}
					}
				}
				return false
			}
			return walk(from)
		}
		isStep := func(v ssa.Value) bool {
			for _, s := range steps {
				if v == ssa.Value(s) {
					return true
				}
			}
			return false
		}
		resetFeedsStep, stepFeedsReset := false, false
		for _, s := range steps {
			if len(s.Call.Args) > 0 && inIter(s.Call.Args[0], func(v ssa.Value) bool { return v == goodOuter }) {
				resetFeedsStep = true
			}
		}
		for _, a := range feedArgs {
			if _, c, ok := c04TimeCall(a); ok && len(c.Call.Args) > 0 && inIter(c.Call.Args[0], isStep) {
				stepFeedsReset = true
			}
			if c04IsTimeType(a.Type()) && inIter(a, isStep) {
				stepFeedsReset = true
			}
		}
		switch {
		case resetFeedsStep || len(steps) == 0:
			r.OK(rule, construct, p.Pos(good.Pos()), "lower-order fields are set to their minimum before the advance")
		case stepFeedsReset && u != "Month":
			r.OK(rule, construct, p.Pos(good.Pos()), "lower-order fields are set to their minimum right after the advance")
		case stepFeedsReset:
			r.Violation(rule, construct, p.Pos(good.Pos()), "the month is advanced BEFORE the day is reset to 1: AddDate normalises an overflowing day (Jan 31 + 1 month = Mar 3), so from the 29th-31st the following month is skipped and Next misses its matches")
		default:
			r.Violation(rule, construct, p.Pos(good.Pos()), "the reset of the lower-order fields is not applied to the instant that is advanced (its result does not reach the step of "+u+" in the same iteration): the first candidate after advancing is not the start of the next "+u)
		}
	case bad != "":
		r.Violation(rule, construct, p.Pos(badPos), bad+": after advancing "+u+" the search continues from a time of day/month later than the start of the new "+u+", so Next can return a later instant than the earliest match")
	case undecided != "":
		r.Undecide("Next %s loop reset: %s", u, undecided)
	case len(unknown) > 0:
		r.Undecide("Next %s loop: the lower-order reset may be inside %s", u, callDesc(unknown[0]))
	case manualReset(steps):
		r.Undecide("Next %s loop: lower-order fields seem to be reset by subtracting accessor values (Add of a duration computed from t.Minute()/Second()/Nanosecond()): not a recognised reset form", u)
	default:
		r.Violation(rule, construct, pos, "when "+u+" has to be advanced the lower-order fields are no longer reset (no time.Date/Truncate in the loop): "+map[string]string{
			"Month":  "e.g. from 15 Jan 10:30 a schedule for March yields 15 Mar 10:30 or later instead of 1 Mar 00:00",
			"Day":    "e.g. from the 1st 10:30 a schedule for the 5th yields the 5th at 10:30 or later instead of 00:00",
			"Hour":   "e.g. from 10:30 a schedule for hour 12 yields 12:30 or later instead of 12:00",
			"Minute": "e.g. from 10:30:45 a schedule for minute 40 yields 10:40:45 instead of 10:40:00",
		}[u])
	}
}

// checkCarry: leaving the loop on a carry into the next higher unit must go
// back to the top of the search, and the carry test must not depend on the
// smallest value of the unit existing on the wall clock.
func (st *c04State) checkCarry(l *c04Loop, u, base string, isTop func(*ssa.BasicBlock) bool, floor int64, acc string) {
	r, p := st.r, st.p
	rule := "C04.N2-search"
	construct := base + ": carry"
	type exit struct {
		ifi   *ssa.If
		toTop bool // branch (true/false) that goes to the top
	}
	var exits []exit
	for b := range l.Body {
		if len(b.Instrs) == 0 {
			continue
		}
		ifi, ok := b.Instrs[len(b.Instrs)-1].(*ssa.If)
		if !ok {
			continue
		}
		for i, s := range b.Succs {
			if !l.Body[s] && s != l.Header && isTop(s) {
				exits = append(exits, exit{ifi, i == 0})
			}
		}
	}
	if l.If != nil {
		// the header's own edges are the match/no-match edges, not a carry
	}
	if len(exits) == 0 {
		r.Violation(rule, construct, p.Pos(c04IfPos(l.If)), "no path from the "+u+" loop back to the top of the search: when advancing "+u+" carries into the next higher field that field (and the year limit) is not verified again, so Next returns instants on days/hours the expression excludes")
		return
	}
	// The instant the loop carries from one iteration to the next: the single
	// time.Time phi of the header.
	var loopPhi *ssa.Phi
	nPhi := 0
	for _, in := range l.Header.Instrs {
		ph, ok := in.(*ssa.Phi)
		if !ok {
			break
		}
		if c04IsTimeType(ph.Type()) {
			loopPhi = ph
			nPhi++
		}
	}
	if nPhi != 1 {
		loopPhi = nil
	}
	// freshness of a carry test: the tested instant must be the value the loop
	// continues with (the back-edge value of the loop instant). "stale": the
	// loop continues with a value obtained from the tested one by further
	// Add/AddDate calls (fix-ups), which may cross into the next higher unit
	// after the test was made.
	freshness := func(ifi *ssa.If, toTop bool, instants []ssa.Value) string {
		if loopPhi == nil {
			return "unknown"
		}
		stay := ifi.Block().Succs[0]
		if toTop {
			stay = ifi.Block().Succs[1]
		}
		var preds []*ssa.BasicBlock
		if stay == l.Header {
			preds = []*ssa.BasicBlock{ifi.Block()}
		} else {
			reach := reachableFrom(stay, map[*ssa.BasicBlock]bool{l.Header: true})
			for _, pb := range l.Header.Preds {
				if l.Body[pb] && reach[pb] {
					preds = append(preds, pb)
				}
			}
		}
		if len(preds) == 0 {
			return "unknown"
		}
		isInstant := func(v ssa.Value) bool {
			for _, x := range instants {
				if x == v {
					return true
				}
			}
			return false
		}
		res := "fresh"
		for _, pb := range preds {
			for i, hp := range l.Header.Preds {
				if hp != pb {
					continue
				}
				v := loopPhi.Edges[i]
				if isInstant(v) {
					continue
				}
				// does v derive from a tested instant through Add/AddDate (and merges inside the loop)?
				seen := map[ssa.Value]bool{}
				var walk func(v ssa.Value, added bool) bool
				walk = func(v ssa.Value, added bool) bool {
					if isInstant(v) {
						return added
					}
					if seen[v] {
						return false
					}
					seen[v] = true
					switch x := v.(type) {
					case *ssa.Phi:
						if x.Block() == l.Header || !l.Body[x.Block()] {
							return false
						}
						for _, e := range x.Edges {
							if walk(e, added) {
								return true
							}
						}
					case *ssa.Call:
						if n, _, ok := c04TimeCall(x); ok && (n == "Add" || n == "AddDate") {
							return walk(x.Call.Args[0], true)
						}
					}
					return false
				}
				if walk(v, false) {
					return "stale"
				}
				res = "unknown"
			}
		}
		return res
	}
	robust, floorEq := false, false
	var floorPos, stalePos token.Pos
	unknown, stale := false, false
	for _, e := range exits {
		cmp, ok := decodeCond(e.ifi.Cond, e.toTop)
		if !ok {
			unknown = true
			continue
		}
		nx, cx, okx := c04TimeCall(cmp.X)
		ny, cy, oky := c04TimeCall(cmp.Y)
		kx, iskx := c04ConstInt(c04Strip(cmp.X))
		ky, isky := c04ConstInt(c04Strip(cmp.Y))
		var instants []ssa.Value
		kind := ""
		switch {
		case okx && oky && nx == ny && cx.Call.Args[0] != cy.Call.Args[0]:
			// same accessor on two different instants
			instants = []ssa.Value{cx.Call.Args[0], cy.Call.Args[0]}
			if c04AccessorUnit[nx] > c04UnitOrder[u] && (cmp.Op == token.NEQ || cmp.Op == token.LSS || cmp.Op == token.GTR) {
				kind = "robust" // the next higher field changed
			} else if nx == acc && (cmp.Op == token.LSS || cmp.Op == token.GTR || cmp.Op == token.LEQ || cmp.Op == token.GEQ) {
				kind = "robust" // the field itself went down: wrapped
			}
		case okx && isky && nx == acc && cmp.Op == token.EQL && ky == floor:
			instants, kind = []ssa.Value{cx.Call.Args[0]}, "floor"
		case oky && iskx && ny == acc && cmp.Op == token.EQL && kx == floor:
			instants, kind = []ssa.Value{cy.Call.Args[0]}, "floor"
		}
		if kind == "" {
			unknown = true
			continue
		}
		switch freshness(e.ifi, e.toTop, instants) {
		case "stale":
			stale = true
			stalePos = c04IfPos(e.ifi)
			continue
		case "unknown":
			unknown = true
			continue
		}
		if kind == "robust" {
			robust = true
		} else {
			floorEq = true
			floorPos = c04IfPos(e.ifi)
		}
	}
	if stale && !robust && !floorEq {
		why := "the instant is adjusted again (Add/AddDate) between the carry test and the next iteration, and the adjusted instant can lie in the next " + map[string]string{"Day": "month", "Hour": "day", "Minute": "hour", "Second": "minute"}[u] + " although the test did not fire"
		if u == "Day" {
			why += ": when local midnight of the 1st does not exist (DST gap at 00:00 on the 1st: America/Asuncion 2017-10-01, America/Havana 2012-04-01) AddDate lands on 23:00 of the last day of the month, t.Day() is not 1, and the DST fix-up then moves t to 01:00 of the 1st without the month being verified again — e.g. 'TZ=America/Asuncion 0 0 12 15 9 *' from 2017-09-20 yields 15 October"
		}
		r.Violation(rule, construct, p.Pos(stalePos), "the carry test of the "+u+" loop is made on a stale instant, not on the one the loop continues with: "+why)
		return
	}
	switch {
	case robust:
		r.OK(rule, construct, p.Pos(c04IfPos(exits[0].ifi)), "carry detected by comparing the instants before and after the step; goes back to the top")
	case floorEq && (u == "Hour" || u == "Minute"):
		why := "local midnight does not exist on days whose DST gap starts at 00:00 (America/Havana every March, America/Sao_Paulo until 2018, Asia/Beirut, Africa/Cairo ...): 23:00 + 1h = 01:00, t.Hour() is never 0, the change of day goes unnoticed and the search goes on matching hours on the NEXT day without verifying day-of-month/day-of-week/month again — e.g. CRON_TZ=America/Havana '0 0 5 9 3 *' from 2024-03-09 06:00 yields 2024-03-10 05:00 (day 10, expression says 9)"
		if u == "Minute" {
			why = "minute 0 does not exist in the hour entered through a 30-minute DST gap (Australia/Lord_Howe: 01:59 + 1m = 02:30): t.Minute() is never 0, the change of hour goes unnoticed and the search goes on matching minutes in the NEXT hour without verifying the hour field again — e.g. CRON_TZ=Australia/Lord_Howe '0 45 1 * * *' from 2023-10-01 01:50 yields 02:45 (hour 2, expression says 1)"
		}
		r.Violation(rule, construct, p.Pos(floorPos), "the carry out of the "+u+" loop is detected only by t."+acc+"() == "+fmt.Sprint(floor)+": "+why)
	case floorEq:
		r.OK(rule, construct, p.Pos(floorPos), fmt.Sprintf("carry detected by t.%s() == %d (this value exists in every %s); goes back to the top", acc, floor, map[string]string{"Day": "month", "Second": "minute"}[u]))
	case unknown:
		r.Undecide("Next %s loop: the condition under which the search goes back to the top is not a recognised carry test", u)
	}
}

// checkLimit: N3.
func (st *c04State) checkLimit(next *ssa.Function, loops map[string]*c04Loop) {
	r, p := st.r, st.p
	rule := "C04.N3-limit"
	construct := "cron.SpecSchedule.Next year limit"
	found := false
	var msg, limitRel string
	var pos token.Pos
	allInstrs(next, func(in ssa.Instruction) {
		ifi, ok := in.(*ssa.If)
		if !ok || found {
			return
		}
		cmp, ok := decodeCond(ifi.Cond, true)
		if !ok {
			return
		}
		// one side: Year() of some instant; other side: Year() + const
		side := func(a, b ssa.Value) (int64, bool) {
			n, _, ok := c04TimeCall(a)
			if !ok || n != "Year" {
				return 0, false
			}
			bo, ok := b.(*ssa.BinOp)
			if !ok || bo.Op != token.ADD {
				return 0, false
			}
			for _, pr := range [][2]ssa.Value{{bo.X, bo.Y}, {bo.Y, bo.X}} {
				if n2, _, ok := c04TimeCall(pr[0]); ok && n2 == "Year" {
					if k, ok := c04ConstInt(pr[1]); ok {
						return k, true
					}
				}
			}
			return 0, false
		}
		k, ok1 := side(cmp.X, cmp.Y)
		op := cmp.Op
		if !ok1 {
			k, ok1 = side(cmp.Y, cmp.X)
			switch op {
			case token.GTR:
				op = token.LSS
			case token.LSS:
				op = token.GTR
			case token.GEQ:
				op = token.LEQ
			case token.LEQ:
				op = token.GEQ
			}
		}
		if !ok1 {
			return
		}
		found = true
		pos = c04IfPos(ifi)
		// the edge on which year > limit holds must return the zero time
		var beyond *ssa.BasicBlock
		switch op {
		case token.GTR, token.GEQ:
			beyond = ifi.Block().Succs[0]
		case token.LEQ, token.LSS:
			beyond = ifi.Block().Succs[1]
		default:
			msg = "the year limit is tested with " + op.String()
			return
		}
		// first calendar year that is given up: `year > start+k` gives up from start+k+1,
		// `year >= start+k` from start+k. Every year up to start+5 can hold an instant
		// less than five years after t, so it must still be examined.
		firstGivenUp := k
		rel := "t.Year() >= start year + " + fmt.Sprint(k)
		if op == token.GTR || op == token.LEQ {
			firstGivenUp = k + 1
			rel = "t.Year() > start year + " + fmt.Sprint(k)
		}
		if firstGivenUp < 6 {
			msg = fmt.Sprintf("the search gives up when %s, i.e. candidates in calendar year start+%d are never examined although they can lie less than five years after t: e.g. '0 0 0 29 Feb ?' from 2099-03-01 must yield 2104-02-29 (2100 is not a leap year), and Next returns the zero time instead", rel, firstGivenUp)
			return
		}
		limitRel = rel
		zero := false
		if n := len(beyond.Instrs); n > 0 {
			if ret, ok := beyond.Instrs[n-1].(*ssa.Return); ok && len(ret.Results) == 1 {
				if kz, ok := ret.Results[0].(*ssa.Const); ok && kz.Value == nil {
					zero = true
				}
			}
		}
		if !zero {
			msg = "beyond the year limit Next does not return the zero time"
			return
		}
		// the test must sit at the top of the search: its block dominates every loop header
		for _, l := range loops {
			if !ifi.Block().Dominates(l.Header) {
				msg = "the year-limit test is not at the top of the search (it does not dominate the " + l.Unit + " loop)"
			}
		}
	})
	if !found {
		other := false
		allInstrs(next, func(in ssa.Instruction) {
			if c, ok := in.(*ssa.Call); ok {
				if n, _, ok := c04TimeCall(c); ok && (n == "After" || n == "Before" || n == "Compare" || n == "Sub" || n == "Equal") {
					other = true
				}
			}
		})
		if other {
			r.Undecide("Next: the five-year bound is not a comparison of t.Year() with start year + constant (instants are compared some other way)")
			return
		}
		r.Violation(rule, construct, p.Pos(next.Pos()), "no comparison of t.Year() with start year + constant found in Next: the search is unbounded (an unsatisfiable schedule such as 30 February never returns) or the bound is not the documented five years")
		return
	}
	r.Check(msg == "", rule, construct, p.Pos(pos), "gives up (returns time.Time{}) only when "+limitRel+", tested at the top of the search: every year up to start+5 is examined", msg)
}

// checkZone: N4.
func (st *c04State) checkZone(next *ssa.Function, loops map[string]*c04Loop) {
	r, p := st.r, st.p
	rule := "C04.N4-zone"
	locField := FieldID{st.spec, "Location"}
	isLocLoad := func(v ssa.Value) bool {
		id, _, ok := fieldOfValue(v)
		if !ok || id != locField {
			return false
		}
		_, isLoad := v.(*ssa.UnOp)
		return isLoad
	}
	// (a) conversion into the schedule's location
	var inCall *ssa.Call
	allInstrs(next, func(in ssa.Instruction) {
		if c, ok := in.(*ssa.Call); ok && callIs(c, "time", "Time", "In") && len(c.Call.Args) == 2 {
			if c04ThroughPhis(c.Call.Args[1], isLocLoad) {
				inCall = c
			}
		}
	})
	if inCall != nil {
		r.OK(rule, "cron.SpecSchedule.Next In(Location)", p.Pos(inCall.Pos()), "t is converted into SpecSchedule.Location")
	} else {
		r.Violation(rule, "cron.SpecSchedule.Next In(Location)", p.Pos(next.Pos()), "Next never converts t into SpecSchedule.Location: the fields are read on the wall clock of t's own zone, so 'CRON_TZ=Asia/Tokyo 0 6 * * ?' fires at 06:00 of the caller's zone")
	}
	// (b) every time.Date in Next is built in a location that comes from SpecSchedule.Location or t.Location()
	nDate := 0
	bad := ""
	var badPos token.Pos
	allInstrs(next, func(in ssa.Instruction) {
		c, ok := in.(*ssa.Call)
		if !ok || !callIs(c, "time", "", "Date") || len(c.Call.Args) != 8 {
			return
		}
		nDate++
		okAll := true
		seen := map[ssa.Value]bool{}
		var walk func(v ssa.Value)
		walk = func(v ssa.Value) {
			if seen[v] {
				return
			}
			seen[v] = true
			switch x := v.(type) {
			case *ssa.Phi:
				for _, e := range x.Edges {
					walk(e)
				}
			case *ssa.Call:
				if n, _, ok := c04TimeCall(x); !ok || n != "Location" {
					okAll = false
				}
			default:
				if !isLocLoad(v) {
					okAll = false
				}
			}
		}
		walk(c.Call.Args[7])
		if !okAll {
			bad = "a time.Date in Next is built in a location that is neither SpecSchedule.Location nor t.Location()"
			badPos = c.Pos()
		}
	})
	if nDate > 0 {
		r.Check(bad == "", rule, "cron.SpecSchedule.Next time.Date location", p.Pos(badPos), fmt.Sprintf("%d time.Date calls use the schedule's location", nDate), bad+": the reset lands on midnight/the hour of another zone and the fields are then read in a different zone than they were set in")
	}
	// (c) the search starts from a whole second derived from t
	month := loops["Month"]
	var top *ssa.BasicBlock
	for _, l := range loops {
		if top == nil || l.Header.Dominates(top) {
			top = l.Header
		}
	}
	_ = month
	construct := "cron.SpecSchedule.Next start instant"
	if top == nil {
		return
	}
	// the loop-carried instant: a phi of type time.Time in a block dominating `top` (or top itself) with an edge from outside
	var start ssa.Value
	for b := top; b != nil && start == nil; b = b.Idom() {
		for _, in := range b.Instrs {
			ph, ok := in.(*ssa.Phi)
			if !ok {
				break
			}
			if !c04IsTimeType(ph.Type()) {
				continue
			}
			for i, e := range ph.Edges {
				if !b.Dominates(b.Preds[i]) { // entry edge
					start = e
				}
			}
		}
	}
	if start == nil {
		r.Undecide("Next: the instant the search starts from could not be identified")
		return
	}
	// walk back through time.Time method calls on the receiver
	aligned := false
	exact := ""     // "" unknown, "ok", or a message saying what is wrong
	var added int64 // constant durations added after a Truncate
	unknown := ""
	seen := map[ssa.Value]bool{}
	var walk func(v ssa.Value)
	walk = func(v ssa.Value) {
		if seen[v] || aligned {
			return
		}
		seen[v] = true
		switch x := v.(type) {
		case *ssa.Phi:
			// only the edges entering from outside the loop the phi heads
			for i, e := range x.Edges {
				if !x.Block().Dominates(x.Block().Preds[i]) {
					walk(e)
				}
			}
		case *ssa.Parameter:
		case *ssa.Call:
			n, _, ok := c04TimeCall(x)
			if !ok {
				unknown = callDesc(x)
				return
			}
			switch n {
			case "Truncate":
				if d, ok := c04ConstInt(x.Call.Args[1]); ok && d > 0 && d%1e9 == 0 {
					aligned = true
					switch {
					case d != 1e9:
						exact = fmt.Sprintf("t is truncated to %dns, coarser than a second", d)
					case added == 1e9:
						exact = "ok"
					case added <= 0:
						exact = "the search starts at t truncated to the second, which is not after t: Next(t) returns t itself when t is a matching whole second"
					default:
						exact = fmt.Sprintf("the search starts %dns after t truncated to the second: the next whole second is skipped", added)
					}
					return
				}
			case "Add":
				recv := x.Call.Args[0]
				lin, okLin := c04Linear(x.Call.Args[1], func(v ssa.Value) (string, bool) {
					if n, c, ok := c04TimeCall(v); ok && n == "Nanosecond" && c.Call.Args[0] == recv {
						return "n", true
					}
					return "", false
				})
				if okLin && lin.coef["n"] == 0 {
					added += lin.k
					walk(recv)
					return
				}
				if okLin {
					aligned = lin.coef["n"] == -1 && lin.k%1e9 == 0
					switch {
					case lin.coef["n"] != -1:
						exact = "the sub-second part of t is not removed exactly"
					case lin.k+added == 1e9:
						exact = "ok"
					case lin.k+added <= 0:
						exact = "the search starts at t truncated to the second, which is not after t: Next(t) returns t itself when t is a matching whole second"
					default:
						exact = fmt.Sprintf("the search starts %dns after t truncated to the second: the next whole second is skipped or the start is not a whole second", lin.k+added)
					}
					if !aligned {
						return
					}
					return
				}
				if c04DependsOnNanosecond(x.Call.Args[1]) {
					aligned = true
					return
				}
			case "In", "UTC", "Local":
			default:
				unknown = "t." + n
				return
			}
			walk(x.Call.Args[0])
		default:
			unknown = fmt.Sprintf("%T", v)
		}
	}
	walk(start)
	switch {
	case exact == "ok":
		r.OK(rule, construct, p.Pos(next.Pos()), "the search starts at t truncated to the second plus one second")
	case exact != "":
		r.Violation(rule, construct, p.Pos(next.Pos()), exact+" (Next must be the earliest whole second strictly after t)")
	case aligned:
		r.Note("Next: the start instant removes t's sub-second part, but that it is exactly the next whole second is not decided (non-linear expression)")
		r.OK(rule, construct, p.Pos(next.Pos()), "the search starts from t with its sub-second part removed")
	case unknown != "":
		r.Undecide("Next: the start instant is computed through %s: alignment to a whole second not decided", unknown)
	default:
		r.Violation(rule, construct, p.Pos(next.Pos()), "the search starts from t without removing its sub-second part (no Truncate to seconds, no Add of a duration computed from t.Nanosecond()): Next returns instants that are not whole seconds, e.g. 10:00:01.5")
	}
}

// c04Lin is k + sum coef[s]*s over named symbols.
type c04Lin struct {
	coef map[string]int64
	k    int64
}

// c04Linear folds v into a linear form over the symbols recognised by sym
// (integer arithmetic, conversions between integer types ignored).
func c04Linear(v ssa.Value, sym func(ssa.Value) (string, bool)) (c04Lin, bool) {
	if name, ok := sym(v); ok {
		return c04Lin{coef: map[string]int64{name: 1}}, true
	}
	if k, ok := c04ConstInt(v); ok {
		return c04Lin{coef: map[string]int64{}, k: k}, true
	}
	switch x := v.(type) {
	case *ssa.Convert:
		if _, _, ok := c04IntOf(x.Type()); ok {
			return c04Linear(x.X, sym)
		}
	case *ssa.ChangeType:
		return c04Linear(x.X, sym)
	case *ssa.UnOp:
		if x.Op == token.SUB {
			a, ok := c04Linear(x.X, sym)
			if !ok {
				return c04Lin{}, false
			}
			out := c04Lin{coef: map[string]int64{}, k: -a.k}
			for s, c := range a.coef {
				out.coef[s] = -c
			}
			return out, true
		}
	case *ssa.BinOp:
		a, ok1 := c04Linear(x.X, sym)
		b, ok2 := c04Linear(x.Y, sym)
		if !ok1 || !ok2 {
			return c04Lin{}, false
		}
		isConst := func(l c04Lin) bool {
			for _, c := range l.coef {
				if c != 0 {
					return false
				}
			}
			return true
		}
		switch x.Op {
		case token.ADD, token.SUB:
			sign := int64(1)
			if x.Op == token.SUB {
				sign = -1
			}
			out := c04Lin{coef: map[string]int64{}, k: a.k + sign*b.k}
			for s, c := range a.coef {
				out.coef[s] += c
			}
			for s, c := range b.coef {
				out.coef[s] += sign * c
			}
			return out, true
		case token.MUL:
			if isConst(b) {
				a, b = b, a
			}
			if !isConst(a) {
				return c04Lin{}, false
			}
			out := c04Lin{coef: map[string]int64{}, k: a.k * b.k}
			for s, c := range b.coef {
				out.coef[s] = a.k * c
			}
			return out, true
		}
	}
	return c04Lin{}, false
}

// c04DependsOnNanosecond: the operand closure of v contains a call of time.Time.Nanosecond.
func c04DependsOnNanosecond(v ssa.Value) bool { return c04DependsOnAccessor(v, "Nanosecond") }

// c04DependsOnAccessor: the operand closure of v (not looking through calls)
// contains a call of one of the named time.Time accessors.
func c04DependsOnAccessor(v ssa.Value, names ...string) bool {
	seen := map[ssa.Value]bool{}
	var walk func(v ssa.Value) bool
	walk = func(v ssa.Value) bool {
		if v == nil || seen[v] {
			return false
		}
		seen[v] = true
		if n, _, ok := c04TimeCall(v); ok {
			for _, want := range names {
				if n == want {
					return true
				}
			}
		}
		in, ok := v.(ssa.Instruction)
		if !ok {
			return false
		}
		if _, isCall := v.(*ssa.Call); isCall {
			return false
		}
		for _, op := range in.Operands(nil) {
			if *op != nil && walk(*op) {
				return true
			}
		}
		return false
	}
	return walk(v)
}
