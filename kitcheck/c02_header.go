package main

// C02: readHeader — a source-read error other than io.EOF observed while
// reading the header must be returned, and the source reader must stay in the
// pushed-back reader chain unless it is known to be exhausted (io.EOF).

import (
	"fmt"
	"go/types"
	"strings"

	"golang.org/x/tools/go/ssa"
)

func c02IsIOReaderPtr(t types.Type) bool {
	pt, ok := t.Underlying().(*types.Pointer)
	return ok && c02IsIOReader(pt.Elem())
}

// c02LoadOf: v is `*param`.
func c02LoadOf(v ssa.Value, param *ssa.Parameter) bool {
	for i := 0; i < 4; i++ {
		switch x := v.(type) {
		case *ssa.ChangeInterface:
			v = x.X
			continue
		case *ssa.MakeInterface:
			v = x.X
			continue
		}
		break
	}
	u, ok := v.(*ssa.UnOp)
	return ok && u.X == ssa.Value(param)
}

// c02IncludesSource: the reader value v still contains the reader that was in
// *param (it is that reader, or an io.MultiReader one of whose arguments is).
func c02IncludesSource(v ssa.Value, param *ssa.Parameter, depth int) bool {
	if depth > 4 {
		return false
	}
	if c02LoadOf(v, param) {
		return true
	}
	switch x := v.(type) {
	case *ssa.Phi:
		for _, e := range x.Edges {
			if !c02IncludesSource(e, param, depth+1) {
				return false
			}
		}
		return len(x.Edges) > 0
	case *ssa.MakeInterface:
		return c02IncludesSource(x.X, param, depth+1)
	case *ssa.ChangeInterface:
		return c02IncludesSource(x.X, param, depth+1)
	case *ssa.Call:
		if !callIs(x, "io", "", "MultiReader") {
			return false
		}
		for _, a := range x.Call.Args {
			sl, ok := a.(*ssa.Slice)
			if !ok {
				continue
			}
			al, ok := sl.X.(*ssa.Alloc)
			if !ok {
				continue
			}
			for _, rr := range refs(al) {
				ia, ok := rr.(*ssa.IndexAddr)
				if !ok {
					continue
				}
				for _, r2 := range refs(ia) {
					if st, ok := r2.(*ssa.Store); ok && st.Addr == ssa.Value(ia) && c02IncludesSource(st.Val, param, depth+1) {
						return true
					}
				}
			}
		}
	}
	return false
}

// c02SrcRoots: the reader parameters of fn: by pointer (*io.Reader) or by value (io.Reader).
func c02SrcRoots(fn *ssa.Function) (ptrs, vals []*ssa.Parameter) {
	for _, pa := range fn.Params {
		switch {
		case c02IsIOReaderPtr(pa.Type()):
			ptrs = append(ptrs, pa)
		case c02IsIOReader(pa.Type()):
			vals = append(vals, pa)
		}
	}
	return
}

// c02ContainsSrc: the reader value v still contains one of the source roots
// of its function: it is the root (a load of the pointer parameter / the value
// parameter), a phi all of whose edges contain it, or a standard wrapper
// (io.MultiReader, io.LimitReader, io.TeeReader, bufio.NewReader…) around it.
func c02ContainsSrc(v ssa.Value, ptrs, vals []*ssa.Parameter, depth int) bool {
	if depth > 5 || v == nil {
		return false
	}
	for _, pa := range ptrs {
		if c02LoadOf(v, pa) {
			return true
		}
	}
	for _, pa := range vals {
		if v == ssa.Value(pa) {
			return true
		}
	}
	switch x := v.(type) {
	case *ssa.Phi:
		n := 0
		for _, e := range x.Edges {
			if e == ssa.Value(x) {
				continue
			}
			n++
			if !c02ContainsSrc(e, ptrs, vals, depth+1) {
				return false
			}
		}
		return n > 0
	case *ssa.MakeInterface:
		return c02ContainsSrc(x.X, ptrs, vals, depth+1)
	case *ssa.ChangeInterface:
		return c02ContainsSrc(x.X, ptrs, vals, depth+1)
	case *ssa.UnOp:
		// load from a local cell (captured or address-taken reader variable)
		if cell, ok := c02LocalCell(v); ok {
			vs, zero := c02Reaching(x, cell)
			if zero || len(vs) == 0 {
				return false
			}
			for _, y := range vs {
				if !c02ContainsSrc(y, ptrs, vals, depth+1) {
					return false
				}
			}
			return true
		}
	case *ssa.Call:
		wrapper := callIs(x, "io", "", "MultiReader") || callIs(x, "io", "", "LimitReader") || callIs(x, "io", "", "TeeReader") ||
			callIs(x, "bufio", "", "NewReader") || callIs(x, "bufio", "", "NewReaderSize") || callIs(x, "io", "", "NopCloser")
		if !wrapper {
			// a same-package function that returns a reader built around the one it was given
			// (e.g. prepend(extra, in) io.Reader): contains the source if its argument does and all its returns contain that parameter
			g := staticCallee(x)
			if g == nil || len(g.Blocks) == 0 || depth > 2 {
				return false
			}
			gp, gv := c02SrcRoots(g)
			if len(gv) == 0 || len(gp) != 0 {
				return false
			}
			argHas := false
			for j, pa := range g.Params {
				for _, v := range gv {
					if v == pa && j < len(x.Call.Args) && c02ContainsSrc(x.Call.Args[j], ptrs, vals, depth+1) {
						argHas = true
					}
				}
			}
			if !argHas {
				return false
			}
			n, all := 0, true
			allInstrs(g, func(in ssa.Instruction) {
				ret, ok := in.(*ssa.Return)
				if !ok || len(ret.Results) == 0 || (len(ret.Block().Preds) == 0 && ret.Block().Index != 0) {
					return
				}
				for i := range ret.Results {
					if !c02IsIOReader(g.Signature.Results().At(i).Type()) {
						continue
					}
					n++
					if !c02ContainsSrc(c02Ret(ret, i), nil, gv, depth+1) {
						all = false
					}
				}
			})
			return n > 0 && all
		}
		for _, a := range x.Call.Args {
			if c02ContainsSrc(a, ptrs, vals, depth+1) {
				return true
			}
			// variadic: look into the argument slice
			sl, ok := a.(*ssa.Slice)
			if !ok {
				continue
			}
			al, ok := sl.X.(*ssa.Alloc)
			if !ok {
				continue
			}
			for _, rr := range refs(al) {
				ia, ok := rr.(*ssa.IndexAddr)
				if !ok {
					continue
				}
				for _, r2 := range refs(ia) {
					if st, ok := r2.(*ssa.Store); ok && st.Addr == ssa.Value(ia) && c02ContainsSrc(st.Val, ptrs, vals, depth+1) {
						return true
					}
				}
			}
		}
	}
	return false
}

// c02SrcSink is a place where a function hands on "the reader to continue
// with": a store through its *io.Reader parameter, or a returned io.Reader.
type c02SrcSink struct {
	in       ssa.Instruction
	keeps    bool // the value still contains the source
	mayNotEO bool // reachable while the source is not known to have returned io.EOF
}

// c02SrcFlowResult is what c02SourceFlow establishes about one function that
// reads from a source reader it was given.
type c02SrcFlowResult struct {
	undecided  string
	discarded  ssa.Instruction // a read whose error result is never extracted
	nReads     int
	nRet       int
	badReturns []string // returns of a nil error with a non-EOF read error pending
	sinks      []c02SrcSink
	helpers    []*c02SrcFlowResult // read helpers it delegates to (already judged)
	errEscapes string              // a same-package function the read error is handed to that is neither a filter nor a predicate
	fn         *ssa.Function
}

// c02SourceFlow: the may-flow "a read error that was not established to be
// nil or io.EOF is pending" over fn, whose source is any of its reader
// parameters. Reads are io.Reader.Read invokes, io.ReadFull/ReadAtLeast, and
// calls to same-package helpers that receive the source and return an error
// last (judged recursively by the same flow).
func c02SourceFlow(p *Prog, fn *ssa.Function, depth int) *c02SrcFlowResult {
	res := &c02SrcFlowResult{fn: fn}
	name := c02Name(p, fn)
	ptrs, vals := c02SrcRoots(fn)
	sig := fn.Signature.Results()
	errT := types.Universe.Lookup("error").Type()
	if len(ptrs)+len(vals) == 0 {
		res.undecided = name + " has no io.Reader / *io.Reader parameter; the source cannot be identified"
		return res
	}
	if sig.Len() == 0 || !types.Identical(sig.At(sig.Len()-1).Type(), errT) {
		res.undecided = name + " reads from the source but does not return an error last; where its read errors go cannot be followed"
		return res
	}
	for _, pa := range ptrs {
		for _, rr := range refs(pa) {
			if _, ok := rr.(*ssa.MakeClosure); ok {
				res.undecided = name + ": the source pointer is captured by a closure; cannot follow"
				return res
			}
		}
	}
	isSrc := func(v ssa.Value) bool { return c02ContainsSrc(v, ptrs, vals, 0) }
	type readEv struct {
		in  ssa.Instruction
		err ssa.Value
	}
	var reads []readEv
	var stores []*ssa.Store
	var helperSinks []c02SrcSink
	allInstrs(fn, func(in ssa.Instruction) {
		if res.undecided != "" {
			return
		}
		switch x := in.(type) {
		case *ssa.Call:
			cc := x.Common()
			switch {
			case cc.IsInvoke() && cc.Method.Name() == "Read" && isSrc(cc.Value):
				reads = append(reads, readEv{x, callResult(x, 1)})
			case (callIs(x, "io", "", "ReadFull") || callIs(x, "io", "", "ReadAtLeast")) && len(cc.Args) > 0 && isSrc(cc.Args[0]):
				reads = append(reads, readEv{x, callResult(x, 1)})
			default:
				passes := false
				for _, a := range cc.Args {
					if isSrc(a) {
						passes = true
					}
					for _, pa := range ptrs {
						if a == ssa.Value(pa) {
							passes = true
						}
					}
				}
				if !passes || isSrc(x) {
					return // not handed on, or a wrapper whose result contains the source
				}
				h := staticCallee(x)
				if h != nil && p.InModule(h) && len(h.Blocks) > 0 && !c02ReadsGivenReaderD(h, 0, nil) {
					// the helper does not read: it may replace the reader (push the over-read bytes back). Its
					// replacements are judged like the function's own, in the state reached at the call.
					hasSink, keeps, why := c02PushBackSummary(p, h, 0)
					if why != "" {
						res.undecided = why
						return
					}
					if hasSink {
						helperSinks = append(helperSinks, c02SrcSink{in: x, keeps: keeps})
					}
					return
				}
				if h != nil && p.InModule(h) && len(h.Blocks) > 0 && depth < 3 {
					c02LabelHelper(p, h, "read helper")
					hr := c02SourceFlow(p, h, depth+1)
					if hr.undecided != "" {
						res.undecided = hr.undecided
						return
					}
					res.helpers = append(res.helpers, hr)
					n := x.Call.Signature().Results().Len()
					reads = append(reads, readEv{x, callResult(x, n-1)})
					return
				}
				res.undecided = fmt.Sprintf("%s hands the source reader to %s; its errors cannot be followed", name, cc.Value.Name())
			}
		case *ssa.Store:
			for _, pa := range ptrs {
				if x.Addr == ssa.Value(pa) {
					stores = append(stores, x)
				}
			}
		}
	})
	if res.undecided != "" {
		return res
	}
	res.nReads = len(reads)
	if len(reads) == 0 {
		res.undecided = name + ": no read from the source reader recognised"
		return res
	}
	var readErrs []ssa.Value
	for _, rd := range reads {
		if rd.err == nil {
			res.discarded = rd.in
			return res
		}
		if !c02StoredOnlyToLocalCells(rd.err) {
			res.undecided = name + " keeps the source error in a memory cell that escapes; the path rules cannot follow it"
			return res
		}
		readErrs = append(readErrs, rd.err)
	}
	filtered, escapes := c02FilteredErrors(p, fn, func(v ssa.Value) bool { return c02XCarriesAny(v, readErrs) })
	res.errEscapes = escapes
	const (
		rdp     = 1 // a read error that is neither nil nor io.EOF may be pending
		badsent = 2 // … and was matched against a sentinel other than io.EOF
		noteof  = 4 // the source is not known to be exhausted (last read error not established to be io.EOF)
		isnil   = 8 // the last read error was found nil on this path
	)
	isRead := map[ssa.Instruction]bool{}
	for _, x := range reads {
		isRead[x.in] = true
	}
	ff := &FlagFlow{Fn: fn, Must: false, Entry: 1 << noteof}
	ff.Transfer = func(in ssa.Instruction, st uint64) uint64 {
		if isRead[in] {
			return mapStates(st, func(s int) int { return rdp | noteof })
		}
		return st
	}
	ff.EdgeTransfer = func(from, to *ssa.BasicBlock, st uint64) uint64 {
		if v, isNil, ok := c02NilTest(from, to); ok && isNil && len(filtered) > 0 && c02XCarriesAny(v, filtered) && !c02XCarriesAny(v, readErrs) {
			// the result of an error-filter helper the read error was handed to is nil: the read error was nil or io.EOF
			return mapStates(st, func(s int) int {
				if s&badsent != 0 {
					return s
				}
				return s &^ rdp
			})
		}
		if v, isNil, ok := c02NilTest(from, to); ok && c02XCarriesAny(v, readErrs) {
			if !isNil {
				// paths on which the error was already found nil cannot take this edge
				var out uint64
				for s := 0; s < 16; s++ {
					if st&(1<<uint(s)) != 0 && s&isnil == 0 {
						out |= 1 << uint(s)
					}
				}
				return out
			}
			return mapStates(st, func(s int) int {
				if s&badsent != 0 {
					return s
				}
				return (s &^ rdp) | isnil
			})
		}
		if v, kind, ok := c02PredTest(p, from, to); ok && c02XCarriesAny(v, readErrs) && c02XPure(v, readErrs) {
			return mapStates(st, func(s int) int {
				if s&badsent != 0 {
					return s
				}
				if kind == 3 {
					return (s &^ rdp) | isnil
				}
				return s &^ rdp
			})
		}
		if v, sent, ok := c02SentinelTest(from, to); ok && c02XCarriesAny(v, readErrs) {
			if sent == "io.EOF" {
				if !c02XPure(v, readErrs) {
					return st
				}
				return mapStates(st, func(s int) int {
					if s&badsent != 0 {
						return s
					}
					return s &^ (rdp | noteof)
				})
			}
			return mapStates(st, func(s int) int {
				if s&rdp != 0 {
					return s | badsent
				}
				return s
			})
		}
		return st
	}
	ff.Run()
	anyState := func(st uint64, bit int) bool {
		for s := 0; s < 16; s++ {
			if st&(1<<uint(s)) != 0 && s&bit != 0 {
				return true
			}
		}
		return false
	}
	ff.AtReturns(func(ret *ssa.Return, st uint64) {
		if len(ret.Results) == 0 {
			return
		}
		res.nRet++
		// returned readers are sinks
		errRes := ret.Results[len(ret.Results)-1]
		errNonNil := true
		if vs, zero := c02Expand(errRes); zero || len(vs) == 0 {
			errNonNil = false
		} else {
			for _, x := range vs {
				if !(c02ErrShapeNonNil(x) || c02CarriesAny(x, readErrs)) {
					errNonNil = false
				}
			}
		}
		for i, rv := range ret.Results {
			if i == len(ret.Results)-1 || !c02IsIOReader(sig.At(i).Type()) || c02XAllNil(rv) || errNonNil {
				continue // an error return: the caller does not go on reading
			}
			if mi, ok := rv.(*ssa.MakeInterface); ok {
				if pt, ok := mi.X.Type().Underlying().(*types.Pointer); ok {
					if n, ok := types.Unalias(pt.Elem()).(*types.Named); ok && n.Obj().Name() == "PipeReader" {
						continue // the output stream, not the source
					}
				}
			}
			res.sinks = append(res.sinks, c02SrcSink{ret, isSrc(rv), anyState(st, noteof)})
		}
		if !anyState(st, rdp) {
			return
		}
		e := ret.Results[len(ret.Results)-1]
		if c02XAllNil(e) {
			res.badReturns = append(res.badReturns, p.Pos(ret.Pos()))
			return
		}
		if phi, ok := e.(*ssa.Phi); ok {
			for i, inc := range phi.Edges {
				if !isNilConst(inc) {
					continue
				}
				pred := phi.Block().Preds[i]
				if o, vis := ff.Out(pred); vis && anyState(ff.EdgeTransfer(pred, phi.Block(), o), rdp) {
					res.badReturns = append(res.badReturns, p.Pos(ret.Pos()))
				}
			}
		}
	})
	for _, st := range stores {
		before, reach := ff.Before(st)
		if !reach {
			continue
		}
		res.sinks = append(res.sinks, c02SrcSink{st, isSrc(st.Val), anyState(before, noteof)})
	}
	for _, hs := range helperSinks {
		before, reach := ff.Before(hs.in)
		if !reach {
			continue
		}
		res.sinks = append(res.sinks, c02SrcSink{hs.in, hs.keeps, anyState(before, noteof)})
	}
	return res
}

// c02ReportSourceFlow turns a flow result into obligations of rule `rule`
// (H1 for header readers, T3 for read helpers of the segment loop); helpers
// are reported under their own names. Returns false if nothing could be decided.
func c02ReportSourceFlow(p *Prog, r *Report, res *c02SrcFlowResult, rule, what string) {
	name := c02Name(p, res.fn)
	for _, h := range res.helpers {
		c02ReportSourceFlow(p, r, h, rule, what)
	}
	if res.undecided != "" {
		r.Undecide("%s", res.undecided)
		return
	}
	construct := name + " source error returned"
	if res.discarded != nil {
		r.Violation(rule, construct, p.Pos(instrPos(res.discarded)),
			"the error result of the read from the source is discarded "+what)
		return
	}
	if len(res.badReturns) > 0 && res.errEscapes != "" {
		r.Undecide("%s: the read error is handed to %s, whose treatment of it cannot be summarised; whether the success return at %s can be reached with a non-EOF error pending cannot be established", construct, res.errEscapes, res.badReturns[0])
		return
	}
	r.Check(len(res.badReturns) == 0 && res.nRet > 0, rule, construct, p.Pos(res.fn.Pos()),
		"every return reached with a non-EOF read error pending returns an error",
		name+" can return success (nil error, at "+strings.Join(c02Uniq(res.badReturns), ", ")+") although a read from the source returned an error that was not established to be io.EOF: an error delivered together with data (a short document handed over in one Read with, say, a checksum or transport failure) is dropped "+what+" and never surfaces — not from Decrypt and, unless the source repeats it, not on the output stream. Only io.EOF may be discarded; any other read error must be returned")
}

func c02CheckReadHeader(p *Prog, r *Report, fn *ssa.Function) {
	name := c02Name(p, fn)
	res := c02SourceFlow(p, fn, 0)
	c02ReportSourceFlow(p, r, res, "C02.H1-header-read-error-returned", "while reading the header")
	if res.undecided != "" || res.discarded != nil {
		return
	}
	// H2: the source stays in the chain
	n := 0
	var sinks []c02SrcSink
	var gather func(q *c02SrcFlowResult)
	gather = func(q *c02SrcFlowResult) {
		sinks = append(sinks, q.sinks...)
		for _, h := range q.helpers {
			gather(h)
		}
	}
	gather(res)
	for _, sk := range sinks {
		n++
		how := "stored back into the source pointer"
		if _, isRet := sk.in.(*ssa.Return); isRet {
			how = "returned as the reader to continue with"
		}
		r.Check(sk.keeps || !sk.mayNotEO, "C02.H2-header-keeps-source", name+" push-back keeps the source", p.Pos(instrPos(sk.in)),
			"the reader "+how+" still contains the source (or the source is known to have returned io.EOF)",
			"the source reader is replaced ("+how+") by a reader that no longer contains it on a path on which its last error was not established to be io.EOF (a nil test or `err != nil` is not enough): the source is never read again, so a pending or later error of the source — and any data after the buffered bytes — is silently dropped and the decrypted stream can end in a clean EOF")
	}
	if n == 0 {
		r.Trivial("C02.H2-header-keeps-source", name+" push-back keeps the source", p.Pos(fn.Pos()), "the source reader is never replaced")
	}
	c02CheckOverread(p, r, fn, name)
	// … and in the read helpers it delegates to (the push-back may live there)
	var visit func(q *c02SrcFlowResult)
	visit = func(q *c02SrcFlowResult) {
		for _, h := range q.helpers {
			c02CheckOverread(p, r, h.fn, c02Name(p, h.fn))
			visit(h)
		}
	}
	visit(res)
}

// c02LocalCell: v is a load from a non-escaping local cell (an Alloc whose
// only uses are stores into it and loads from it), e.g. a named result of a
// function with a defer, which go/ssa keeps in memory.
func c02LocalCell(v ssa.Value) (*ssa.Alloc, bool) {
	u, ok := v.(*ssa.UnOp)
	if !ok {
		return nil, false
	}
	al, ok := u.X.(*ssa.Alloc)
	if !ok {
		return nil, false
	}
	for _, rr := range refs(al) {
		switch x := rr.(type) {
		case *ssa.Store:
			if x.Addr != ssa.Value(al) {
				return nil, false
			}
		case *ssa.UnOp, *ssa.DebugRef:
		default:
			return nil, false
		}
	}
	return al, true
}

// c02Reaching returns the values that may be in the cell at the load ld
// (reaching stores); zero=true if the cell may still hold its zero value.
func c02Reaching(ld *ssa.UnOp, cell *ssa.Alloc) (vals []ssa.Value, zero bool) {
	seen := map[*ssa.BasicBlock]bool{}
	var scan func(b *ssa.BasicBlock, from int)
	scan = func(b *ssa.BasicBlock, from int) {
		for i := from; i >= 0; i-- {
			if st, ok := b.Instrs[i].(*ssa.Store); ok && st.Addr == ssa.Value(cell) {
				vals = append(vals, st.Val)
				return
			}
			if b.Instrs[i] == ssa.Instruction(cell) {
				zero = true
				return
			}
		}
		if len(b.Preds) == 0 {
			zero = true
			return
		}
		for _, pr := range b.Preds {
			if seen[pr] {
				continue
			}
			seen[pr] = true
			scan(pr, len(pr.Instrs)-1)
		}
	}
	scan(ld.Block(), instrIndex(ld)-1)
	return
}

// c02Expand replaces a load from a local cell by the values that may reach it
// (one level of cells, then phis are handled by the carriers).
func c02Expand(v ssa.Value) (vals []ssa.Value, zero bool) {
	if cell, ok := c02LocalCell(v); ok {
		return c02Reaching(v.(*ssa.UnOp), cell)
	}
	return []ssa.Value{v}, false
}

func c02XCarriesAny(v ssa.Value, srcs []ssa.Value) bool {
	vals, _ := c02Expand(v)
	for _, x := range vals {
		if c02CarriesAny(x, srcs) {
			return true
		}
	}
	return false
}

func c02XPure(v ssa.Value, allowed []ssa.Value) bool {
	vals, _ := c02Expand(v)
	for _, x := range vals {
		if !c02PureCarrier(x, allowed) {
			return false
		}
	}
	return true
}

// c02XAllNil: every value that may be in v is the nil constant.
func c02XAllNil(v ssa.Value) bool {
	vals, _ := c02Expand(v)
	for _, x := range vals {
		if !isNilConst(x) {
			return false
		}
	}
	return true
}

// c02StoredOnlyToLocalCells: v is stored only into non-escaping local cells.
func c02StoredOnlyToLocalCells(v ssa.Value) bool {
	for _, rr := range refs(v) {
		st, ok := rr.(*ssa.Store)
		if !ok || st.Val != v {
			continue
		}
		al, isAl := st.Addr.(*ssa.Alloc)
		if !isAl {
			return false
		}
		okCell := true
		for _, r2 := range refs(al) {
			switch x := r2.(type) {
			case *ssa.Store:
				if x.Addr != ssa.Value(al) {
					okCell = false
				}
			case *ssa.UnOp, *ssa.DebugRef:
			default:
				okCell = false
			}
		}
		if !okCell {
			return false
		}
	}
	return true
}

// c02Ret returns the i-th value a Return returns, looking through the result
// cell go/ssa introduces in functions that have a defer (`*cell = x;
// rundefers; t = *cell; return t`): the stored x instead of the load.
func c02Ret(ret *ssa.Return, i int) ssa.Value {
	v := ret.Results[i]
	if cell, ok := c02LocalCell(v); ok {
		vals, zero := c02Reaching(v.(*ssa.UnOp), cell)
		if len(vals) == 1 && !zero {
			return vals[0]
		}
	}
	return v
}

// c02PushBackSummary: what a helper that receives the source (by pointer) but
// does not read from it does to it: hasSink = it stores a reader through the
// pointer; keeps = every reader it stores still contains the source.
func c02PushBackSummary(p *Prog, h *ssa.Function, depth int) (hasSink, keeps bool, why string) {
	ptrs, vals := c02SrcRoots(h)
	keeps = true
	allInstrs(h, func(in ssa.Instruction) {
		if why != "" {
			return
		}
		switch x := in.(type) {
		case *ssa.Store:
			for _, pa := range ptrs {
				if x.Addr == ssa.Value(pa) {
					hasSink = true
					if !c02ContainsSrc(x.Val, ptrs, vals, 0) {
						keeps = false
					}
				}
			}
		case ssa.CallInstruction:
			cc := x.Common()
			for _, a := range cc.Args {
				isPtr := false
				for _, pa := range ptrs {
					if a == ssa.Value(pa) {
						isPtr = true
					}
				}
				if !isPtr {
					continue
				}
				g := staticCallee(x)
				if g == nil || !p.InModule(g) || len(g.Blocks) == 0 || depth >= 2 {
					why = FuncName(p, h) + " hands the source pointer to " + cc.Value.Name() + "; what happens to the source there cannot be followed"
					return
				}
				hs, k, w := c02PushBackSummary(p, g, depth+1)
				if w != "" {
					why = w
					return
				}
				if hs {
					hasSink = true
					if !k {
						keeps = false
					}
				}
			}
		}
	})
	return
}
