package main

// C02: readHeader — a source-read error other than io.EOF observed while
// reading the header must be returned, and the source reader must stay in the
// pushed-back reader chain unless it is known to be exhausted (io.EOF).

import (
	"go/types"
	"strings"

	"golang.org/x/tools/go/ssa"
)

func c02IsIOReaderPtr(t types.Type) bool {
	pt, ok := t.Underlying().(*types.Pointer)
	return ok && c02IsIOReader(pt.Elem())
}

// c02LoadOf: v is `*param`.
func c02LoadOf(v ssa.Value, param *ssa.Parameter) bool {
	for i := 0; i < 4; i++ {
		switch x := v.(type) {
		case *ssa.ChangeInterface:
			v = x.X
			continue
		case *ssa.MakeInterface:
			v = x.X
			continue
		}
		break
	}
	u, ok := v.(*ssa.UnOp)
	return ok && u.X == ssa.Value(param)
}

// c02IncludesSource: the reader value v still contains the reader that was in
// *param (it is that reader, or an io.MultiReader one of whose arguments is).
func c02IncludesSource(v ssa.Value, param *ssa.Parameter, depth int) bool {
	if depth > 4 {
		return false
	}
	if c02LoadOf(v, param) {
		return true
	}
	switch x := v.(type) {
	case *ssa.Phi:
		for _, e := range x.Edges {
			if !c02IncludesSource(e, param, depth+1) {
				return false
			}
		}
		return len(x.Edges) > 0
	case *ssa.MakeInterface:
		return c02IncludesSource(x.X, param, depth+1)
	case *ssa.ChangeInterface:
		return c02IncludesSource(x.X, param, depth+1)
	case *ssa.Call:
		if !callIs(x, "io", "", "MultiReader") {
			return false
		}
		for _, a := range x.Call.Args {
			sl, ok := a.(*ssa.Slice)
			if !ok {
				continue
			}
			al, ok := sl.X.(*ssa.Alloc)
			if !ok {
				continue
			}
			for _, rr := range refs(al) {
				ia, ok := rr.(*ssa.IndexAddr)
				if !ok {
					continue
				}
				for _, r2 := range refs(ia) {
					if st, ok := r2.(*ssa.Store); ok && st.Addr == ssa.Value(ia) && c02IncludesSource(st.Val, param, depth+1) {
						return true
					}
				}
			}
		}
	}
	return false
}

func c02CheckReadHeader(p *Prog, r *Report, fn *ssa.Function) {
	name := FuncName(p, fn)
	var src *ssa.Parameter
	for _, pa := range fn.Params {
		if c02IsIOReaderPtr(pa.Type()) && src == nil {
			src = pa
		}
	}
	res := fn.Signature.Results()
	if src == nil || res.Len() == 0 || !types.Identical(res.At(res.Len()-1).Type(), types.Universe.Lookup("error").Type()) {
		undecided("%s no longer takes the source as *io.Reader and returns an error last; the header rules cannot be applied", name)
	}
	for _, rr := range refs(src) {
		if _, ok := rr.(*ssa.MakeClosure); ok {
			undecided("%s: the source pointer is captured by a closure; cannot follow", name)
		}
	}
	var reads []*ssa.Call
	var readErrs []ssa.Value
	var stores []*ssa.Store
	allInstrs(fn, func(in ssa.Instruction) {
		switch x := in.(type) {
		case *ssa.Call:
			cc := x.Common()
			switch {
			case cc.IsInvoke() && cc.Method.Name() == "Read" && c02LoadOf(cc.Value, src):
				reads = append(reads, x)
			case (callIs(x, "io", "", "ReadFull") || callIs(x, "io", "", "ReadAtLeast")) && len(cc.Args) > 0 && c02LoadOf(cc.Args[0], src):
				reads = append(reads, x)
			default:
				for _, a := range cc.Args {
					if a == ssa.Value(src) || (c02LoadOf(a, src) && !callIs(x, "io", "", "MultiReader")) {
						if c02IncludesSource(x, src, 0) {
							continue
						}
						undecided("%s hands the source reader to %s; its errors cannot be followed", name, cc.Value.Name())
					}
				}
			}
		case *ssa.Store:
			if x.Addr == ssa.Value(src) {
				stores = append(stores, x)
			}
		}
	})
	if len(reads) == 0 {
		undecided("%s: no read from the source reader recognised", name)
	}
	for _, rd := range reads {
		e := callResult(rd, 1)
		if e == nil {
			r.Violation("C02.H1-header-read-error-returned", name+" source error returned", p.Pos(rd.Pos()),
				"the error result of the read from the source is discarded while reading the header")
			return
		}
		if !c02StoredOnlyToLocalCells(e) {
			undecided("%s keeps the source error in a memory cell that escapes; the path rules cannot follow it", name)
		}
		readErrs = append(readErrs, e)
	}
	const (
		rdp     = 1 // a read error that is neither nil nor io.EOF may be pending
		badsent = 2 // … and was matched against a sentinel other than io.EOF
		noteof  = 4 // the source is not known to be exhausted (last read error not established to be io.EOF)
		isnil   = 8 // the last read error was found nil on this path
	)
	isRead := map[ssa.Instruction]bool{}
	for _, x := range reads {
		isRead[x] = true
	}
	ff := &FlagFlow{Fn: fn, Must: false, Entry: 1 << noteof}
	ff.Transfer = func(in ssa.Instruction, st uint64) uint64 {
		if isRead[in] {
			return mapStates(st, func(s int) int { return rdp | noteof })
		}
		return st
	}
	ff.EdgeTransfer = func(from, to *ssa.BasicBlock, st uint64) uint64 {
		if v, isNil, ok := c02NilTest(from, to); ok && c02XCarriesAny(v, readErrs) {
			if !isNil {
				// paths on which the error was already found nil cannot take this edge
				var out uint64
				for s := 0; s < 16; s++ {
					if st&(1<<uint(s)) != 0 && s&isnil == 0 {
						out |= 1 << uint(s)
					}
				}
				return out
			}
			return mapStates(st, func(s int) int {
				if s&badsent != 0 {
					return s
				}
				return (s &^ rdp) | isnil
			})
		}
		if v, sent, ok := c02SentinelTest(from, to); ok && c02XCarriesAny(v, readErrs) {
			if sent == "io.EOF" {
				if !c02XPure(v, readErrs) {
					return st
				}
				return mapStates(st, func(s int) int {
					if s&badsent != 0 {
						return s
					}
					return s &^ (rdp | noteof)
				})
			}
			return mapStates(st, func(s int) int {
				if s&rdp != 0 {
					return s | badsent
				}
				return s
			})
		}
		return st
	}
	ff.Run()
	anyState := func(st uint64, bit int) bool {
		for s := 0; s < 16; s++ {
			if st&(1<<uint(s)) != 0 && s&bit != 0 {
				return true
			}
		}
		return false
	}

	// H1: returns
	var bad []string
	nRet := 0
	ff.AtReturns(func(ret *ssa.Return, st uint64) {
		if len(ret.Results) == 0 {
			return
		}
		nRet++
		if !anyState(st, rdp) {
			return
		}
		e := ret.Results[len(ret.Results)-1]
		if c02XAllNil(e) {
			bad = append(bad, p.Pos(ret.Pos()))
			return
		}
		if phi, ok := e.(*ssa.Phi); ok {
			for i, inc := range phi.Edges {
				if !isNilConst(inc) {
					continue
				}
				pred := phi.Block().Preds[i]
				if o, vis := ff.Out(pred); vis && anyState(ff.EdgeTransfer(pred, phi.Block(), o), rdp) {
					bad = append(bad, p.Pos(ret.Pos()))
				}
			}
		}
	})
	r.Check(len(bad) == 0 && nRet > 0, "C02.H1-header-read-error-returned", name+" source error returned", p.Pos(fn.Pos()),
		"every return reached with a non-EOF read error pending returns an error",
		"the header reader can return success (nil error, at "+strings.Join(c02Uniq(bad), ", ")+") although a read from the source returned an error that was not established to be io.EOF: an error delivered together with the bytes that complete the header (a short document handed over in one Read with, say, a checksum or transport failure) is dropped and never surfaces — not from Decrypt and, unless the source repeats it, not on the output stream. Only io.EOF may be discarded; any other read error must be returned")

	// H2: the source stays in the chain
	n := 0
	for _, st := range stores {
		n++
		keeps := c02IncludesSource(st.Val, src, 0)
		before, reach := ff.Before(st)
		if !reach {
			continue
		}
		r.Check(keeps || !anyState(before, noteof), "C02.H2-header-keeps-source", name+" push-back keeps the source", p.Pos(st.Pos()),
			"the reader stored back into the source pointer still contains the source (or the source is known to have returned io.EOF)",
			"the source reader is replaced by a reader that no longer contains it on a path on which its last error was not established to be io.EOF (a nil test or `err != nil` is not enough): the source is never read again, so a pending or later error of the source — and any data after the buffered bytes — is silently dropped and the decrypted stream can end in a clean EOF")
	}
	if n == 0 {
		r.Trivial("C02.H2-header-keeps-source", name+" push-back keeps the source", p.Pos(fn.Pos()), "the source pointer is never overwritten")
	}
}

// c02LocalCell: v is a load from a non-escaping local cell (an Alloc whose
// only uses are stores into it and loads from it), e.g. a named result of a
// function with a defer, which go/ssa keeps in memory.
func c02LocalCell(v ssa.Value) (*ssa.Alloc, bool) {
	u, ok := v.(*ssa.UnOp)
	if !ok {
		return nil, false
	}
	al, ok := u.X.(*ssa.Alloc)
	if !ok {
		return nil, false
	}
	for _, rr := range refs(al) {
		switch x := rr.(type) {
		case *ssa.Store:
			if x.Addr != ssa.Value(al) {
				return nil, false
			}
		case *ssa.UnOp, *ssa.DebugRef:
		default:
			return nil, false
		}
	}
	return al, true
}

// c02Reaching returns the values that may be in the cell at the load ld
// (reaching stores); zero=true if the cell may still hold its zero value.
func c02Reaching(ld *ssa.UnOp, cell *ssa.Alloc) (vals []ssa.Value, zero bool) {
	seen := map[*ssa.BasicBlock]bool{}
	var scan func(b *ssa.BasicBlock, from int)
	scan = func(b *ssa.BasicBlock, from int) {
		for i := from; i >= 0; i-- {
			if st, ok := b.Instrs[i].(*ssa.Store); ok && st.Addr == ssa.Value(cell) {
				vals = append(vals, st.Val)
				return
			}
			if b.Instrs[i] == ssa.Instruction(cell) {
				zero = true
				return
			}
		}
		if len(b.Preds) == 0 {
			zero = true
			return
		}
		for _, pr := range b.Preds {
			if seen[pr] {
				continue
			}
			seen[pr] = true
			scan(pr, len(pr.Instrs)-1)
		}
	}
	scan(ld.Block(), instrIndex(ld)-1)
	return
}

// c02Expand replaces a load from a local cell by the values that may reach it
// (one level of cells, then phis are handled by the carriers).
func c02Expand(v ssa.Value) (vals []ssa.Value, zero bool) {
	if cell, ok := c02LocalCell(v); ok {
		return c02Reaching(v.(*ssa.UnOp), cell)
	}
	return []ssa.Value{v}, false
}

func c02XCarriesAny(v ssa.Value, srcs []ssa.Value) bool {
	vals, _ := c02Expand(v)
	for _, x := range vals {
		if c02CarriesAny(x, srcs) {
			return true
		}
	}
	return false
}

func c02XPure(v ssa.Value, allowed []ssa.Value) bool {
	vals, _ := c02Expand(v)
	for _, x := range vals {
		if !c02PureCarrier(x, allowed) {
			return false
		}
	}
	return true
}

// c02XAllNil: every value that may be in v is the nil constant.
func c02XAllNil(v ssa.Value) bool {
	vals, _ := c02Expand(v)
	for _, x := range vals {
		if !isNilConst(x) {
			return false
		}
	}
	return true
}

// c02StoredOnlyToLocalCells: v is stored only into non-escaping local cells.
func c02StoredOnlyToLocalCells(v ssa.Value) bool {
	for _, rr := range refs(v) {
		st, ok := rr.(*ssa.Store)
		if !ok || st.Val != v {
			continue
		}
		al, isAl := st.Addr.(*ssa.Alloc)
		if !isAl {
			return false
		}
		okCell := true
		for _, r2 := range refs(al) {
			switch x := r2.(type) {
			case *ssa.Store:
				if x.Addr != ssa.Value(al) {
					okCell = false
				}
			case *ssa.UnOp, *ssa.DebugRef:
			default:
				okCell = false
			}
		}
		if !okCell {
			return false
		}
	}
	return true
}
