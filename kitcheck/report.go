package main

import (
	"encoding/json"
	"fmt"
	"os"
	"path/filepath"
	"sort"
	"strings"
	"time"
)

// Status of one obligation.
const (
	StOK        = "discharged"
	StViolation = "violation"
	StKnown     = "known-finding"
)

// Obligation is one rule instance evaluated on one resolved construct.
type Obligation struct {
	Rule      string   `json:"rule"`
	Construct string   `json:"construct"`
	Pos       string   `json:"position,omitempty"`
	Status    string   `json:"status"`
	Message   string   `json:"message,omitempty"`
	Witness   []string `json:"witness,omitempty"`
	// Nontrivial: the obligation involved at least one guarded access / path
	// / table row / call site (as opposed to an existence check).
	Nontrivial bool `json:"nontrivial"`
}

// Report collects the results for one property.
type Report struct {
	Prop        string
	Tier        string
	Obs         []*Obligation
	Notes       []string
	Undecided   []string
	Rules       map[string]string // rule id -> one-line description
	RuleCount   map[string]int
	Floors      map[string]int
	Stats       map[string]any
	Assumptions []string
	Explanation string
	seen        map[string]bool
}

func NewReport(prop, tier string) *Report {
	return &Report{Prop: prop, Tier: tier, Rules: map[string]string{}, RuleCount: map[string]int{},
		Floors: map[string]int{}, Stats: map[string]any{}, seen: map[string]bool{}}
}

// Rule registers a rule with its description and the floor on the number of
// obligations it must generate (confirmed by hand on the pinned tree).
func (r *Report) Rule(id, desc string, floor int) {
	r.Rules[id] = desc
	r.Floors[id] = floor
}

func (r *Report) add(o *Obligation) {
	key := o.Rule + "|" + o.Construct
	if r.seen[key] {
		// keep the worst status for duplicate keys
		for _, p := range r.Obs {
			if p.Rule == o.Rule && p.Construct == o.Construct {
				if p.Status == StOK && o.Status != StOK {
					*p = *o
				}
				return
			}
		}
	}
	r.seen[key] = true
	r.Obs = append(r.Obs, o)
	r.RuleCount[o.Rule]++
}

// OK records a discharged obligation.
func (r *Report) OK(rule, construct, pos, msg string) {
	r.add(&Obligation{Rule: rule, Construct: construct, Pos: pos, Status: StOK, Message: msg, Nontrivial: true})
}

// Trivial records a discharged existence-type obligation.
func (r *Report) Trivial(rule, construct, pos, msg string) {
	r.add(&Obligation{Rule: rule, Construct: construct, Pos: pos, Status: StOK, Message: msg})
}

// Violation records a decided violation.
func (r *Report) Violation(rule, construct, pos, msg string, witness ...string) {
	r.add(&Obligation{Rule: rule, Construct: construct, Pos: pos, Status: StViolation, Message: msg, Witness: witness, Nontrivial: true})
}

// Check records OK or Violation depending on cond.
func (r *Report) Check(cond bool, rule, construct, pos, okMsg, badMsg string, witness ...string) bool {
	if cond {
		r.OK(rule, construct, pos, okMsg)
	} else {
		r.Violation(rule, construct, pos, badMsg, witness...)
	}
	return cond
}

func (r *Report) Note(format string, args ...any) {
	r.Notes = append(r.Notes, fmt.Sprintf(format, args...))
}

func (r *Report) Undecide(format string, args ...any) {
	r.Undecided = append(r.Undecided, fmt.Sprintf(format, args...))
}

// KnownFinding is an entry of /verif/known_findings.json.
type KnownFinding struct {
	Property  string `json:"property"`
	Rule      string `json:"rule"`
	Construct string `json:"construct"`
	Status    string `json:"status"` // "known" | "fixed"
	Commit    string `json:"commit,omitempty"`
	What      string `json:"what"`
}

func loadKnown(verifDir string) ([]KnownFinding, error) {
	b, err := os.ReadFile(filepath.Join(verifDir, "known_findings.json"))
	if err != nil {
		if os.IsNotExist(err) {
			return nil, nil
		}
		return nil, err
	}
	var k struct {
		Findings []KnownFinding `json:"findings"`
	}
	if err := json.Unmarshal(b, &k); err != nil {
		return nil, err
	}
	return k.Findings, nil
}

// Finish applies floors and known findings, writes evidence/replay files and
// returns the process exit code.
func (r *Report) Finish(verifDir string, start time.Time, extra map[string]any) int {
	for id, floor := range r.Floors {
		if r.RuleCount[id] < floor {
			r.Undecide("rule %s generated %d obligations, below its confirmed floor %d (anchors moved or rule went vacuous)", id, r.RuleCount[id], floor)
		}
	}
	known, err := loadKnown(verifDir)
	if err != nil {
		r.Undecide("known_findings.json unreadable: %v", err)
	}
	var knownMatched []string
	for _, o := range r.Obs {
		if o.Status != StViolation {
			continue
		}
		for _, k := range known {
			if k.Status == "known" && k.Property == r.Prop && k.Rule == o.Rule && k.Construct == o.Construct {
				o.Status = StKnown
				knownMatched = append(knownMatched, fmt.Sprintf("%s %s", o.Rule, o.Construct))
				fmt.Printf("KNOWN-FINDING: property=%s %s %s %s\n", r.Prop, o.Rule, o.Construct, k.What)
				break
			}
		}
	}
	sort.SliceStable(r.Obs, func(i, j int) bool {
		if r.Obs[i].Rule != r.Obs[j].Rule {
			return r.Obs[i].Rule < r.Obs[j].Rule
		}
		return r.Obs[i].Construct < r.Obs[j].Construct
	})

	evDir := filepath.Join(verifDir, "evidence")
	repDir := filepath.Join(evDir, "replay")
	os.MkdirAll(repDir, 0o755)
	// remove stale replay files of this property
	if old, _ := filepath.Glob(filepath.Join(repDir, r.Prop+"-*.json")); old != nil {
		for _, f := range old {
			os.Remove(f)
		}
	}

	nViol, nDis, nNon := 0, 0, 0
	var violLines []string
	for _, o := range r.Obs {
		if o.Nontrivial {
			nNon++
		}
		switch o.Status {
		case StOK, StKnown:
			if o.Status == StOK {
				nDis++
			}
		case StViolation:
			nViol++
			path := filepath.Join(repDir, fmt.Sprintf("%s-%d.json", r.Prop, nViol))
			b, _ := json.MarshalIndent(map[string]any{"property": r.Prop, "rule": o.Rule, "rule_text": r.Rules[o.Rule],
				"construct": o.Construct, "position": o.Pos, "message": o.Message, "witness": o.Witness}, "", " ")
			os.WriteFile(path, b, 0o644)
			rel, _ := filepath.Rel(verifDir, path)
			violLines = append(violLines, fmt.Sprintf("VIOLATION property=%s replay=%s", r.Prop, rel))
			violLines = append(violLines, fmt.Sprintf("  rule=%s construct=%s at %s: %s", o.Rule, o.Construct, o.Pos, o.Message))
			for _, w := range o.Witness {
				violLines = append(violLines, "    witness: "+w)
			}
		}
	}

	// samples: all violations/known + up to 3 per rule of discharged
	var samples []any
	perRule := map[string]int{}
	for _, o := range r.Obs {
		if o.Status != StOK {
			samples = append(samples, o)
			continue
		}
		if perRule[o.Rule] < 3 {
			perRule[o.Rule]++
			samples = append(samples, o)
		}
	}
	ruleList := []string{}
	for id := range r.Rules {
		ruleList = append(ruleList, id)
	}
	sort.Strings(ruleList)
	var rulesOut []map[string]any
	for _, id := range ruleList {
		rulesOut = append(rulesOut, map[string]any{"rule": id, "text": r.Rules[id], "obligations": r.RuleCount[id], "floor": r.Floors[id]})
	}
	cov := map[string]any{
		"explanation":         r.Explanation,
		"obligations":         len(r.Obs),
		"discharged":          nDis,
		"evaluations":         len(r.Obs),
		"distinct_nontrivial": nNon,
		"rule":                "one obligation per (rule, resolved construct); non-trivial = the obligation examined at least one access/path/call site/table row rather than mere existence of an anchor; duplicates are merged by key",
		"samples":             samples,
		"rules":               rulesOut,
		"known_findings":      knownMatched,
		"notes":               r.Notes,
		"undecided":           r.Undecided,
		"exhaustive":          true,
	}
	for k, v := range r.Stats {
		cov[k] = v
	}
	for k, v := range extra {
		cov[k] = v
	}
	if len(samples) == 0 {
		cov["samples"] = []any{"<no obligations generated>"}
	}
	ev := map[string]any{
		"property_id": r.Prop,
		"tier":        r.Tier,
		"seed":        seedFromEnv(),
		"level":       "other",
		"coverage":    cov,
		"assumptions": r.Assumptions,
		"wall_s":      time.Since(start).Seconds(),
		"violations":  nViol,
	}
	b, _ := json.MarshalIndent(ev, "", " ")
	if err := os.WriteFile(filepath.Join(evDir, r.Prop+".json"), b, 0o644); err != nil {
		fmt.Printf("UNDECIDED property=%s reason=cannot write evidence: %v\n", r.Prop, err)
		return 2
	}
	for _, n := range r.Notes {
		fmt.Println("NOTE: " + n)
	}
	if nViol > 0 {
		for _, l := range violLines {
			fmt.Println(l)
		}
		return 1
	}
	if len(r.Undecided) > 0 {
		fmt.Printf("UNDECIDED property=%s reason=%s\n", r.Prop, strings.Join(r.Undecided, " | "))
		return 2
	}
	fmt.Printf("OK property=%s obligations=%d discharged=%d known=%d\n", r.Prop, len(r.Obs), nDis, len(knownMatched))
	return 0
}

func seedFromEnv() int {
	var s int
	fmt.Sscanf(os.Getenv("VERIF_SEED"), "%d", &s)
	return s
}
