package main

// C07.N6 — termination of SpecSchedule.Next (the five-year search bound) and
// of counting loops whose step is a parameter.

import (
	"fmt"
	"go/token"
	"sort"
	"strings"

	"golang.org/x/tools/go/ssa"
)

func c07IsTimeMethod(c *ssa.Call, name string) bool {
	return callIs(c, "time", "Time", name)
}

// c07YearLimitCmp: cond (on the given branch) says Year() > limit or >= limit
// where limit is Year()+const. Returns the constant.
func c07YearLimitCmp(cond ssa.Value, branch bool) (int64, bool) {
	cmp, ok := decodeCond(cond, branch)
	if !ok {
		return 0, false
	}
	x, y, op := cmp.X, cmp.Y, cmp.Op
	isYear := func(v ssa.Value) bool {
		c, ok := v.(*ssa.Call)
		return ok && c07IsTimeMethod(c, "Year")
	}
	limitOf := func(v ssa.Value) (int64, bool) {
		bo, ok := v.(*ssa.BinOp)
		if !ok || bo.Op != token.ADD {
			return 0, false
		}
		if isYear(bo.X) {
			return c07ConstInt(bo.Y)
		}
		if isYear(bo.Y) {
			return c07ConstInt(bo.X)
		}
		return 0, false
	}
	if !isYear(x) {
		x, y, op = y, x, c07swap(op)
	}
	if !isYear(x) {
		return 0, false
	}
	k, ok := limitOf(y)
	if !ok {
		return 0, false
	}
	if op == token.GTR || op == token.GEQ {
		return k, true
	}
	return 0, false
}

func c07EndsInReturn(b *ssa.BasicBlock) bool {
	if len(b.Instrs) == 0 {
		return false
	}
	_, ok := b.Instrs[len(b.Instrs)-1].(*ssa.Return)
	return ok
}

// c07Reach: blocks reachable from start without entering blocks in stop.
func c07Reach(start *ssa.BasicBlock, stop map[*ssa.BasicBlock]bool) map[*ssa.BasicBlock]bool {
	return reachableFrom(start, stop)
}

func (st *c07State) checkN6() {
	p, r := st.p, st.r
	next := p.Func("cron", "SpecSchedule.Next")
	name := FuncName(p, next)
	specKey := p.ModPath + "/cron.SpecSchedule"

	// limit tests
	limit := map[*ssa.BasicBlock]bool{}
	var limitIf *ssa.If
	wrongPolarity := false
	for _, b := range next.Blocks {
		if len(b.Instrs) == 0 {
			continue
		}
		ifi, ok := b.Instrs[len(b.Instrs)-1].(*ssa.If)
		if !ok || len(b.Succs) != 2 {
			continue
		}
		for i, br := range []bool{true, false} {
			if _, ok := c07YearLimitCmp(ifi.Cond, br); ok {
				if c07EndsInReturn(b.Succs[i]) {
					limit[b] = true
					limitIf = ifi
				} else if c07EndsInReturn(b.Succs[1-i]) {
					wrongPolarity = true
					limitIf = ifi
				}
			}
		}
	}
	limConstruct := name + " year-limit test"
	switch {
	case len(limit) > 0:
		r.OK(c07N6, limConstruct, p.Pos(c04IfPos(limitIf)), "the search gives up (returns) once t.Year() exceeds the start year plus a constant")
	case wrongPolarity:
		r.Violation(c07N6, limConstruct, p.Pos(c04IfPos(limitIf)), "the year-limit comparison is inverted: Next returns while the year is within the limit and keeps searching beyond it, so a schedule that never matches (e.g. February 31st) makes Next run forever")
	default:
		r.Violation(c07N6, limConstruct, p.Pos(next.Pos()), "SpecSchedule.Next has no test `t.Year() > start year + constant => return`: a schedule that never matches (e.g. day 31 of February) makes Next loop forever")
	}

	// advancing blocks
	adv := map[*ssa.BasicBlock]bool{}
	for _, b := range next.Blocks {
		for _, in := range b.Instrs {
			c, ok := in.(*ssa.Call)
			if !ok || len(refs(c)) == 0 {
				continue
			}
			if c07IsTimeMethod(c, "Add") && len(c.Call.Args) == 2 {
				if k, ok := c07ConstInt(c.Call.Args[1]); ok && k > 0 {
					adv[b] = true
				}
			}
			if c07IsTimeMethod(c, "AddDate") && len(c.Call.Args) == 4 {
				sum, all := int64(0), true
				for _, a := range c.Call.Args[1:] {
					k, ok := c07ConstInt(a)
					if !ok || k < 0 {
						all = false
					}
					sum += k
				}
				if all && sum > 0 {
					adv[b] = true
				}
			}
		}
	}

	// field-match tests
	type matchIf struct {
		b     *ssa.BasicBlock
		label string
	}
	var matches []matchIf
	isMatch := map[*ssa.BasicBlock]bool{}
	for _, b := range next.Blocks {
		if len(b.Instrs) == 0 || limit[b] {
			continue
		}
		ifi, ok := b.Instrs[len(b.Instrs)-1].(*ssa.If)
		if !ok || len(b.Succs) != 2 {
			continue
		}
		if lbl := st.specDependence(ifi.Cond, specKey, 8); lbl != "" {
			matches = append(matches, matchIf{b, lbl})
			isMatch[b] = true
		}
	}
	if len(matches) == 0 {
		r.Undecide("C07.N6: no field-match test found in %s (search loops unrecognisable)", name)
		return
	}
	labelSeen := map[string]int{}
	for _, m := range matches {
		labelSeen[m.label]++
		label := m.label
		if labelSeen[m.label] > 1 {
			label = fmt.Sprintf("%s#%d", m.label, labelSeen[m.label])
		}
		ifi := m.b.Instrs[len(m.b.Instrs)-1].(*ssa.If)
		pos := p.Pos(c04IfPos(ifi))
		// stay successor: reaches an advancing block without passing another match test, the limit test or m itself
		stop := map[*ssa.BasicBlock]bool{m.b: true}
		for b := range isMatch {
			stop[b] = true
		}
		for b := range limit {
			stop[b] = true
		}
		reachesAdv := func(s *ssa.BasicBlock) bool {
			if stop[s] {
				return false
			}
			for b := range c07Reach(s, stop) {
				if adv[b] {
					return true
				}
			}
			return false
		}
		s0, s1 := reachesAdv(m.b.Succs[0]), reachesAdv(m.b.Succs[1])
		var stay, exit *ssa.BasicBlock
		switch {
		case s0 && !s1:
			stay, exit = m.b.Succs[0], m.b.Succs[1]
		case s1 && !s0:
			stay, exit = m.b.Succs[1], m.b.Succs[0]
		case !s0 && !s1:
			// no successor advances t: if the test can repeat without passing the limit test, it spins
			back := false
			for _, s := range m.b.Succs {
				if c07Reach(s, limit)[m.b] {
					back = true
				}
			}
			if back {
				r.Violation(c07N6, name+" search loop on "+label+" advances", pos,
					"the loop that searches for a matching "+label+" does not advance t by a positive constant (Add/AddDate whose result is used) before testing again: with a non-matching t it repeats forever")
			} else {
				r.Trivial(c07N6, name+" search loop on "+label+" advances", pos, "test is not in a cycle")
			}
			continue
		default:
			st.unclassified(c07N6, name+" search loop on "+label, "both branches of the match test advance t; loop shape not recognised")
			r.Trivial(c07N6, name+" search loop on "+label+" advances", pos, "unclassified loop shape")
			continue
		}
		// (b) after leaving the loop by a match, control cannot come back to it without the limit test
		reExit := c07Reach(exit, limit)
		r.Check(!reExit[m.b] || exit == m.b, c07N6, name+" search loop on "+label+" re-entry passes the limit test", pos,
			"once this field matches, the search can only come back to it through the year-limit test",
			"after this field matches, a later field can wrap around and jump back to this loop without passing the `t.Year() > limit` test: for a schedule that never matches, Next advances t forever and never returns")
		// (c) every iteration advances: without the advancing blocks the stay successor cannot come back
		stop2 := map[*ssa.BasicBlock]bool{}
		for b := range limit {
			stop2[b] = true
		}
		for b := range adv {
			stop2[b] = true
		}
		spins := !stop2[stay] && c07Reach(stay, stop2)[m.b]
		r.Check(!spins, c07N6, name+" search loop on "+label+" advances", pos,
			"every iteration of the search loop advances t by a positive constant",
			"there is a way around the search loop on "+label+" that neither advances t by a positive constant nor passes the year-limit test: Next can spin forever on a non-matching t")
	}
	st.checkLoopSteps()
}

// specDependence: the condition depends on a field of *SpecSchedule (returns
// the field name) or on a module call that receives the schedule (callee name).
func (st *c07State) specDependence(v ssa.Value, specKey string, depth int) string {
	found := map[string]bool{}
	seen := map[ssa.Value]bool{}
	var walk func(v ssa.Value, d int)
	walk = func(v ssa.Value, d int) {
		if v == nil || d <= 0 || seen[v] {
			return
		}
		seen[v] = true
		switch x := v.(type) {
		case *ssa.FieldAddr:
			if namedKey(x.X.Type()) == specKey {
				found[fieldIDOfAddr(x).Field] = true
			}
			return
		case *ssa.Field:
			if namedKey(x.X.Type()) == specKey {
				found[fieldIDOfField(x).Field] = true
			}
			return
		case *ssa.Phi:
			return
		case *ssa.Call:
			if fn := staticCallee(x); fn != nil && st.p.InModule(fn) {
				for _, a := range x.Call.Args {
					if namedKey(a.Type()) == specKey {
						found[fn.Name()] = true
					}
				}
			}
		}
		if in, ok := v.(ssa.Instruction); ok {
			for _, op := range in.Operands(nil) {
				if op != nil && *op != nil {
					walk(*op, d-1)
				}
			}
		}
	}
	walk(v, depth)
	delete(found, "Location")
	if len(found) == 0 {
		return ""
	}
	var names []string
	for n := range found {
		names = append(names, n)
	}
	sort.Strings(names)
	return strings.Join(names, "+")
}

// checkLoopSteps: a counting loop `for i := a; i <= b; i += step` whose step is
// a parameter needs step >= 1 at every call (else it never terminates).
func (st *c07State) checkLoopSteps() {
	p, r := st.p, st.r
	for _, fn := range st.sc.List {
		name := FuncName(p, fn)
		allInstrs(fn, func(in ssa.Instruction) {
			phi, ok := in.(*ssa.Phi)
			if !ok || !c07isInteger(phi.Type()) {
				return
			}
			for i, ed := range phi.Edges {
				bo, ok := ed.(*ssa.BinOp)
				if !ok || bo.Op != token.ADD {
					continue
				}
				var step ssa.Value
				if bo.X == ssa.Value(phi) {
					step = bo.Y
				} else if bo.Y == ssa.Value(phi) {
					step = bo.X
				}
				par, isPar := step.(*ssa.Parameter)
				if step == nil || !isPar {
					continue
				}
				// the loop must be controlled by a comparison of the phi
				pred := phi.Block().Preds[i]
				if !phi.Block().Dominates(pred) {
					continue
				}
				controlled := false
				for _, ref := range refs(phi) {
					if b, ok := ref.(*ssa.BinOp); ok {
						switch b.Op {
						case token.LSS, token.LEQ, token.GTR, token.GEQ, token.NEQ:
							controlled = true
						}
					}
				}
				if !controlled {
					continue
				}
				construct := fmt.Sprintf("%s loop step %s", name, par.Name())
				b := st.eng.intAt(step, phi.Block())
				pos := p.Pos(instrPos(bo))
				switch {
				case b.Lo >= 1:
					r.OK(c07N6, construct, pos, fmt.Sprintf("step >= %d at every call (%s)", b.Lo, b.Why))
				case b.Exact:
					r.Violation(c07N6, construct, pos,
						fmt.Sprintf("the loop counter is advanced by parameter %s, which may be %s (%s): with a step of 0 the loop never terminates", par.Name(), c07LoStr(b.Lo), b.Why))
				default:
					r.Trivial(c07N6, construct, pos, "unclassified: "+b.Why)
					st.unclassified(c07N6, construct, "step not provably >= 1: "+b.Why)
				}
			}
		})
	}
}
