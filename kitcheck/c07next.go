package main

// C07.N6 — termination of SpecSchedule.Next (the five-year search bound) and
// of counting loops whose step is a parameter.

import (
	"fmt"
	"go/token"
	"go/types"
	"sort"
	"strings"

	"golang.org/x/tools/go/ssa"
)

func c07IsTimeMethod(c *ssa.Call, name string) bool {
	return callIs(c, "time", "Time", name)
}

// c07YearLimitCmp: cond (on the given branch) says Year() > limit or >= limit
// where limit is Year()+const. Returns the constant.
func c07YearLimitCmp(cond ssa.Value, branch bool) (int64, bool) {
	cmp, ok := decodeCond(cond, branch)
	if !ok {
		return 0, false
	}
	x, y, op := c07Settle(cmp.X), c07Settle(cmp.Y), cmp.Op
	isYear := func(v ssa.Value) bool {
		c, ok := c07Settle(v).(*ssa.Call)
		return ok && c07IsTimeMethod(c, "Year")
	}
	limitOf := func(v ssa.Value) (int64, bool) {
		// t.AddDate(k, 0, 0).Year()
		if c, ok := v.(*ssa.Call); ok && c07IsTimeMethod(c, "Year") && len(c.Call.Args) == 1 {
			if ad, ok := c07Settle(c.Call.Args[0]).(*ssa.Call); ok && c07IsTimeMethod(ad, "AddDate") && len(ad.Call.Args) == 4 {
				k, ok1 := c07ConstInt(ad.Call.Args[1])
				m, ok2 := c07ConstInt(ad.Call.Args[2])
				d, ok3 := c07ConstInt(ad.Call.Args[3])
				if ok1 && ok2 && ok3 && m == 0 && d == 0 && k > 0 {
					return k, true
				}
			}
		}
		bo, ok := v.(*ssa.BinOp)
		if !ok || bo.Op != token.ADD {
			return 0, false
		}
		if isYear(bo.X) {
			return c07ConstInt(bo.Y)
		}
		if isYear(bo.Y) {
			return c07ConstInt(bo.X)
		}
		return 0, false
	}
	if !isYear(x) {
		x, y, op = y, x, c07swap(op)
	}
	if !isYear(x) {
		return 0, false
	}
	k, ok := limitOf(y)
	if !ok {
		return 0, false
	}
	if op == token.GTR || op == token.GEQ {
		return k, true
	}
	return 0, false
}

// c07Settle looks through value-preserving wrappers: loads of local cells
// written once (a limit kept in a local struct or captured variable), integer
// conversions, type changes.
func c07Settle(v ssa.Value) ssa.Value {
	for i := 0; i < 6; i++ {
		switch x := v.(type) {
		case *ssa.UnOp:
			if x.Op == token.MUL {
				if val, _ := c07CellValue(x); val != nil {
					v = val
					continue
				}
			}
		case *ssa.ChangeType:
			v = x.X
			continue
		case *ssa.Convert:
			if c07isInteger(x.Type()) && c07isInteger(x.X.Type()) {
				v = x.X
				continue
			}
		}
		break
	}
	return v
}

// c07TimeDependent: v is computed from a time.Time accessor / arithmetic call.
func c07TimeDependent(v ssa.Value, depth int) bool {
	if v == nil || depth <= 0 {
		return false
	}
	v = c07Settle(v)
	if c, ok := v.(*ssa.Call); ok {
		if obj := calleeObj(c); obj != nil && obj.Pkg() != nil && obj.Pkg().Path() == "time" {
			if sig := obj.Type().(*types.Signature); sig.Recv() != nil && typeBaseName(sig.Recv().Type()) == "Time" {
				return true
			}
		}
	}
	if _, isPhi := v.(*ssa.Phi); isPhi {
		return false
	}
	if in, ok := v.(ssa.Instruction); ok {
		for _, op := range in.Operands(nil) {
			if op != nil && *op != nil && c07TimeDependent(*op, depth-1) {
				return true
			}
		}
	}
	return false
}

func c07EndsInReturn(b *ssa.BasicBlock) bool {
	if len(b.Instrs) == 0 {
		return false
	}
	_, ok := b.Instrs[len(b.Instrs)-1].(*ssa.Return)
	return ok
}

// c07Reach: blocks reachable from start without entering blocks in stop.
func c07Reach(start *ssa.BasicBlock, stop map[*ssa.BasicBlock]bool) map[*ssa.BasicBlock]bool {
	return reachableFrom(start, stop)
}

// c07N6Info is what N6 knows about one function on the search path.
type c07N6Info struct {
	fn      *ssa.Function
	limit   map[*ssa.BasicBlock]bool
	limitIf *ssa.If
	exact   bool // limit recognised in the exact `Year() > Year()+k` form
	wrong   bool // ... with inverted polarity
	adv     map[*ssa.BasicBlock]bool
	matches []c07N6Match
	calls   map[*ssa.BasicBlock][]*ssa.Function // module callees per block
}

type c07N6Match struct {
	b     *ssa.BasicBlock
	label string
}

func c07PositiveAdvance(c *ssa.Call) bool {
	if len(refs(c)) == 0 {
		return false
	}
	if c07IsTimeMethod(c, "Add") && len(c.Call.Args) == 2 {
		if k, ok := c07ConstInt(c.Call.Args[1]); ok && k > 0 {
			return true
		}
	}
	if c07IsTimeMethod(c, "AddDate") && len(c.Call.Args) == 4 {
		sum, all := int64(0), true
		for _, a := range c.Call.Args[1:] {
			k, ok := c07ConstInt(a)
			if !ok || k < 0 {
				all = false
			}
			sum += k
		}
		return all && sum > 0
	}
	return false
}

func (st *c07State) checkN6() {
	p, r := st.p, st.r
	next := p.Func("cron", "SpecSchedule.Next")
	name := FuncName(p, next)
	specKey := p.ModPath + "/cron.SpecSchedule"
	fv := st.eng.fv

	// functions on the search path: Next and the module functions it reaches
	var order []*ssa.Function
	seen := map[*ssa.Function]bool{}
	var visit func(f *ssa.Function, d int)
	visit = func(f *ssa.Function, d int) {
		f = origin(f)
		if f == nil || seen[f] || d > 5 || f.Blocks == nil || !p.InModule(f) {
			return
		}
		seen[f] = true
		order = append(order, f)
		allInstrs(f, func(in ssa.Instruction) {
			if ci, ok := in.(ssa.CallInstruction); ok {
				for _, t := range fv.callTargets(ci) {
					visit(t.Fn, d+1)
				}
			}
		})
	}
	visit(next, 0)

	// may-advance summary: the function contains a used positive-constant Add/AddDate (transitively)
	mayAdv := map[*ssa.Function]bool{}
	for changed := true; changed; {
		changed = false
		for _, f := range order {
			if mayAdv[f] {
				continue
			}
			allInstrs(f, func(in ssa.Instruction) {
				if c, ok := in.(*ssa.Call); ok {
					if c07PositiveAdvance(c) {
						mayAdv[f] = true
					}
					for _, t := range fv.callTargets(c) {
						if mayAdv[origin(t.Fn)] {
							mayAdv[f] = true
						}
					}
				}
			})
			if mayAdv[f] {
				changed = true
			}
		}
	}

	infos := map[*ssa.Function]*c07N6Info{}
	for _, f := range order {
		inf := &c07N6Info{fn: f, limit: map[*ssa.BasicBlock]bool{}, adv: map[*ssa.BasicBlock]bool{}, calls: map[*ssa.BasicBlock][]*ssa.Function{}}
		infos[f] = inf
		for _, b := range f.Blocks {
			for _, in := range b.Instrs {
				c, ok := in.(*ssa.Call)
				if !ok {
					continue
				}
				if c07PositiveAdvance(c) {
					inf.adv[b] = true
				}
				for _, t := range fv.callTargets(c) {
					g := origin(t.Fn)
					inf.calls[b] = append(inf.calls[b], g)
					if mayAdv[g] && len(refs(c)) > 0 {
						inf.adv[b] = true
					}
				}
			}
			if len(b.Instrs) == 0 || len(b.Succs) != 2 {
				continue
			}
			ifi, ok := b.Instrs[len(b.Instrs)-1].(*ssa.If)
			if !ok {
				continue
			}
			for i, br := range []bool{true, false} {
				if _, ok := c07YearLimitCmp(ifi.Cond, br); ok {
					if c07EndsInReturn(b.Succs[i]) {
						inf.limit[b], inf.limitIf, inf.exact = true, ifi, true
					} else if c07EndsInReturn(b.Succs[1-i]) {
						inf.wrong, inf.limitIf = true, ifi
					}
				}
			}
		}
		if len(inf.limit) == 0 && !inf.wrong {
			// a give-up test in a form the engine does not evaluate: a returning
			// branch, inside a cycle, on a time-derived condition that does not
			// look at the schedule (t.After(deadline), a helper pastLimit(t, y), ...)
			for _, b := range f.Blocks {
				if len(b.Instrs) == 0 || len(b.Succs) != 2 {
					continue
				}
				ifi, ok := b.Instrs[len(b.Instrs)-1].(*ssa.If)
				if !ok || !(c07EndsInReturn(b.Succs[0]) || c07EndsInReturn(b.Succs[1])) {
					continue
				}
				if st.specDependence(ifi.Cond, specKey, 8) != "" {
					continue
				}
				if st.timeDependent(ifi.Cond, 6) && c07InCycle(b) && st.invariantBound(ifi.Cond, f, f != next) {
					inf.limit[b], inf.limitIf = true, ifi
				}
			}
		}
		for _, b := range f.Blocks {
			if len(b.Instrs) == 0 || inf.limit[b] || len(b.Succs) != 2 {
				continue
			}
			ifi, ok := b.Instrs[len(b.Instrs)-1].(*ssa.If)
			if !ok {
				continue
			}
			if lbl := st.specDependence(ifi.Cond, specKey, 8); lbl != "" {
				inf.matches = append(inf.matches, c07N6Match{b, lbl})
			}
		}
	}

	// containsSearch: the function has a match test (transitively)
	contains := map[*ssa.Function]bool{}
	for changed := true; changed; {
		changed = false
		for _, f := range order {
			if contains[f] {
				continue
			}
			for _, m := range infos[f].matches {
				if c07InCycle(m.b) {
					contains[f] = true // a search loop, not a mere predicate on the schedule
				}
			}
			for _, gs := range infos[f].calls {
				for _, g := range gs {
					if contains[g] {
						contains[f] = true
					}
				}
			}
			if contains[f] {
				changed = true
			}
		}
	}

	// the limit test: looked for in the functions that drive the search (Next
	// first, then any function on the path that cycles over search calls)
	top := infos[next]
	limConstruct := name + " year-limit test"
	anyLimit := false
	for _, f := range order {
		inf := infos[f]
		if len(inf.limit) == 0 && !inf.wrong {
			continue
		}
		anyLimit = true
		switch {
		case inf.wrong && len(inf.limit) == 0:
			r.Violation(c07N6, limConstruct, p.Pos(c04IfPos(inf.limitIf)), "the year-limit comparison is inverted: Next returns while the year is within the limit and keeps searching beyond it, so a schedule that never matches (e.g. February 31st) makes Next run forever")
		case inf.exact:
			r.OK(c07N6, limConstruct, p.Pos(c04IfPos(inf.limitIf)), "the search gives up (returns) once t.Year() exceeds the start year plus a constant")
		default:
			r.OK(c07N6, limConstruct, p.Pos(c04IfPos(inf.limitIf)), "the search has a give-up test on the time reached (form not evaluated here; C04.N3 decides its value)")
			r.Note("C07.N6: the search bound of %s is written in a form whose polarity the engine does not evaluate", name)
		}
	}
	if !anyLimit {
		r.Violation(c07N6, limConstruct, p.Pos(next.Pos()), "SpecSchedule.Next has no test on the time reached (`t.Year() > start year + constant => return` or an equivalent) inside its search cycle: a schedule that never matches (e.g. day 31 of February) makes Next loop forever")
	}
	_ = top

	nMatch := 0
	covered := map[string]bool{}
	labelSeen := map[string]int{}
	for _, f := range order {
		inf := infos[f]
		limit, adv := inf.limit, inf.adv
		isMatch := map[*ssa.BasicBlock]bool{}
		for _, m := range inf.matches {
			isMatch[m.b] = true
		}
		for _, m := range inf.matches {
			if !c07InCycle(m.b) {
				continue // a predicate on the schedule; its loop (if any) is in a caller
			}
			nMatch++
			for _, fld := range strings.Split(m.label, "+") {
				covered[fld] = true
			}
			labelSeen[m.label]++
			label := m.label
			if labelSeen[m.label] > 1 {
				label = fmt.Sprintf("%s#%d", m.label, labelSeen[m.label])
			}
			ifi := m.b.Instrs[len(m.b.Instrs)-1].(*ssa.If)
			pos := p.Pos(c04IfPos(ifi))
			cAdv := name + " search loop on " + label + " advances"
			cRe := name + " search loop on " + label + " re-entry passes the limit test"
			stop := map[*ssa.BasicBlock]bool{m.b: true}
			for b := range isMatch {
				stop[b] = true
			}
			for b := range limit {
				stop[b] = true
			}
			reachesAdv := func(s *ssa.BasicBlock) bool {
				if stop[s] {
					return false
				}
				for b := range c07Reach(s, stop) {
					if adv[b] {
						return true
					}
				}
				return false
			}
			s0, s1 := reachesAdv(m.b.Succs[0]), reachesAdv(m.b.Succs[1])
			var stay, exit *ssa.BasicBlock
			switch {
			case s0 && !s1:
				stay, exit = m.b.Succs[0], m.b.Succs[1]
			case s1 && !s0:
				stay, exit = m.b.Succs[1], m.b.Succs[0]
			case !s0 && !s1:
				back0 := c07Reach(m.b.Succs[0], limit)[m.b]
				back1 := c07Reach(m.b.Succs[1], limit)[m.b]
				switch {
				case adv[m.b]:
					// the test block itself advances (a step helper that reports a
					// match/wrap): some branch must leave towards the limit test or a return
					r.OK(c07N6, cAdv, pos, "the step that is tested advances t")
					r.Check(!(back0 && back1), c07N6, cRe, pos,
						"one branch of the test leads to the year-limit test or out of the search",
						"whatever this test says, control comes back to it without passing the year-limit test: for a schedule that never matches, Next advances t forever and never returns")
				case back0 || back1:
					r.Violation(c07N6, cAdv, pos,
						"the loop that searches for a matching "+label+" does not advance t by a positive constant (Add/AddDate whose result is used) before testing again: with a non-matching t it repeats forever")
					r.Trivial(c07N6, cRe, pos, "-")
				default:
					r.Trivial(c07N6, cAdv, pos, "test is not in a cycle that avoids the limit test")
					r.Trivial(c07N6, cRe, pos, "test is not in a cycle that avoids the limit test")
				}
				continue
			default:
				st.unclassified(c07N6, name+" search loop on "+label, "both branches of the match test advance t; loop shape not recognised")
				r.Trivial(c07N6, cAdv, pos, "unclassified loop shape")
				r.Trivial(c07N6, cRe, pos, "unclassified loop shape")
				continue
			}
			st.checkStepLoop(f, m.b, limit, name+" search loop on "+label+": calendar day step has a progress guard", "the loop of "+FuncName(p, f)+" that searches for a matching "+label, pos)
			reExit := c07Reach(exit, limit)
			r.Check(!reExit[m.b] || exit == m.b, c07N6, cRe, pos,
				"once this field matches, the search can only come back to it through the year-limit test",
				"after this field matches, a later field can wrap around and jump back to this loop without passing the `t.Year() > limit` test: for a schedule that never matches, Next advances t forever and never returns")
			stop2 := map[*ssa.BasicBlock]bool{}
			for b := range limit {
				stop2[b] = true
			}
			for b := range adv {
				stop2[b] = true
			}
			spins := !stop2[stay] && c07Reach(stay, stop2)[m.b]
			r.Check(!spins, c07N6, cAdv, pos,
				"every iteration of the search loop advances t by a positive constant",
				"there is a way around the search loop on "+label+" that neither advances t by a positive constant nor passes the year-limit test: Next can spin forever on a non-matching t")
		}
		// search calls: a block that calls a function containing a search loop must
		// not lie on a cycle that avoids the limit test
		for b, gs := range inf.calls {
			var g *ssa.Function
			for _, c := range gs {
				if contains[c] && c != f {
					g = c
				}
			}
			if g == nil || !c07InCycle(b) {
				continue
			}
			back := false
			for _, s := range b.Succs {
				if limit[s] {
					continue
				}
				if c07Reach(s, limit)[b] {
					back = true
				}
			}
			lbl := st.fieldsRead(g, specKey, 0)
			r.Check(!back, c07N6, name+" search call on "+lbl+" re-entry passes the limit test", p.Pos(instrPos(b.Instrs[0])),
				"the search step can only be repeated through the year-limit test",
				"the call that searches for a matching "+lbl+" lies on a cycle of "+FuncName(p, f)+" that does not pass the year-limit test: for a schedule that never matches, Next advances t forever and never returns")
		}
	}
	if nMatch == 0 {
		r.Undecide("C07.N6: no field-match test found in %s or the functions it calls (search loops unrecognisable)", name)
		return
	}
	// every bit-set field of SpecSchedule must have been seen in some match test
	if named := p.Named("cron", "SpecSchedule"); named != nil {
		if stt, ok := named.Underlying().(*types.Struct); ok {
			for i := 0; i < stt.NumFields(); i++ {
				fld := stt.Field(i)
				if b, ok := fld.Type().Underlying().(*types.Basic); ok && b.Kind() == types.Uint64 && !covered[fld.Name()] {
					r.Undecide("C07.N6: no search loop testing SpecSchedule.%s was recognised on the path of %s", fld.Name(), name)
				}
			}
		}
	}
	st.checkLoopSteps()
}

// invariantBound: the condition compares against a value fixed before the
// search started: a time-derived value computed outside every cycle of the
// function (yearLimit := t.Year()+5, deadline := t.AddDate(5,0,0)) or, in a
// helper, an int/time.Time parameter. This is what tells a give-up test from a
// wrap-around test (which only looks at the loop-carried time).
func (st *c07State) invariantBound(cond ssa.Value, fn *ssa.Function, allowParams bool) bool {
	found := false
	seen := map[ssa.Value]bool{}
	var walk func(v ssa.Value, d int)
	walk = func(v ssa.Value, d int) {
		if v == nil || d <= 0 || found || seen[v] {
			return
		}
		seen[v] = true
		v = c07Settle(v)
		switch x := v.(type) {
		case *ssa.Phi, *ssa.Const:
			return
		case *ssa.Parameter:
			if allowParams {
				if b, ok := x.Type().Underlying().(*types.Basic); (ok && b.Info()&types.IsInteger != 0) || namedKey(x.Type()) == "time.Time" {
					// a loop-invariant parameter (never reassigned: it is not a phi here)
					found = true
				}
			}
			return
		}
		in, ok := v.(ssa.Instruction)
		if !ok {
			return
		}
		if in.Parent() == fn && in.Block() != nil && !c07InCycle(in.Block()) && c07TimeDependent(v, 6) {
			found = true
			return
		}
		for _, op := range in.Operands(nil) {
			if op != nil && *op != nil {
				walk(*op, d-1)
			}
		}
	}
	walk(cond, 7)
	return found
}

// timeDependent: c07TimeDependent, or a call of a module function that
// receives a time.Time.
func (st *c07State) timeDependent(v ssa.Value, depth int) bool {
	if c07TimeDependent(v, depth) {
		return true
	}
	found := false
	var walk func(v ssa.Value, d int)
	walk = func(v ssa.Value, d int) {
		if v == nil || d <= 0 || found {
			return
		}
		v = c07Settle(v)
		if _, isPhi := v.(*ssa.Phi); isPhi {
			return
		}
		if c, ok := v.(*ssa.Call); ok {
			if len(st.eng.fv.callTargets(c)) > 0 {
				for _, a := range c.Call.Args {
					if namedKey(a.Type()) == "time.Time" {
						found = true
					}
				}
			}
		}
		if in, ok := v.(ssa.Instruction); ok {
			for _, op := range in.Operands(nil) {
				if op != nil && *op != nil {
					walk(*op, d-1)
				}
			}
		}
	}
	walk(v, depth)
	return found
}

// fieldsRead: the SpecSchedule fields a function reads (transitively through
// module callees that receive the schedule), as "A+B".
func (st *c07State) fieldsRead(fn *ssa.Function, specKey string, depth int) string {
	set := map[string]bool{}
	st.fieldsReadInto(fn, specKey, depth, set, map[*ssa.Function]bool{})
	delete(set, "Location")
	var names []string
	for n := range set {
		names = append(names, n)
	}
	sort.Strings(names)
	if len(names) == 0 {
		return fn.Name()
	}
	return strings.Join(names, "+")
}

func (st *c07State) fieldsReadInto(fn *ssa.Function, specKey string, depth int, set map[string]bool, seen map[*ssa.Function]bool) {
	fn = origin(fn)
	if fn == nil || seen[fn] || depth > 4 || fn.Blocks == nil {
		return
	}
	seen[fn] = true
	allInstrs(fn, func(in ssa.Instruction) {
		switch x := in.(type) {
		case *ssa.FieldAddr:
			if namedKey(x.X.Type()) == specKey {
				for _, rf := range refs(x) {
					if u, ok := rf.(*ssa.UnOp); ok && u.Op == token.MUL {
						set[fieldIDOfAddr(x).Field] = true
					}
				}
			}
		case *ssa.Field:
			if namedKey(x.X.Type()) == specKey {
				set[fieldIDOfField(x).Field] = true
			}
		case ssa.CallInstruction:
			for _, t := range st.eng.fv.callTargets(x) {
				for _, a := range x.Common().Args {
					if namedKey(a.Type()) == specKey {
						st.fieldsReadInto(t.Fn, specKey, depth+1, set, seen)
					}
				}
			}
		}
	})
}

// specDependence: the condition depends on a field of *SpecSchedule (returns
// the field name) or on a module call that receives the schedule (callee name).
func (st *c07State) specDependence(v ssa.Value, specKey string, depth int) string {
	found := map[string]bool{}
	seen := map[ssa.Value]bool{}
	var walk func(v ssa.Value, d int)
	walk = func(v ssa.Value, d int) {
		if v == nil || d <= 0 || seen[v] {
			return
		}
		seen[v] = true
		switch x := v.(type) {
		case *ssa.FieldAddr:
			if namedKey(x.X.Type()) == specKey {
				found[fieldIDOfAddr(x).Field] = true
			}
			return
		case *ssa.Field:
			if namedKey(x.X.Type()) == specKey {
				found[fieldIDOfField(x).Field] = true
			}
			return
		case *ssa.Phi:
			return
		case *ssa.UnOp:
			// a bit set cached in a local variable / local struct / captured cell
			if x.Op == token.MUL {
				if val, _ := c07CellValue(x); val != nil {
					walk(val, d-1)
					return
				}
			}
		case *ssa.Call:
			for _, t := range st.eng.fv.callTargets(x) {
				for _, a := range x.Call.Args {
					if namedKey(a.Type()) == specKey {
						for _, f := range strings.Split(st.fieldsRead(t.Fn, specKey, 0), "+") {
							found[f] = true
						}
					}
				}
			}
		}
		if in, ok := v.(ssa.Instruction); ok {
			for _, op := range in.Operands(nil) {
				if op != nil && *op != nil {
					walk(*op, d-1)
				}
			}
		}
	}
	walk(v, depth)
	delete(found, "Location")
	if len(found) == 0 {
		return ""
	}
	var names []string
	for n := range found {
		names = append(names, n)
	}
	sort.Strings(names)
	return strings.Join(names, "+")
}

// checkLoopSteps: a counting loop `for i := a; i <= b; i += step` whose step is
// a parameter needs step >= 1 at every call (else it never terminates).
func (st *c07State) checkLoopSteps() {
	p, r := st.p, st.r
	for _, fn := range st.sc.List {
		name := FuncName(p, fn)
		allInstrs(fn, func(in ssa.Instruction) {
			phi, ok := in.(*ssa.Phi)
			if !ok || !c07isInteger(phi.Type()) {
				return
			}
			for i, ed := range phi.Edges {
				bo, ok := ed.(*ssa.BinOp)
				if !ok || bo.Op != token.ADD {
					continue
				}
				var step ssa.Value
				if bo.X == ssa.Value(phi) {
					step = bo.Y
				} else if bo.Y == ssa.Value(phi) {
					step = bo.X
				}
				par, isPar := step.(*ssa.Parameter)
				if step == nil || !isPar {
					continue
				}
				// the loop must be controlled by a comparison of the phi
				pred := phi.Block().Preds[i]
				if !phi.Block().Dominates(pred) {
					continue
				}
				controlled := false
				for _, ref := range refs(phi) {
					if b, ok := ref.(*ssa.BinOp); ok {
						switch b.Op {
						case token.LSS, token.LEQ, token.GTR, token.GEQ, token.NEQ:
							controlled = true
						}
					}
				}
				if !controlled {
					continue
				}
				construct := fmt.Sprintf("%s loop step %s", name, par.Name())
				b := st.eng.intAt(step, phi.Block())
				pos := p.Pos(instrPos(bo))
				switch {
				case b.Lo >= 1:
					r.OK(c07N6, construct, pos, fmt.Sprintf("step >= %d at every call (%s)", b.Lo, b.Why))
				case b.Exact:
					r.Violation(c07N6, construct, pos,
						fmt.Sprintf("the loop counter is advanced by parameter %s, which may be %s (%s): with a step of 0 the loop never terminates", par.Name(), c07LoStr(b.Lo), b.Why))
				default:
					r.Trivial(c07N6, construct, pos, "unclassified: "+b.Why)
					st.unclassified(c07N6, construct, "step not provably >= 1: "+b.Why)
				}
			}
		})
	}
}
