package main

// Byte-string construction as a concatenation of parts, independent of the
// idiom: append chains, bytes.Join, string +, []byte(string), base64
// AppendEncode / EncodeToString, bytes.Clone. (The make+copy+Encode+store
// idiom is handled by headerLayout.)

import (
	"go/constant"
	"go/token"
	"go/types"
	"sort"
	"strings"

	"golang.org/x/tools/go/ssa"
)

type cgPart struct {
	Const string // literal bytes (when Val is zero and B64 false)
	Val   CV     // an opaque value
	B64   bool   // standard-base64 of Val
	Enc   string // base64 encoding variable name when B64
}

func (p cgPart) isConst() bool { return p.Val.V == nil }

func (g *cGraph) partsKey(ps []cgPart) string {
	var sb strings.Builder
	for _, p := range ps {
		switch {
		case p.isConst():
			sb.WriteString("K" + p.Const + "|")
		case p.B64:
			sb.WriteString("B" + cvKey(p.Val) + "|")
		default:
			sb.WriteString("V" + cvKey(p.Val) + "|")
		}
	}
	return sb.String()
}

func mergeParts(ps []cgPart) []cgPart {
	var out []cgPart
	for _, p := range ps {
		if p.isConst() {
			if p.Const == "" {
				continue
			}
			if n := len(out); n > 0 && out[n-1].isConst() {
				out[n-1].Const += p.Const
				continue
			}
		}
		out = append(out, p)
	}
	return out
}

// concat expresses byte/string value cv as a concatenation; ok=false if an
// operation is not understood.
func (g *cGraph) concat(cv CV) ([]cgPart, bool) {
	ps, ok := g.concatD(cv, 0)
	return mergeParts(ps), ok
}

func (g *cGraph) concatD(cv CV, d int) ([]cgPart, bool) {
	cv = g.deep(cv)
	if d > 16 {
		return nil, false
	}
	if isNilConst(cv.V) {
		return nil, true
	}
	if edges, ok := g.phiEdges(cv); ok {
		var out []cgPart
		key, n := "", 0
		for _, e := range edges {
			if g.isNil(e.Val) {
				continue
			}
			ps, ok := g.concatD(e.Val, d+1)
			if !ok {
				return nil, false
			}
			k := g.partsKey(mergeParts(ps))
			if n > 0 && k != key {
				return nil, false
			}
			out, key = ps, k
			n++
		}
		return out, n > 0
	}
	switch x := cv.V.(type) {
	case *ssa.Const:
		if x.Value != nil && x.Value.Kind() == constant.String {
			return []cgPart{{Const: constant.StringVal(x.Value)}}, true
		}
		if x.Value != nil && x.Value.Kind() == constant.Int {
			if k, ok := constant.Int64Val(x.Value); ok && k >= 0 && k < 256 {
				return []cgPart{{Const: string([]byte{byte(k)})}}, true
			}
		}
	case *ssa.Convert:
		// []byte(string) / string([]byte)
		return g.concatD(CV{cv.C, x.X}, d+1)
	case *ssa.ChangeType:
		return g.concatD(CV{cv.C, x.X}, d+1)
	case *ssa.BinOp:
		if x.Op == token.ADD {
			if b, ok := x.Type().Underlying().(*types.Basic); ok && b.Info()&types.IsString != 0 {
				a, ok1 := g.concatD(CV{cv.C, x.X}, d+1)
				c, ok2 := g.concatD(CV{cv.C, x.Y}, d+1)
				return append(a, c...), ok1 && ok2
			}
		}
	case *ssa.MakeSlice:
		if k, ok := g.constInt(CV{cv.C, x.Len}); ok && k == 0 {
			return nil, true
		}
		return nil, false
	case *ssa.Slice:
		// s[:] of an array literal / full slice of something
		if x.Low == nil && x.High == nil {
			if al, ok := x.X.(*ssa.Alloc); ok {
				if elems, ok := g.arrayElems(CV{cv.C, al}); ok {
					var out []cgPart
					for _, e := range elems {
						ps, ok := g.concatD(e, d+1)
						if !ok {
							return nil, false
						}
						out = append(out, ps...)
					}
					return out, true
				}
			}
			return g.concatD(CV{cv.C, x.X}, d+1)
		}
		if x.Low == nil && x.High != nil {
			if k, ok := g.constInt(CV{cv.C, x.High}); ok && k == 0 {
				return nil, true // buf[:0]
			}
		}
	case *ssa.Call:
		args := x.Call.Args
		switch {
		case builtinName(x) == "append" && len(args) == 2:
			a, ok1 := g.concatD(CV{cv.C, args[0]}, d+1)
			c, ok2 := g.concatD(CV{cv.C, args[1]}, d+1)
			return append(a, c...), ok1 && ok2
		case (callIs(x, "bytes", "", "Clone") || callIs(x, "slices", "", "Clone")) && len(args) == 1:
			return g.concatD(CV{cv.C, args[0]}, d+1)
		case callIs(x, "slices", "", "Concat") && len(args) == 1:
			lst := g.deep(CV{cv.C, args[0]})
			sl, isSl := lst.V.(*ssa.Slice)
			if !isSl {
				return nil, false
			}
			al, isAl := sl.X.(*ssa.Alloc)
			if !isAl {
				return nil, false
			}
			elems, ok := g.arrayElemsRaw(CV{lst.C, al})
			if !ok {
				return nil, false
			}
			var out []cgPart
			for _, e := range elems {
				ps, ok := g.concatD(e, d+1)
				if !ok {
					return nil, false
				}
				out = append(out, ps...)
			}
			return out, true
		case callIs(x, "bytes", "", "Join") && len(args) == 2:
			sep, ok := g.concatD(CV{cv.C, args[1]}, d+1)
			if !ok {
				return nil, false
			}
			lst := g.deep(CV{cv.C, args[0]})
			sl, isSl := lst.V.(*ssa.Slice)
			if !isSl {
				return nil, false
			}
			al, isAl := sl.X.(*ssa.Alloc)
			if !isAl {
				return nil, false
			}
			elems, ok := g.arrayElemsRaw(CV{lst.C, al})
			if !ok {
				return nil, false
			}
			var out []cgPart
			for i, e := range elems {
				if i > 0 {
					out = append(out, sep...)
				}
				ps, ok := g.concatD(e, d+1)
				if !ok {
					return nil, false
				}
				out = append(out, ps...)
			}
			return out, true
		case callIs(x, "encoding/base64", "Encoding", "AppendEncode") && len(args) == 3:
			a, ok := g.concatD(CV{cv.C, args[1]}, d+1)
			return append(a, cgPart{Val: g.deep(CV{cv.C, args[2]}), B64: true, Enc: g.b64Name(CV{cv.C, args[0]})}), ok
		case callIs(x, "encoding/base64", "Encoding", "EncodeToString") && len(args) == 2:
			return []cgPart{{Val: g.deep(CV{cv.C, args[1]}), B64: true, Enc: g.b64Name(CV{cv.C, args[0]})}}, true
		}
		// any other call that is handed byte/string material may assemble it in a way not modelled here:
		// the construction is then NOT understood (an opaque result is not an atomic part)
		for _, a := range args {
			if isNilConst(a) {
				continue
			}
			switch t := a.Type().Underlying().(type) {
			case *types.Slice:
				return nil, false
			case *types.Basic:
				if t.Info()&types.IsString != 0 {
					return nil, false
				}
			}
		}
	}
	return []cgPart{{Val: cv}}, true
}

func (g *cGraph) b64Name(enc CV) string {
	enc = g.res(enc)
	if u, ok := enc.V.(*ssa.UnOp); ok {
		if gl, ok := u.X.(*ssa.Global); ok {
			return gl.Name()
		}
	}
	return "?"
}

// arrayElemsRaw: the values stored into the elements of a local array (a
// slice / variadic literal), in index order; every element stored exactly once.
func (g *cGraph) arrayElemsRaw(arr CV) ([]CV, bool) {
	al := arr.V.(*ssa.Alloc)
	at, ok := deref(al.Type()).Underlying().(*types.Array)
	if !ok {
		return nil, false
	}
	elems := map[int64]CV{}
	for _, u := range refs(al) {
		switch y := u.(type) {
		case *ssa.IndexAddr:
			k, ok := c01ConstInt(y.Index)
			if !ok {
				return nil, false
			}
			for _, w := range refs(y) {
				if st, ok := w.(*ssa.Store); ok && st.Addr == ssa.Value(y) {
					if _, dup := elems[k]; dup {
						return nil, false
					}
					elems[k] = CV{arr.C, st.Val}
				}
			}
		case *ssa.Slice, *ssa.DebugRef:
		default:
			return nil, false
		}
	}
	var idx []int64
	for k := range elems {
		idx = append(idx, k)
	}
	sort.Slice(idx, func(i, j int) bool { return idx[i] < idx[j] })
	if int64(len(idx)) != at.Len() {
		// unset elements are zero values: only accepted for byte arrays fully set
		return nil, false
	}
	var out []CV
	for _, k := range idx {
		out = append(out, elems[k])
	}
	return out, true
}

// arrayElems: for a byte array literal (append(x, 'a', 'b')): its elements.
func (g *cGraph) arrayElems(arr CV) ([]CV, bool) {
	al := arr.V.(*ssa.Alloc)
	at, ok := deref(al.Type()).Underlying().(*types.Array)
	if !ok {
		return nil, false
	}
	if b, ok := at.Elem().Underlying().(*types.Basic); !ok || b.Kind() != types.Byte {
		return nil, false
	}
	return g.arrayElemsRaw(arr)
}
