package main

// C18 helper: deferred clean-up in the writer (`defer func(){ if err != nil {
// os.RemoveAll(newDir) } }()`), and the nil-ness of the error a return yields
// (also for named results).

import (
	"go/token"
	"go/types"

	"golang.org/x/tools/go/ssa"
)

// c18Conj is one conjunct of the condition under which a deferred operation runs.
//
//	Kind "err":  the named error result compared with nil; Val = true means "err != nil"
//	Kind "flag": a captured bool variable of the enclosing function; Val = required value
type c18Conj struct {
	Kind string
	Cell *ssa.Alloc
	Val  bool
}

type c18Deferred struct {
	Defer  *ssa.Defer
	Op     *c18Op
	Guard  []c18Conj
	Opaque string // non-empty: the guard cannot be classified
	Where  ssa.Instruction
	Fr     *c18Frame // the frame whose returns run it
}

// c18ResultCells returns the allocs of named results of fn (cells whose load is returned).
func c18ResultCells(fn *ssa.Function) map[*ssa.Alloc]bool {
	out := map[*ssa.Alloc]bool{}
	allInstrs(fn, func(in ssa.Instruction) {
		ret, ok := in.(*ssa.Return)
		if !ok {
			return
		}
		for _, v := range ret.Results {
			if u, ok := v.(*ssa.UnOp); ok && u.Op == token.MUL {
				if a, ok := u.X.(*ssa.Alloc); ok {
					out[a] = true
				}
			}
		}
	})
	return out
}

// c18CellOfFreeVarLoad: v is `*fv` with fv a free variable bound to an Alloc of the parent.
func c18CellOfFreeVarLoad(v ssa.Value) *ssa.Alloc {
	u, ok := v.(*ssa.UnOp)
	if !ok || u.Op != token.MUL {
		return nil
	}
	fv, ok := u.X.(*ssa.FreeVar)
	if !ok {
		return nil
	}
	a, _ := resolveFreeVar(fv).(*ssa.Alloc)
	return a
}

// c18ClosureWrites: the allocs of fn that some anonymous function of fn stores to.
func c18ClosureWrites(fn *ssa.Function) map[*ssa.Alloc]bool {
	out := map[*ssa.Alloc]bool{}
	var visit func(f *ssa.Function)
	visit = func(f *ssa.Function) {
		for _, a := range f.AnonFuncs {
			allInstrs(a, func(in ssa.Instruction) {
				if st, ok := in.(*ssa.Store); ok {
					if fv, ok := st.Addr.(*ssa.FreeVar); ok {
						if al, ok := resolveFreeVar(fv).(*ssa.Alloc); ok {
							out[al] = true
						}
					}
				}
			})
			visit(a)
		}
	}
	visit(fn)
	allInstrs(fn, func(in ssa.Instruction) {
		ci, ok := in.(ssa.CallInstruction)
		if !ok {
			return
		}
		callee := staticCallee(ci)
		for i, a := range ci.Common().Args {
			cell, ok := a.(*ssa.Alloc)
			if !ok {
				continue
			}
			if callee == nil || len(callee.Blocks) == 0 || i >= len(callee.Params) {
				if _, isPtr := a.Type().Underlying().(*types.Pointer); isPtr && callee == nil && !ci.Common().IsInvoke() {
					out[cell] = true // address handed to an unknown function
				}
				continue
			}
			pa := callee.Params[i]
			for _, r := range refs(pa) {
				if st, ok := r.(*ssa.Store); ok && st.Addr == ssa.Value(pa) {
					out[cell] = true
				}
			}
		}
	})
	return out
}

// c18CollectDeferred models `defer <os mutator>(…)` and `defer func(){…}()`
// (a closure literal of fn) whose body performs os mutations.
func c18CollectDeferred(p *Prog, tt *c18Terms, fn *ssa.Function) (ds []*c18Deferred, unknown []string) {
	results := c18ResultCells(fn)
	allInstrs(fn, func(in ssa.Instruction) {
		d, ok := in.(*ssa.Defer)
		if !ok {
			return
		}
		if obj := calleeObj(d); obj != nil {
			if m, ok := c18Mutators[c18FullName(obj)]; ok {
				op := &c18Op{Fn: c18FullName(obj), Kind: m.kind, Path: tt.Term(d.Call.Args[m.path]), idx: -1}
				if m.aux >= 0 {
					op.Aux = tt.Term(d.Call.Args[m.aux])
				}
				ds = append(ds, &c18Deferred{Defer: d, Op: op, Where: d})
				return
			}
		}
		clo := staticCallee(d)
		if clo == nil || !c18IsModelledDefer(fn, d) {
			return // neither a closure literal of fn nor a same-package function: left to the caller
		}
		// bind the parameters of the deferred function to the arguments evaluated at the defer statement
		saved := tt.cur
		nenv := c18Env{}
		for k, v := range tt.cur {
			nenv[k] = v
		}
		for i, pa := range clo.Params {
			if i < len(d.Call.Args) {
				nenv[pa] = tt.Term(d.Call.Args[i])
			}
		}
		tt.cur = nenv
		ops, unk := c18CollectOps(p, tt, clo)
		tt.cur = saved
		cellOf := func(v ssa.Value) *ssa.Alloc {
			if c := c18CellOfFreeVarLoad(v); c != nil {
				return c
			}
			// *param where the argument is the address of a local cell of fn
			if u, ok := v.(*ssa.UnOp); ok && u.Op == token.MUL {
				if pa, ok := u.X.(*ssa.Parameter); ok {
					for i, q := range clo.Params {
						if q == pa && i < len(d.Call.Args) {
							a, _ := d.Call.Args[i].(*ssa.Alloc)
							return a
						}
					}
				}
			}
			return nil
		}
		for _, u := range unk {
			unknown = append(unknown, "deferred closure: "+u)
		}
		if len(clo.AnonFuncs) > 0 && c18TouchesFS(p, clo, map[*ssa.Function]bool{}) && len(ops) == 0 {
			unknown = append(unknown, "deferred closure with nested functions that touch the file system")
		}
		for _, o := range ops {
			o.idx = -1
			dd := &c18Deferred{Defer: d, Op: o, Where: o.Call}
			for _, dc := range domConds(o.Call.Block()) {
				// err ⋈ nil ?
				if cmp, ok := decodeCond(dc.If.Cond, dc.Branch); ok && (cmp.Op == token.NEQ || cmp.Op == token.EQL) {
					var cell *ssa.Alloc
					switch {
					case isNilConst(cmp.Y):
						cell = cellOf(cmp.X)
					case isNilConst(cmp.X):
						cell = cellOf(cmp.Y)
					}
					if cell != nil && results[cell] {
						dd.Guard = append(dd.Guard, c18Conj{Kind: "err", Cell: cell, Val: cmp.Op == token.NEQ})
						continue
					}
					dd.Opaque = "a condition of the deferred function at " + p.Pos(instrPos(dc.If)) + " is not a test of the named error result or of a captured bool"
					continue
				}
				// [!]flag ?
				cond, val := dc.If.Cond, dc.Branch
				for {
					if u, ok := cond.(*ssa.UnOp); ok && u.Op == token.NOT {
						cond, val = u.X, !val
						continue
					}
					break
				}
				if cell := cellOf(cond); cell != nil {
					if b, ok := cell.Type().Underlying().(*types.Pointer).Elem().Underlying().(*types.Basic); ok && b.Kind() == types.Bool {
						dd.Guard = append(dd.Guard, c18Conj{Kind: "flag", Cell: cell, Val: val})
						continue
					}
				}
				dd.Opaque = "a condition of the deferred function at " + p.Pos(instrPos(dc.If)) + " is not a test of the named error result or of a captured bool"
			}
			ds = append(ds, dd)
		}
	})
	return
}

// c18IsModelledDefer: the defer statements c18CollectDeferred takes care of.
func c18IsModelledDefer(fn *ssa.Function, d *ssa.Defer) bool {
	if obj := calleeObj(d); obj != nil {
		if _, ok := c18Mutators[c18FullName(obj)]; ok {
			return true
		}
	}
	clo := staticCallee(d)
	if clo == nil || len(clo.Blocks) == 0 {
		return false
	}
	return clo.Parent() == fn || (clo.Pkg != nil && clo.Pkg == fn.Pkg)
}

// c18ReturnErrKind: "nil" / "nonnil" / "unknown" for the error a return yields.
// closureWrites = cells written by closures (a deferred function may change a named result).
func c18ReturnErrKind(ret *ssa.Return, closureWrites map[*ssa.Alloc]bool) string {
	if len(ret.Results) == 0 {
		return "unknown"
	}
	v := ret.Results[len(ret.Results)-1]
	if isNilConst(v) {
		return "nil"
	}
	blk := ret.Block()
	if u, ok := v.(*ssa.UnOp); ok && u.Op == token.MUL {
		if cell, ok := u.X.(*ssa.Alloc); ok {
			if closureWrites[cell] {
				return "unknown"
			}
			// the store made by this return statement: last store to the cell in the block
			for i := len(blk.Instrs) - 1; i >= 0; i-- {
				if st, ok := blk.Instrs[i].(*ssa.Store); ok && st.Addr == cell {
					if isNilConst(st.Val) {
						return "nil"
					}
					if c18KnownNonNil(blk, st.Val) || c18FreshError(c18Root(st.Val)) {
						return "nonnil"
					}
					return "unknown"
				}
			}
			// bare `return` of a named result: the value is what the reaching store put there
			if rv := c18Root(v); rv != v {
				switch {
				case isNilConst(rv) || c18KnownNil(blk, rv):
					return "nil"
				case c18KnownNonNil(blk, rv) || c18FreshError(rv):
					return "nonnil"
				}
			}
			return "unknown"
		}
	}
	if c18KnownNonNil(blk, v) || c18FreshError(c18Root(v)) {
		return "nonnil"
	}
	return "unknown"
}

// c18FreshError: v is a newly made error value (fmt.Errorf, errors.New, a concrete value boxed into error).
func c18FreshError(v ssa.Value) bool {
	switch x := v.(type) {
	case *ssa.MakeInterface:
		return true
	case *ssa.Call:
		if obj := calleeObj(x); obj != nil && obj.Pkg() != nil {
			switch obj.Pkg().Path() + "." + obj.Name() {
			case "fmt.Errorf", "errors.New":
				return true
			}
		}
	}
	return false
}

// c18FlagFlow: must-values of captured bool cells. bit 2i = cell i known true, 2i+1 = known false.
func c18FlagFlow(fn *ssa.Function, cells []*ssa.Alloc, closureWrites map[*ssa.Alloc]bool) *FlagFlow {
	index := map[*ssa.Alloc]int{}
	for i, c := range cells {
		index[c] = i
	}
	ff := &FlagFlow{Fn: fn, Must: true, Transfer: func(in ssa.Instruction, st uint64) uint64 {
		switch x := in.(type) {
		case *ssa.Alloc:
			if i, ok := index[x]; ok {
				st &^= 3 << uint(2*i)
				st |= 2 << uint(2*i) // zero value: false
			}
		case *ssa.Store:
			if a, ok := x.Addr.(*ssa.Alloc); ok {
				if i, ok := index[a]; ok {
					st &^= 3 << uint(2*i)
					if k, ok := x.Val.(*ssa.Const); ok && k.Value != nil && !closureWrites[a] {
						if k.Value.String() == "true" {
							st |= 1 << uint(2*i)
						} else {
							st |= 2 << uint(2*i)
						}
					}
				}
			}
		}
		return st
	}}
	ff.Run()
	return ff
}
