package main

// Path-sensitive, call-following abstract interpretation used by the C09
// rules (own engine of prop_c09.go; nothing else depends on it).
//
//   - PathFlow: forward exploration of a root function in which every abstract
//     state (a uint64 of rule-defined bits) is kept apart (set-of-states per
//     block, union at joins, so a fact established on one branch is not lost at
//     the join that a `defer`/single-return lowering introduces). Same-package
//     callees reached by static calls, by `defer`, by immediately invoked
//     closures and by function values whose target is known in the calling
//     context are followed as if they were inlined; deferred calls are replayed
//     at RunDefers in LIFO order, only those registered on the path.
//   - condFacts: the atomic facts that must hold when a boolean SSA value has a
//     given truth value: through !, &&/|| lowering (bool phis), comparisons with
//     bool constants and same-package boolean helper functions.
//   - valRoots: where a value comes from (through parameters/call sites,
//     closure bindings, local cells, phis, same-package results).

import (
	"fmt"
	"go/constant"
	"go/token"
	"go/types"
	"sort"

	"golang.org/x/tools/go/ssa"
)

// ---------------------------------------------------------------- facts

// PFact is an atomic fact about SSA values: either a comparison `X Op Y`
// (IsCmp) or "boolean value V has truth value Truth".
type PFact struct {
	IsCmp bool
	Op    token.Token
	X, Y  ssa.Value
	V     ssa.Value
	Truth bool
}

func (f PFact) key() string {
	if f.IsCmp {
		return fmt.Sprintf("c|%s|%p|%p|%s|%s", f.Op, f.X, f.Y, c09ConstKey(f.X), c09ConstKey(f.Y))
	}
	return fmt.Sprintf("b|%p|%v", f.V, f.Truth)
}

func c09ConstKey(v ssa.Value) string {
	if c, ok := v.(*ssa.Const); ok {
		if c.Value == nil {
			return "nil"
		}
		return c.Value.ExactString()
	}
	return ""
}

func c09BoolConst(v ssa.Value) (val, ok bool) {
	c, isC := v.(*ssa.Const)
	if !isC || c.Value == nil || c.Value.Kind() != constant.Bool {
		return false, false
	}
	return constant.BoolVal(c.Value), true
}

func c09IsBoolType(t types.Type) bool {
	b, ok := t.Underlying().(*types.Basic)
	return ok && b.Info()&types.IsBoolean != 0
}

// PFactCtx decides which callees condFacts may look into.
type PFactCtx struct {
	InPkg func(fn *ssa.Function) bool
	// CellVal (set by PathFlow while an edge is examined): the value a local
	// variable cell (possibly captured) was last assigned on the current path.
	CellVal func(cell *ssa.Alloc) ssa.Value
}

// condFacts returns facts that hold whenever v == truth.
func (fc *PFactCtx) condFacts(v ssa.Value, truth bool) []PFact {
	return fc.condFactsD(v, truth, 0)
}

func (fc *PFactCtx) condFactsD(v ssa.Value, truth bool, depth int) []PFact {
	if depth > 8 || v == nil {
		return nil
	}
	switch x := v.(type) {
	case *ssa.UnOp:
		if x.Op == token.NOT {
			return fc.condFactsD(x.X, !truth, depth+1)
		}
		if x.Op == token.MUL {
			// load of a local bool variable: the value that reaches the load
			if def := c09SlotDef(x); def != nil {
				return append(fc.condFactsD(def, truth, depth+1), PFact{V: v, Truth: truth})
			}
			if fc.CellVal != nil {
				if cell := cellOf(x.X); cell != nil {
					if cv := fc.CellVal(cell); cv != nil && cv != v {
						return append(fc.condFactsD(cv, truth, depth+1), PFact{V: v, Truth: truth})
					}
				}
			}
		}
	case *ssa.BinOp:
		switch x.Op {
		case token.EQL, token.NEQ:
			// b == true, b != false ...
			if c09IsBoolType(x.X.Type()) {
				if k, ok := c09BoolConst(x.Y); ok {
					want := k == (x.Op == token.EQL)
					return fc.condFactsD(x.X, want == truth, depth+1)
				}
				if k, ok := c09BoolConst(x.X); ok {
					want := k == (x.Op == token.EQL)
					return fc.condFactsD(x.Y, want == truth, depth+1)
				}
			}
			fallthrough
		case token.LSS, token.LEQ, token.GTR, token.GEQ:
			op := x.Op
			if !truth {
				op = negateOp(op)
			}
			return []PFact{{IsCmp: true, Op: op, X: x.X, Y: x.Y}}
		}
	case *ssa.Const:
		return nil
	case *ssa.Phi:
		if !c09IsBoolType(x.Type()) {
			return nil
		}
		var sets [][]PFact
		for i, e := range x.Edges {
			if k, ok := c09BoolConst(e); ok && k != truth {
				continue // this edge cannot produce the wanted value
			}
			fs := fc.condFactsD(e, truth, depth+1)
			pred := x.Block().Preds[i]
			fs = append(fs, fc.blockFacts(pred, depth+1)...)
			fs = append(fs, fc.edgeFacts(pred, x.Block(), depth+1)...)
			sets = append(sets, fs)
		}
		return c09IntersectFacts(sets)
	case *ssa.Call:
		out := []PFact{{V: v, Truth: truth}}
		if x.Call.IsInvoke() || x.Call.Signature().Results().Len() != 1 {
			return out
		}
		return append(out, fc.resultFacts(x, 0, truth, depth)...)
	case *ssa.Extract:
		if call, ok := x.Tuple.(*ssa.Call); ok && c09IsBoolType(x.Type()) && !call.Call.IsInvoke() {
			return append([]PFact{{V: v, Truth: truth}}, fc.resultFacts(call, x.Index, truth, depth)...)
		}
	}
	if c09IsBoolType(v.Type()) {
		return []PFact{{V: v, Truth: truth}}
	}
	return nil
}

// resultFacts: facts that hold when result idx of the same-package call has the given truth value.
func (fc *PFactCtx) resultFacts(x *ssa.Call, idx int, truth bool, depth int) []PFact {
	cal := staticCallee(x)
	if cal == nil || len(cal.Blocks) == 0 || fc.InPkg == nil || !fc.InPkg(cal) {
		return nil
	}
	var sets [][]PFact
	for _, b := range cal.Blocks {
		if len(b.Instrs) == 0 {
			continue
		}
		ret, ok := b.Instrs[len(b.Instrs)-1].(*ssa.Return)
		if !ok || idx >= len(ret.Results) {
			continue
		}
		if b != cal.Blocks[0] && len(b.Preds) == 0 {
			continue // recover block
		}
		results := unspill(ret.Results[idx])
		if u, ok := ret.Results[idx].(*ssa.UnOp); ok {
			if def := c09SlotDef(u); def != nil {
				results = []ssa.Value{def}
			}
		}
		for _, rv := range results {
			if k, ok := c09BoolConst(rv); ok && k != truth {
				continue
			}
			fs := fc.condFactsD(rv, truth, depth+1)
			fs = append(fs, fc.blockFacts(b, depth+1)...)
			if rv != ret.Results[idx] {
				// spilled result: facts at the store of this value
				if u, ok := ret.Results[idx].(*ssa.UnOp); ok {
					for _, r := range refs(u.X) {
						if st, ok := r.(*ssa.Store); ok && st.Val == rv {
							fs = append(fs, fc.blockFacts(st.Block(), depth+1)...)
						}
					}
				}
			}
			sets = append(sets, fs)
		}
	}
	return c09IntersectFacts(sets)
}

// c09SlotDef: ld loads a local variable slot (an Alloc that is not captured);
// returns the stored value that reaches the load on every path, or nil.
// Stores of the slot's own value (*s = *s, emitted for named results) are
// transparent.
func c09SlotDef(ld *ssa.UnOp) ssa.Value {
	slot, ok := ld.X.(*ssa.Alloc)
	if !ok || ld.Op != token.MUL {
		return nil
	}
	var stores []*ssa.Store
	for _, r := range refs(slot) {
		switch x := r.(type) {
		case *ssa.Store:
			if x.Addr != ssa.Value(slot) {
				return nil // the address escapes
			}
			if u, ok := x.Val.(*ssa.UnOp); ok && u.Op == token.MUL && u.X == ssa.Value(slot) {
				continue
			}
			stores = append(stores, x)
		case *ssa.UnOp:
		default:
			return nil // captured or address taken
		}
	}
	var best *ssa.Store
	for _, s := range stores {
		if instrDominates(s, ld) && (best == nil || instrDominates(best, s)) {
			best = s
		}
	}
	if best == nil {
		return nil
	}
	for _, s := range stores {
		if s == best || instrDominates(s, best) {
			continue
		}
		// s must not be able to execute between best and ld
		afterBest := s.Block() == best.Block() && instrIndex(s) > instrIndex(best) || (s.Block() != best.Block() && reachableFrom(best.Block(), nil)[s.Block()])
		beforeLd := s.Block() == ld.Block() && instrIndex(s) < instrIndex(ld) || (s.Block() != ld.Block() && reachableFrom(s.Block(), nil)[ld.Block()])
		if afterBest && beforeLd {
			return nil
		}
	}
	return best.Val
}

// blockFacts: facts established by the branch edges dominating b.
func (fc *PFactCtx) blockFacts(b *ssa.BasicBlock, depth int) []PFact {
	var out []PFact
	for _, dc := range domConds(b) {
		out = append(out, fc.condFactsD(dc.If.Cond, dc.Branch, depth+1)...)
	}
	return out
}

// edgeFacts: facts established by taking the edge from -> to.
func (fc *PFactCtx) edgeFacts(from, to *ssa.BasicBlock, depth int) []PFact {
	if len(from.Instrs) == 0 {
		return nil
	}
	ifi, ok := from.Instrs[len(from.Instrs)-1].(*ssa.If)
	if !ok || from.Succs[0] == from.Succs[1] {
		return nil
	}
	return fc.condFactsD(ifi.Cond, from.Succs[0] == to, depth+1)
}

func c09IntersectFacts(sets [][]PFact) []PFact {
	if len(sets) == 0 {
		return nil
	}
	count := map[string]int{}
	first := map[string]PFact{}
	for _, s := range sets {
		seen := map[string]bool{}
		for _, f := range s {
			k := f.key()
			if seen[k] {
				continue
			}
			seen[k] = true
			count[k]++
			if _, ok := first[k]; !ok {
				first[k] = f
			}
		}
	}
	var keys []string
	for k, n := range count {
		if n == len(sets) {
			keys = append(keys, k)
		}
	}
	sort.Strings(keys)
	var out []PFact
	for _, k := range keys {
		out = append(out, first[k])
	}
	return out
}

// ---------------------------------------------------------------- value roots

// PRootCtx resolves where values come from inside a set of functions.
type PRootCtx struct {
	Fns   []*ssa.Function
	InPkg func(fn *ssa.Function) bool
	sites map[*ssa.Function][][]ssa.Value // argument lists of the calls of a function
}

// callSites: the argument lists fn is called with inside Fns: static calls
// (call, go, defer) and calls of function values whose only possible targets
// are known functions (closures, bound method values).
func (rc *PRootCtx) callSites(fn *ssa.Function) [][]ssa.Value {
	if rc.sites == nil {
		rc.sites = map[*ssa.Function][][]ssa.Value{}
		var dynamic []ssa.CallInstruction
		for _, f := range rc.Fns {
			allInstrs(f, func(in ssa.Instruction) {
				ci, ok := in.(ssa.CallInstruction)
				if !ok {
					return
				}
				if ci.Common().IsInvoke() {
					if m := c09SingleImpl(ci); m != nil {
						rc.sites[m] = append(rc.sites[m], append([]ssa.Value{ci.Common().Value}, ci.Common().Args...))
					}
					return
				}
				if _, isB := ci.Common().Value.(*ssa.Builtin); isB {
					return
				}
				if cal, args := c09BoundTarget(staticCallee(ci), ci.Common().Value, ci.Common().Args); cal != nil {
					rc.sites[cal] = append(rc.sites[cal], args)
				} else if staticCallee(ci) == nil {
					dynamic = append(dynamic, ci)
				}
			})
		}
		for _, ci := range dynamic {
			type tgt struct {
				f    *ssa.Function
				args []ssa.Value
			}
			var tgts []tgt
			ok := true
			for _, r := range rc.Roots(ci.Common().Value) {
				if tv := c09FuncFieldTarget(r, rc.Fns); tv != nil {
					r = tv
				}
				var f *ssa.Function
				switch x := r.(type) {
				case *ssa.Function:
					f = origin(x)
				case *ssa.MakeClosure:
					g, _ := x.Fn.(*ssa.Function)
					f = origin(g)
				}
				cal, args := c09BoundTarget(f, r, ci.Common().Args)
				if cal == nil {
					ok = false
					break
				}
				tgts = append(tgts, tgt{cal, args})
			}
			if ok {
				for _, t := range tgts {
					rc.sites[t.f] = append(rc.sites[t.f], t.args)
				}
			}
		}
	}
	return rc.sites[fn]
}

// c09BoundTarget maps a callee that is a bound-method wrapper (x.m used as a
// function value) to the method itself, with the receiver prepended to args.
func c09BoundTarget(f *ssa.Function, v ssa.Value, args []ssa.Value) (*ssa.Function, []ssa.Value) {
	if f == nil {
		return nil, nil
	}
	if mc, ok := v.(*ssa.MakeClosure); ok && mc != nil && f.Synthetic != "" && len(mc.Bindings) == 1 && len(f.FreeVars) == 1 {
		if obj, ok := f.Object().(*types.Func); ok && obj != nil {
			if real := f.Prog.FuncValue(obj); real != nil && real != f && real.Signature.Recv() != nil {
				return origin(real), append([]ssa.Value{mc.Bindings[0]}, args...)
			}
		}
	}
	return f, args
}

// cellStores: the stores into a local variable cell, including stores made by
// closures that captured it.
func (rc *PRootCtx) cellStores(cell *ssa.Alloc) []*ssa.Store {
	var out []*ssa.Store
	var visit func(addr ssa.Value, depth int)
	visit = func(addr ssa.Value, depth int) {
		if depth > 4 {
			return
		}
		for _, r := range refs(addr) {
			switch x := r.(type) {
			case *ssa.Store:
				if x.Addr == addr {
					out = append(out, x)
				}
			case *ssa.MakeClosure:
				fn, _ := x.Fn.(*ssa.Function)
				if fn == nil {
					continue
				}
				for i, b := range x.Bindings {
					if b == addr && i < len(fn.FreeVars) {
						visit(fn.FreeVars[i], depth+1)
					}
				}
			}
		}
	}
	visit(cell, 0)
	return out
}

// c09ReachingStores drops the stores into cell that are certainly overwritten
// before the use point `at` (an instruction of the cell's function): a store
// s is dead when another store of the same function lies between s and `at`
// on every path (s dominates s2, s2 dominates at).
func c09ReachingStores(cell *ssa.Alloc, stores []*ssa.Store, at ssa.Instruction) []*ssa.Store {
	if at == nil || at.Parent() != cell.Parent() {
		return stores
	}
	var out []*ssa.Store
	for _, s := range stores {
		dead := false
		if s.Parent() == cell.Parent() && s != at && instrDominates(s, at) {
			for _, s2 := range stores {
				if s2 != s && s2.Parent() == cell.Parent() && instrDominates(s, s2) && instrDominates(s2, at) {
					dead = true
				}
			}
		}
		if !dead {
			out = append(out, s)
		}
	}
	return out
}

// c09UsePoint: the instruction of cell's function at which a load `ld` of the
// cell (possibly made inside a closure that captured it) observes the cell:
// the load itself, or the MakeClosure that bound the cell when it is unique.
func c09UsePoint(cell *ssa.Alloc, ld *ssa.UnOp) ssa.Instruction {
	if ld.Parent() == cell.Parent() {
		return ld
	}
	// the closure (directly nested in the cell's function) that contains the load
	f := ld.Parent()
	for f != nil && f.Parent() != cell.Parent() {
		f = f.Parent()
	}
	if f == nil {
		return nil
	}
	var mcs []*ssa.MakeClosure
	for _, r := range refs(cell) {
		if mc, ok := r.(*ssa.MakeClosure); ok && mc.Fn == ssa.Value(f) {
			mcs = append(mcs, mc)
		}
	}
	if len(mcs) == 1 {
		return mcs[0]
	}
	return nil
}

// Roots returns the origin values of v. A *ssa.Parameter is a root only when
// its function has no call site inside Fns (an entry point).
func (rc *PRootCtx) Roots(v ssa.Value) []ssa.Value { return rc.RootsIn(v, nil) }

// RootsIn is Roots in a calling context: parameters of functions that have a
// frame are resolved to the arguments of that call only.
func (rc *PRootCtx) RootsIn(v ssa.Value, frames []pfFrame) []ssa.Value {
	type key struct {
		v ssa.Value
		n int
	}
	seen := map[key]bool{}
	var out []ssa.Value
	var walk func(v ssa.Value, frames []pfFrame, depth int)
	add := func(v ssa.Value) {
		for _, o := range out {
			if o == v {
				return
			}
		}
		out = append(out, v)
	}
	inPkg := func(cal *ssa.Function) bool {
		return cal != nil && len(cal.Blocks) > 0 && rc.InPkg != nil && rc.InPkg(cal)
	}
	walk = func(v ssa.Value, frames []pfFrame, depth int) {
		if v == nil || seen[key{v, len(frames)}] {
			return
		}
		seen[key{v, len(frames)}] = true
		if depth > 24 {
			add(v)
			return
		}
		switch x := v.(type) {
		case *ssa.Parameter:
			fn := x.Parent()
			idx := -1
			for i, p := range fn.Params {
				if p == x {
					idx = i
				}
			}
			for i := len(frames) - 1; i >= 0; i-- {
				if frames[i].fn != fn {
					continue
				}
				if frames[i].args == nil || idx < 0 || idx >= len(frames[i].args) {
					add(v)
					return
				}
				walk(frames[i].args[idx], frames[:i], depth+1)
				return
			}
			sites := rc.callSites(fn)
			if idx < 0 || len(sites) == 0 {
				add(v)
				return
			}
			for _, args := range sites {
				if idx < len(args) {
					walk(args[idx], nil, depth+1)
				} else {
					add(v)
				}
			}
		case *ssa.FreeVar:
			for i := len(frames) - 1; i >= 0; i-- {
				fr := frames[i]
				if fr.fn != x.Parent() || fr.mc == nil {
					continue
				}
				for k, f := range fr.fn.FreeVars {
					if f == x && k < len(fr.mc.Bindings) {
						walk(fr.mc.Bindings[k], frames[:i], depth+1)
						return
					}
				}
			}
			if b := resolveFreeVar(x); b != nil {
				walk(b, frames, depth+1)
			} else {
				add(v)
			}
		case *ssa.UnOp:
			if x.Op == token.MUL {
				if cell := cellOf(x.X); cell != nil {
					st := c09ReachingStores(cell, rc.cellStores(cell), c09UsePoint(cell, x))
					if len(st) == 0 {
						add(v)
					}
					for _, s := range st {
						walk(s.Val, frames, depth+1)
					}
					return
				}
				// a load through a pointer parameter: follow the pointer to the caller
				if pa, ok := x.X.(*ssa.Parameter); ok {
					if _, c09IsPtr := pa.Type().Underlying().(*types.Pointer); c09IsPtr {
						walk(pa, frames, depth+1)
						return
					}
				}
			}
			add(v)
		case *ssa.Phi:
			for _, e := range x.Edges {
				walk(e, frames, depth+1)
			}
		case *ssa.ChangeType:
			walk(x.X, frames, depth+1)
		case *ssa.Convert:
			walk(x.X, frames, depth+1)
		case *ssa.MakeInterface:
			walk(x.X, frames, depth+1)
		case *ssa.ChangeInterface:
			walk(x.X, frames, depth+1)
		case *ssa.Extract:
			if call, ok := x.Tuple.(*ssa.Call); ok {
				if cal := staticCallee(call); inPkg(cal) {
					rvs := c09ReturnValues(cal, x.Index)
					if len(rvs) > 0 && len(frames) < 12 {
						nf := append(append([]pfFrame{}, frames...), pfFrame{fn: cal, args: call.Call.Args})
						for _, rv := range rvs {
							walk(rv, nf, depth+1)
						}
						return
					}
				}
			}
			add(v)
		case *ssa.Call:
			if cal := staticCallee(x); inPkg(cal) && cal.Signature.Results().Len() == 1 {
				rvs := c09ReturnValues(cal, 0)
				if len(rvs) > 0 && len(frames) < 12 {
					nf := append(append([]pfFrame{}, frames...), pfFrame{fn: cal, args: x.Call.Args})
					for _, rv := range rvs {
						walk(rv, nf, depth+1)
					}
					return
				}
			}
			add(v)
		default:
			add(v)
		}
	}
	walk(v, frames, 0)
	return out
}

// Roots of v in the context pf is currently in.
func (pf *PathFlow) Roots(rc *PRootCtx, v ssa.Value) []ssa.Value {
	return rc.RootsIn(v, pf.frames)
}

// c09ReturnValues lists the values fn may return as result idx (unspilled).
func c09ReturnValues(fn *ssa.Function, idx int) []ssa.Value {
	var out []ssa.Value
	for _, b := range fn.Blocks {
		if len(b.Instrs) == 0 || (b != fn.Blocks[0] && len(b.Preds) == 0) {
			continue
		}
		if ret, ok := b.Instrs[len(b.Instrs)-1].(*ssa.Return); ok && idx < len(ret.Results) {
			out = append(out, unspill(ret.Results[idx])...)
		}
	}
	return out
}

// ---------------------------------------------------------------- path flow

// PState is an abstract state: two words of rule-defined bits.
type PState struct{ A, B uint64 }

// pfRet: a constant (bool as 0/1, or integer) a followed function returned.
type pfRet struct {
	known bool
	val   int64
}

// pfAtom: the boolean result of call v was observed to be t on this path.
type pfAtom struct {
	v *ssa.Call
	t bool
}

// pfCell: local variable cell (possibly captured by closures) last assigned val on this path.
type pfCell struct {
	cell *ssa.Alloc
	val  ssa.Value
}

// pfIV: the constant an integer phi (a counted loop's index) holds on this path.
type pfIV struct {
	phi *ssa.Phi
	val int64
}

const (
	pfAtoms = 4
	pfCells = 3
	pfIVs   = 2
)

// pfMem is what the engine itself remembers along a path, so that flags,
// small enums and tuples computed by a followed helper or closure stay
// correlated with the branches that test them afterwards.
type pfMem struct {
	rc    *ssa.Call       // most recent followed call with constant result(s) on this path
	rk    [2]pfRet        // its constant results (index 0 and 1)
	atoms [pfAtoms]pfAtom // recently observed boolean call results
	cells [pfCells]pfCell // recently assigned scalar local variables
	ivs   [pfIVs]pfIV     // indices of counted loops over literal tables (such loops are unrolled)
}

// pfExit is a state at a return of a followed function.
type pfExit struct {
	g  PState
	rk [2]pfRet
	m  pfMem
}

type pfState struct {
	g PState // rule-defined facts
	d uint32 // deferred calls registered so far in the current function
	m pfMem
}

type pfFrame struct {
	fn   *ssa.Function
	args []ssa.Value // argument values at the call site (nil for roots)
	mc   *ssa.MakeClosure
}

// PathFlow explores a root function path-sensitively.
type PathFlow struct {
	// Follow reports whether the body of callee is analysed at its call sites.
	Follow func(callee *ssa.Function) bool
	// Instr is called for every executed instruction (replay=true when a
	// deferred call is being executed at a RunDefers). It returns the successor
	// states (empty = the path ends here).
	Instr func(pf *PathFlow, in ssa.Instruction, replay bool, st PState) []PState
	// Edge refines a state along a CFG edge (empty = infeasible).
	Edge func(pf *PathFlow, from, to *ssa.BasicBlock, st PState) []PState
	// Return is called for each state reaching a Return of the ROOT function
	// (after its deferred calls ran).
	Return func(pf *PathFlow, ret *ssa.Return, st PState)

	// Facts (optional): boolean call results established by branch conditions are
	// remembered along a path; a later branch that needs the opposite result of
	// the same call execution is infeasible (return values of helpers stay
	// correlated with what the helper did).
	Facts *PFactCtx

	// Funcs (optional): the functions in which stores to func-typed fields are looked up.
	Funcs []*ssa.Function
	// RootsOf (optional): provenance of a value, used to tell harmless unresolved
	// calls (library results, root parameters) from calls that should have been followed.
	RootsOf func(pf *PathFlow, v ssa.Value) []ssa.Value

	MaxStates int
	Problems  []string // reasons the exploration is incomplete (=> UNDECIDED)
	Visited   map[ssa.Instruction]bool

	frames []pfFrame
	steps  int
	cur    *pfMem // path memory of the state being executed
}

func (pf *PathFlow) problem(format string, args ...any) {
	msg := fmt.Sprintf(format, args...)
	for _, p := range pf.Problems {
		if p == msg {
			return
		}
	}
	pf.Problems = append(pf.Problems, msg)
}

// Depth is the current call depth (0 in the root).
func (pf *PathFlow) Depth() int { return len(pf.frames) - 1 }

// Resolve maps a value of the function currently analysed to the value it
// denotes in the calling context (parameters to arguments, free variables to
// their bindings) as far as known.
func (pf *PathFlow) Resolve(v ssa.Value) ssa.Value {
	return pf.resolveAt(v, len(pf.frames)-1, 0)
}

func (pf *PathFlow) resolveAt(v ssa.Value, fi int, depth int) ssa.Value {
	if depth > 16 || fi < 0 {
		return v
	}
	switch x := v.(type) {
	case *ssa.Parameter:
		// find the innermost frame (<= fi) of the parameter's function
		for i := fi; i >= 0; i-- {
			fr := pf.frames[i]
			if fr.fn != x.Parent() {
				continue
			}
			if fr.args == nil {
				return v
			}
			for k, p := range fr.fn.Params {
				if p == x && k < len(fr.args) {
					return pf.resolveAt(fr.args[k], i-1, depth+1)
				}
			}
			return v
		}
	case *ssa.FreeVar:
		for i := fi; i >= 0; i-- {
			fr := pf.frames[i]
			if fr.fn != x.Parent() {
				continue
			}
			if fr.mc != nil {
				for k, f := range fr.fn.FreeVars {
					if f == x && k < len(fr.mc.Bindings) {
						// the closure was made in fn.Parent(): resolve there
						for j := i - 1; j >= 0; j-- {
							if pf.frames[j].fn == fr.mc.Parent() {
								return pf.resolveAt(fr.mc.Bindings[k], j, depth+1)
							}
						}
						return fr.mc.Bindings[k]
					}
				}
			}
			break
		}
		if b := resolveFreeVar(x); b != nil {
			return b
		}
	case *ssa.ChangeType:
		return pf.resolveAt(x.X, fi, depth+1)
	case *ssa.UnOp:
		if fi == len(pf.frames)-1 {
			if el := pf.tableElem(x); el != nil {
				return pf.resolveAt(el, fi, depth+1)
			}
		}
		// a slice-typed struct field assigned exactly once (a table of steps kept in the object)
		if _, isSlice := x.Type().Underlying().(*types.Slice); isSlice && x.Op == token.MUL {
			if sv := c09SingleStoreField(x, pf.Funcs); sv != nil {
				return sv
			}
		}
		// load of a local cell (possibly captured by the closure being run) with exactly one store
		if x.Op == token.MUL {
			addr, afi := x.X, fi
			for hop := 0; hop < 4; hop++ {
				fv, ok := addr.(*ssa.FreeVar)
				if !ok {
					break
				}
				b, bfi := pf.bindingOf(fv, afi)
				if b == nil {
					break
				}
				addr, afi = b, bfi
			}
			if a, ok := addr.(*ssa.Alloc); ok {
				var vals []ssa.Value
				for _, st := range (&PRootCtx{}).cellStores(a) {
					vals = append(vals, st.Val)
				}
				if len(vals) == 1 {
					return pf.resolveAt(vals[0], afi, depth+1)
				}
			}
		}
	}
	return v
}

// bindingOf: the value bound to free variable fv by the MakeClosure of the
// closure's frame (searched from frame fi downwards) and the index of the frame
// of the function that made the closure (-1 if unknown).
func (pf *PathFlow) bindingOf(fv *ssa.FreeVar, fi int) (ssa.Value, int) {
	for i := fi; i >= 0 && i < len(pf.frames); i-- {
		fr := pf.frames[i]
		if fr.fn != fv.Parent() || fr.mc == nil {
			continue
		}
		for k, f := range fr.fn.FreeVars {
			if f == fv && k < len(fr.mc.Bindings) {
				for j := i - 1; j >= 0; j-- {
					if pf.frames[j].fn == fr.mc.Parent() {
						return fr.mc.Bindings[k], j
					}
				}
				return fr.mc.Bindings[k], -1
			}
		}
	}
	if b := resolveFreeVar(fv); b != nil {
		for j := fi; j >= 0 && j < len(pf.frames); j-- {
			if pf.frames[j].fn == fv.Parent().Parent() {
				return b, j
			}
		}
		return b, -1
	}
	return nil, -1
}

// Callee resolves the function a call instruction runs: the static callee, a
// function value whose target is known in the calling context (closure
// parameter, method value), a func-typed struct field that is only ever
// assigned one function, or an interface method with a single implementation
// in the package.
func (pf *PathFlow) Callee(ci ssa.CallInstruction) (*ssa.Function, *ssa.MakeClosure, []ssa.Value) {
	cc := ci.Common()
	if cc.IsInvoke() {
		if m := c09SingleImpl(ci); m != nil {
			return m, nil, append([]ssa.Value{cc.Value}, cc.Args...)
		}
		return nil, nil, nil
	}
	var f *ssa.Function
	var mc *ssa.MakeClosure
	pick := func(v ssa.Value) bool {
		switch x := v.(type) {
		case *ssa.Function:
			f = origin(x)
			return true
		case *ssa.MakeClosure:
			g, _ := x.Fn.(*ssa.Function)
			f, mc = origin(g), x
			return g != nil
		}
		return false
	}
	if _, isBuiltin := cc.Value.(*ssa.Builtin); isBuiltin {
		return nil, nil, nil
	}
	if !pick(cc.Value) {
		rv := pf.Resolve(cc.Value)
		if !pick(rv) {
			tv := c09FuncFieldTarget(rv, pf.Funcs)
			if tv == nil {
				tv = rv
			}
			if w := c09OnceFuncArg(tv); w != nil {
				tv = pf.Resolve(w)
			}
			if !pick(tv) {
				return nil, nil, nil
			}
		}
	}
	if cal, args := c09BoundTarget(f, mc, cc.Args); mc != nil && cal != f {
		return cal, nil, args
	}
	args := cc.Args
	return f, mc, args
}

// c09FuncFieldTarget: v is a load of a func-typed struct field; if every store
// into that field (in funcs) stores the same function value, returns it.
func c09FuncFieldTarget(v ssa.Value, funcs []*ssa.Function) ssa.Value {
	u, ok := v.(*ssa.UnOp)
	if !ok || u.Op != token.MUL {
		return nil
	}
	fa, ok := u.X.(*ssa.FieldAddr)
	if !ok {
		return nil
	}
	if _, isFunc := u.Type().Underlying().(*types.Signature); !isFunc {
		return nil
	}
	id := fieldIDOfAddr(fa)
	var tgt ssa.Value
	var tf *ssa.Function
	n := 0
	for _, fn := range funcs {
		bad := false
		allInstrs(fn, func(in ssa.Instruction) {
			st, ok := in.(*ssa.Store)
			if !ok {
				return
			}
			sfa, ok := st.Addr.(*ssa.FieldAddr)
			if !ok || fieldIDOfAddr(sfa) != id {
				return
			}
			n++
			var g *ssa.Function
			sv := st.Val
			if w := c09OnceFuncArg(sv); w != nil {
				sv = w
			}
			switch x := sv.(type) {
			case *ssa.Function:
				g = origin(x)
			case *ssa.MakeClosure:
				h, _ := x.Fn.(*ssa.Function)
				g = origin(h)
				if h != nil && h.Synthetic != "" {
					if obj, ok := h.Object().(*types.Func); ok && obj != nil {
						g = origin(h.Prog.FuncValue(obj)) // bound method value: identify by the method
					}
				}
			}
			if g == nil || (tf != nil && g != tf) {
				bad = true
				return
			}
			tf, tgt = g, sv
		})
		if bad {
			return nil
		}
	}
	if n == 0 {
		return nil
	}
	return tgt
}

// c09OnceFuncArg: v is sync.OnceFunc(f) (or OnceValue/OnceValues): calling it runs f (at most once).
func c09OnceFuncArg(v ssa.Value) ssa.Value {
	call, ok := v.(*ssa.Call)
	if !ok || call.Call.IsInvoke() || len(call.Call.Args) != 1 {
		return nil
	}
	obj := calleeObj(call)
	if obj == nil || obj.Pkg() == nil || obj.Pkg().Path() != "sync" {
		return nil
	}
	switch obj.Name() {
	case "OnceFunc", "OnceValue", "OnceValues":
		return call.Call.Args[0]
	}
	return nil
}

// c09SingleImpl: ci invokes a method of an interface declared in the package
// of the calling function; if exactly one named type of that package
// implements the interface, returns its method.
func c09SingleImpl(ci ssa.CallInstruction) *ssa.Function {
	cc := ci.Common()
	fn := ci.Parent()
	if cc.Method == nil || fn == nil || fn.Pkg == nil || cc.Method.Pkg() == nil || cc.Method.Pkg() != fn.Pkg.Pkg {
		return nil
	}
	iface, ok := cc.Value.Type().Underlying().(*types.Interface)
	if !ok {
		return nil
	}
	var found *ssa.Function
	n := 0
	for _, mem := range fn.Pkg.Members {
		tm, ok := mem.(*ssa.Type)
		if !ok {
			continue
		}
		named, ok := tm.Type().(*types.Named)
		if !ok {
			continue
		}
		if _, isI := named.Underlying().(*types.Interface); isI {
			continue
		}
		for _, t := range []types.Type{named, types.NewPointer(named)} {
			if !types.Implements(t, iface) {
				continue
			}
			sel := fn.Prog.MethodSets.MethodSet(t).Lookup(cc.Method.Pkg(), cc.Method.Name())
			if sel == nil {
				continue
			}
			if m := fn.Prog.MethodValue(sel); m != nil {
				if obj, ok := m.Object().(*types.Func); ok && obj != nil {
					if real := fn.Prog.FuncValue(obj); real != nil {
						m = real
					}
				}
				if found != origin(m) {
					n++
					found = origin(m)
				}
			}
			break
		}
	}
	if n == 1 {
		return found
	}
	return nil
}

// Run explores root from the given entry states.
func (pf *PathFlow) Run(root *ssa.Function, entry []PState) {
	if pf.MaxStates == 0 {
		pf.MaxStates = 2048
	}
	if pf.Visited == nil {
		pf.Visited = map[ssa.Instruction]bool{}
	}
	pf.frames = []pfFrame{{fn: root}}
	var es []pfExit
	for _, g := range entry {
		es = append(es, pfExit{g: g})
	}
	pf.runFunc(root, es, true)
	pf.frames = nil
}

// RunGo explores, with sub's callbacks, the function started by the go
// statement ci in the calling context pf is currently in (so that function
// values and parameters handed to the goroutine are known). False if the
// started function cannot be resolved/followed.
func (pf *PathFlow) RunGo(ci ssa.CallInstruction, sub *PathFlow, entry []PState) bool {
	cal, mc, args := pf.Callee(ci)
	if cal == nil || len(cal.Blocks) == 0 || pf.Follow == nil || !pf.Follow(cal) || pf.onStack(cal) {
		return false
	}
	if sub.MaxStates == 0 {
		sub.MaxStates = 2048
	}
	if sub.Visited == nil {
		sub.Visited = map[ssa.Instruction]bool{}
	}
	sub.frames = append(append([]pfFrame{}, pf.frames...), pfFrame{fn: cal, args: args, mc: mc})
	var es []pfExit
	for _, g := range entry {
		es = append(es, pfExit{g: g})
	}
	sub.runFunc(cal, es, true)
	sub.frames = nil
	return true
}

// ContextKey names the chain of functions pf is currently in.
func (pf *PathFlow) ContextKey() string {
	key := ""
	for _, fr := range pf.frames {
		key += fr.fn.Name() + ">"
	}
	return key
}

// runFunc explores fn from the entry states and returns the states at its returns.
func (pf *PathFlow) runFunc(fn *ssa.Function, entry []pfExit, isRoot bool) []pfExit {
	if len(fn.Blocks) == 0 {
		return entry
	}
	var defers []*ssa.Defer
	allInstrs(fn, func(in ssa.Instruction) {
		if d, ok := in.(*ssa.Defer); ok {
			defers = append(defers, d)
		}
	})
	if len(defers) > 32 {
		pf.problem("%s has more than 32 defer statements", fn.Name())
		return nil
	}
	deferIdx := map[*ssa.Defer]int{}
	for i, d := range defers {
		deferIdx[d] = i
	}
	n := len(fn.Blocks)
	seen := make([]map[pfState]bool, n)
	pending := make([][]pfState, n)
	for i := range seen {
		seen[i] = map[pfState]bool{}
	}
	push := func(bi int, s pfState) {
		if seen[bi][s] {
			return
		}
		if len(seen[bi]) >= pf.MaxStates {
			pf.problem("more than %d abstract states in %s", pf.MaxStates, fn.Name())
			return
		}
		seen[bi][s] = true
		pending[bi] = append(pending[bi], s)
	}
	for _, e := range entry {
		m := e.m
		m.rc, m.rk = nil, [2]pfRet{}
		push(0, pfState{g: e.g, m: m})
	}
	exitSet := map[pfExit]bool{}
	var exits []pfExit
	for {
		bi := -1
		for i := 0; i < n; i++ {
			if len(pending[i]) > 0 {
				bi = i
				break
			}
		}
		if bi < 0 {
			break
		}
		s := pending[bi][0]
		pending[bi] = pending[bi][1:]
		b := fn.Blocks[bi]
		cur := []pfState{s}
		ended := false
		for _, in := range b.Instrs {
			pf.steps++
			if pf.steps > 4000000 {
				pf.problem("exploration budget exhausted in %s", fn.Name())
				return exits
			}
			pf.Visited[in] = true
			var next []pfState
			switch x := in.(type) {
			case *ssa.Defer:
				for _, c := range cur {
					for _, g := range pf.Instr(pf, in, false, c.g) {
						next = append(next, pfState{g: g, d: c.d | 1<<uint(deferIdx[x]), m: c.m})
					}
				}
			case *ssa.RunDefers:
				for _, c := range cur {
					es := []pfExit{}
					for _, g := range pf.Instr(pf, in, false, c.g) {
						es = append(es, pfExit{g: g, m: c.m})
					}
					for i := len(defers) - 1; i >= 0; i-- {
						if c.d&(1<<uint(i)) == 0 {
							continue
						}
						var ne []pfExit
						for _, e := range es {
							ne = append(ne, pf.execCall(defers[i], true, e.g, e.m)...)
						}
						es = c09DedupExits(ne)
					}
					for _, e := range es {
						next = append(next, pfState{g: e.g, d: c.d, m: e.m})
					}
				}
			case *ssa.Call:
				for _, c := range cur {
					cm := c.m
					pf.cur = &cm
					for _, e := range pf.execCall(x, false, c.g, c.m) {
						ns := pfState{g: e.g, d: c.d, m: e.m}
						ns.m.dropAtom(x)
						if e.rk[0].known || e.rk[1].known {
							ns.m.rc, ns.m.rk = x, e.rk
						} else if ns.m.rc == x {
							ns.m.rc, ns.m.rk = nil, [2]pfRet{}
						}
						next = append(next, ns)
					}
				}
			case *ssa.Return:
				for _, c := range cur {
					for _, g := range pf.Instr(pf, in, false, c.g) {
						if isRoot && pf.Return != nil {
							pf.Return(pf, x, g)
						}
						e := pfExit{g: g, m: c.m}
						for i := 0; i < 2 && i < len(x.Results); i++ {
							e.rk[i] = c09RetConst(x, i)
						}
						if !exitSet[e] {
							exitSet[e] = true
							exits = append(exits, e)
						}
					}
				}
				ended = true
			case *ssa.Panic:
				ended = true
			default:
				for _, c := range cur {
					m := c.m
					if sel, ok := in.(*ssa.Select); ok && sel.Blocking {
						m.atoms = [pfAtoms]pfAtom{} // a wait point: what was observed before is stale
					}
					if st, ok := in.(*ssa.Store); ok {
						m.assign(st)
					}
					if al, ok := in.(*ssa.Alloc); ok && al.Heap {
						m.declare(al)
					}
					pf.cur = &m
					for _, g := range pf.Instr(pf, in, false, c.g) {
						next = append(next, pfState{g: g, d: c.d, m: m})
					}
				}
			}
			if ended {
				break
			}
			cur = c09DedupStates(next)
			if len(cur) == 0 {
				ended = true
				break
			}
		}
		if ended {
			continue
		}
		for _, succ := range b.Succs {
			for _, c := range cur {
				c := c
				if known, val := c.m.evalBranch(b, pf.Resolve); known && (b.Succs[0] == succ) != val && b.Succs[0] != b.Succs[1] {
					continue // the condition has the other constant value on this path
				}
				if pf.Facts != nil {
					pf.Facts.CellVal = c.m.cellVal
					ok := true
					for _, f := range pf.Facts.edgeFacts(b, succ, 0) {
						if call, isCall := f.V.(*ssa.Call); isCall && !f.IsCmp {
							if !c.m.addAtom(call, f.Truth) {
								ok = false
							}
						}
					}
					if !ok {
						pf.Facts.CellVal = nil
						continue // contradicts a call result observed earlier on this path
					}
				}
				gs := []PState{c.g}
				if pf.Edge != nil {
					gs = pf.Edge(pf, b, succ, c.g)
				}
				if pf.Facts != nil {
					pf.Facts.CellVal = nil
				}
				nm := c.m
				nm.enterBlock(b, succ, pf.Resolve)
				for _, g := range gs {
					push(succ.Index, pfState{g: g, d: c.d, m: nm})
				}
			}
		}
	}
	sort.Slice(exits, func(i, j int) bool {
		if exits[i].g.A != exits[j].g.A {
			return exits[i].g.A < exits[j].g.A
		}
		if exits[i].g.B != exits[j].g.B {
			return exits[i].g.B < exits[j].g.B
		}
		if exits[i].rk[0] != exits[j].rk[0] {
			return exits[i].rk[0].val < exits[j].rk[0].val
		}
		return exits[i].rk[1].val < exits[j].rk[1].val
	})
	return exits
}

func c09DedupExits(in []pfExit) []pfExit {
	seen := map[pfExit]bool{}
	var out []pfExit
	for _, v := range in {
		if !seen[v] {
			seen[v] = true
			out = append(out, v)
		}
	}
	return out
}

func c09DedupStates(in []pfState) []pfState {
	seen := map[pfState]bool{}
	var out []pfState
	for _, v := range in {
		if !seen[v] {
			seen[v] = true
			out = append(out, v)
		}
	}
	return out
}

// execCall executes a call (or a deferred call being replayed): the rule sees
// the call instruction first, then the callee body is followed if wanted. A
// call of a function outside the followed set that is handed closures of the
// package (sync.Once.Do, slices.*Func, ...) may run them: both outcomes are
// explored.
func (pf *PathFlow) execCall(ci ssa.CallInstruction, replay bool, g PState, m pfMem) []pfExit {
	var gs []pfExit
	for _, ng := range pf.Instr(pf, ci, replay, g) {
		gs = append(gs, pfExit{g: ng, m: m})
	}
	cal, mc, args := pf.Callee(ci)
	if cal == nil || len(cal.Blocks) == 0 || pf.Follow == nil || !pf.Follow(cal) {
		if cal == nil {
			pf.unresolvedCall(ci)
		} else if len(cal.Blocks) > 0 && pf.Follow != nil && ci.Parent() != nil && cal.Pkg != nil && cal.Pkg == ci.Parent().Pkg {
			pf.problem("call of %s from %s not followed", cal.Name(), ci.Parent().Name())
		}
		// closures handed to an external function
		out := gs
		for _, a := range ci.Common().Args {
			if _, isFunc := a.Type().Underlying().(*types.Signature); !isFunc || pf.Follow == nil {
				continue
			}
			var f *ssa.Function
			var amc *ssa.MakeClosure
			switch x := pf.Resolve(a).(type) {
			case *ssa.Function:
				f = origin(x)
			case *ssa.MakeClosure:
				h, _ := x.Fn.(*ssa.Function)
				f, amc = origin(h), x
			}
			var fargs []ssa.Value
			if f != nil && amc != nil {
				if bt, bargs := c09BoundTarget(f, amc, nil); bt != f {
					f, amc, fargs = bt, nil, bargs
				}
			}
			if f == nil || len(f.Blocks) == 0 || !pf.Follow(f) || pf.onStack(f) {
				continue
			}
			pf.frames = append(pf.frames, pfFrame{fn: f, args: fargs, mc: amc})
			ran := pf.runFunc(f, out, false)
			pf.frames = pf.frames[:len(pf.frames)-1]
			for i := range ran {
				ran[i].rk = [2]pfRet{}
			}
			out = c09DedupExits(append(append([]pfExit{}, out...), ran...))
		}
		return out
	}
	if pf.onStack(cal) {
		pf.problem("recursive call of %s not followed", cal.Name())
		return gs
	}
	if len(pf.frames) > 12 {
		pf.problem("call depth exceeded at %s", cal.Name())
		return gs
	}
	pf.frames = append(pf.frames, pfFrame{fn: cal, args: args, mc: mc})
	out := pf.runFunc(cal, gs, false)
	pf.frames = pf.frames[:len(pf.frames)-1]
	return out
}

func (pf *PathFlow) onStack(f *ssa.Function) bool {
	for _, fr := range pf.frames {
		if fr.fn == f {
			return true
		}
	}
	return false
}

// unresolvedCall: a call through a function value that cannot be followed. It
// is harmless when the value comes from outside the followed code (a result
// of a library call such as a context.CancelFunc, a parameter of the root);
// otherwise the exploration is incomplete.
func (pf *PathFlow) unresolvedCall(ci ssa.CallInstruction) {
	cc := ci.Common()
	if cc.IsInvoke() {
		if cc.Method != nil && ci.Parent() != nil && ci.Parent().Pkg != nil && cc.Method.Pkg() == ci.Parent().Pkg.Pkg && pf.Follow != nil {
			pf.problem("call of interface method %s (several or no implementations in the package) not followed", cc.Method.Name())
		}
		return
	}
	if _, isB := cc.Value.(*ssa.Builtin); isB || pf.RootsOf == nil {
		return
	}
	for _, r := range pf.RootsOf(pf, cc.Value) {
		switch x := r.(type) {
		case *ssa.Extract, *ssa.Call, *ssa.Parameter, *ssa.Const:
			_ = x
		default:
			pf.problem("call through a function value in %s whose target is not known (%s) not followed", ci.Parent().Name(), r.Name())
			return
		}
	}
}

func (m *pfMem) dropAtom(call *ssa.Call) {
	for i := range m.atoms {
		if m.atoms[i].v == call {
			copy(m.atoms[i:], m.atoms[i+1:])
			m.atoms[pfAtoms-1] = pfAtom{}
			return
		}
	}
}

// addAtom records call==t; false if the opposite is already recorded.
func (m *pfMem) addAtom(call *ssa.Call, t bool) bool {
	for i := range m.atoms {
		if m.atoms[i].v == call {
			return m.atoms[i].t == t
		}
	}
	for i := range m.atoms {
		if m.atoms[i].v == nil {
			m.atoms[i] = pfAtom{call, t}
			return true
		}
	}
	copy(m.atoms[0:], m.atoms[1:])
	m.atoms[pfAtoms-1] = pfAtom{call, t}
	return true
}

// assign: a store into a scalar local variable (directly or through the free
// variable of a closure that captured it).
func (m *pfMem) assign(st *ssa.Store) {
	cell := cellOf(st.Addr)
	if cell == nil {
		return
	}
	if _, ok := deref(cell.Type()).Underlying().(*types.Basic); !ok {
		return
	}
	val := st.Val
	// x = x (named results) keeps the value
	if u, ok := val.(*ssa.UnOp); ok && u.Op == token.MUL && cellOf(u.X) == cell {
		return
	}
	for i := range m.cells {
		if m.cells[i].cell == cell {
			m.cells[i].val = val
			return
		}
	}
	for i := range m.cells {
		if m.cells[i].cell == nil {
			m.cells[i] = pfCell{cell, val}
			return
		}
	}
	copy(m.cells[0:], m.cells[1:])
	m.cells[pfCells-1] = pfCell{cell, val}
}

var c09ZeroConsts = map[types.Type]*ssa.Const{}

// declare: a scalar local variable comes into existence holding its zero value
// (`var done bool` that a closure may set later).
func (m *pfMem) declare(al *ssa.Alloc) {
	t := deref(al.Type())
	b, ok := t.Underlying().(*types.Basic)
	if !ok || b.Info()&(types.IsBoolean|types.IsInteger) == 0 {
		return
	}
	z := c09ZeroConsts[t]
	if z == nil {
		if b.Info()&types.IsBoolean != 0 {
			z = ssa.NewConst(constant.MakeBool(false), t)
		} else {
			z = ssa.NewConst(constant.MakeInt64(0), t)
		}
		c09ZeroConsts[t] = z
	}
	for i := range m.cells {
		if m.cells[i].cell == al {
			m.cells[i].val = z
			return
		}
	}
	for i := range m.cells {
		if m.cells[i].cell == nil {
			m.cells[i] = pfCell{al, z}
			return
		}
	}
	copy(m.cells[0:], m.cells[1:])
	m.cells[pfCells-1] = pfCell{al, z}
}

func (m *pfMem) cellVal(cell *ssa.Alloc) ssa.Value {
	for i := range m.cells {
		if m.cells[i].cell == cell {
			return m.cells[i].val
		}
	}
	return nil
}

// evalConst: the constant value v has on this path, if known: a literal, a
// remembered local variable, a constant result of the most recent followed call.
func (m *pfMem) evalConst(v ssa.Value, depth int, res func(ssa.Value) ssa.Value) (constant.Value, bool) {
	if depth > 6 || v == nil {
		return nil, false
	}
	switch x := v.(type) {
	case *ssa.Parameter, *ssa.FreeVar:
		// an argument that is a constant at this call (a mode flag of a merged helper)
		if res != nil {
			if r := res(v); r != v {
				return m.evalConst(r, depth+1, res)
			}
		}
	case *ssa.Const:
		if x.Value != nil {
			return x.Value, true
		}
	case *ssa.ChangeType:
		return m.evalConst(x.X, depth+1, res)
	case *ssa.Convert:
		if _, ok := x.Type().Underlying().(*types.Basic); ok {
			if c, ok := m.evalConst(x.X, depth+1, res); ok && c.Kind() == constant.Int {
				return c, true
			}
		}
	case *ssa.UnOp:
		if x.Op == token.MUL {
			if cell := cellOf(x.X); cell != nil {
				if cv := m.cellVal(cell); cv != nil {
					return m.evalConst(cv, depth+1, res)
				}
			}
		}
		if x.Op == token.NOT {
			if c, ok := m.evalConst(x.X, depth+1, res); ok && c.Kind() == constant.Bool {
				return constant.MakeBool(!constant.BoolVal(c)), true
			}
		}
	case *ssa.Phi:
		for i := range m.ivs {
			if m.ivs[i].phi == x {
				return constant.MakeInt64(m.ivs[i].val), true
			}
		}
	case *ssa.Call:
		if x == m.rc && m.rk[0].known && x.Call.Signature().Results().Len() == 1 {
			return c09MakeConst(x.Type(), m.rk[0].val), true
		}
		if builtinName(x) == "len" && len(x.Call.Args) == 1 {
			// len of a literal table
			a := x.Call.Args[0]
			for i := 0; i < 6; i++ {
				if sl, ok := a.(*ssa.Slice); ok && sl.Low == nil && sl.High == nil {
					a = sl.X
					continue
				}
				if _, isAlloc := a.(*ssa.Alloc); isAlloc || res == nil {
					break
				}
				r := res(a)
				if r == a {
					break
				}
				a = r
			}
			if arr, ok := deref(a.Type()).Underlying().(*types.Array); ok {
				if _, isAlloc := a.(*ssa.Alloc); isAlloc {
					return constant.MakeInt64(arr.Len()), true
				}
			}
		}
	case *ssa.Extract:
		if call, ok := x.Tuple.(*ssa.Call); ok && call == m.rc && x.Index < 2 && m.rk[x.Index].known {
			return c09MakeConst(x.Type(), m.rk[x.Index].val), true
		}
	case *ssa.BinOp:
		switch x.Op {
		case token.ADD, token.SUB:
			a, ok1 := m.evalConst(x.X, depth+1, res)
			b, ok2 := m.evalConst(x.Y, depth+1, res)
			if ok1 && ok2 && a.Kind() == constant.Int && b.Kind() == constant.Int {
				return constant.BinaryOp(a, x.Op, b), true
			}
		case token.EQL, token.NEQ, token.LSS, token.LEQ, token.GTR, token.GEQ:
			a, ok1 := m.evalConst(x.X, depth+1, res)
			b, ok2 := m.evalConst(x.Y, depth+1, res)
			if ok1 && ok2 && a.Kind() == b.Kind() && (a.Kind() == constant.Int || a.Kind() == constant.Bool) {
				if a.Kind() == constant.Bool {
					eq := constant.BoolVal(a) == constant.BoolVal(b)
					if x.Op == token.EQL {
						return constant.MakeBool(eq), true
					}
					if x.Op == token.NEQ {
						return constant.MakeBool(!eq), true
					}
					return nil, false
				}
				return constant.MakeBool(constant.Compare(a, x.Op, b)), true
			}
		}
	}
	return nil, false
}

// enterBlock: along the edge from->to, integer phis of `to` that are the index
// of a counted loop (one constant edge) take the constant that flows in.
func (m *pfMem) enterBlock(from, to *ssa.BasicBlock, res func(ssa.Value) ssa.Value) {
	pi := -1
	for i, p := range to.Preds {
		if p == from {
			pi = i
		}
	}
	if pi < 0 {
		return
	}
	type upd struct {
		phi   *ssa.Phi
		val   int64
		known bool
	}
	var ups []upd
	for _, in := range to.Instrs {
		phi, ok := in.(*ssa.Phi)
		if !ok {
			break
		}
		b, isBasic := phi.Type().Underlying().(*types.Basic)
		if !isBasic || b.Info()&types.IsInteger == 0 {
			continue
		}
		hasConst := false
		for _, e := range phi.Edges {
			if _, isC := e.(*ssa.Const); isC {
				hasConst = true
			}
		}
		if !hasConst {
			continue
		}
		u := upd{phi: phi}
		if c, ok := m.evalConst(phi.Edges[pi], 0, res); ok && c.Kind() == constant.Int {
			if n, exact := constant.Int64Val(c); exact && n > -1000 && n < 1000 {
				u.val, u.known = n, true
			}
		}
		ups = append(ups, u)
	}
	for _, u := range ups {
		for i := range m.ivs {
			if m.ivs[i].phi == u.phi {
				copy(m.ivs[i:], m.ivs[i+1:])
				m.ivs[pfIVs-1] = pfIV{}
				break
			}
		}
		if !u.known {
			continue
		}
		placed := false
		for i := range m.ivs {
			if m.ivs[i].phi == nil {
				m.ivs[i] = pfIV{u.phi, u.val}
				placed = true
				break
			}
		}
		if !placed {
			copy(m.ivs[0:], m.ivs[1:])
			m.ivs[pfIVs-1] = pfIV{u.phi, u.val}
		}
	}
}

// tableArray: v is a literal table (a slice of, or pointer to, an array built
// element by element), possibly reached through a local or captured variable,
// a parameter, or a struct field that is assigned exactly once; returns the array.
func (pf *PathFlow) tableArray(v ssa.Value) *ssa.Alloc {
	for i := 0; i < 6 && v != nil; i++ {
		switch x := v.(type) {
		case *ssa.Slice:
			if x.Low != nil {
				return nil
			}
			v = x.X
			continue
		case *ssa.Alloc:
			if _, ok := deref(x.Type()).Underlying().(*types.Array); ok {
				return x
			}
			return nil
		}
		r := pf.Resolve(v)
		if r == v {
			r = c09SingleStoreField(v, pf.Funcs)
		}
		if r == nil || r == v {
			return nil
		}
		v = r
	}
	return nil
}

// c09SingleStoreField: v loads a struct field that is assigned exactly once
// in funcs (typically by the constructor); returns the stored value.
func c09SingleStoreField(v ssa.Value, funcs []*ssa.Function) ssa.Value {
	u, ok := v.(*ssa.UnOp)
	if !ok || u.Op != token.MUL {
		return nil
	}
	fa, ok := u.X.(*ssa.FieldAddr)
	if !ok {
		return nil
	}
	id := fieldIDOfAddr(fa)
	var val ssa.Value
	n := 0
	for _, fn := range funcs {
		allInstrs(fn, func(in ssa.Instruction) {
			if st, ok := in.(*ssa.Store); ok {
				if sfa, ok := st.Addr.(*ssa.FieldAddr); ok && fieldIDOfAddr(sfa) == id {
					n++
					val = st.Val
				}
			}
		})
	}
	if n == 1 {
		return val
	}
	return nil
}

// tableElem: v loads element k (a constant on this path) of a literal
// array/slice built in the same function; returns the element stored there.
func (pf *PathFlow) tableElem(v ssa.Value) ssa.Value {
	u, ok := v.(*ssa.UnOp)
	if !ok || u.Op != token.MUL || pf.cur == nil {
		return nil
	}
	ia, ok := u.X.(*ssa.IndexAddr)
	if !ok {
		return nil
	}
	c, ok := pf.cur.evalConst(ia.Index, 0, pf.Resolve)
	if !ok || c.Kind() != constant.Int {
		return nil
	}
	idx, _ := constant.Int64Val(c)
	arr := pf.tableArray(ia.X)
	if arr == nil {
		return nil
	}
	var found ssa.Value
	n := 0
	for _, r := range refs(arr) {
		ea, ok := r.(*ssa.IndexAddr)
		if !ok {
			continue
		}
		k, isC := ea.Index.(*ssa.Const)
		if !isC || k.Value == nil || k.Int64() != idx {
			continue
		}
		for _, rr := range refs(ea) {
			if st, ok := rr.(*ssa.Store); ok && st.Addr == ssa.Value(ea) {
				found = st.Val
				n++
			}
		}
	}
	if n == 1 {
		return found
	}
	return nil
}

func c09MakeConst(t types.Type, v int64) constant.Value {
	if c09IsBoolType(t) {
		return constant.MakeBool(v != 0)
	}
	return constant.MakeInt64(v)
}

// evalBranch: the value of the If condition ending block b, if it is a constant on this path.
func (m *pfMem) evalBranch(b *ssa.BasicBlock, res func(ssa.Value) ssa.Value) (known, val bool) {
	if len(b.Instrs) == 0 || len(b.Succs) != 2 {
		return false, false
	}
	ifi, ok := b.Instrs[len(b.Instrs)-1].(*ssa.If)
	if !ok {
		return false, false
	}
	c, ok := m.evalConst(ifi.Cond, 0, res)
	if !ok || c.Kind() != constant.Bool {
		return false, false
	}
	return true, constant.BoolVal(c)
}

// c09RetConst: the constant (bool or integer) a Return returns as result idx on
// the path through its block: a literal, or a named/spilled result stored as a
// constant in the same block.
func c09RetConst(ret *ssa.Return, idx int) pfRet {
	val := func(v ssa.Value) pfRet {
		for i := 0; i < 3; i++ {
			if ct, ok := v.(*ssa.ChangeType); ok {
				v = ct.X
				continue
			}
			if cv, ok := v.(*ssa.Convert); ok {
				v = cv.X
				continue
			}
			break
		}
		c, ok := v.(*ssa.Const)
		if !ok || c.Value == nil {
			return pfRet{}
		}
		switch c.Value.Kind() {
		case constant.Bool:
			if constant.BoolVal(c.Value) {
				return pfRet{true, 1}
			}
			return pfRet{true, 0}
		case constant.Int:
			if n, ok := constant.Int64Val(c.Value); ok {
				return pfRet{true, n}
			}
		}
		return pfRet{}
	}
	if idx >= len(ret.Results) {
		return pfRet{}
	}
	if r := val(ret.Results[idx]); r.known {
		return r
	}
	if u, ok := ret.Results[idx].(*ssa.UnOp); ok && u.Op == token.MUL {
		if slot, ok := u.X.(*ssa.Alloc); ok {
			var last pfRet
			for _, in := range ret.Block().Instrs {
				if st, ok := in.(*ssa.Store); ok && st.Addr == ssa.Value(slot) {
					last = val(st.Val)
				}
			}
			return last
		}
	}
	return pfRet{}
}

// WalkCalls visits every instruction of fn and of the functions it may run
// synchronously (followed like PathFlow does, with known function values
// resolved in context), without flow sensitivity. goToo also descends into the
// bodies of go statements.
func WalkCalls(tmpl *PathFlow, fn *ssa.Function, goToo bool, visit func(pf *PathFlow, in ssa.Instruction)) {
	pf := &PathFlow{Follow: tmpl.Follow, Funcs: tmpl.Funcs, RootsOf: tmpl.RootsOf}
	pf.frames = []pfFrame{{fn: fn}}
	pf.walk(fn, goToo, visit)
}

// WalkFrom is WalkCalls starting in the context pf is currently in.
func (pf *PathFlow) WalkFrom(ci ssa.CallInstruction, goToo bool, visit func(pf *PathFlow, in ssa.Instruction)) {
	cal, mc, args := pf.Callee(ci)
	if cal == nil || len(cal.Blocks) == 0 || pf.Follow == nil || !pf.Follow(cal) {
		return
	}
	sub := &PathFlow{Follow: pf.Follow, Funcs: pf.Funcs, RootsOf: pf.RootsOf}
	sub.frames = append(append([]pfFrame{}, pf.frames...), pfFrame{fn: cal, args: args, mc: mc})
	sub.walk(cal, goToo, visit)
}

func (pf *PathFlow) walk(fn *ssa.Function, goToo bool, visit func(pf *PathFlow, in ssa.Instruction)) {
	for _, b := range fn.Blocks {
		if b != fn.Blocks[0] && len(b.Preds) == 0 {
			continue
		}
		for _, in := range b.Instrs {
			visit(pf, in)
			ci, ok := in.(ssa.CallInstruction)
			if !ok {
				continue
			}
			if _, isGo := in.(*ssa.Go); isGo && !goToo {
				continue
			}
			cal, mc, args := pf.Callee(ci)
			if cal == nil || len(cal.Blocks) == 0 || pf.Follow == nil || !pf.Follow(cal) {
				// closures handed to a function outside the followed set (sync.Once.Do, ...)
				if pf.Follow != nil {
					for _, a := range ci.Common().Args {
						if _, isFunc := a.Type().Underlying().(*types.Signature); !isFunc {
							continue
						}
						var f *ssa.Function
						var amc *ssa.MakeClosure
						switch x := pf.Resolve(a).(type) {
						case *ssa.Function:
							f = origin(x)
						case *ssa.MakeClosure:
							h, _ := x.Fn.(*ssa.Function)
							f, amc = origin(h), x
						}
						var fargs []ssa.Value
						if f != nil && amc != nil {
							if bt, bargs := c09BoundTarget(f, amc, nil); bt != f {
								f, amc, fargs = bt, nil, bargs
							}
						}
						if f == nil || len(f.Blocks) == 0 || !pf.Follow(f) || pf.onStack(f) || len(pf.frames) > 12 {
							continue
						}
						pf.frames = append(pf.frames, pfFrame{fn: f, args: fargs, mc: amc})
						pf.walk(f, goToo, visit)
						pf.frames = pf.frames[:len(pf.frames)-1]
					}
				}
				continue
			}
			rec := false
			for _, fr := range pf.frames {
				if fr.fn == cal {
					rec = true
				}
			}
			if rec || len(pf.frames) > 12 {
				continue
			}
			pf.frames = append(pf.frames, pfFrame{fn: cal, args: args, mc: mc})
			pf.walk(cal, goToo, visit)
			pf.frames = pf.frames[:len(pf.frames)-1]
		}
	}
}
