package main

import (
	"fmt"
	"go/token"
	"go/types"
	"strings"

	"golang.org/x/tools/go/ssa"
)

// C13 — lock primitives.

func init() { register("C13", checkC13) }

func checkC13(c *Ctx) {
	r, p := c.R, c.P
	r.Explanation = "Decides structural necessary conditions of C13: (G) the per-key tables fifoMap.items / mapItem.ilen, cmap.mutex.items and OuterCancel.rcancels/rcancelx are only touched under their table lock; (B) a blocking acquisition of a per-key lock never happens while the table lock is held; (RC) an entry of a per-key lock table is removed only under a 'no holders or waiters' test (refcount == 0) — without it a waiter that already looked the lock up and a later arrival that creates a fresh one hold the same key together; (P) fifoMap.Lock counts the caller in exactly once before blocking and Unlock counts it out exactly once; (CAP) the channel mutexes (fifo.Mutex.lock, lock.Context.locked, OuterCancel.lock) are created with capacity exactly 1 and Lock sends / Unlock receives unconditionally; (CTX) lock.Context: a return of the context error holds neither token nor RWMutex, a nil return holds both, Unlock/RUnlock release both; (OC) OuterCancel.handleHold: every return has either released the slot or handed its release out in the response's cancel closure, the writer grant is preceded by the cancel fan-out and wg.Wait, the reader's wg.Add(1) happens with the slot held, rcancel does wg.Done only under !done and sets done, rcancelGrace calls rcancel only after its three-way wait on time.After(gracefulTimeout)/closeCh/doneCh, and readers are cancelled with cancelErr. NOT decided: mutual exclusion and FIFO order as runtime facts (FIFO rests on the Go runtime's channel queue order), cancellation causes over all histories, grace timing."
	r.Assumptions = append(r.Assumptions, "type-based lock identity: all per-key locks of one table are one abstract lock", "blocked senders on a channel are served in arrival order by the Go runtime (FIFO claim rests on this; not analysed)")
	r.Rule("C13.G-guard", "per-key tables and refcounts only under the table lock", 12)
	r.Rule("C13.DC-double-checked-create", "a per-key lock is inserted into the table only in the critical section that (re-)checked its absence", 10)
	r.Rule("C13.B-blocking-outside", "blocking per-key Lock/RLock is called with the table lock released", 3)
	r.Rule("C13.RC-refcount-removal", "per-key entry removed only under a refcount==0 (no holders or waiters) test", 3)
	r.Rule("C13.P-count-pairing", "fifoMap.Lock increments ilen exactly once before blocking; Unlock decrements exactly once", 2)
	r.Rule("C13.CAP-chan-mutex", "channel mutexes have capacity 1; Lock sends, Unlock receives, unconditionally", 5)
	r.Rule("C13.CTX-context-lock", "lock.Context: error return holds nothing, nil return holds token+RWMutex; unlock releases both", 4)
	r.Rule("C13.OC-outercancel", "OuterCancel hold handling: slot released or handed out per path; writer waits for readers; reader accounting once", 7)

	mod := p.ModPath
	fifo := mod + "/concurrency/fifo"
	cm := mod + "/concurrency/cmap"
	lk := mod + "/concurrency/lock"
	e := c.Locks()

	specs := []GuardSpec{
		{Field: FieldID{fifo + ".fifoMap", "items"}, Lock: fifo + ".fifoMap.lock"},
		{Field: FieldID{fifo + ".mapItem", "ilen"}, Lock: fifo + ".fifoMap.lock"},
		{Field: FieldID{cm + ".mutex", "items"}, Lock: cm + ".mutex.lock"},
		{Field: FieldID{lk + ".OuterCancel", "rcancels"}, Lock: lk + ".OuterCancel.rcancelLock"},
		{Field: FieldID{lk + ".OuterCancel", "rcancelx"}, Lock: lk + ".OuterCancel.rcancelLock"},
	}
	CheckGuardedBy(p, e, r, "C13.G-guard", specs)
	// creation of a per-key lock is double-checked: the section that inserts
	// re-reads the table under the write lock (otherwise two first-time lockers
	// of one key each install and lock their own mutex)
	CheckSingleSection(p, e, r, "C13.DC-double-checked-create", []GuardSpec{specs[0], specs[2]})

	// B: blocking per-key acquisition outside the table lock
	perKey := map[string]string{
		fifo + ".mapItem.mutex": fifo + ".fifoMap.lock",
		cm + ".mutex.items[]":   cm + ".mutex.lock",
	}
	for _, fn := range p.Funcs {
		allInstrs(fn, func(in ssa.Instruction) {
			call, ok := in.(*ssa.Call)
			if !ok {
				return
			}
			id, kind, ok := e.lockOp(call)
			if !ok || (kind != opLock && kind != opRLock) {
				return
			}
			table, isPerKey := perKey[id]
			if !isPerKey {
				return
			}
			held := e.At(call)[table]
			r.Check(held == ModeNone, "C13.B-blocking-outside", fmt.Sprintf("%s blocking %s", FuncName(p, fn), shortID(id)), p.Pos(call.Pos()),
				"table lock released before blocking on the per-key lock", "blocks on the per-key lock while holding the table lock "+shortID(table)+": every other key is stalled and an Unlock that needs the table lock can never run (deadlock)")
		})
	}

	// RC: refcount-guarded removal
	tables := map[FieldID]FieldID{ // table field -> refcount field (zero value = none exists)
		{fifo + ".fifoMap", "items"}: {fifo + ".mapItem", "ilen"},
		{cm + ".mutex", "items"}:     {},
	}
	outside := map[string]string{
		"concurrency/cmap.mutex.Delete": "bare Delete is outside the statement's quantifier (acquire, release, delete-and-release, cancellation); documented as 'removes the mutex'",
		"concurrency/cmap.mutex.Clear":  "bare Clear is outside the statement's quantifier; documented as 'removes all mutexes'",
	}
	for _, fn := range p.Funcs {
		fname := FuncName(p, fn)
		for _, a := range FieldAccesses(fn, func(id FieldID) bool { _, ok := tables[id]; return ok }) {
			if a.Fresh || a.Kind != AccWrite {
				continue
			}
			if a.What != "delete" && a.What != "clear" && a.What != "store" {
				continue // map update = insertion
			}
			rc := tables[a.ID]
			guarded := false
			if rc.Field != "" {
				for _, dc := range domConds(a.Instr.Block()) {
					if cmp, ok := decodeCond(dc.If.Cond, dc.Branch); ok && cmp.Op == token.EQL {
						if id, _, ok := fieldOfValue(cmp.X); ok && id == rc {
							if k, ok := cmp.Y.(*ssa.Const); ok && k.Value != nil && k.Uint64() == 0 {
								guarded = true
							}
						}
					}
				}
			}
			construct := fname + " removes " + a.ID.String()
			if why, ok := outside[fname]; ok && !guarded {
				r.Note("C13.RC: %s (%s at %s) drops per-key entries without a holders/waiters test — not armed: %s", fname, a.What, p.Pos(instrPos(a.Instr)), why)
				continue
			}
			r.Check(guarded, "C13.RC-refcount-removal", construct, p.Pos(instrPos(a.Instr)),
				"removal dominated by "+rc.String()+" == 0", "per-key lock entry is removed ("+a.What+") without a 'no holders or waiters' test: a goroutine that already looked the lock up and a later arrival that creates a fresh lock hold the same key at once")
		}
	}

	c13Pairing(c, fifo)
	c13ChanMutex(c, fifo, lk)
	c13ContextLock(c, lk)
	c13OuterCancel(c, lk)

	c.Fixture("locks", func(fp *Prog, fr *Report) {
		fe := NewLockEngine(fp)
		fe.Run()
		CheckGuardedBy(fp, fe, fr, "guard", fixtureLockSpecs(fp.ModPath))
		CheckSingleSection(fp, fe, fr, "section", fixtureLockSpecs(fp.ModPath))
	})
}

// countStores classifies a store to field f: +1, -1 or 0 (other).
func refDelta(st *ssa.Store, f FieldID) int {
	fa, ok := st.Addr.(*ssa.FieldAddr)
	if !ok || fieldIDOfAddr(fa) != f {
		return 0
	}
	bo, ok := st.Val.(*ssa.BinOp)
	if !ok {
		return 99
	}
	id, _, ok := fieldOfValue(bo.X)
	k, isK := bo.Y.(*ssa.Const)
	if !ok || id != f || !isK || k.Value == nil || k.Uint64() != 1 {
		return 99
	}
	switch bo.Op {
	case token.ADD:
		return 1
	case token.SUB:
		return -1
	}
	return 99
}

func c13Pairing(c *Ctx, fifo string) {
	r, p, e := c.R, c.P, c.Locks()
	ilen := FieldID{fifo + ".mapItem", "ilen"}
	for _, spec := range []struct {
		name  string
		delta int
	}{{"fifoMap.Lock", 1}, {"fifoMap.Unlock", -1}} {
		fn := p.Func("concurrency/fifo", spec.name)
		// abstract state: number of matching stores so far: 0,1,2(+); 3 = a store of another shape
		ff := &FlagFlow{Fn: fn, Must: false, Entry: 1 << 0, Transfer: func(in ssa.Instruction, st uint64) uint64 {
			s, ok := in.(*ssa.Store)
			if !ok {
				return st
			}
			d := refDelta(s, ilen)
			if d == 0 {
				return st
			}
			return mapStates(st, func(n int) int {
				if d != spec.delta || n == 3 {
					return 3
				}
				if n >= 2 {
					return 2
				}
				return n + 1
			})
		}}
		ff.Run()
		construct := "concurrency/fifo." + spec.name + " ilen"
		ok := true
		why := ""
		n := 0
		check := func(in ssa.Instruction, what string) {
			st, reach := ff.Before(in)
			if !reach {
				return
			}
			n++
			if st != 1<<1 {
				ok = false
				why = fmt.Sprintf("at %s (%s) the caller has been counted %s times (must be exactly once on every path)", p.Pos(instrPos(in)), what, stateSetString(st))
			}
		}
		if spec.delta == 1 {
			// at the blocking per-key lock
			allInstrs(fn, func(in ssa.Instruction) {
				if call, ok := in.(*ssa.Call); ok {
					if id, kind, ok := e.lockOp(call); ok && kind == opLock && id == fifo+".mapItem.mutex" {
						check(in, "blocking per-key Lock")
					}
				}
			})
		}
		ff.AtReturns(func(ret *ssa.Return, st uint64) { check(ret, "return") })
		if n == 0 {
			ok, why = false, "no per-key lock acquisition / return found"
		}
		r.Check(ok, "C13.P-count-pairing", construct, p.Pos(fn.Pos()), "holder/waiter count adjusted exactly once on every path", why)
	}
}

func stateSetString(st uint64) string {
	var parts []string
	names := []string{"0", "1", "2+", "other-store"}
	for i, n := range names {
		if st&(1<<uint(i)) != 0 {
			parts = append(parts, n)
		}
	}
	return "{" + strings.Join(parts, ",") + "}"
}

// c13ChanMutex: capacity-1 channel mutexes.
func c13ChanMutex(c *Ctx, fifo, lk string) {
	r, p := c.R, c.P
	chans := []FieldID{{fifo + ".Mutex", "lock"}, {lk + ".Context", "locked"}, {lk + ".OuterCancel", "lock"}}
	for _, f := range chans {
		n := 0
		for _, fn := range p.Funcs {
			allInstrs(fn, func(in ssa.Instruction) {
				st, ok := in.(*ssa.Store)
				if !ok {
					return
				}
				fa, ok := st.Addr.(*ssa.FieldAddr)
				if !ok || fieldIDOfAddr(fa) != f {
					return
				}
				n++
				mc, isMake := st.Val.(*ssa.MakeChan)
				capOK := false
				if isMake {
					if k, ok := mc.Size.(*ssa.Const); ok && k.Value != nil && k.Int64() == 1 {
						capOK = true
					}
				}
				r.Check(capOK, "C13.CAP-chan-mutex", FuncName(p, fn)+" makes "+f.String(), p.Pos(instrPos(in)),
					"channel used as mutex slot has capacity 1", "the channel used as the mutex slot is not created with capacity exactly 1 (capacity k admits k holders; 0 deadlocks)")
			})
		}
		if n == 0 {
			r.Undecide("no initialisation of %s found", f)
		}
	}
	// fifo.Mutex.Lock: unconditional send; Unlock: unconditional receive
	mf := FieldID{fifo + ".Mutex", "lock"}
	chID := "field:" + mf.Type + "." + mf.Field
	for _, spec := range []struct{ name, kind string }{{"Mutex.Lock", "send"}, {"Mutex.Unlock", "recv"}} {
		fn := p.Func("concurrency/fifo", spec.name)
		ff := &FlagFlow{Fn: fn, Must: true, Transfer: func(in ssa.Instruction, st uint64) uint64 {
			switch x := in.(type) {
			case *ssa.Send:
				if spec.kind == "send" && chanIdent(x.Chan) == chID {
					return st | 1
				}
			case *ssa.UnOp:
				if spec.kind == "recv" && x.Op == token.ARROW && chanIdent(x.X) == chID {
					return st | 1
				}
			}
			return st
		}}
		ff.Run()
		ok, n := true, 0
		ff.AtReturns(func(ret *ssa.Return, st uint64) {
			n++
			if st&1 == 0 {
				ok = false
			}
		})
		r.Check(ok && n > 0, "C13.CAP-chan-mutex", "concurrency/fifo."+spec.name, p.Pos(fn.Pos()),
			"every return is preceded by a blocking "+spec.kind+" on the slot", "a path returns without the blocking "+spec.kind+" on Mutex.lock (lock not acquired / not released, or made non-blocking)")
	}
}

// c13ContextLock: lock.Context.
func c13ContextLock(c *Ctx, lk string) {
	r, p, e := c.R, c.P, c.Locks()
	tok := "field:" + lk + ".Context.locked"
	rw := lk + ".Context.lock"
	const (
		fTok = 1 << iota
		fRW
	)
	for _, name := range []string{"Context.Lock", "Context.RLock"} {
		fn := p.Func("concurrency/lock", name)
		run := func(must bool) *FlagFlow {
			ff := &FlagFlow{Fn: fn, Must: must,
				Transfer: func(in ssa.Instruction, st uint64) uint64 {
					switch x := in.(type) {
					case *ssa.Send:
						if chanIdent(x.Chan) == tok {
							return st | fTok
						}
					case *ssa.Call:
						if id, kind, ok := e.lockOp(x); ok && id == rw && (kind == opLock || kind == opRLock) {
							return st | fRW
						}
					}
					return st
				},
				EdgeTransfer: func(from, to *ssa.BasicBlock, st uint64) uint64 {
					if si, ks := selectEdgeCases(from, to); si != nil {
						for _, k := range ks {
							if k < len(si.Cases) && si.Cases[k].Dir == types.SendOnly && si.Cases[k].Chan == tok {
								return st | fTok
							}
						}
					}
					return st
				}}
			ff.Run()
			return ff
		}
		must, may := run(true), run(false)
		ok, why, n := true, "", 0
		must.AtReturns(func(ret *ssa.Return, st uint64) {
			n++
			mayst, _ := may.Before(ret)
			if len(ret.Results) != 1 {
				return
			}
			if isNilConst(ret.Results[0]) {
				if st&(fTok|fRW) != fTok|fRW {
					ok, why = false, "a path returns nil (acquired) at "+p.Pos(ret.Pos())+" without holding both the token and the RWMutex"
				}
			} else if mayst&(fTok|fRW) != 0 {
				ok, why = false, "a path returns an error at "+p.Pos(ret.Pos())+" while it may hold the token or the RWMutex (an acquisition that reports an error must hold nothing)"
			}
		})
		r.Check(ok && n >= 2, "C13.CTX-context-lock", "concurrency/lock."+name, p.Pos(fn.Pos()), "nil return holds token+RWMutex, error return holds nothing", why)
	}
	for _, name := range []string{"Context.Unlock", "Context.RUnlock"} {
		fn := p.Func("concurrency/lock", name)
		ff := &FlagFlow{Fn: fn, Must: true, Transfer: func(in ssa.Instruction, st uint64) uint64 {
			switch x := in.(type) {
			case *ssa.UnOp:
				if x.Op == token.ARROW && chanIdent(x.X) == tok {
					return st | fTok
				}
			case *ssa.Call:
				if id, kind, ok := e.lockOp(x); ok && id == rw {
					want := opUnlock
					if name == "Context.RUnlock" {
						want = opRUnlock
					}
					if kind == want {
						return st | fRW
					}
				}
			}
			return st
		}}
		ff.Run()
		ok := true
		ff.AtReturns(func(ret *ssa.Return, st uint64) {
			if st&(fTok|fRW) != fTok|fRW {
				ok = false
			}
		})
		r.Check(ok, "C13.CTX-context-lock", "concurrency/lock."+name, p.Pos(fn.Pos()), "releases the RWMutex (matching mode) and the token on every path", "a path returns without releasing both the RWMutex (in the matching mode) and the token")
	}
}

// c13OuterCancel: OuterCancel.handleHold and its closures.
func c13OuterCancel(c *Ctx, lk string) {
	r, p := c.R, c.P
	hh := p.Func("concurrency/lock", "OuterCancel.handleHold")
	slot := "field:" + lk + ".OuterCancel.lock"
	closeCh := "field:" + lk + ".OuterCancel.closeCh"

	// closures of handleHold that receive from the slot (release closures)
	releases := map[*ssa.Function]bool{}
	for _, an := range hh.AnonFuncs {
		allInstrs(an, func(in ssa.Instruction) {
			if u, ok := in.(*ssa.UnOp); ok && u.Op == token.ARROW && chanIdent(u.X) == slot {
				releases[an] = true
			}
		})
	}
	// abstract state bits: held(1) handed(2) waited(4) fanout(8) added(16)
	const (
		held = 1 << iota
		handed
		waited
		fanout
	)
	enc := func(h, d, w, f bool) int {
		s := 0
		if h {
			s |= held
		}
		if d {
			s |= handed
		}
		if w {
			s |= waited
		}
		if f {
			s |= fanout
		}
		return s
	}
	_ = enc
	var sendViol []string
	ff := &FlagFlow{Fn: hh, Must: false, Entry: 1 << 0,
		Transfer: func(in ssa.Instruction, st uint64) uint64 {
			switch x := in.(type) {
			case *ssa.Send:
				if chanIdent(x.Chan) == slot {
					return mapStates(st, func(s int) int { return s | held })
				}
			case *ssa.UnOp:
				if x.Op == token.ARROW && chanIdent(x.X) == slot {
					return mapStates(st, func(s int) int { return s &^ held })
				}
			case *ssa.MakeClosure:
				if f, ok := x.Fn.(*ssa.Function); ok && releases[f] {
					// only counts if it ends up in a holdresp.cancel field
					for _, rr := range refs(x) {
						if ct, ok := rr.(*ssa.ChangeType); ok {
							for _, r2 := range refs(ct) {
								if st2, ok := r2.(*ssa.Store); ok {
									if fa, ok := st2.Addr.(*ssa.FieldAddr); ok && fieldIDOfAddr(fa).Field == "cancel" {
										return mapStates(st, func(s int) int { return s | handed })
									}
								}
							}
						}
					}
				}
			case *ssa.Call:
				if callIs(x, "sync", "WaitGroup", "Wait") {
					return mapStates(st, func(s int) int { return s | waited })
				}
			case *ssa.Range:
				// for _, cancel := range o.rcancels { go cancel() }: the fan-out is
				// the loop itself (it may run zero times when there is no reader)
				if id, _, ok := fieldOfValue(x.X); ok && id.Field == "rcancels" && rangeSpawnsValues(x) {
					return mapStates(st, func(s int) int { return s | fanout })
				}
			}
			return st
		},
		EdgeTransfer: func(from, to *ssa.BasicBlock, st uint64) uint64 {
			if si, ks := selectEdgeCases(from, to); si != nil {
				for _, k := range ks {
					if k < len(si.Cases) && si.Cases[k].Dir == types.SendOnly && si.Cases[k].Chan == slot {
						return mapStates(st, func(s int) int { return s | held })
					}
				}
			}
			return st
		}}
	ff.Run()
	_ = sendViol
	// (1) at every return: !held || handed
	ok1, why1, nret := true, "", 0
	ff.AtReturns(func(ret *ssa.Return, st uint64) {
		nret++
		for s := 0; s < 16; s++ {
			if st&(1<<uint(s)) != 0 && s&held != 0 && s&handed == 0 {
				ok1 = false
				why1 = "handleHold can return at " + p.Pos(ret.Pos()) + " still occupying the hold slot without handing its release to the caller: every later Lock/RLock blocks forever"
			}
		}
	})
	r.Check(ok1 && nret >= 3, "C13.OC-outercancel", "concurrency/lock.OuterCancel.handleHold slot-per-path", p.Pos(hh.Pos()), "each return released the slot or handed out its release", why1)

	// (2) grants: sends on hold.respCh of a holdresp with cancel set
	nGrantW, nGrantR := 0, 0
	allInstrs(hh, func(in ssa.Instruction) {
		snd, ok := in.(*ssa.Send)
		if !ok || !strings.HasSuffix(chanIdent(snd.Chan), ".hold.respCh") {
			return
		}
		al, ok := snd.X.(*ssa.Alloc)
		if !ok {
			return
		}
		fields := map[string]bool{}
		for _, rr := range refs(al) {
			if fa, ok := rr.(*ssa.FieldAddr); ok {
				for _, r2 := range refs(fa) {
					if _, ok := r2.(*ssa.Store); ok {
						fields[fieldIDOfAddr(fa).Field] = true
					}
				}
			}
		}
		st, _ := ff.Before(snd)
		switch {
		case fields["err"]:
			// refusal: must not hold the slot
			bad := false
			for s := 0; s < 16; s++ {
				if st&(1<<uint(s)) != 0 && s&held != 0 {
					bad = true
				}
			}
			r.Check(!bad, "C13.OC-outercancel", "concurrency/lock.OuterCancel.handleHold refusal", p.Pos(snd.Pos()), "an acquisition that reports an error holds nothing", "the error response is sent while the slot may be held")
		case fields["cancel"] && !fields["rctx"]:
			nGrantW++
			bad := ""
			for s := 0; s < 16; s++ {
				if st&(1<<uint(s)) == 0 {
					continue
				}
				if s&held == 0 {
					bad = "without holding the slot"
				} else if s&waited == 0 {
					bad = "without waiting for the readers (wg.Wait)"
				} else if s&fanout == 0 {
					bad = "without cancelling the current readers first"
				}
			}
			r.Check(bad == "", "C13.OC-outercancel", "concurrency/lock.OuterCancel.handleHold writer grant", p.Pos(snd.Pos()), "writer is granted with the slot held, after the cancel fan-out and wg.Wait()", "the writer can be granted "+bad)
		case fields["cancel"] && fields["rctx"]:
			nGrantR++
			bad := false
			for s := 0; s < 16; s++ {
				if st&(1<<uint(s)) != 0 && s&held == 0 {
					bad = true
				}
			}
			r.Check(!bad, "C13.OC-outercancel", "concurrency/lock.OuterCancel.handleHold reader grant", p.Pos(snd.Pos()), "reader is admitted only while handleHold occupies the slot (so never while a writer holds it)", "a reader can be admitted without passing through the slot a writer keeps occupied")
		}
	})
	if nGrantW == 0 || nGrantR == 0 {
		r.Violation("C13.OC-outercancel", "concurrency/lock.OuterCancel.handleHold grants", p.Pos(hh.Pos()), "writer/reader grant sends on hold.respCh no longer found")
	}

	// (3) closures: rcancel (wg.Done under !done, sets done, cancels with cancelErr) and rcancelGrace (three-way wait dominates rcancel call)
	var rcancel, grace *ssa.Function
	for _, an := range hh.AnonFuncs {
		hasDone, hasSel := false, false
		allInstrs(an, func(in ssa.Instruction) {
			if call, ok := in.(*ssa.Call); ok && callIs(call, "sync", "WaitGroup", "Done") {
				hasDone = true
			}
			if sel, ok := in.(*ssa.Select); ok && sel.Blocking {
				hasSel = true
			}
		})
		if hasDone {
			rcancel = an
		} else if hasSel {
			grace = an
		}
	}
	if rcancel == nil || grace == nil {
		r.Violation("C13.OC-outercancel", "concurrency/lock.OuterCancel.handleHold closures", p.Pos(hh.Pos()), "reader release closure (wg.Done) or grace closure (three-way select) not found")
		return
	}
	// rcancel: wg.Done dominated by !done edge; store done=true after; cancel(cause) with cancelErr; delete from rcancels; all under rcancelLock
	e := c.Locks()
	okDone, okSet, okCause, okDel := false, false, false, false
	allInstrs(rcancel, func(in ssa.Instruction) {
		switch x := in.(type) {
		case *ssa.Call:
			if callIs(x, "sync", "WaitGroup", "Done") {
				for _, dc := range domConds(x.Block()) {
					// cond: !done  (UnOp NOT of load of freevar done) true branch, or done false branch
					v, br := dc.If.Cond, dc.Branch
					if u, ok := v.(*ssa.UnOp); ok && u.Op == token.NOT {
						v, br = u.X, !br
					}
					if ld, ok := v.(*ssa.UnOp); ok && ld.Op == token.MUL && !br {
						if fv, ok := ld.X.(*ssa.FreeVar); ok && fv.Name() == "done" {
							okDone = e.At(x)[lk+".OuterCancel.rcancelLock"] == ModeW
						}
					}
				}
			}
			if builtinName(x) == "delete" {
				if id, _, ok := fieldOfValue(x.Call.Args[0]); ok && id.Field == "rcancels" {
					okDel = true
				}
			}
			// cancel(o.cancelErr): dynamic call of a CancelCauseFunc with arg loaded from cancelErr
			if !x.Call.IsInvoke() && len(x.Call.Args) == 1 {
				if id, _, ok := fieldOfValue(x.Call.Args[0]); ok && id.Field == "cancelErr" {
					okCause = true
				}
			}
		case *ssa.Store:
			if fv, ok := x.Addr.(*ssa.FreeVar); ok && fv.Name() == "done" {
				if k, ok := x.Val.(*ssa.Const); ok && k.Value != nil && k.Value.String() == "true" {
					okSet = true
				}
			}
		}
	})
	r.Check(okDone && okSet && okDel, "C13.OC-outercancel", "concurrency/lock.OuterCancel.handleHold rcancel once", p.Pos(rcancel.Pos()),
		"wg.Done/delete happen only under !done, with rcancelLock held, and done is set", "the reader release is not idempotent: wg.Done can run twice (negative WaitGroup counter / writer admitted early) or the reader's cancel entry is not removed")
	r.Check(okCause, "C13.OC-outercancel", "concurrency/lock.OuterCancel.handleHold rcancel cause", p.Pos(rcancel.Pos()),
		"reader context cancelled with OuterCancel.cancelErr", "the reader's context is not cancelled with the configured cause")
	// grace: call of rcancel dominated by the blocking select with 3 cases
	okGrace := false
	why := "rcancelGrace does not wait on {time.After(gracefulTimeout), closeCh, doneCh} before cancelling the reader"
	allInstrs(grace, func(in ssa.Instruction) {
		sel, ok := in.(*ssa.Select)
		if !ok || !sel.Blocking {
			return
		}
		si := decodeSelect(sel)
		hasClose, hasDoneCh, hasAfter := false, false, false
		for _, cs := range si.Cases {
			if cs.Dir != types.RecvOnly {
				continue
			}
			if cs.Chan == closeCh {
				hasClose = true
			}
			if strings.Contains(cs.Chan, "doneCh") {
				hasDoneCh = true
			}
			if call, ok := cs.ChanV.(*ssa.Call); ok && callIs(call, "time", "", "After") {
				if id, _, ok := fieldOfValue(call.Call.Args[0]); ok && id.Field == "gracefulTimeout" {
					hasAfter = true
				}
			}
		}
		if !(hasClose && hasDoneCh && hasAfter) {
			return
		}
		// every dynamic call (rcancel()) in grace must be dominated by the select
		all := true
		allInstrs(grace, func(j ssa.Instruction) {
			if call, ok := j.(*ssa.Call); ok && call != nil && !call.Call.IsInvoke() && staticCallee(call) == nil && builtinName(call) == "" {
				if _, isAfter := call.Call.Value.(*ssa.Function); !isAfter && !instrDominates(sel, j) {
					all = false
				}
			}
		})
		okGrace = all
	})
	r.Check(okGrace, "C13.OC-outercancel", "concurrency/lock.OuterCancel.handleHold rcancelGrace wait", p.Pos(grace.Pos()), "reader cancelled by a writer only after gracefulTimeout, shutdown or its own release", why)
}

// rangeSpawnsValues: the loop over rg starts `go v()` for the ranged values.
func rangeSpawnsValues(rg *ssa.Range) bool {
	found := false
	for _, r := range refs(rg) {
		nx, ok := r.(*ssa.Next)
		if !ok {
			continue
		}
		for _, r2 := range refs(nx) {
			ex, ok := r2.(*ssa.Extract)
			if !ok || ex.Index != 2 {
				continue
			}
			for _, r3 := range refs(ex) {
				if g, ok := r3.(*ssa.Go); ok && g.Call.Value == ex {
					found = true
				}
				if cl, ok := r3.(*ssa.Call); ok && cl.Call.Value == ex {
					found = true
				}
			}
		}
	}
	return found
}
