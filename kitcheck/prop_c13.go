package main

import (
	"fmt"
	"go/constant"
	"go/token"
	"go/types"
	"sort"
	"strings"

	"golang.org/x/tools/go/ssa"
)

// C13 — lock primitives.
//
// Every construct is found by role (c13roles.go) and every path rule runs on
// the path explorer (c13explore.go), which follows same-module callees,
// closures, bound methods and deferred calls as if they were written inline.

func init() { register("C13", checkC13) }

func checkC13(c *Ctx) {
	r, p := c.R, c.P
	r.Explanation = "Decides structural necessary conditions of C13. Constructs are resolved by role from the exported API (fifo.Mutex/New/NewMap, cmap.NewMutex, lock.Context, lock.OuterCancel and their exported methods) through types and dataflow (also inside nested unexported helper structs), never by unexported names. Path rules run on a path-sensitive explorer that follows, as if inlined, same-module callees, closures, method values/expressions, func-typed fields and package variables assigned once, elements of literal tables (counted loops unrolled), interface calls with a known or single implementation, the argument of sync.Once.Do, range-over-func loops (yield body zero times and once for maps/slices iterators), deferred calls and goroutines spawned while a request is handled, and resolves values along the path (phis, parameters, bindings, call results, variable cells, fields of local structs). (G) the per-key tables of the fifo map and the cmap mutex map, the fifo entry count (when entries are held by pointer) and OuterCancel's reader table/index are only touched under their table lock; loading a never-reassigned map field itself needs no lock; (DC) a per-key lock is inserted only while the table write lock is held and the key was observed absent under that same hold (writing back the entry looked up under the same hold is not an insertion); (B) Lock/RLock of the maps acquire a per-key lock in the required mode on every returning path and never while the table lock is held; (RC) an entry is removed only under a count==0 observation (or ==1 followed by the decrement) of the current count made under the same hold (the cmap map keeps no count: DeleteUnlock/DeleteRUnlock are known findings, bare Delete/Clear are NOTE only); (P) the fifo map's Lock counts the caller in exactly once, in the critical section that looked the entry up, before blocking, and Unlock counts it out exactly once (entries held by value: the adjusted copy is written back); (CAP) the channel mutexes are created with capacity exactly 1 (traced to their make through constants, helpers and parameters) and fifo.Mutex.Lock sends / Unlock receives on every path; (CTX) lock.Context: a nil return holds token+RWMutex, any other return holds nothing, an error return exists, Unlock/RUnlock release both; (OC) OuterCancel's request loop: at the end of every request the slot is released or its release was handed out in the response and the loop never receives from the slot while not occupying it, an error response is sent holding nothing, the writer grant is sent with the slot held after the cancel fan-out and a wg.Wait made while holding the slot, a reader is counted in (wg.Add(1)) while the loop occupies the slot before it is answered, the reader release does wg.Done at most once (a state location observed and changed under one hold of the table lock, sync.Once, an atomic swap/CAS or a closed-channel test), removes its table entry and cancels with the configured cause before the wg.Done that lets the writer go, the function registered in the reader table reaches the cancellation only after a blocking wait on {timer(gracefulTimeout) started in that function, shutdown channel, channel closed by the release}, the loop's wait for the slot on behalf of a request that may carry a context is a select that also has that context's Done channel (requests known to carry none wait unconditionally), every exported requester that is given a context hands its request over in a select that also has that context's Done channel, and every exported requester (Lock/RLock), once its request was handed to the loop, receives the reply before returning (or leaves through the shutdown case). Unresolved roles, unrecognised shapes and calls that cannot be followed give UNDECIDED, never VIOLATION. NOT decided: mutual exclusion and FIFO order as runtime facts (FIFO rests on the Go runtime's channel queue order), cancellation causes over all histories, grace timing."
	r.Assumptions = append(r.Assumptions, "type-based lock identity: all per-key locks of one table are one abstract lock", "blocked senders on a channel are served in arrival order by the Go runtime (FIFO claim rests on this; not analysed)", "objects of one type are not distinguished (one abstract entry / reader per type)")
	r.Rule("C13.G-guard", "per-key tables and refcounts only under the table lock", 9)
	r.Rule("C13.DC-double-checked-create", "a per-key lock is inserted into the table only in the critical section that (re-)checked its absence", 3)
	r.Rule("C13.B-blocking-outside", "blocking per-key Lock/RLock is called with the table lock released", 3)
	r.Rule("C13.RC-refcount-removal", "per-key entry removed only under a refcount==0 (no holders or waiters) test", 3)
	r.Rule("C13.P-count-pairing", "fifo map Lock increments the entry count exactly once before blocking; Unlock decrements exactly once", 2)
	r.Rule("C13.CAP-chan-mutex", "channel mutexes have capacity 1; Lock sends, Unlock receives, unconditionally", 5)
	r.Rule("C13.CTX-context-lock", "lock.Context: error return holds nothing, nil return holds token+RWMutex; unlock releases both", 4)
	r.Rule("C13.OC-outercancel", "OuterCancel hold handling: slot released or handed out per path; cancellable wait; writer waits for readers; reader accounting once; requesters hand over cancellably and collect the reply", 11)

	e := c.Locks()
	ro := resolveC13Roles(p)
	fmapLock := ro.pickGuard(e, ro.fmapLockCands, ro.fmapItems, "the fifo map")
	cmLock := ro.pickGuard(e, ro.cmLockCand, ro.cmItems, "the cmap mutex map")
	ro.fmapLock, ro.cmLock = fmapLock, cmLock
	ro.ocGuard = ro.pickGuard(e, ro.ocGuardCandidates, ro.ocTable, "OuterCancel's reader table")
	r.Stats["c13_roles"] = map[string]string{
		"fifo.Mutex slot": ro.fifoSlot.String(), "fifo map type": namedKey(ro.fmap), "fifo map table": ro.fmapItems.String(), "fifo map lock": ro.fmapLock.String(),
		"fifo entry count": ro.fitemCount.String(), "fifo entry mutex": ro.fitemMutex.String(),
		"cmap type": namedKey(ro.cm), "cmap table": ro.cmItems.String(), "cmap lock": ro.cmLock.String(),
		"Context token": ro.ctxTok.String(), "Context rwmutex": ro.ctxRW.String(),
		"OuterCancel slot": ro.ocSlot.String(), "request chan": ro.ocReq.String(), "shutdown chan": ro.ocClose.String(), "reader table": ro.ocTable.String(),
		"reader index": ro.ocNext.String(), "table lock": ro.ocGuard.String(), "cause": ro.ocCause.String(), "grace": ro.ocGrace.String(),
		"hold": namedKey(ro.hold), "hold response": namedKey(ro.resp),
	}

	specs := []GuardSpec{
		{Field: ro.fmapItems, Lock: c13LockID(ro.fmapLock)},
		{Field: ro.fitemCount, Lock: c13LockID(ro.fmapLock)},
		{Field: ro.cmItems, Lock: c13LockID(ro.cmLock)},
		{Field: ro.ocTable, Lock: c13LockID(ro.ocGuard)},
		{Field: ro.ocNext, Lock: c13LockID(ro.ocGuard)},
	}
	if ft := c13FieldType(ro.fmap, ro.fmapItems); ft != nil {
		if m, ok := ft.Underlying().(*types.Map); ok {
			if _, byValue := m.Elem().Underlying().(*types.Struct); byValue {
				// entries held by value: the count lives inside the map's values and is
				// only reachable through table operations (guarded as such); the
				// adjustments are made on local copies
				specs = append(specs[:1], specs[2:]...)
				r.Note("C13.G: %s entries are held by value; %s is guarded through the table operations", ro.fmapItems, ro.fitemCount)
			}
		}
	}
	c13CheckGuards(c, ro, "C13.G-guard", specs)

	tables := []*c13Table{
		{ro: ro, typ: ro.fmap, canon: "concurrency/fifo.fifoMap", canonItems: "fifo.fifoMap.items", lock: ro.fmapLock, items: ro.fmapItems, count: ro.fitemCount, pairing: true},
		{ro: ro, typ: ro.cm, canon: "concurrency/cmap.mutex", canonItems: "cmap.mutex.items", lock: ro.cmLock, items: ro.cmItems,
			outside: map[string]string{
				"Delete": "bare Delete is outside the statement's quantifier (acquire, release, delete-and-release, cancellation); documented as 'removes the mutex'",
				"Clear":  "bare Clear is outside the statement's quantifier; documented as 'removes all mutexes'",
			}},
	}
	for _, t := range tables {
		if ft := c13FieldType(t.typ, t.items); ft != nil {
			if m, ok := ft.Underlying().(*types.Map); ok {
				_, isStruct := m.Elem().Underlying().(*types.Struct)
				t.byValue = isStruct
			}
		}
		c13CheckTable(c, t)
	}
	c13ChanMutex(c, ro)
	c13ContextLock(c, ro)
	c13OuterCancel(c, ro)

	c.Fixture("locks", func(fp *Prog, fr *Report) {
		fe := NewLockEngine(fp)
		fe.Run()
		CheckGuardedBy(fp, fe, fr, "guard", fixtureLockSpecs(fp.ModPath))
		CheckSingleSection(fp, fe, fr, "section", fixtureLockSpecs(fp.ModPath))
	})
	c.Fixture("c13x", func(fp *Prog, fr *Report) { c13Fixture(fp, fr) })
	c.Fixture("c13rel", func(fp *Prog, fr *Report) { c13ReleaseFixture(fp, fr) })
	c.Fixture("c13req", func(fp *Prog, fr *Report) { c13RequesterFixture(fp, fr) })
}

// ---------------------------------------------------------------------------
// shared small helpers

// c13LockCall recognises a Lock/RLock/Unlock/RUnlock call on a lock type
// (sync.Mutex, sync.RWMutex, fifo.Mutex) and returns the receiver.
func c13LockCall(ro *c13Roles, c ssa.CallInstruction) (lockOpKind, ssa.Value, bool) {
	return c13LockCallX(ro, nil, c)
}

// c13LockCallX additionally sees through a sync.Locker (or any interface with
// these methods) whose dynamic value is known on the path to be a lock.
func c13LockCallX(ro *c13Roles, x *C13Ctx, c ssa.CallInstruction) (lockOpKind, ssa.Value, bool) {
	cc := c.Common()
	if cc.IsInvoke() {
		if x == nil || cc.Method == nil {
			return 0, nil, false
		}
		mi, ok := c13StripIface(x, cc.Value)
		if !ok {
			// rw.RLocker(): a sync.Locker whose Lock/Unlock are rw.RLock/RUnlock
			if call, isCall := c13StripConv(x.Resolve(cc.Value)).(*ssa.Call); isCall && callIs(call, "sync", "RWMutex", "RLocker") && len(call.Call.Args) == 1 {
				switch cc.Method.Name() {
				case "Lock":
					return opRLock, call.Call.Args[0], true
				case "Unlock":
					return opRUnlock, call.Call.Args[0], true
				}
			}
			return 0, nil, false
		}
		if !ro.isLockType(mi.Type()) {
			return 0, nil, false
		}
		switch cc.Method.Name() {
		case "Lock":
			return opLock, mi, true
		case "RLock":
			return opRLock, mi, true
		case "Unlock":
			return opUnlock, mi, true
		case "RUnlock":
			return opRUnlock, mi, true
		}
		return 0, nil, false
	}
	f := staticCallee(c)
	if f == nil && x != nil {
		// a function value known on the path: a method expression
		// ((*sync.RWMutex).Lock handed to a helper) or a method value
		f = x.FuncTarget(cc.Value)
	}
	if f == nil || f.Signature.Recv() == nil || len(cc.Args) == 0 {
		return 0, nil, false
	}
	if !ro.isLockType(f.Signature.Recv().Type()) {
		return 0, nil, false
	}
	switch f.Name() {
	case "Lock":
		return opLock, cc.Args[0], true
	case "RLock":
		return opRLock, cc.Args[0], true
	case "Unlock":
		return opUnlock, cc.Args[0], true
	case "RUnlock":
		return opRUnlock, cc.Args[0], true
	}
	return 0, nil, false
}

// c13IsField: v (a value or an address) denotes field f on the current path.
func c13IsField(x *C13Ctx, v ssa.Value, f FieldID) bool {
	id, ok := c13FieldOf(x, v)
	return ok && id == f
}

func c13FieldOf(x *C13Ctx, v ssa.Value) (FieldID, bool) {
	if x != nil {
		v = x.Resolve(v)
	}
	v = c13StripConv(v)
	if id, _, ok := fieldOfValue(v); ok {
		return id, true
	}
	if f, ok := v.(*ssa.Field); ok {
		return fieldIDOfField(f), true
	}
	return FieldID{}, false
}

// c13LockIs: the lock denoted by recv is the lock field f.
func c13LockIs(x *C13Ctx, recv ssa.Value, f FieldID) bool {
	if id, ok := lockIdent(x.Resolve(recv)); ok && id == c13LockID(f) {
		return true
	}
	if id, ok := lockIdent(recv); ok && id == c13LockID(f) {
		return true
	}
	return false
}

// c13ChanKey is an identity for the channel denoted by v on the current path.
func c13ChanKey(x *C13Ctx, v ssa.Value) string {
	// a channel read from a struct field is identified by that field (type
	// based), whatever is known about the value stored there on this path
	if id, ok := c13FieldOf(nil, c13StripConv(v)); ok && id.Type != "" {
		return c13ChanID(c13CanonChan(id))
	}
	r := c13StripConv(x.Resolve(v))
	for i := 0; i < 6; i++ { // conversions (chan T -> <-chan T) may sit between the hops
		n := c13StripConv(x.Resolve(r))
		if n == r {
			break
		}
		r = n
	}
	if id, ok := c13FieldOf(nil, r); ok {
		return c13ChanID(c13CanonChan(id))
	}
	switch t := r.(type) {
	case *ssa.MakeChan:
		return "make:" + c13ValueKey(t)
	case *ssa.UnOp:
		if t.Op == token.MUL {
			a := x.Resolve(t.X)
			if cell := cellOf(a); cell != nil {
				return "cell:" + c13ValueKey(cell)
			}
		}
	}
	return "val:" + c13ValueKey(r)
}

func c13IsConstInt(v ssa.Value, n int64) bool {
	k, ok := v.(*ssa.Const)
	if !ok || k.Value == nil || k.IsNil() {
		return false
	}
	if b, ok := k.Type().Underlying().(*types.Basic); !ok || b.Info()&types.IsInteger == 0 {
		return false
	}
	return k.Int64() == n
}

func c13IsConstBool(v ssa.Value, b bool) bool {
	k, ok := v.(*ssa.Const)
	if !ok || k.Value == nil {
		return false
	}
	if bt, ok := k.Type().Underlying().(*types.Basic); !ok || bt.Kind() != types.Bool && bt.Kind() != types.UntypedBool {
		return false
	}
	return (k.Value.String() == "true") == b
}

type c13Unf struct{ list []string }

func (u *c13Unf) add(p *Prog, call ssa.CallInstruction) {
	s := callDesc(call) + " at " + p.Pos(instrPos(call))
	for _, o := range u.list {
		if o == s {
			return
		}
	}
	u.list = append(u.list, s)
}

// ---------------------------------------------------------------------------
// per-key lock tables: B, DC, RC, P

type c13Table struct {
	ro         *c13Roles
	typ        *types.Named
	canon      string // canonical construct prefix of the implementation type (role label, stable under renames)
	canonItems string
	lock       FieldID
	items      FieldID
	count      FieldID // zero value: the table has no holders/waiters count
	pairing    bool
	byValue    bool // the table's elements are struct values (adjustments need a write-back)
	outside    map[string]string
}

const (
	c13tbW      = 1 << iota // table lock held exclusively
	c13tbR                  // table lock held shared
	c13tbAbsent             // key observed absent under the current exclusive hold
	c13tbFresh              // entry looked up / inserted under the current hold
	c13tbZero               // count observed zero under the current hold
	c13tbAcqW               // a per-key lock was acquired exclusively
	c13tbAcqR               // a per-key lock was acquired shared
	c13tbCnt0               // count adjustments so far: 2 bits (0, 1, 2+, 3 = other store)
	c13tbCnt1
	c13tbOne     // count observed == 1 under the current hold (zero after the count-out that follows)
	c13tbPending // an entry was removed under "count == 1": the count-out must follow in this hold
	c13tbDirty   // by-value entries: the count was adjusted on a copy that is not written back yet
)

func c13tbCount(st uint64) int { return int(st/c13tbCnt0) & 3 }
func c13tbSetCount(st uint64, n int) uint64 {
	return st&^(c13tbCnt0|c13tbCnt1) | uint64(n&3)*c13tbCnt0
}

type c13RootRes struct {
	name                        string
	fn                          *ssa.Function
	acqSites, acqBad            []string
	insSites, insBad            []string
	remSites, remBad            []string
	pairBad                     []string
	pairPoints                  int
	retNoAcq                    []string
	nReturns                    int
	unf                         c13Unf
	incomplete                  []string
	firstAcq, firstIns, firstRm token.Pos
	countEscapes                []string // the count field's address is handed to a call (atomic op, helper): not modelled
}

func c13CheckTable(c *Ctx, t *c13Table) {
	r, p, ro := c.R, c.P, t.ro
	var roots []*ssa.Function
	names := map[*ssa.Function]string{}
	for i := 0; i < t.typ.NumMethods(); i++ {
		m := t.typ.Method(i)
		if !m.Exported() {
			continue
		}
		fn := origin(p.SSA.FuncValue(m))
		if fn == nil || len(fn.Blocks) == 0 {
			continue
		}
		roots = append(roots, fn)
		names[fn] = t.canon + "." + m.Name()
	}
	if len(roots) == 0 {
		undecided("no exported method of %s resolves", namedKey(t.typ))
	}
	visited := map[ssa.Instruction]bool{}
	var results []*c13RootRes
	for _, fn := range roots {
		results = append(results, c13ExploreTableRoot(p, t, fn, names[fn], fn.Name(), 0, visited))
	}
	// table operations in functions no exported method reaches (goroutine
	// bodies, dead helpers) are examined on their own
	for _, fn := range ro.pkgFuncs(t.typ) {
		need := false
		allInstrs(fn, func(in ssa.Instruction) {
			if visited[in] {
				return
			}
			if c13TableOp(t, in) != "" && !c13IsFreshBaseOp(in) {
				need = true
			}
		})
		if need {
			entry := uint64(0)
			switch c.Locks().Entry(fn)[c13LockID(t.lock)] {
			case ModeW:
				entry = c13tbW
			case ModeR:
				entry = c13tbR
			}
			results = append(results, c13ExploreTableRoot(p, t, fn, FuncName(p, fn), "", entry, visited))
		}
	}
	for _, res := range results {
		short := res.fn.Name()
		incompl := len(res.unf.list) > 0 || len(res.incomplete) > 0 || len(res.countEscapes) > 0
		why := ""
		if incompl {
			why = "not followed: " + strings.Join(append(append(res.unf.list, res.incomplete...), res.countEscapes...), "; ")
		}
		// a finding made on a path with calls that could not be followed (they may
		// have done what the rule misses) is not positively established
		violation := func(rule, construct, pos, msg string, wit ...string) {
			if incompl {
				r.Undecide("%s: %s — but %s", construct, msg, why)
				return
			}
			r.Violation(rule, construct, pos, msg, wit...)
		}
		// B
		isAcqRoot := names[res.fn] != "" && (short == "Lock" || short == "RLock")
		if len(res.acqSites) > 0 || isAcqRoot {
			construct := res.name + " blocking per-key lock"
			switch {
			case len(res.acqBad) > 0:
				violation("C13.B-blocking-outside", construct, p.Pos(res.firstAcq), "blocks on the per-key lock while holding the table lock "+t.lock.String()+": every other key is stalled and an Unlock that needs the table lock can never run (deadlock)", res.acqBad...)
			case isAcqRoot && len(res.retNoAcq) > 0 && !incompl:
				r.Violation("C13.B-blocking-outside", construct, p.Pos(res.fn.Pos()), short+" can return without having acquired a per-key lock in the required mode (nothing excludes a second holder)", res.retNoAcq...)
			case isAcqRoot && (len(res.retNoAcq) > 0 || res.nReturns == 0):
				r.Undecide("%s: the per-key acquisition was not found on every path (%s)", res.name, why)
			default:
				r.OK("C13.B-blocking-outside", construct, p.Pos(res.firstAcq), fmt.Sprintf("%d per-key acquisition(s), each with the table lock released; every return acquired", len(res.acqSites)))
			}
		}
		// DC
		if len(res.insSites) > 0 {
			if len(res.insBad) == 0 {
				r.OK("C13.DC-double-checked-create", res.name+" inserts "+t.canonItems, p.Pos(res.firstIns),
					fmt.Sprintf("%d insertion path(s), each under the write hold that observed the key absent", len(res.insSites)))
			} else {
				violation("C13.DC-double-checked-create", res.name+" inserts "+t.canonItems, p.Pos(res.firstIns),
					"a per-key lock is installed without having observed the key absent under the same exclusive hold of the table lock: two first-time lockers of one key each install and lock their own mutex", res.insBad...)
			}
		}
		// RC
		if len(res.remSites) > 0 {
			construct := res.name + " removes " + t.canonItems
			if whyOut, ok := t.outside[short]; ok && names[res.fn] != "" && len(res.remBad) > 0 {
				r.Note("C13.RC: %s (at %s) drops per-key entries without a holders/waiters test — not armed: %s", res.name, p.Pos(res.firstRm), whyOut)
			} else {
				if len(res.remBad) == 0 {
					r.OK("C13.RC-refcount-removal", construct, p.Pos(res.firstRm), "every removal happens under a "+t.count.String()+" == 0 observation made in the same hold")
				} else {
					violation("C13.RC-refcount-removal", construct, p.Pos(res.firstRm),
						"per-key lock entry is removed without a 'no holders or waiters' test: a goroutine that already looked the lock up and a later arrival that creates a fresh lock hold the same key at once", res.remBad...)
				}
			}
		}
		// P
		if t.pairing && names[res.fn] != "" && (short == "Lock" || short == "Unlock") {
			construct := res.name + " count"
			switch {
			case len(res.pairBad) > 0:
				violation("C13.P-count-pairing", construct, p.Pos(res.fn.Pos()), "the holder/waiter count is not adjusted exactly once on every path", res.pairBad...)
			case res.pairPoints == 0 || incompl:
				r.Undecide("%s: count adjustment could not be followed (%s)", res.name, why)
			default:
				r.OK("C13.P-count-pairing", construct, p.Pos(res.fn.Pos()), "holder/waiter count adjusted exactly once on every path, in the look-up's critical section")
			}
		}
	}
}

func c13IsFreshBaseOp(in ssa.Instruction) bool {
	switch x := in.(type) {
	case *ssa.MapUpdate:
		if u, ok := x.Map.(*ssa.UnOp); ok {
			if fa, ok := u.X.(*ssa.FieldAddr); ok {
				return isFreshBase(fa.X) && prePublication(in)
			}
		}
	case *ssa.Store:
		if fa, ok := x.Addr.(*ssa.FieldAddr); ok {
			return isFreshBase(fa.X) && prePublication(in)
		}
	}
	return false
}

// c13TableOp classifies (statically) an instruction as an insertion
// ("insert"), removal ("remove") or replacement ("replace") on the table.
func c13TableOp(t *c13Table, in ssa.Instruction) string {
	isItems := func(v ssa.Value) bool {
		id, ok := c13FieldOf(nil, v)
		return ok && id == t.items
	}
	switch x := in.(type) {
	case *ssa.MapUpdate:
		if isItems(x.Map) {
			return "insert"
		}
	case *ssa.Store:
		if fa, ok := x.Addr.(*ssa.FieldAddr); ok && fieldIDOfAddr(fa) == t.items {
			return "replace"
		}
	case ssa.CallInstruction:
		if b := builtinName(x); (b == "delete" || b == "clear") && len(x.Common().Args) > 0 && isItems(x.Common().Args[0]) {
			return "remove"
		}
	}
	return ""
}

func c13ExploreTableRoot(p *Prog, t *c13Table, fn *ssa.Function, name, short string, entry uint64, visited map[ssa.Instruction]bool) *c13RootRes {
	ro := t.ro
	res := &c13RootRes{name: name, fn: fn}
	hasCount := t.count.Field != ""
	isItems := func(x *C13Ctx, v ssa.Value) bool { return c13IsField(x, v, t.items) }
	release := func(x *C13Ctx, st uint64) uint64 {
		x.DelFact("lookup")
		x.DelFact("count")
		x.DelFactsWithPrefix("cntld:")
		if st&c13tbPending != 0 {
			res.remBad = append(res.remBad, "an entry is removed under a 'count == 1' test but the count is not decremented before the table lock is released")
		}
		if st&c13tbDirty != 0 && t.pairing {
			res.pairBad = append(res.pairBad, "the count is adjusted on a copy of the entry that is neither written back to the table nor removed before the table lock is released (the adjustment is lost)")
		}
		st &^= c13tbDirty
		return st &^ (c13tbAbsent | c13tbFresh | c13tbZero | c13tbOne | c13tbPending)
	}
	curCount := func(x *C13Ctx, v ssa.Value) bool {
		v = x.Resolve(v)
		if f := x.Fact("count"); f != nil && f == v {
			return true
		}
		if u, ok := v.(*ssa.UnOp); ok && u.Op == token.MUL {
			if fa, ok := x.Resolve(u.X).(*ssa.FieldAddr); ok && fieldIDOfAddr(fa) == t.count {
				_, cur := x.p.facts["cntld:"+c13ValueKey(u)]
				return cur
			}
		}
		return false
	}
	pos := func(in ssa.Instruction) string { return p.Pos(instrPos(in)) }
	ex := NewC13Explorer(p)
	hooks := &C13Hooks{
		Instr: func(x *C13Ctx, in ssa.Instruction, st uint64) uint64 {
			visited[in] = true
			switch v := in.(type) {
			case ssa.CallInstruction:
				if _, isGo := in.(*ssa.Go); isGo {
					return st
				}
				if kind, recv, ok := c13LockCallX(ro, x, v); ok {
					if c13LockIs(x, recv, t.lock) {
						switch kind {
						case opLock:
							return st | c13tbW
						case opRLock:
							return st | c13tbR
						case opUnlock:
							return release(x, st&^c13tbW)
						case opRUnlock:
							return release(x, st&^c13tbR)
						}
						return st
					}
					// a lock that is not the table lock: a per-key lock
					if kind == opLock || kind == opRLock {
						site := pos(in) + " in " + FuncName(p, in.Parent())
						res.acqSites = append(res.acqSites, site)
						if !res.firstAcq.IsValid() {
							res.firstAcq = instrPos(in)
						}
						if st&(c13tbW|c13tbR) != 0 {
							res.acqBad = append(res.acqBad, "per-key "+v.Common().Value.Name()+" at "+site+" with the table lock held")
						}
						if t.pairing && short == "Lock" {
							res.pairPoints++
							if n := c13tbCount(st); n == 3 {
								res.countEscapes = append(res.countEscapes, "a store to the count whose effect is not recognised (before "+site+")")
							} else if n != 1 {
								res.pairBad = append(res.pairBad, fmt.Sprintf("at the blocking per-key Lock (%s) the caller has been counted in %s times", site, c13CntName(n)))
							}
						}
						if kind == opLock {
							st |= c13tbAcqW
						} else {
							st |= c13tbAcqR
						}
					}
					return st
				}
				if hasCount {
					for _, a := range v.Common().Args {
						if fa, ok := x.Resolve(a).(*ssa.FieldAddr); ok && fieldIDOfAddr(fa) == t.count {
							res.countEscapes = append(res.countEscapes, callDesc(v)+" at "+pos(in))
						}
					}
				}
				switch builtinName(v) {
				case "delete", "clear":
					if len(v.Common().Args) > 0 && isItems(x, v.Common().Args[0]) {
						site := builtinName(v) + " at " + pos(in) + " in " + FuncName(p, in.Parent())
						res.remSites = append(res.remSites, site)
						st &^= c13tbDirty
						if !res.firstRm.IsValid() {
							res.firstRm = instrPos(in)
						}
						if !hasCount {
							res.remBad = append(res.remBad, site+": the table keeps no holders/waiters count")
						} else if st&c13tbZero == 0 {
							if st&c13tbOne != 0 {
								st |= c13tbPending // the last holder leaves: legal if the count-out follows in this hold
							} else {
								res.remBad = append(res.remBad, site+": not dominated by a "+t.count.String()+" == 0 observation under this hold")
							}
						}
						return st
					}
				}
			case *ssa.Lookup:
				if isItems(x, v.X) && st&(c13tbW|c13tbR) != 0 {
					st |= c13tbFresh
					if st&c13tbW != 0 {
						x.SetFact("lookup", v)
						st &^= c13tbAbsent
					}
				}
			case *ssa.MapUpdate:
				if isItems(x, v.Map) && !c13IsFreshBaseOp(in) {
					site := pos(in) + " in " + FuncName(p, in.Parent())
					res.insSites = append(res.insSites, site)
					if !res.firstIns.IsValid() {
						res.firstIns = instrPos(in)
					}
					st &^= c13tbDirty
					derived := false
					if lk := x.Fact("lookup"); lk != nil && st&c13tbW != 0 {
						// writing back the entry that was looked up under this very hold
						// (by-value entries) installs no new per-key lock
						val := c13StripConv(x.Resolve(v.Value))
						if exr, ok := val.(*ssa.Extract); ok && exr.Index == 0 {
							val = exr.Tuple
						}
						derived = val == lk
					}
					switch {
					case derived:
					case st&c13tbW == 0:
						res.insBad = append(res.insBad, "insertion at "+site+" without the exclusive table lock")
					case st&c13tbAbsent == 0:
						res.insBad = append(res.insBad, "insertion at "+site+" is not preceded by a look-up under this hold that found the key absent")
					}
					st |= c13tbFresh
				}
			case *ssa.UnOp:
				if hasCount && v.Op == token.MUL {
					if fa, ok := x.Resolve(v.X).(*ssa.FieldAddr); ok && fieldIDOfAddr(fa) == t.count {
						x.SetFact("cntld:"+c13ValueKey(v), nil)
					}
				}
			case *ssa.Store:
				if fa, ok := x.Resolve(v.Addr).(*ssa.FieldAddr); ok {
					id := fieldIDOfAddr(fa)
					if id == t.items && !c13IsFreshBaseOp(in) {
						site := "replacement of the table at " + pos(in) + " in " + FuncName(p, in.Parent())
						res.remSites = append(res.remSites, site)
						if !res.firstRm.IsValid() {
							res.firstRm = instrPos(in)
						}
						res.remBad = append(res.remBad, site+": drops every entry")
					}
					if hasCount && id == t.count {
						val := x.Resolve(v.Val)
						_, freshOnPath := x.Resolve(fa.X).(*ssa.Alloc) // the entry was allocated on this path
						d := c13Delta(x, val, t.count, freshOnPath || isFreshBase(fa.X), curCount)
						x.DelFactsWithPrefix("cntld:")
						x.SetFact("count", val)
						if t.byValue {
							st |= c13tbDirty
						}
						if st&c13tbOne != 0 && d == -1 {
							st = st&^(c13tbOne|c13tbPending) | c13tbZero
						} else {
							st &^= c13tbZero | c13tbOne
						}
						if t.pairing && (short == "Lock" || short == "Unlock") {
							want := 1
							if short == "Unlock" {
								want = -1
							}
							n := c13tbCount(st)
							switch {
							case d != want || n == 3:
								n = 3
							case n >= 1:
								n = 2
							default:
								n = 1
							}
							st = c13tbSetCount(st, n)
							if short == "Lock" && d == want && st&c13tbFresh == 0 {
								res.pairBad = append(res.pairBad, "the count-in at "+pos(in)+" is not in the critical section that looked the entry up (the entry can be pruned in between)")
							}
							if st&(c13tbW|c13tbR) == 0 {
								res.pairBad = append(res.pairBad, "the count is adjusted at "+pos(in)+" without the table lock")
							}
						}
					}
				}
			}
			return st
		},
		Branch: func(x *C13Ctx, ifi *ssa.If, taken bool, st uint64) uint64 {
			cond, pol := c13StripNot(x.Resolve(ifi.Cond), taken)
			cond, pol = c13StripNot(x.Resolve(cond), pol)
			// found-flag of the look-up made under this exclusive hold
			if exr, ok := cond.(*ssa.Extract); ok && exr.Index == 1 {
				if lk, ok := exr.Tuple.(*ssa.Lookup); ok && lk.CommaOk && x.Fact("lookup") == ssa.Value(lk) && !pol && st&c13tbW != 0 {
					return st | c13tbAbsent
				}
			}
			if cmp, ok := decodeCond(cond, pol); ok {
				X, Y := x.Resolve(cmp.X), x.Resolve(cmp.Y)
				// entry == nil for the look-up made under this hold
				if cmp.Op == token.EQL && st&c13tbW != 0 {
					for _, pr := range [][2]ssa.Value{{X, Y}, {Y, X}} {
						if !isNilConst(pr[1]) {
							continue
						}
						v := pr[0]
						if exr, ok := v.(*ssa.Extract); ok && exr.Index == 0 {
							v = exr.Tuple
						}
						if lk, ok := v.(*ssa.Lookup); ok && x.Fact("lookup") == ssa.Value(lk) {
							return st | c13tbAbsent
						}
					}
				}
				// count == 0 (and its equivalents) under this hold
				if hasCount && st&(c13tbW|c13tbR) != 0 {
					op := cmp.Op
					var k ssa.Value
					switch {
					case curCount(x, X):
						k = Y
					case curCount(x, Y):
						k = X
						op = c13SwapOp(op)
					}
					if k != nil {
						if op == token.EQL && c13IsConstInt(k, 0) || op == token.LSS && c13IsConstInt(k, 1) || op == token.LEQ && c13IsConstInt(k, 0) {
							return st | c13tbZero
						}
						if op == token.EQL && c13IsConstInt(k, 1) {
							return st | c13tbOne
						}
					}
				}
			}
			return st
		},
		Return: func(x *C13Ctx, ret *ssa.Return, _ []ssa.Value, st uint64) {
			res.nReturns++
			if short == "Lock" && st&c13tbAcqW == 0 || short == "RLock" && st&(c13tbAcqW|c13tbAcqR) == 0 {
				res.retNoAcq = append(res.retNoAcq, "return at "+p.Pos(instrPos(ret)))
			}
			if t.pairing && (short == "Lock" || short == "Unlock") {
				res.pairPoints++
				if n := c13tbCount(st); n == 3 {
					res.countEscapes = append(res.countEscapes, "a store to the count whose effect is not recognised (before the return at "+p.Pos(instrPos(ret))+")")
				} else if n != 1 {
					res.pairBad = append(res.pairBad, fmt.Sprintf("at the return (%s) the caller has been counted %s %s times", p.Pos(instrPos(ret)), map[string]string{"Lock": "in", "Unlock": "out"}[short], c13CntName(n)))
				}
			}
		},
		Unfollowed: func(x *C13Ctx, call ssa.CallInstruction, st uint64) { res.unf.add(p, call) },
		Opaque: func(fn *ssa.Function) bool {
			return fn.Signature.Recv() != nil && ro.isLockType(fn.Signature.Recv().Type())
		},
	}
	ex.Explore(fn, entry, hooks)
	res.incomplete = ex.Incomplete
	sort.Strings(res.acqBad)
	sort.Strings(res.insBad)
	sort.Strings(res.remBad)
	sort.Strings(res.pairBad)
	res.acqBad, res.insBad, res.remBad, res.pairBad = c13Uniq(res.acqBad), c13Uniq(res.insBad), c13Uniq(res.remBad), c13Uniq(res.pairBad)
	res.acqSites, res.insSites, res.remSites = c13Uniq(c13Sorted(res.acqSites)), c13Uniq(c13Sorted(res.insSites)), c13Uniq(c13Sorted(res.remSites))
	return res
}

func c13Sorted(s []string) []string { sort.Strings(s); return s }
func c13Uniq(s []string) []string {
	var out []string
	for i, v := range s {
		if i == 0 || v != s[i-1] {
			out = append(out, v)
		}
	}
	return out
}

func c13CntName(n int) string {
	return [...]string{"0", "1", "2 or more", "an unrecognised number of"}[n&3]
}

func c13SwapOp(op token.Token) token.Token {
	switch op {
	case token.LSS:
		return token.GTR
	case token.GTR:
		return token.LSS
	case token.LEQ:
		return token.GEQ
	case token.GEQ:
		return token.LEQ
	}
	return op
}

// c13Delta classifies the value stored into the count field: +1, -1, or 99.
// `count = count ± 1` (either operand order for +), or the constant 1 stored
// into the count of an entry allocated here (a new entry that starts at 1).
func c13Delta(x *C13Ctx, val ssa.Value, f FieldID, freshBase bool, cur func(*C13Ctx, ssa.Value) bool) int {
	// a constant stored over a known constant (an entry allocated on this path
	// whose count is tracked value by value): the difference
	if k, ok := val.(*ssa.Const); ok && k.Value != nil && k.Value.Kind() == constant.Int {
		prev := int64(0)
		known := freshBase
		if pc, ok := x.Fact("count").(*ssa.Const); ok && pc != nil && pc.Value != nil && pc.Value.Kind() == constant.Int {
			prev, known = pc.Int64(), true
		}
		if known {
			switch k.Int64() - prev {
			case 1:
				return 1
			case -1:
				return -1
			}
			return 99
		}
	}
	if freshBase && c13IsConstInt(val, 1) {
		return 1
	}
	bo, ok := val.(*ssa.BinOp)
	if !ok {
		return 99
	}
	X, Y := x.Resolve(bo.X), x.Resolve(bo.Y)
	if freshBase && bo.Op == token.ADD && (c13IsConstInt(X, 0) && c13IsConstInt(Y, 1) || c13IsConstInt(X, 1) && c13IsConstInt(Y, 0)) {
		return 1 // the count of an entry allocated on this path (still zero) is incremented
	}
	switch bo.Op {
	case token.ADD:
		if cur(x, X) && c13IsConstInt(Y, 1) || cur(x, Y) && c13IsConstInt(X, 1) {
			return 1
		}
	case token.SUB:
		if cur(x, X) && c13IsConstInt(Y, 1) {
			return -1
		}
	}
	return 99
}

// ---------------------------------------------------------------------------
// CAP: capacity-1 channel mutexes

// c13MakeChanSize resolves v statically to the MakeChan that creates it.
func c13MakeChan(p *Prog, v ssa.Value, depth int) (*ssa.MakeChan, bool) {
	if depth > 4 {
		return nil, false
	}
	switch t := c13StripConv(v).(type) {
	case *ssa.MakeChan:
		return t, true
	case *ssa.Phi:
		var first *ssa.MakeChan
		for _, ed := range t.Edges {
			mc, ok := c13MakeChan(p, ed, depth+1)
			if !ok {
				return nil, false
			}
			if first == nil {
				first = mc
			} else if !c13SameConstSize(first, mc) {
				return nil, false
			}
		}
		return first, first != nil
	case *ssa.Call:
		cal := staticCallee(t)
		if cal == nil || !p.InModule(cal) || cal.Signature.Results().Len() != 1 {
			return nil, false
		}
		var first *ssa.MakeChan
		okAll := true
		allInstrs(cal, func(in ssa.Instruction) {
			if ret, ok := in.(*ssa.Return); ok && len(ret.Results) == 1 {
				for _, rv := range unspill(ret.Results[0]) {
					mc, ok := c13MakeChan(p, rv, depth+1)
					if !ok || first != nil && !c13SameConstSize(first, mc) {
						okAll = false
						return
					}
					first = mc
				}
			}
		})
		return first, okAll && first != nil
	case *ssa.UnOp:
		if t.Op == token.MUL {
			if cell, ok := t.X.(*ssa.Alloc); ok {
				if only := c13CellSingleStore(cell); only != nil {
					return c13MakeChan(p, only, depth+1)
				}
			}
		}
	}
	return nil, false
}

func c13SameConstSize(a, b *ssa.MakeChan) bool {
	ka, ok1 := a.Size.(*ssa.Const)
	kb, ok2 := b.Size.(*ssa.Const)
	return ok1 && ok2 && ka.Value != nil && kb.Value != nil && ka.Int64() == kb.Int64()
}

func c13ChanMutex(c *Ctx, ro *c13Roles) {
	r, p := c.R, c.P
	type cm struct {
		f     FieldID
		canon string
	}
	chans := []cm{{ro.fifoSlot, "fifo.Mutex.lock"}, {ro.ctxTok, "lock.Context.locked"}, {ro.ocSlot, "lock.OuterCancel.lock"}}
	for _, ch := range chans {
		n := 0
		for _, fn := range p.Funcs {
			allInstrs(fn, func(in ssa.Instruction) {
				st, ok := in.(*ssa.Store)
				if !ok {
					return
				}
				fa, ok := st.Addr.(*ssa.FieldAddr)
				if !ok || c13CanonChan(fieldIDOfAddr(fa)) != ch.f {
					return
				}
				if src, _, ok := fieldOfValue(c13StripConv(st.Val)); ok && c13CanonChan(src) == ch.f {
					return // a copy of the slot kept in another field, not a creation
				}
				n++
				construct := FuncName(p, fn) + " makes " + ch.canon
				mc, found := c13MakeChan(p, st.Val, 0)
				if !found {
					r.Undecide("%s: the channel stored into the mutex slot %s at %s could not be traced to its make()", FuncName(p, fn), ch.f, p.Pos(instrPos(in)))
					return
				}
				k, isK := c13ConstSize(p, mc.Size, 0)
				if !isK || k.Value == nil {
					r.Undecide("%s: the capacity of the mutex slot %s at %s is not a constant", FuncName(p, fn), ch.f, p.Pos(instrPos(in)))
					return
				}
				r.Check(k.Int64() == 1, "C13.CAP-chan-mutex", construct, p.Pos(instrPos(in)),
					"channel used as mutex slot has capacity 1", fmt.Sprintf("the channel used as the mutex slot is created with capacity %d, not exactly 1 (capacity k admits k holders; 0 deadlocks)", k.Int64()))
			})
		}
		if n == 0 {
			r.Undecide("no initialisation of %s found", ch.f)
		}
	}
	// fifo.Mutex.Lock: a blocking send on every path; Unlock: a blocking receive
	slot := c13ChanID(ro.fifoSlot)
	for _, spec := range []struct{ name, kind string }{{"Lock", "send"}, {"Unlock", "receive"}} {
		fn := ro.mustMethod(ro.fifoMutex, spec.name)
		var bad []string
		var unf c13Unf
		n := 0
		ex := NewC13Explorer(p)
		ex.Explore(fn, 0, &C13Hooks{
			Instr: func(x *C13Ctx, in ssa.Instruction, st uint64) uint64 {
				switch v := in.(type) {
				case *ssa.Send:
					if spec.kind == "send" && c13ChanKey(x, v.Chan) == slot {
						return st | 1
					}
				case *ssa.UnOp:
					if spec.kind == "receive" && v.Op == token.ARROW && c13ChanKey(x, v.X) == slot {
						return st | 1
					}
				}
				return st
			},
			Branch: func(x *C13Ctx, ifi *ssa.If, taken bool, st uint64) uint64 {
				if sel, k, ok := C13SelectFired(ifi, taken); ok && sel.Blocking {
					s := sel.States[k]
					if c13ChanKey(x, s.Chan) == slot && (spec.kind == "send") == (s.Dir == types.SendOnly) {
						return st | 1
					}
				}
				return st
			},
			Return: func(x *C13Ctx, ret *ssa.Return, _ []ssa.Value, st uint64) {
				n++
				if st&1 == 0 {
					bad = append(bad, "return at "+p.Pos(instrPos(ret)))
				}
			},
			Unfollowed: func(x *C13Ctx, call ssa.CallInstruction, st uint64) { unf.add(p, call) },
		})
		construct := "concurrency/fifo.Mutex." + spec.name
		if (len(bad) > 0 || n == 0) && (len(unf.list) > 0 || len(ex.Incomplete) > 0) {
			r.Undecide("%s: the blocking %s on the slot was not found on every path and calls could not be followed (%s)", construct, spec.kind, strings.Join(append(unf.list, ex.Incomplete...), "; "))
			continue
		}
		r.Check(len(bad) == 0 && n > 0, "C13.CAP-chan-mutex", construct, p.Pos(fn.Pos()),
			"every return is preceded by a blocking "+spec.kind+" on the slot", "a path returns without the blocking "+spec.kind+" on the mutex slot (lock not acquired / not released, or made non-blocking)", c13Uniq(c13Sorted(bad))...)
	}
}

// ---------------------------------------------------------------------------
// CTX: lock.Context

func c13ContextLock(c *Ctx, ro *c13Roles) {
	r, p := c.R, c.P
	tok := c13ChanID(ro.ctxTok)
	const (
		fTok = 1 << iota
		fW
		fR
	)
	mkHooks := func(onReturn func(x *C13Ctx, ret *ssa.Return, res []ssa.Value, st uint64), unf *c13Unf) *C13Hooks {
		return &C13Hooks{
			Instr: func(x *C13Ctx, in ssa.Instruction, st uint64) uint64 {
				switch v := in.(type) {
				case *ssa.Send:
					if c13ChanKey(x, v.Chan) == tok {
						return st | fTok
					}
				case *ssa.UnOp:
					if v.Op == token.ARROW && c13ChanKey(x, v.X) == tok {
						return st &^ fTok
					}
				case ssa.CallInstruction:
					if _, isGo := in.(*ssa.Go); isGo {
						return st
					}
					if kind, recv, ok := c13LockCallX(ro, x, v); ok && c13LockIs(x, recv, ro.ctxRW) {
						switch kind {
						case opLock:
							return st | fW
						case opRLock:
							return st | fR
						case opUnlock:
							return st &^ fW
						case opRUnlock:
							return st &^ fR
						}
					}
				}
				return st
			},
			Branch: func(x *C13Ctx, ifi *ssa.If, taken bool, st uint64) uint64 {
				if sel, k, ok := C13SelectFired(ifi, taken); ok {
					s := sel.States[k]
					if c13ChanKey(x, s.Chan) == tok {
						if s.Dir == types.SendOnly {
							return st | fTok
						}
						return st &^ fTok
					}
				}
				return st
			},
			Return:     onReturn,
			Unfollowed: func(x *C13Ctx, call ssa.CallInstruction, st uint64) { unf.add(p, call) },
			Opaque: func(fn *ssa.Function) bool {
				return fn.Signature.Recv() != nil && ro.isLockType(fn.Signature.Recv().Type())
			},
		}
	}
	for _, name := range []string{"Lock", "RLock"} {
		fn := ro.mustMethod(ro.ctxT, name)
		var bad []string
		var unf c13Unf
		nNil, nErr := 0, 0
		ex := NewC13Explorer(p)
		ex.Explore(fn, 0, mkHooks(func(x *C13Ctx, ret *ssa.Return, res []ssa.Value, st uint64) {
			if len(res) != 1 {
				return
			}
			isNil := isNilConst(c13StripConv(res[0]))
			if kn, ok := x.KnownNil(res[0]); ok {
				isNil = kn
			}
			if isNil {
				nNil++
				okRW := st&fW != 0
				if name == "RLock" {
					okRW = st&(fW|fR) != 0
				}
				if st&fTok == 0 || !okRW {
					bad = append(bad, "a path returns nil (acquired) at "+p.Pos(instrPos(ret))+" without holding both the token and the RWMutex")
				}
			} else {
				nErr++
				if st&(fTok|fW|fR) != 0 {
					bad = append(bad, "a path returns a possibly non-nil error at "+p.Pos(instrPos(ret))+" while it holds the token or the RWMutex (an acquisition that reports an error must hold nothing)")
				}
			}
		}, &unf))
		construct := "concurrency/lock.Context." + name
		incompl := len(unf.list) > 0 || len(ex.Incomplete) > 0
		switch {
		case len(bad) > 0 && incompl:
			r.Undecide("%s: %s — but calls could not be followed: %s", construct, bad[0], strings.Join(append(unf.list, ex.Incomplete...), "; "))
		case len(bad) > 0:
			r.Violation("C13.CTX-context-lock", construct, p.Pos(fn.Pos()), bad[0], c13Uniq(c13Sorted(bad))...)
		case nNil == 0 || nErr == 0:
			if incompl {
				r.Undecide("%s: acquired/cancelled return paths not found (unfollowed: %s)", construct, strings.Join(append(unf.list, ex.Incomplete...), "; "))
			} else if nErr == 0 {
				r.Violation("C13.CTX-context-lock", construct, p.Pos(fn.Pos()), "no path gives up with an error: a waiter whose context ends keeps waiting")
			} else {
				r.Violation("C13.CTX-context-lock", construct, p.Pos(fn.Pos()), "no path returns nil: the lock can never be acquired")
			}
		default:
			r.OK("C13.CTX-context-lock", construct, p.Pos(fn.Pos()), "nil return holds token+RWMutex, error return holds nothing")
		}
	}
	for _, name := range []string{"Unlock", "RUnlock"} {
		fn := ro.mustMethod(ro.ctxT, name)
		entry := uint64(fTok | fW)
		if name == "RUnlock" {
			entry = fTok | fR
		}
		var bad []string
		var unf c13Unf
		n := 0
		ex := NewC13Explorer(p)
		ex.Explore(fn, entry, mkHooks(func(x *C13Ctx, ret *ssa.Return, res []ssa.Value, st uint64) {
			n++
			if st&(fTok|fW|fR) != 0 {
				bad = append(bad, "return at "+p.Pos(instrPos(ret)))
			}
		}, &unf))
		construct := "concurrency/lock.Context." + name
		if (len(bad) > 0 || n == 0) && (len(unf.list) > 0 || len(ex.Incomplete) > 0) {
			r.Undecide("%s: the releases were not found on every path and calls could not be followed (%s)", construct, strings.Join(append(unf.list, ex.Incomplete...), "; "))
			continue
		}
		r.Check(len(bad) == 0 && n > 0, "C13.CTX-context-lock", construct, p.Pos(fn.Pos()), "releases the RWMutex (matching mode) and the token on every path", "a path returns without releasing both the RWMutex (in the matching mode) and the token", c13Uniq(c13Sorted(bad))...)
	}
}

// ---------------------------------------------------------------------------
// helpers kept for other properties (C09, C10/C11, C14, C19 use them)

// refDelta classifies a store to field f: +1, -1, 0 (not a store to f) or 99 (other).
func refDelta(st *ssa.Store, f FieldID) int {
	fa, ok := st.Addr.(*ssa.FieldAddr)
	if !ok || fieldIDOfAddr(fa) != f {
		return 0
	}
	bo, ok := st.Val.(*ssa.BinOp)
	if !ok {
		return 99
	}
	id, _, ok := fieldOfValue(bo.X)
	k, isK := bo.Y.(*ssa.Const)
	if !ok || id != f || !isK || k.Value == nil || k.Uint64() != 1 {
		return 99
	}
	switch bo.Op {
	case token.ADD:
		return 1
	case token.SUB:
		return -1
	}
	return 99
}

func stateSetString(st uint64) string {
	var parts []string
	names := []string{"0", "1", "2+", "other-store"}
	for i, n := range names {
		if st&(1<<uint(i)) != 0 {
			parts = append(parts, n)
		}
	}
	return "{" + strings.Join(parts, ",") + "}"
}

// c13Fixture runs the table rules on fixtures/c13x: every Good*/Bad* method of
// the fixture table type is examined as a Lock or Unlock operation.
func c13Fixture(fp *Prog, fr *Report) {
	typ := fp.Named("", "tbl")
	ro := &c13Roles{p: fp}
	t := &c13Table{ro: ro, typ: typ, canon: "tbl", canonItems: "tbl.items",
		lock: c13Fid(typ, "mu"), items: c13Fid(typ, "items"), count: c13Fid(fp.Named("", "ent"), "n"), pairing: true}
	for i := 0; i < typ.NumMethods(); i++ {
		m := typ.Method(i)
		lower := strings.ToLower(m.Name())
		if !strings.HasPrefix(lower, "good") && !strings.HasPrefix(lower, "bad") {
			continue
		}
		kind := "Lock"
		if strings.Contains(m.Name(), "Unlock") {
			kind = "Unlock"
		}
		fn := origin(fp.SSA.FuncValue(m))
		res := c13ExploreTableRoot(fp, t, fn, FuncName(fp, fn), kind, 0, map[ssa.Instruction]bool{})
		var bad []string
		bad = append(bad, res.acqBad...)
		bad = append(bad, res.insBad...)
		bad = append(bad, res.remBad...)
		bad = append(bad, res.pairBad...)
		if kind == "Lock" {
			bad = append(bad, res.retNoAcq...)
		}
		if len(res.unf.list) > 0 || len(res.incomplete) > 0 {
			bad = append(bad, "exploration incomplete: "+strings.Join(append(res.unf.list, res.incomplete...), "; "))
		}
		fr.Check(len(bad) == 0, "table", FuncName(fp, fn), fp.Pos(fn.Pos()), "clean", "table rule broken", bad...)
	}
}

// c13StripIface resolves an interface value to the concrete value it was made from.
func c13StripIface(x *C13Ctx, v ssa.Value) (ssa.Value, bool) {
	for i := 0; i < 4; i++ {
		v = x.Resolve(v)
		switch t := v.(type) {
		case *ssa.MakeInterface:
			return x.Resolve(t.X), true
		case *ssa.ChangeInterface:
			v = t.X
		case *ssa.ChangeType:
			v = t.X
		default:
			return nil, false
		}
	}
	return nil, false
}

// c13ConstSize: the capacity as a constant, also when the make sits in a
// helper that receives the capacity as a parameter and every call site passes
// the same constant.
func c13ConstSize(p *Prog, v ssa.Value, depth int) (*ssa.Const, bool) {
	if depth > 3 {
		return nil, false
	}
	switch t := v.(type) {
	case *ssa.Const:
		return t, true
	case *ssa.Convert:
		return c13ConstSize(p, t.X, depth+1)
	case *ssa.ChangeType:
		return c13ConstSize(p, t.X, depth+1)
	case *ssa.BinOp:
		a, ok1 := c13ConstSize(p, t.X, depth+1)
		b, ok2 := c13ConstSize(p, t.Y, depth+1)
		if !ok1 || !ok2 || a.Value == nil || b.Value == nil {
			return nil, false
		}
		switch t.Op {
		case token.ADD, token.SUB, token.MUL, token.SHL, token.SHR:
			var v constant.Value
			if t.Op == token.SHL || t.Op == token.SHR {
				n, exact := constant.Uint64Val(b.Value)
				if !exact || n > 62 {
					return nil, false
				}
				v = constant.Shift(a.Value, t.Op, uint(n))
			} else {
				v = constant.BinaryOp(a.Value, t.Op, b.Value)
			}
			return ssa.NewConst(v, t.Type()), true
		}
		return nil, false
	case *ssa.Parameter:
		fn := t.Parent()
		idx := -1
		for i, q := range fn.Params {
			if q == t {
				idx = i
			}
		}
		sites := c13CallSites(p)[origin(fn)]
		if idx < 0 || len(sites) == 0 {
			return nil, false
		}
		var first *ssa.Const
		for _, s := range sites {
			if idx >= len(s.Common().Args) {
				return nil, false
			}
			k, ok := c13ConstSize(p, s.Common().Args[idx], depth+1)
			if !ok || k.Value == nil {
				return nil, false
			}
			if first != nil && first.Int64() != k.Int64() {
				return nil, false
			}
			first = k
		}
		return first, first != nil
	}
	return nil, false
}
