package main

// C07.N6-step-progress — a search loop that steps its loop-carried time by a
// CALENDAR day (t.AddDate(0,0,k), time.Date(y, m, d+k, ...)) on a zoned time is
// not guaranteed to advance: the result is re-normalised in the zone, and a
// zone that skips a whole calendar day maps the step back onto the instant it
// started from (Pacific/Apia 2011-12-30). Only an absolute step (t.Add of a
// positive duration) is guaranteed to advance. Such an iteration needs a
// progress guard: a test that compares something derived from the pre-step
// value with something derived from the post-step value, under which the time
// is re-assigned from an absolute step or the function returns.
//
// The rule decides the PRESENCE of such a guard, not that it is sufficient.
// Month/year-granularity calendar steps are exempt (no zone skips a month).

import (
	"fmt"
	"go/constant"
	"go/token"
	"go/types"
	"sort"
	"strings"

	"golang.org/x/tools/go/ssa"
)

const c07N6s = "C07.N6-step-progress"

// c07Step is one step of a time value inside a loop.
type c07Step struct {
	call *ssa.Call
	pre  ssa.Value // the value stepped from
	kind string    // "absolute" | "calendar-day" | "calendar-month" | "unknown"
	via  *ssa.Function
}

func c07IsTime(t types.Type) bool { return namedKey(t) == "time.Time" }

// provablyUTC: the time value is in UTC whatever the input (coinductive over
// loop phis: a value stepped from a UTC value stays in UTC).
func c07ProvablyUTC(v ssa.Value, depth int) bool {
	return c07UTC(v, depth, map[ssa.Value]bool{})
}

func c07UTC(v ssa.Value, depth int, seen map[ssa.Value]bool) bool {
	if depth > 8 || v == nil {
		return false
	}
	v = c07Settle(v)
	if seen[v] {
		return true
	}
	seen[v] = true
	switch x := v.(type) {
	case *ssa.Call:
		if c07IsTimeMethod(x, "UTC") {
			return true
		}
		for _, nm := range []string{"Add", "AddDate", "Truncate", "Round"} {
			if c07IsTimeMethod(x, nm) && len(x.Call.Args) > 0 {
				return c07UTC(x.Call.Args[0], depth+1, seen)
			}
		}
		if callIs(x, "time", "", "Date") && len(x.Call.Args) == 8 {
			if u, ok := x.Call.Args[7].(*ssa.UnOp); ok && u.Op == token.MUL {
				if g, ok := u.X.(*ssa.Global); ok && g.Pkg != nil && g.Pkg.Pkg.Path() == "time" && g.Name() == "UTC" {
					return true
				}
			}
		}
	case *ssa.Phi:
		for _, e := range x.Edges {
			if !c07UTC(e, depth+1, seen) {
				return false
			}
		}
		return len(x.Edges) > 0
	}
	return false
}

// classifyStep: is call a step of a time value, and of which kind?
func (st *c07State) classifyStep(c *ssa.Call, depth int) (c07Step, bool) {
	if !c07IsTime(c.Type()) || len(refs(c)) == 0 {
		return c07Step{}, false
	}
	switch {
	case c07IsTimeMethod(c, "Add") && len(c.Call.Args) == 2:
		if b := st.eng.intAt(c.Call.Args[1], c.Block()); b.Lo >= 1 {
			return c07Step{call: c, pre: c.Call.Args[0], kind: "absolute"}, true
		}
		return c07Step{}, false // a correction of unknown sign (DST fix-up), not a step
	case c07IsTimeMethod(c, "AddDate") && len(c.Call.Args) == 4:
		y, ok1 := c07ConstInt(c.Call.Args[1])
		m, ok2 := c07ConstInt(c.Call.Args[2])
		d, ok3 := c07ConstInt(c.Call.Args[3])
		s := c07Step{call: c, pre: c.Call.Args[0], kind: "unknown"}
		switch {
		case ok1 && ok2 && y == 0 && m == 0 && (!ok3 || d != 0):
			s.kind = "calendar-day"
		case ok1 && ok2 && ok3 && d == 0 && (y != 0 || m != 0):
			s.kind = "calendar-month"
		case ok1 && ok2 && ok3 && y == 0 && m == 0 && d == 0:
			return c07Step{}, false
		}
		return s, true
	case callIs(c, "time", "", "Date") && len(c.Call.Args) == 8:
		// time.Date(y, m, Day(p)+k, ...) is a day step from p; Date(.., Day(p), ..) is a truncation
		day := c07Settle(c.Call.Args[2])
		if bo, ok := day.(*ssa.BinOp); ok && bo.Op == token.ADD {
			for _, pr := range [][2]ssa.Value{{bo.X, bo.Y}, {bo.Y, bo.X}} {
				if dc, ok := c07Settle(pr[0]).(*ssa.Call); ok && c07IsTimeMethod(dc, "Day") {
					if k, ok := c07ConstInt(pr[1]); ok && k == 0 {
						return c07Step{}, false
					}
					return c07Step{call: c, pre: dc.Call.Args[0], kind: "calendar-day"}, true
				}
			}
		}
		mon := c07Settle(c.Call.Args[1])
		if bo, ok := mon.(*ssa.BinOp); ok && bo.Op == token.ADD {
			for _, side := range []ssa.Value{bo.X, bo.Y} {
				if mc, ok := c07Settle(side).(*ssa.Call); ok && c07IsTimeMethod(mc, "Month") {
					return c07Step{call: c, pre: mc.Call.Args[0], kind: "calendar-month"}, true
				}
				if cv, ok := c07Settle(side).(*ssa.Convert); ok {
					if mc, ok := c07Settle(cv.X).(*ssa.Call); ok && c07IsTimeMethod(mc, "Month") {
						return c07Step{call: c, pre: mc.Call.Args[0], kind: "calendar-month"}, true
					}
				}
			}
		}
		return c07Step{}, false
	}
	// a module helper that steps the time it receives
	if depth < 2 {
		for _, t := range st.eng.fv.callTargets(c) {
			g := origin(t.Fn)
			if g.Blocks == nil {
				continue
			}
			var targ ssa.Value
			for _, a := range c.Call.Args {
				if c07IsTime(a.Type()) {
					targ = a
				}
			}
			if targ == nil {
				continue
			}
			worst := ""
			allInstrs(g, func(in ssa.Instruction) {
				gc, ok := in.(*ssa.Call)
				if !ok {
					return
				}
				s, ok := st.classifyStep(gc, depth+1)
				if !ok {
					return
				}
				switch s.kind {
				case "calendar-day":
					// guarded inside the helper?
					if v, _ := st.guardVerdict(g, s, nil, nil); v != "ok" {
						worst = "calendar-day"
					}
				case "unknown":
					if worst == "" {
						worst = "unknown"
					}
				}
			})
			if worst != "" {
				return c07Step{call: c, pre: targ, kind: worst, via: g}, true
			}
		}
	}
	return c07Step{}, false
}

// c07PreSet: the step's pre-value and the time values it comes from within
// the iteration (through phis and truncations) up to loop-header phis.
func c07PreSet(pre ssa.Value, region map[*ssa.BasicBlock]bool) map[ssa.Value]bool {
	set := map[ssa.Value]bool{}
	var walk func(v ssa.Value, d int)
	walk = func(v ssa.Value, d int) {
		if v == nil || d > 6 || set[v] {
			return
		}
		if !c07IsTime(v.Type()) {
			return
		}
		set[v] = true
		if s := c07Settle(v); s != v {
			walk(s, d+1)
			return
		}
		switch x := v.(type) {
		case *ssa.Phi:
			// a header phi (an edge comes from later in the iteration) is a leaf
			for i, e := range x.Edges {
				pred := x.Block().Preds[i]
				if x.Block().Dominates(pred) {
					return // loop header: stop here
				}
				_ = e
			}
			for _, e := range x.Edges {
				walk(e, d+1)
			}
		case *ssa.Call:
			for _, a := range x.Call.Args {
				walk(a, d+1)
			}
			// time.Date(t.Year(), ...): through the accessor calls
			if callIs(x, "time", "", "Date") {
				for _, a := range x.Call.Args {
					if ac, ok := c07Settle(a).(*ssa.Call); ok && len(ac.Call.Args) > 0 && c07IsTime(ac.Call.Args[0].Type()) {
						walk(ac.Call.Args[0], d+1)
					}
				}
			}
		}
	}
	walk(pre, 0)
	return set
}

// c07Reaches: v depends on some value of targets, never looking through the
// values in leaves (they are treated as opaque inputs).
func c07Reaches(v ssa.Value, targets, leaves map[ssa.Value]bool, depth int, seen map[ssa.Value]bool) bool {
	if v == nil || depth > 10 || seen[v] {
		return false
	}
	seen[v] = true
	if targets[v] {
		return true
	}
	if leaves[v] {
		return false
	}
	if s := c07Settle(v); s != v {
		return c07Reaches(s, targets, leaves, depth+1, seen)
	}
	in, ok := v.(ssa.Instruction)
	if !ok {
		return false
	}
	for _, op := range in.Operands(nil) {
		if op != nil && *op != nil && c07Reaches(*op, targets, leaves, depth+1, seen) {
			return true
		}
	}
	return false
}

// guardVerdict looks, in region (nil = the whole function), for a progress
// guard of step s: "ok" (guard with an understood effect), "present" (a
// comparison of pre- and post-step values exists but its effect is not
// understood), "absent".
func (st *c07State) guardVerdict(fn *ssa.Function, s c07Step, region map[*ssa.BasicBlock]bool, header *ssa.BasicBlock) (string, string) {
	inRegion := func(b *ssa.BasicBlock) bool { return region == nil || region[b] }
	pre := c07PreSet(s.pre, region)
	post := map[ssa.Value]bool{s.call: true}
	// leaves for the two searches: a post-dependent value must reach the step
	// without passing through pre-values (the step itself depends on pre);
	// a pre-only value reaches a pre-value and never the step
	isPost := func(v ssa.Value) bool {
		return c07Reaches(v, post, pre, 0, map[ssa.Value]bool{})
	}
	isPreOnly := func(v ssa.Value) bool {
		if isPost(v) {
			return false
		}
		return c07Reaches(v, pre, map[ssa.Value]bool{}, 0, map[ssa.Value]bool{})
	}
	relates := func(a, b ssa.Value) bool {
		return (isPost(a) && isPreOnly(b)) || (isPost(b) && isPreOnly(a))
	}
	// comparison values that relate pre and post
	var cmps []ssa.Value
	for _, b := range fn.Blocks {
		if !inRegion(b) {
			continue
		}
		for _, in := range b.Instrs {
			switch x := in.(type) {
			case *ssa.BinOp:
				switch x.Op {
				case token.EQL, token.NEQ, token.LSS, token.LEQ, token.GTR, token.GEQ:
					if relates(x.X, x.Y) {
						cmps = append(cmps, x)
					}
				}
			case *ssa.Call:
				if x == s.call || len(x.Call.Args) < 2 {
					continue
				}
				// t.After(prev), t.Sub(prev), advanced(prev, t), ...
				found := false
				for i := 0; i < len(x.Call.Args) && !found; i++ {
					for j := i + 1; j < len(x.Call.Args) && !found; j++ {
						if relates(x.Call.Args[i], x.Call.Args[j]) {
							found = true
						}
					}
				}
				if found {
					if _, isStep := st.classifyStep(x, 2); !isStep || !c07IsTime(x.Type()) {
						cmps = append(cmps, x)
					}
				}
			}
		}
	}
	if len(cmps) == 0 {
		return "absent", ""
	}
	var stalled []string
	cmpSet := map[ssa.Value]bool{}
	for _, c := range cmps {
		cmpSet[c] = true
	}
	// an If on such a comparison under which the time is re-assigned from an
	// absolute step, or the function returns
	for _, b := range fn.Blocks {
		if !inRegion(b) || len(b.Instrs) == 0 || len(b.Succs) != 2 {
			continue
		}
		ifi, ok := b.Instrs[len(b.Instrs)-1].(*ssa.If)
		if !ok || !c07Reaches(ifi.Cond, cmpSet, map[ssa.Value]bool{}, 0, map[ssa.Value]bool{}) {
			continue
		}
		stop := map[*ssa.BasicBlock]bool{b: true, s.call.Block(): true}
		if header != nil {
			stop[header] = true // what happens in the next iteration or after the loop is not the guard's effect
		}
		r0, r1 := reachableFrom(b.Succs[0], stop), reachableFrom(b.Succs[1], stop)
		for pi, pair := range [][2]map[*ssa.BasicBlock]bool{{r0, r1}, {r1, r0}} {
			effect := false
			for blk := range pair[0] {
				if pair[1][blk] {
					continue
				}
				if c07EndsInReturn(blk) {
					effect = true
				}
				for _, in := range blk.Instrs {
					if c, ok := in.(*ssa.Call); ok {
						if as, ok := st.classifyStep(c, 1); ok && as.kind == "absolute" {
							effect = true
						}
					}
				}
			}
			if !effect {
				continue
			}
			// the stall is "post-step time == pre-step time": does the guard take
			// the branch with the effect then?
			isTime := func(v ssa.Value) bool {
				return c07IsTime(v.Type()) && (isPost(v) || c07Reaches(v, pre, map[ssa.Value]bool{}, 0, map[ssa.Value]bool{}))
			}
			val, known := st.stallEval(ifi.Cond, isTime, 0)
			wantTrue := pi == 0 // the effect is on the true successor
			if known && val != wantTrue {
				stalled = append(stalled, st.p.Pos(c04IfPos(ifi)))
				continue
			}
			return "ok", st.p.Pos(c04IfPos(ifi))
		}
	}
	if len(stalled) > 0 {
		return "stalled", strings.Join(stalled, ", ")
	}
	return "present", ""
}

// stallTerm: a canonical term for an int/duration/time value under the
// assumption that every time value of the iteration denotes the same instant T.
func (st *c07State) stallTerm(v ssa.Value, isTime func(ssa.Value) bool, depth int) (string, bool) {
	if depth > 5 || v == nil {
		return "", false
	}
	v = c07Settle(v)
	if c, ok := v.(*ssa.Const); ok && c.Value != nil {
		return "#" + c.Value.ExactString(), true
	}
	if c07IsTime(v.Type()) {
		if isTime(v) {
			return "T", true
		}
		return "", false
	}
	switch x := v.(type) {
	case *ssa.Call:
		obj := calleeObj(x)
		if obj == nil || obj.Pkg() == nil || obj.Pkg().Path() != "time" || x.Call.IsInvoke() {
			return "", false
		}
		sig := obj.Type().(*types.Signature)
		if sig.Recv() == nil || typeBaseName(sig.Recv().Type()) != "Time" {
			return "", false
		}
		var parts []string
		for _, a := range x.Call.Args {
			t, ok := st.stallTerm(a, isTime, depth+1)
			if !ok {
				return "", false
			}
			parts = append(parts, t)
		}
		switch obj.Name() {
		case "Sub":
			if len(parts) == 2 && parts[0] == parts[1] {
				return "#0", true
			}
		case "Compare":
			if len(parts) == 2 && parts[0] == parts[1] {
				return "#0", true
			}
		}
		return obj.Name() + "(" + strings.Join(parts, ",") + ")", true
	case *ssa.Convert:
		return st.stallTerm(x.X, isTime, depth+1)
	}
	return "", false
}

// stallEval evaluates a boolean under post-step time == pre-step time.
func (st *c07State) stallEval(v ssa.Value, isTime func(ssa.Value) bool, depth int) (bool, bool) {
	if depth > 5 || v == nil {
		return false, false
	}
	v = c07Settle(v)
	switch x := v.(type) {
	case *ssa.Const:
		if x.Value != nil && x.Value.Kind() == constant.Bool {
			return constant.BoolVal(x.Value), true
		}
	case *ssa.UnOp:
		if x.Op == token.NOT {
			b, ok := st.stallEval(x.X, isTime, depth+1)
			return !b, ok
		}
	case *ssa.BinOp:
		a, ok1 := st.stallTerm(x.X, isTime, depth+1)
		b, ok2 := st.stallTerm(x.Y, isTime, depth+1)
		if !ok1 || !ok2 {
			return false, false
		}
		if a == b {
			switch x.Op {
			case token.EQL, token.LEQ, token.GEQ:
				return true, true
			case token.NEQ, token.LSS, token.GTR:
				return false, true
			}
			return false, false
		}
		if strings.HasPrefix(a, "#") && strings.HasPrefix(b, "#") {
			ca, cb := constant.MakeFromLiteral(a[1:], token.INT, 0), constant.MakeFromLiteral(b[1:], token.INT, 0)
			if ca.Kind() == constant.Unknown || cb.Kind() == constant.Unknown {
				return false, false
			}
			return constant.Compare(ca, x.Op, cb), true
		}
		return false, false
	case *ssa.Call:
		obj := calleeObj(x)
		if obj != nil && obj.Pkg() != nil && obj.Pkg().Path() == "time" && !x.Call.IsInvoke() && len(x.Call.Args) == 2 {
			a, ok1 := st.stallTerm(x.Call.Args[0], isTime, depth+1)
			b, ok2 := st.stallTerm(x.Call.Args[1], isTime, depth+1)
			if ok1 && ok2 && a == b {
				switch obj.Name() {
				case "Equal":
					return true, true
				case "Before", "After":
					return false, true
				}
			}
			return false, false
		}
		// a boolean module helper on the two times (sameDay(prev, t)): evaluate its
		// single returned expression with the parameters standing for T
		if fn := st.eng.calleeOf(x); fn != nil && st.p.InModule(fn) && fn.Blocks != nil && depth < 3 {
			var ret *ssa.Return
			n := 0
			for _, b := range fn.Blocks {
				if r, ok := b.Instrs[len(b.Instrs)-1].(*ssa.Return); ok {
					ret = r
					n++
				}
			}
			if n != 1 || len(ret.Results) != 1 {
				return false, false
			}
			for _, a := range x.Call.Args {
				if c07IsTime(a.Type()) && !isTime(a) {
					return false, false
				}
			}
			inner := func(v ssa.Value) bool {
				_, isPar := c07Settle(v).(*ssa.Parameter)
				return isPar
			}
			return st.stallEval(ret.Results[0], inner, depth+1)
		}
	}
	return false, false
}

// c07LoopRegion: the blocks on cycles through header h that avoid the blocks
// in stop.
func c07LoopRegion(h *ssa.BasicBlock, stop map[*ssa.BasicBlock]bool) map[*ssa.BasicBlock]bool {
	fwd := map[*ssa.BasicBlock]bool{}
	for _, s := range h.Succs {
		if stop[s] {
			continue
		}
		st2 := map[*ssa.BasicBlock]bool{h: true}
		for b := range stop {
			st2[b] = true
		}
		for b := range reachableFrom(s, st2) {
			fwd[b] = true
		}
	}
	// keep those that can come back to h
	region := map[*ssa.BasicBlock]bool{}
	for b := range fwd {
		st2 := map[*ssa.BasicBlock]bool{}
		for x := range stop {
			st2[x] = true
		}
		if b == h || (h.Dominates(b) && reachableFrom(b, st2)[h]) {
			region[b] = true // the natural loop of h: an enclosing loop is not part of it
		}
	}
	if len(region) > 0 {
		region[h] = true
	}
	return region
}

// checkStepLoop evaluates the rule for one loop (header h of fn).
func (st *c07State) checkStepLoop(fn *ssa.Function, h *ssa.BasicBlock, stop map[*ssa.BasicBlock]bool, construct, what string, pos string) {
	r := st.r
	region := c07LoopRegion(h, stop)
	if len(region) == 0 {
		return
	}
	var steps []c07Step
	var blocks []*ssa.BasicBlock
	for b := range region {
		blocks = append(blocks, b)
	}
	sort.Slice(blocks, func(i, j int) bool { return blocks[i].Index < blocks[j].Index })
	for _, b := range blocks {
		for _, in := range b.Instrs {
			if c, ok := in.(*ssa.Call); ok {
				if s, ok := st.classifyStep(c, 0); ok {
					steps = append(steps, s)
				}
			}
		}
	}
	var kinds []string
	var day []c07Step
	unknown := false
	for _, s := range steps {
		kinds = append(kinds, s.kind)
		switch s.kind {
		case "calendar-day":
			if !c07ProvablyUTC(s.pre, 0) {
				day = append(day, s)
			}
		case "unknown":
			unknown = true
		}
	}
	sort.Strings(kinds)
	kinds = c07Uniq(kinds)
	if len(day) == 0 {
		if unknown {
			r.Undecide("%s: %s steps its time by a calendar step whose granularity the engine cannot determine (AddDate with non-constant years/months)", c07N6s, what)
			return
		}
		r.OK(c07N6s, construct, pos, "no day-granularity calendar step on a zoned time in this loop (steps: "+strings.Join(kinds, ", ")+"): absolute steps always advance, no zone skips a month")
		return
	}
	for _, s := range day {
		v, where := st.guardVerdict(fn, s, region, h)
		spos := st.p.Pos(instrPos(s.call))
		desc := "t.AddDate / time.Date day step"
		if s.via != nil {
			desc = "day step inside " + FuncName(st.p, s.via)
		}
		switch v {
		case "ok":
			r.OK(c07N6s, construct, spos, "the calendar day step is followed by a test relating the pre- and post-step time ("+where+") under which the time is re-assigned from an absolute step or the function returns")
		case "stalled":
			r.Violation(c07N6s, construct, spos,
				fmt.Sprintf("%s steps its loop-carried time by a CALENDAR day (%s); the only test(s) relating the time before and after the step (%s) are FALSE exactly in the case they exist for: where the zone skips a whole calendar day the step lands ON the instant it started from (post-step time == pre-step time; Before/After are false, Equal and Day()==Day() are true), so the guarded absolute step / return is not taken, the loop never advances and Next runs forever", what, desc, where),
				"input: TZ=Pacific/Apia 0 0 31 12 *  asked on 2011-12-25")
		case "present":
			r.Undecide("%s: %s — a comparison of the pre- and post-step time exists after the calendar day step at %s, but the engine cannot see that it leads to an absolute step or a return", c07N6s, what, spos)
		default:
			r.Violation(c07N6s, construct, spos,
				fmt.Sprintf("%s steps its loop-carried time by a CALENDAR day (%s) on a time in the schedule's zone and nothing in the iteration compares the time before the step with the time after it: the step is re-normalised in the zone, and where the zone skips a whole calendar day (Pacific/Apia 2011-12-30, Pacific/Kwajalein 1993-08-21) it lands on the instant it started from, so the loop never advances, never wraps and never reaches the five-year bound — Next runs forever. Only t.Add of a positive duration is guaranteed to advance", what, desc),
				"input: TZ=Pacific/Apia 0 0 31 12 *  asked on 2011-12-25")
		}
	}
}

// checkStepProgressGeneric: for fixtures — every loop whose header test
// depends on a loop-carried time.Time.
func (st *c07State) checkStepProgressGeneric() {
	for _, fn := range st.sc.List {
		name := FuncName(st.p, fn)
		n := 0
		for _, b := range fn.Blocks {
			if len(b.Instrs) == 0 || len(b.Succs) != 2 || !c07InCycle(b) {
				continue
			}
			ifi, ok := b.Instrs[len(b.Instrs)-1].(*ssa.If)
			if !ok {
				continue
			}
			carried := false
			for _, in := range b.Instrs {
				if phi, ok := in.(*ssa.Phi); ok && c07IsTime(phi.Type()) && c07Depends(ifi.Cond, phi, 6) {
					carried = true
				}
			}
			if !carried {
				continue
			}
			n++
			construct := name + " loop"
			if n > 1 {
				construct = fmt.Sprintf("%s loop #%d", name, n)
			}
			st.checkStepLoop(fn, b, nil, construct+": calendar day step has a progress guard", name+" loop", st.p.Pos(c04IfPos(ifi)))
		}
	}
}
