package main

// C05‑S4: activation bookkeeping. Wherever a job of an entry e is started,
// (guard) every path to the start has established origNext(e) <= now and
// origNext(e) non-zero, where now is a reading of the clock; (bookkeeping) the
// iteration that starts e also stores e.Prev = origNext(e) and
// e.Next = e.Schedule.Next(<clock reading>). Helper functions taking the
// entry as a parameter are analysed in the context of their call sites.

import (
	"fmt"
	"go/constant"
	"go/token"
	"go/types"

	"golang.org/x/tools/go/ssa"
)

const (
	c05mOrig uint64 = 1 << iota // e.Next still holds the value it had at the start of the iteration
	c05mLE                      // origNext(e) <= a clock reading
	c05mNZ                      // origNext(e) is not the zero time
	c05mND                      // origNext(e) is NOT due: the zero time, or strictly after a clock reading
)

const (
	c05sStarted = 1 << iota
	c05sPrev
	c05sNext
	c05sTwice
	c05sNotDue // on this path the entry was shown not due (zero Next, or Next strictly after the clock reading)
	c05sTested // on this path a test on the entry's Next was made
)

type c05Event struct {
	instr      ssa.Instruction
	entry      ssa.Value // the *Entry whose job is started (value of the enclosing function)
	jobParam   int       // index of the enclosing function's own parameter that supplies the job, or -1
	unresolved bool
	callee     string
}

func c05UniqueStore(cell *ssa.Alloc) ssa.Value {
	var val ssa.Value
	n := 0
	for _, r := range refs(cell) {
		if st, ok := r.(*ssa.Store); ok && st.Addr == cell {
			val = st.Val
			n++
		}
	}
	if n == 1 {
		return val
	}
	return nil
}

// chaseJob follows a Job value back to the entry field or parameter it comes from.
func (a *c05) chaseJob(v ssa.Value) (entry ssa.Value, par *ssa.Parameter, ok bool) {
	for i := 0; i < 16 && v != nil; i++ {
		switch x := v.(type) {
		case *ssa.Parameter:
			return nil, x, true
		case *ssa.MakeInterface:
			v = x.X
		case *ssa.ChangeInterface:
			v = x.X
		case *ssa.ChangeType:
			v = x.X
		case *ssa.FreeVar:
			v = resolveFreeVar(x)
		case *ssa.UnOp:
			if x.Op != token.MUL {
				return nil, nil, false
			}
			if X, ok := c05FieldAddr(x.X, a.fWrapped); ok {
				return X, nil, true
			}
			if X, ok := c05FieldAddr(x.X, a.fJob); ok {
				return X, nil, true
			}
			switch cell := x.X.(type) {
			case *ssa.Alloc:
				v = c05UniqueStore(cell)
			case *ssa.FreeVar:
				b := resolveFreeVar(cell)
				if al, ok := b.(*ssa.Alloc); ok {
					v = c05UniqueStore(al)
				} else {
					return nil, nil, false
				}
			default:
				return nil, nil, false
			}
		default:
			return nil, nil, false
		}
	}
	return nil, nil, false
}

// runSites: invocations of cron.Job.Run in fn.
func (a *c05) runSites(fn *ssa.Function) []*ssa.Call {
	var out []*ssa.Call
	allInstrs(fn, func(in ssa.Instruction) {
		if call, ok := in.(*ssa.Call); ok && call.Call.IsInvoke() && callIs(call, a.pkg, "Job", "Run") {
			out = append(out, call)
		}
	})
	return out
}

func c05ParamIndex(par *ssa.Parameter) int {
	for i, q := range par.Parent().Params {
		if q == par {
			return i
		}
	}
	return -1
}

// events enumerates the job starts in fn: go statements whose goroutine
// invokes Job.Run, and calls to functions that start their Job parameter.
func (a *c05) events(fn *ssa.Function) []c05Event {
	var out []c05Event
	finish := func(in ssa.Instruction, v ssa.Value, callee string) {
		ev := c05Event{instr: in, jobParam: -1, callee: callee}
		entry, par, ok := a.chaseJob(v)
		switch {
		case !ok:
			ev.unresolved = true
		case par != nil:
			if par.Parent() != fn {
				ev.unresolved = true
			} else {
				ev.jobParam = c05ParamIndex(par)
			}
		default:
			if in2, isIn := entry.(ssa.Instruction); isIn && in2.Parent() != fn {
				ev.unresolved = true
			} else if pe, isP := entry.(*ssa.Parameter); isP && pe.Parent() != fn {
				ev.unresolved = true
			}
			ev.entry = entry
		}
		out = append(out, ev)
	}
	allInstrs(fn, func(in ssa.Instruction) {
		switch x := in.(type) {
		case *ssa.Go:
			if x.Call.IsInvoke() && callIs(x, a.pkg, "Job", "Run") {
				finish(in, x.Call.Value, "go Job.Run")
				return
			}
			h := staticCallee(x)
			if h == nil || !a.p.funcSet[h] {
				return
			}
			for _, rs := range a.runSites(h) {
				entry, par, ok := a.chaseJob(rs.Call.Value)
				if ok && par != nil && par.Parent() == h {
					// named goroutine function: map its parameter to the go statement's argument
					k := c05ParamIndex(par)
					if k >= 0 && k < len(x.Call.Args) {
						finish(in, x.Call.Args[k], a.name(h))
						continue
					}
				}
				_ = entry
				finish(in, rs.Call.Value, a.name(h))
			}
		case *ssa.Call:
			// static callee, or a statically known dynamic target (method value kept
			// in a func-typed field / local, callback parameter)
			for _, s := range a.calleesOf(x) {
				k, ok := a.starters[s]
				if !ok {
					continue
				}
				shift := len(s.Params) - len(x.Call.Args) // bound receiver
				if shift < 0 {
					shift = 0
				}
				if k-shift >= 0 && k-shift < len(x.Call.Args) {
					finish(in, x.Call.Args[k-shift], a.name(s))
				}
			}
		}
	})
	return out
}

// computeStarters: functions that start the Job passed as one of their parameters.
func (a *c05) computeStarters() {
	for changed := true; changed; {
		changed = false
		for _, fn := range a.funcs {
			if _, ok := a.starters[fn]; ok {
				continue
			}
			for _, ev := range a.events(fn) {
				if !ev.unresolved && ev.jobParam >= 0 {
					a.starters[fn] = ev.jobParam
					changed = true
					break
				}
			}
		}
	}
}

// edgeFacts decodes a branch condition into facts about origNext(e).
func (a *c05) edgeFacts(cond ssa.Value, br bool, isOrig func(ssa.Value) bool) (facts uint64, unknown bool) {
	for {
		if u, ok := cond.(*ssa.UnOp); ok && u.Op == token.NOT {
			cond, br = u.X, !br
			continue
		}
		break
	}
	// classify (X, N) pairs
	pair := func(x, y ssa.Value) (xn, yn, usable, definite bool) {
		xn, yn = isOrig(x), isOrig(y)
		if xn == yn {
			return xn, yn, false, !xn
		}
		other := y
		if yn {
			other = x
		}
		if a.clockDerived(other) {
			return xn, yn, true, true
		}
		return xn, yn, false, a.positiveShift(other)
	}
	switch x := cond.(type) {
	case *ssa.Call:
		if x.Call.IsInvoke() {
			return 0, false
		}
		args := x.Call.Args
		if c05IsTimeMethod(x, "IsZero") && len(args) == 1 {
			if isOrig(args[0]) && !br {
				return c05mNZ, false
			}
			if isOrig(args[0]) && br {
				return c05mND, false
			}
			return 0, false
		}
		for _, n := range []string{"After", "Before", "Equal"} {
			if !c05IsTimeMethod(x, n) || len(args) != 2 {
				continue
			}
			xn, yn, usable, definite := pair(args[0], args[1])
			if !usable {
				return 0, (xn || yn) && !definite
			}
			le := false
			switch n {
			case "After": // args[0] > args[1]
				le = (xn && !br) || (yn && br)
			case "Before": // args[0] < args[1]
				le = (xn && br) || (yn && !br)
			case "Equal":
				le = br
			}
			if le {
				return c05mLE, false
			}
			// strictly after the clock reading: not due
			switch n {
			case "After":
				if (xn && br) || (yn && !br && false) {
					return c05mND, false
				}
			case "Before":
				if yn && br {
					return c05mND, false
				}
			}
			return 0, false
		}
		for _, ar := range args {
			if isOrig(ar) {
				return 0, true
			}
		}
	case *ssa.BinOp:
		cmp, ok := decodeCond(cond, br)
		if !ok {
			return 0, false
		}
		call, k := cmp.X, cmp.Y
		op := cmp.Op
		if _, isC := call.(*ssa.Const); isC {
			call, k = k, call
			switch op {
			case token.LSS:
				op = token.GTR
			case token.GTR:
				op = token.LSS
			case token.LEQ:
				op = token.GEQ
			case token.GEQ:
				op = token.LEQ
			}
		}
		cc, ok1 := call.(*ssa.Call)
		kc, ok2 := k.(*ssa.Const)
		if !ok1 || !ok2 || kc.Value == nil || cc.Call.IsInvoke() || len(cc.Call.Args) != 2 {
			for _, opnd := range []ssa.Value{cmp.X, cmp.Y} {
				if isOrig(opnd) {
					return 0, true
				}
			}
			return 0, false
		}
		isCompare, isSub := c05IsTimeMethod(cc, "Compare"), c05IsTimeMethod(cc, "Sub")
		if !isCompare && !isSub {
			for _, ar := range cc.Call.Args {
				if isOrig(ar) {
					return 0, true
				}
			}
			return 0, false
		}
		xn, yn, usable, definite := pair(cc.Call.Args[0], cc.Call.Args[1])
		if !usable {
			return 0, (xn || yn) && !definite
		}
		kv := kc.Int64()
		holds := func(v int64) bool {
			switch op {
			case token.EQL:
				return v == kv
			case token.NEQ:
				return v != kv
			case token.LSS:
				return v < kv
			case token.LEQ:
				return v <= kv
			case token.GTR:
				return v > kv
			case token.GEQ:
				return v >= kv
			}
			return true
		}
		// sign of (first - second): the condition must exclude the sign that means origNext > now
		bad := int64(1) // first=origNext: a positive difference means "not yet due"
		if yn {
			bad = -1
		}
		excluded := false
		if isCompare {
			excluded = !holds(bad)
		} else {
			// durations: the smallest offending magnitude (1ns) and a large one must both be excluded,
			// and the relation must be monotone in the right direction
			excluded = !holds(bad) && !holds(bad*(1<<62))
			if op == token.NEQ {
				excluded = false
			}
		}
		if excluded {
			return c05mLE, false
		}
		// the condition holds ONLY for the sign meaning origNext > now: not due
		onlyBad := holds(bad) && !holds(0) && !holds(-bad)
		if !isCompare {
			onlyBad = onlyBad && holds(bad*(1<<62)) && !holds(-bad*(1<<62)) && op != token.NEQ
		}
		if onlyBad {
			return c05mND, false
		}
		return 0, false
	}
	return 0, false
}

// properNext: val is e.Schedule.Next(<clock reading>). recognised=false when
// val is not a Schedule.Next invocation at all (shape not understood).
func (a *c05) properNext(val ssa.Value, e ssa.Value) (proper, recognised bool, why string) {
	call, ok := val.(*ssa.Call)
	if !ok || !call.Call.IsInvoke() || !callIs(call, a.pkg, "Schedule", "Next") {
		return false, false, "value is not the result of Schedule.Next"
	}
	if X, ok := c05LoadOf(call.Call.Value, a.fSchedule); !ok || !a.sameEntry(X, e) {
		return false, true, "Schedule.Next is invoked on another entry's schedule"
	}
	if len(call.Call.Args) != 1 || !a.clockDerived(call.Call.Args[0]) {
		return false, true, "Schedule.Next is not given a reading of the clock (the time of this wake-up)"
	}
	return true, true, ""
}

// analyze runs the three dataflows for (fn, e) and returns the powerset of
// bookkeeping states at the end of e's iteration (or at fn's returns when e
// is a parameter).
func (a *c05) analyze(fn *ssa.Function, e ssa.Value, entryFacts uint64) uint64 {
	key := fmt.Sprintf("%p|%p|%d", fn, e, entryFacts)
	if v, ok := a.actMemo[key]; ok {
		return v
	}
	if a.actActive[key] {
		return 1 << 0
	}
	a.actActive[key] = true
	defer delete(a.actActive, key)

	var defInstr ssa.Instruction
	_, isParam := e.(*ssa.Parameter)
	if !isParam {
		defInstr, _ = e.(ssa.Instruction)
		// an element c.entries[i] written out at every use: the iteration is that of i
		if idx := a.entryIdx(e); idx != nil {
			if ii, ok := idx.(ssa.Instruction); ok {
				defInstr = ii
			}
		}
		entryFacts = 0
	}
	storesNext := a.mayStore(a.fNext)

	orig := &FlagFlow{Fn: fn, Must: true, Entry: entryFacts & c05mOrig,
		Transfer: func(in ssa.Instruction, st uint64) uint64 {
			if defInstr != nil && in == defInstr {
				return c05mOrig
			}
			switch x := in.(type) {
			case *ssa.Store:
				if _, ok := c05FieldAddr(x.Addr, a.fNext); ok {
					return 0
				}
			case *ssa.Call:
				if cal := staticCallee(x); cal != nil && storesNext[cal] {
					return 0
				}
			case *ssa.Go:
				if cal := staticCallee(x); cal != nil && storesNext[cal] {
					return 0
				}
			}
			return st
		}}
	orig.Run()
	isOrig := func(v ssa.Value) bool {
		for {
			if ct, ok := v.(*ssa.ChangeType); ok {
				v = ct.X
				continue
			}
			break
		}
		X, ok := c05LoadOf(v, a.fNext)
		if !ok || !a.sameEntry(X, e) {
			return false
		}
		st, reach := orig.Before(v.(ssa.Instruction))
		return reach && st&c05mOrig != 0
	}
	facts := &FlagFlow{Fn: fn, Must: true, Entry: entryFacts & (c05mLE | c05mNZ),
		Transfer: func(in ssa.Instruction, st uint64) uint64 {
			if defInstr != nil && in == defInstr {
				return 0
			}
			return st
		},
		EdgeTransfer: func(from, to *ssa.BasicBlock, st uint64) uint64 {
			if len(from.Instrs) == 0 || len(from.Succs) != 2 || from.Succs[0] == from.Succs[1] {
				return st
			}
			ifi, ok := from.Instrs[len(from.Instrs)-1].(*ssa.If)
			if !ok {
				return st
			}
			var f uint64
			for _, at := range c05ExpandCond(ifi.Cond, from.Succs[0] == to, 0) {
				bits, unk := a.edgeFacts(at.v, at.tv, isOrig)
				if unk {
					a.unknownCond[fn] = true
				}
				f |= bits
				// a same-package predicate on the entry (e.g. e.due(now)): the facts its
				// result implies, established inside it on every matching return
				if call, ok := at.v.(*ssa.Call); ok && !call.Call.IsInvoke() {
					if h := staticCallee(call); h != nil && a.p.funcSet[h] && h != fn && len(h.Blocks) > 0 {
						for k, arg := range call.Call.Args {
							if k < len(h.Params) && a.sameEntry(arg, e) {
								if o, reach := orig.Before(call); reach && o&c05mOrig != 0 {
									f |= a.predicateFacts(h, h.Params[k], at.tv, 0)
								}
							}
						}
					}
				}
			}
			return st | f
		}}
	facts.Run()
	factsAt := func(in ssa.Instruction) uint64 {
		o, _ := orig.Before(in)
		f, _ := facts.Before(in)
		return (o & c05mOrig) | (f & (c05mLE | c05mNZ))
	}

	evAt := map[ssa.Instruction]c05Event{}
	for _, ev := range a.events(fn) {
		if ev.unresolved || !a.sameEntry(ev.entry, e) {
			continue
		}
		evAt[ev.instr] = ev
	}
	var badPrev, badNext string
	unknownNext := false
	setBit := func(st uint64, bit int) uint64 { return mapStates(st, func(s int) int { return s | bit }) }
	clrBit := func(st uint64, bit int) uint64 { return mapStates(st, func(s int) int { return s &^ bit }) }
	book := &FlagFlow{Fn: fn, Must: false, Entry: 1 << 0,
		EdgeTransfer: func(from, to *ssa.BasicBlock, st uint64) uint64 {
			if len(from.Instrs) == 0 || len(from.Succs) != 2 || from.Succs[0] == from.Succs[1] {
				return st
			}
			ifi, ok := from.Instrs[len(from.Instrs)-1].(*ssa.If)
			if !ok {
				return st
			}
			add := 0
			for _, at := range c05ExpandCond(ifi.Cond, from.Succs[0] == to, 0) {
				if pv, _ := c05CondValue(at.v); pv != nil {
					if phi, isPhi := pv.(*ssa.Phi); isPhi && len(phi.Edges) == 2 {
						// a due test computed as a VALUE (`due := a && b`, `skip := a || b`):
						// on the branch where the value is the short-circuit constant's
						// opposite the operands are known (c05ExpandCond); on the other
						// branch EITHER operand decided: the entry is not due if each
						// alternative on its own shows it
						_, pol := c05CondValue(at.v)
						want := at.tv == pol
						for ci, ed := range phi.Edges {
							k, isK := ed.(*ssa.Const)
							if !isK || k.Value == nil || k.Value.Kind() != constant.Bool || constant.BoolVal(k.Value) != want {
								continue
							}
							// value == want through the constant edge (x decided) or through y == want
							pred := phi.Block().Preds[ci]
							var xCond ssa.Value
							xTruth := false
							if len(pred.Instrs) > 0 {
								if pif, ok := pred.Instrs[len(pred.Instrs)-1].(*ssa.If); ok && len(pred.Succs) == 2 {
									xCond, xTruth = pif.Cond, pred.Succs[0] == phi.Block()
								}
							}
							nd := func(c ssa.Value, tv bool) (bool, bool) {
								got, involved := false, false
								for _, a2 := range c05ExpandCond(c, tv, 0) {
									b2, u2 := a.edgeFacts(a2.v, a2.tv, isOrig)
									if b2 != 0 || u2 {
										involved = true
									}
									if b2&c05mND != 0 {
										got = true
									}
								}
								return got, involved
							}
							if xCond == nil {
								continue
							}
							ndX, invX := nd(xCond, xTruth)
							ndY, invY := nd(phi.Edges[1-ci], want)
							if ndX && ndY {
								add |= c05sNotDue | c05sTested
							} else if invX || invY {
								a.unknownCond[fn] = true
							}
						}
					}
				}
				bits, unk := a.edgeFacts(at.v, at.tv, isOrig)
				if bits != 0 || unk {
					add |= c05sTested
				}
				if bits&c05mND != 0 {
					add |= c05sNotDue
				}
				// Next >= now (a dominating or current "not before" test) together with Next != now
				if a.geAndNe(at, from, isOrig) {
					add |= c05sNotDue | c05sTested
				}
				if call, ok := at.v.(*ssa.Call); ok && !call.Call.IsInvoke() {
					if h := staticCallee(call); h != nil && a.p.funcSet[h] && h != fn && len(h.Blocks) > 0 {
						for k, arg := range call.Call.Args {
							if k < len(h.Params) && a.sameEntry(arg, e) {
								add |= c05sTested
								if a.predicateFacts(h, h.Params[k], at.tv, 0)&c05mND != 0 {
									add |= c05sNotDue
								}
							}
						}
					}
				}
			}
			if add == 0 {
				return st
			}
			return mapStates(st, func(s int) int { return s | add })
		},
		Transfer: func(in ssa.Instruction, st uint64) uint64 {
			if defInstr != nil && in == defInstr {
				return 1 << 0
			}
			switch x := in.(type) {
			case *ssa.Store:
				if X, ok := c05FieldAddr(x.Addr, a.fPrev); ok && a.sameEntry(X, e) {
					if isOrig(x.Val) {
						return setBit(st, c05sPrev)
					}
					badPrev = "the value stored to Entry.Prev at " + a.pos(in) + " is not the activation instant that was compared with the clock (Entry.Next as it was before being recomputed)"
					return clrBit(st, c05sPrev)
				}
				if X, ok := c05FieldAddr(x.Addr, a.fNext); ok && a.sameEntry(X, e) {
					proper, rec, why := a.properNext(x.Val, e)
					if proper {
						return setBit(st, c05sNext)
					}
					if !rec {
						unknownNext = true
					}
					badNext = "store to Entry.Next at " + a.pos(in) + ": " + why
					return clrBit(st, c05sNext)
				}
			case ssa.CallInstruction:
				if _, ok := evAt[in]; ok {
					return mapStates(st, func(s int) int {
						if s&c05sStarted != 0 {
							return s | c05sTwice
						}
						return s | c05sStarted
					})
				}
				call, ok := in.(*ssa.Call)
				if !ok {
					return st
				}
				g := staticCallee(call)
				if g == nil || !a.p.funcSet[g] || g == fn {
					return st
				}
				for k, arg := range call.Call.Args {
					if !a.sameEntry(arg, e) || k >= len(g.Params) {
						continue
					}
					sub := a.analyze(g, g.Params[k], factsAt(in))
					var out uint64
					for s := 0; s < 64; s++ {
						if st&(1<<uint(s)) == 0 {
							continue
						}
						for o := 0; o < 64; o++ {
							if sub&(1<<uint(o)) != 0 {
								c := s | o
								if s&c05sStarted != 0 && o&c05sStarted != 0 {
									c |= c05sTwice
								}
								out |= 1 << uint(c)
							}
						}
					}
					return out
				}
			}
			return st
		}}
	book.Run()

	fname := a.name(fn)
	// guard obligations for the starts located in this function
	for in, ev := range evAt {
		f := factsAt(in)
		what := fname + " start of an entry's job via " + ev.callee
		if f&c05mLE == 0 && a.unknownCond[fn] {
			a.r.Undecide("C05.S4-guard: %s: a comparison involving Entry.Next on the way to the start at %s is in a form the checker does not decode", what, a.pos(in))
		} else {
			a.r.Check(f&c05mLE != 0, "C05.S4-guard", what+": due", a.pos(in),
				"every path to the start has established Entry.Next <= a reading of the clock (value delivered by the timer / clock.Now)",
				"a job can be started before its activation instant: no test on every path to this start establishes Entry.Next <= now (now = the timer's value or a clock reading); comparison missing, flipped, or made against something that is not the current time")
		}
		a.r.Check(f&c05mNZ != 0, "C05.S4-guard", what+": scheduled", a.pos(in),
			"every path to the start has established !Entry.Next.IsZero()",
			"an entry whose Next is the zero time (schedule without a further activation) passes the due test (zero <= now) and is started although no activation instant exists: the !Next.IsZero() test is missing on some path to this start")
	}

	var ends uint64
	if defInstr != nil {
		d := defInstr.Block()
		for _, b := range fn.Blocks {
			if !d.Dominates(b) {
				continue
			}
			out, vis := book.Out(b)
			if !vis {
				continue
			}
			if len(b.Succs) == 0 {
				if _, isRet := b.Instrs[len(b.Instrs)-1].(*ssa.Return); isRet {
					ends |= out
				}
			}
			for _, s := range b.Succs {
				if !d.Dominates(s) || s == d {
					ends |= book.EdgeTransfer(b, s, out) // including what the branch taken establishes
				}
			}
		}
		started := false
		missPrev, missNext, twice := false, false, false
		skippedDue := false
		for s := 0; s < 64; s++ {
			if ends&(1<<uint(s)) != 0 && s&c05sStarted == 0 && s&c05sTested != 0 && s&c05sNotDue == 0 {
				skippedDue = true
			}
			if ends&(1<<uint(s)) == 0 || s&c05sStarted == 0 {
				continue
			}
			started = true
			if s&c05sTwice != 0 {
				twice = true
			}
			if s&c05sPrev == 0 {
				missPrev = true
			}
			if s&c05sNext == 0 {
				missNext = true
			}
		}
		if started {
			pos := a.pos(defInstr)
			// completeness of the due test: an entry that was examined and not started
			// has been shown NOT due (zero Next, or Next strictly after the clock reading)
			if skippedDue && a.unknownCond[fn] {
				a.r.Undecide("C05.S4-guard: %s: an examined entry can be left unstarted on a path where it is not shown to be not-due, but a comparison on Entry.Next is in a form the checker does not decode", fname)
			} else {
				a.r.Check(!skippedDue, "C05.S4-guard", fname+" an examined entry that is not started is not due", pos,
					"every path that examines an entry and does not start it has established Next.IsZero() or Next strictly after the clock reading",
					"an entry can be examined and left unstarted although it is due: on the path that skips it the test only establishes Entry.Next >= now (or nothing), not Entry.Next > now — when the clock lands exactly on the activation instant the timer fires but the job is not started; it starts late, at the next wake-up, and one start is lost if that wake-up already reaches the following instant")
			}
			a.r.Check(!twice, "C05.S4-bookkeeping", fname+" one start per entry and wake-up", pos,
				"no path starts the same entry's job twice within one iteration",
				"on some path the job of the same entry is started twice in one iteration of the wake-up loop: two starts for one activation instant")
			msgP := "after an entry's job is started some path to the next entry / next wait does not record Entry.Prev = the activation just used: Entries() reports a Prev that was never used"
			if badPrev != "" {
				msgP = badPrev + ": Entries() reports a previous activation that is not the one used"
			}
			a.r.Check(!missPrev, "C05.S4-bookkeeping", fname+" after start: Entry.Prev", pos,
				"every iteration that starts the job stores Entry.Prev = the Entry.Next that was compared", msgP)
			msgN := "after an entry's job is started some path to the next entry / next wait leaves Entry.Next unchanged: the entry is still due, the timer fires at once and the same activation instant is started again"
			if badNext != "" {
				msgN = badNext + ": the next activation is not the schedule's next instant after this wake-up (same instant started twice, or instants skipped)"
			}
			if missNext && unknownNext {
				a.r.Undecide("C05.S4-bookkeeping: %s: Entry.Next is recomputed at %s in a form the checker does not understand", fname, pos)
			} else {
				a.r.Check(!missNext, "C05.S4-bookkeeping", fname+" after start: Entry.Next", pos,
					"every iteration that starts the job recomputes Entry.Next = Entry.Schedule.Next(<clock reading>)", msgN)
			}
		}
	} else {
		book.AtReturns(func(ret *ssa.Return, st uint64) { ends |= st })
		if ends == 0 {
			ends = 1 << 0
		}
	}
	a.actMemo[key] = ends
	return ends
}

// checkActivation drives S4 over the cron package.
func (a *c05) checkActivation() {
	a.computeStarters()
	nEvents := 0
	for _, fn := range a.funcs {
		cands := map[ssa.Value]bool{}
		var order []ssa.Value
		add := func(v ssa.Value) {
			if v == nil || cands[v] {
				return
			}
			for _, o := range order {
				if a.sameEntry(o, v) {
					return
				}
			}
			if _, isP := v.(*ssa.Parameter); isP {
				return
			}
			if _, isIn := v.(ssa.Instruction); !isIn {
				return
			}
			cands[v] = true
			order = append(order, v)
		}
		for _, ev := range a.events(fn) {
			nEvents++
			if ev.unresolved {
				a.r.Undecide("C05.S4: %s: the job started at %s cannot be traced to an entry (Entry.WrappedJob / Entry.Job) or to a parameter", a.name(fn), a.pos(ev.instr))
				continue
			}
			add(ev.entry)
		}
		allInstrs(fn, func(in ssa.Instruction) {
			call, ok := in.(*ssa.Call)
			if !ok {
				return
			}
			if g := staticCallee(call); g == nil || !a.p.funcSet[g] {
				return
			}
			for _, arg := range call.Call.Args {
				if _, isPtr := arg.Type().Underlying().(*types.Pointer); isPtr && namedKey(arg.Type()) == a.fNext.Type {
					add(arg)
				}
			}
		})
		for _, e := range order {
			a.analyze(fn, e, 0)
		}
	}
	a.r.Stats["c05_start_events"] = nEvents
}

// entryIdx: if v is an element of Cron.entries read in place (*(&c.entries[i])),
// the index value i; nil otherwise.
func (a *c05) entryIdx(v ssa.Value) ssa.Value {
	ld, ok := v.(*ssa.UnOp)
	if !ok || ld.Op != token.MUL {
		return nil
	}
	ia, ok := ld.X.(*ssa.IndexAddr)
	if !ok {
		return nil
	}
	if a.fEntries.Field == "" {
		return nil
	}
	if _, ok := c05LoadOf(ia.X, a.fEntries); !ok {
		return nil
	}
	return ia.Index
}

// sameEntry: x and e denote the same entry within one iteration: the same SSA
// value, or the same element c.entries[i] (go/ssa re-loads it at every use).
func (a *c05) sameEntry(x, e ssa.Value) bool {
	if x == e {
		return true
	}
	if x == nil || e == nil {
		return false
	}
	ix, ie := a.entryIdx(x), a.entryIdx(e)
	if ix == nil || ie == nil {
		return false
	}
	if ix == ie {
		return true
	}
	cx, ok1 := ix.(*ssa.Const)
	ce, ok2 := ie.(*ssa.Const)
	return ok1 && ok2 && c05SameValue(cx, ce)
}

// predicateFacts: facts about origNext(e) (e = parameter par of the boolean
// helper h) that hold whenever h returns tv: the intersection, over the
// returns that can yield tv, of the facts established on the way plus those
// implied by the returned expression itself.
func (a *c05) predicateFacts(h *ssa.Function, par *ssa.Parameter, tv bool, depth int) uint64 {
	if depth > 2 || h.Signature.Results().Len() != 1 || !c05IsBool(h.Signature.Results().At(0).Type()) {
		return 0
	}
	storesNext := a.mayStore(a.fNext)
	orig := &FlagFlow{Fn: h, Must: true, Entry: c05mOrig,
		Transfer: func(in ssa.Instruction, st uint64) uint64 {
			switch x := in.(type) {
			case *ssa.Store:
				if _, ok := c05FieldAddr(x.Addr, a.fNext); ok {
					return 0
				}
			case *ssa.Call:
				if cal := staticCallee(x); cal != nil && storesNext[cal] {
					return 0
				}
			}
			return st
		}}
	orig.Run()
	isOrig := func(v ssa.Value) bool {
		X, ok := c05LoadOf(v, a.fNext)
		if !ok || X != ssa.Value(par) {
			return false
		}
		st, reach := orig.Before(v.(ssa.Instruction))
		return reach && st&c05mOrig != 0
	}
	atomFacts := func(cond ssa.Value, br bool) uint64 {
		var f uint64
		for _, at := range c05ExpandCond(cond, br, 0) {
			bits, _ := a.edgeFacts(at.v, at.tv, isOrig)
			f |= bits
		}
		return f
	}
	facts := &FlagFlow{Fn: h, Must: true,
		Transfer: func(in ssa.Instruction, st uint64) uint64 { return st },
		EdgeTransfer: func(from, to *ssa.BasicBlock, st uint64) uint64 {
			if len(from.Instrs) == 0 || len(from.Succs) != 2 || from.Succs[0] == from.Succs[1] {
				return st
			}
			ifi, ok := from.Instrs[len(from.Instrs)-1].(*ssa.If)
			if !ok {
				return st
			}
			return st | atomFacts(ifi.Cond, from.Succs[0] == to)
		}}
	facts.Run()
	all := uint64(c05mLE | c05mNZ | c05mND)
	n := 0
	facts.AtReturns(func(ret *ssa.Return, st uint64) {
		if len(ret.Results) != 1 {
			return
		}
		v := c05ResolveLocal(ret.Results[0])
		// `a && b` / `a || b` returned as a value: judge each way into the phi on its own
		if phi, ok := v.(*ssa.Phi); ok && phi.Block() == ret.Block() {
			for i, ed := range phi.Edges {
				pred := phi.Block().Preds[i]
				ps, vis := facts.Out(pred)
				if !vis {
					continue
				}
				ps = facts.EdgeTransfer(pred, phi.Block(), ps)
				if k, isK := ed.(*ssa.Const); isK && k.Value != nil && k.Value.Kind() == constant.Bool {
					if constant.BoolVal(k.Value) != tv {
						continue
					}
					n++
					all &= ps
					continue
				}
				n++
				all &= ps | atomFacts(ed, tv)
			}
			return
		}
		if k, ok := v.(*ssa.Const); ok && k.Value != nil && k.Value.Kind() == constant.Bool {
			if constant.BoolVal(k.Value) != tv {
				return // this return cannot yield tv
			}
			n++
			all &= st
			return
		}
		n++
		all &= st | atomFacts(v, tv)
	})
	if n == 0 {
		return 0
	}
	return all & (c05mLE | c05mNZ | c05mND)
}

// geAndNe: the atom (taken on an edge leaving block from) and the conditions
// dominating from establish together origNext >= now and origNext != now,
// i.e. strictly after: one of them is Equal(...)==false, another one is
// Before(origNext, now)==false / After(now, origNext)==false.
func (a *c05) geAndNe(at c05Atom, from *ssa.BasicBlock, isOrig func(ssa.Value) bool) bool {
	kind := func(v ssa.Value, tv bool) int { // 1: GE, 2: NE
		call, ok := v.(*ssa.Call)
		if !ok || call.Call.IsInvoke() || len(call.Call.Args) != 2 || tv {
			return 0
		}
		x, y := call.Call.Args[0], call.Call.Args[1]
		xo, yo := isOrig(x), isOrig(y)
		if xo == yo {
			return 0
		}
		other := y
		if yo {
			other = x
		}
		if !a.clockDerived(other) {
			return 0
		}
		switch {
		case c05IsTimeMethod(call, "Equal"):
			return 2
		case c05IsTimeMethod(call, "Before") && xo, c05IsTimeMethod(call, "After") && yo:
			return 1
		}
		return 0
	}
	have := kind(at.v, at.tv)
	if have == 0 {
		return false
	}
	for _, dc := range domConds(from) {
		for _, d := range c05ExpandCond(dc.If.Cond, dc.Branch, 0) {
			if k := kind(d.v, d.tv); k != 0 && k != have {
				return true
			}
		}
	}
	return false
}
