package main

import (
	"go/types"

	"golang.org/x/tools/go/ssa"
)

// C12 — RunnerManager / RunnerCloserManager.

func init() { register("C12", checkC12) }

type c12 struct {
	c   *Ctx
	r   *Report
	p   *Prog
	pkg string
	e   *LockEngine

	// fields
	rmRunners, rmRunning                                    FieldID
	cmMngr, cmClosers, cmRetErr, cmFatalFn, cmCloseFatal    FieldID
	cmRunning, cmClosing, cmClosed, cmCloseCh, cmStopped    FieldID
	lockID                                                  string
	rmRun, rmAdd, cmRun, cmAdd, cmAddCloser, cmClose, cmNew *ssa.Function
}

// c12Worker is one `go` statement with a statically known body.
type c12Worker struct {
	Go   *ssa.Go
	Fn   *ssa.Function
	Bind c12Bind
	Name string
}

func checkC12(c *Ctx) {
	r, p := c.R, c.P
	r.Explanation = "Decides structural necessary conditions of C12 on concurrency/runner.go and closer.go (SSA, all paths): " +
		"(K0) both Run methods start work only on the success edge of an atomic test-and-set of `running`, RunnerManager.Add appends only when running is unset and otherwise returns a non-nil error; " +
		"(K1) every runner goroutine invokes its own element of `runners` once with the context derived by context.WithCancel, calls that context's cancel on every path after the runner returned and never before, and sends exactly one result; the number of goroutines started equals the number of results collected (symbolically, len(runners)) and no return reachable from a spawn precedes the end of the collection; " +
		"(K2) the only results replaced by nil / not appended are nil or context.Canceled ones, a Canceled error is filtered before errors.Join, and the value returned is that errors.Join; " +
		"(K3) in RunnerCloserManager.Run every closer goroutine is started after the inner manager's result was obtained, one per element of `closers`, each calling its element once and sending its result once; results collected = goroutines started (1+len(closers)); every collected result is stored into the slice given to errors.Join; `closers` is read (loop bounds) under mngr.lock and `closing` is set before that lock section is left, every write of `closers` is under that lock, AddCloser observes closing == false inside the same lock section as its append, and every value AddCloser stores is the registered function, its bound Close method, or a wrapper calling it exactly once and returning its error; " +
		"(K4) close(stopped) happens only on the success edge of the test-and-set of `running` (Run: deferred, after retErr was stored; Close: before waiting), Close waits for `stopped` before reading retErr and returns it, Run returns the value stored in retErr; close(closeCh) is guarded by a test-and-set; Run registers, before starting the inner manager, a runner that returns on closeCh or ctx.Done; " +
		"(K5) fatalShutdownFn is called only, and always, on the timer case of a select that also waits for closeFatalShutdown, the timer runs for *gracePeriod, the fatal closer is registered iff gracePeriod != nil, and closeFatalShutdown is closed exactly once, at the program point where len(closers)-1 closer results have been collected and before the next receive (counted relative to the receive of the same iteration), in an iteration that also exists when the fatal closer is the only closer. " +
		"NOT decided: behaviour over all completion orders and timings as such (that the Go scheduler/channel semantics deliver what the shapes promise), panics inside runners or closers, data-race freedom of RunnerManager.Run's unlocked reads of `runners` against a concurrent Add (outside the statement's quantifier; printed as NOTE), liveness of user-supplied runners/closers."
	r.Assumptions = append(r.Assumptions,
		"context.WithCancel, errors.Join, errors.Is, sync/atomic.Bool and channel operations behave as documented",
		"callers start RunnerManager.Run only after their Add calls returned (Run reads `runners` without the lock)",
		"values are traced through local variable cells flow-insensitively; a cell assigned both a derived and a foreign value is accepted")

	x := &c12{c: c, r: r, p: p, pkg: p.ModPath + "/concurrency"}
	x.resolve()
	x.e = c.Locks()

	r.Rule("C12.K0-once", "work starts only on the success edge of an atomic test-and-set of running; Add is rejected once running", 3)
	r.Rule("C12.K1-worker", "runner goroutine: own runner once with the derived ctx, cancel after it returned on every path, exactly one result sent", 3)
	r.Rule("C12.K1-count", "goroutines started == results collected; no return before the collection is complete", 1)
	r.Rule("C12.K2-filter", "only nil/Canceled results are dropped, Canceled never reaches errors.Join, the Join is what is returned", 3)
	r.Rule("C12.K3-order", "closer goroutines start only after the inner manager's result was obtained; one per element of closers, called once, result sent once", 4)
	r.Rule("C12.K3-collect", "RunnerCloserManager.Run: results collected == goroutines started, every result stored into the errors.Join slice, Join stored in retErr and returned", 3)
	r.Rule("C12.K3-lock", "closers read under mngr.lock with closing set before the section ends; every write of closers under mngr.lock; AddCloser tests closing inside the lock section of its append", 3)
	r.Rule("C12.K3-wrap", "every value AddCloser stores in closers invokes the registered closer exactly once and returns its error", 4)
	r.Rule("C12.K4-stopped", "close(stopped) only after winning running; Run stores retErr before it; Close waits before reading retErr", 5)
	r.Rule("C12.K4-closech", "close(closeCh) guarded by a test-and-set; Run registers a runner returning on closeCh / ctx.Done before starting the inner manager", 2)
	r.Rule("C12.K4-chans", "the constructor creates stopped, closeCh and closeFatalShutdown", 3)
	r.Rule("C12.K5-fatal", "fatalShutdownFn fires exactly on the grace timer case; closeFatalShutdown closed when only the fatal closer remains, before the receive that waits for it (also when it is the only closer)", 3)

	x.checkOnce()
	x.checkRunnerRun()
	x.checkCloserRun()
	x.checkLocking()
	x.checkWrappers()
	x.checkStopped()
	x.checkCloseCh()
	x.checkChans()
	x.checkFatal()
	x.notes()
	x.fixture()
}

func (x *c12) resolve() {
	p := x.p
	field := func(tn, f string) FieldID {
		n := p.Named("concurrency", tn)
		st, ok := n.Underlying().(*types.Struct)
		if !ok {
			undecided("anchor type concurrency.%s is no longer a struct", tn)
		}
		for i := 0; i < st.NumFields(); i++ {
			if st.Field(i).Name() == f {
				return FieldID{x.pkg + "." + tn, f}
			}
		}
		undecided("anchor field concurrency.%s.%s no longer resolves", tn, f)
		return FieldID{}
	}
	x.rmRunners, x.rmRunning = field("RunnerManager", "runners"), field("RunnerManager", "running")
	field("RunnerManager", "lock")
	x.lockID = x.pkg + ".RunnerManager.lock"
	x.cmMngr, x.cmClosers, x.cmRetErr = field("RunnerCloserManager", "mngr"), field("RunnerCloserManager", "closers"), field("RunnerCloserManager", "retErr")
	x.cmFatalFn, x.cmCloseFatal = field("RunnerCloserManager", "fatalShutdownFn"), field("RunnerCloserManager", "closeFatalShutdown")
	x.cmRunning, x.cmClosing, x.cmClosed = field("RunnerCloserManager", "running"), field("RunnerCloserManager", "closing"), field("RunnerCloserManager", "closed")
	x.cmCloseCh, x.cmStopped = field("RunnerCloserManager", "closeCh"), field("RunnerCloserManager", "stopped")
	x.rmRun = p.Func("concurrency", "RunnerManager.Run")
	x.rmAdd = p.Func("concurrency", "RunnerManager.Add")
	x.cmRun = p.Func("concurrency", "RunnerCloserManager.Run")
	x.cmAdd = p.Func("concurrency", "RunnerCloserManager.Add")
	x.cmAddCloser = p.Func("concurrency", "RunnerCloserManager.AddCloser")
	x.cmClose = p.Func("concurrency", "RunnerCloserManager.Close")
	x.cmNew = p.Func("concurrency", "NewRunnerCloserManager")
}

func (x *c12) pos(in ssa.Instruction) string { return x.p.Pos(instrPos(in)) }

// workers lists the go statements of fn; ok=false if one has no static body.
func (x *c12) workers(fn *ssa.Function) (ws []*c12Worker, ok bool) {
	ok = true
	allInstrs(fn, func(in ssa.Instruction) {
		g, isGo := in.(*ssa.Go)
		if !isGo {
			return
		}
		callee := staticCallee(g)
		if callee == nil || len(callee.Blocks) == 0 {
			x.r.Undecide("%s starts a goroutine whose body is not statically known (%s)", FuncName(x.p, fn), x.pos(g))
			ok = false
			return
		}
		ws = append(ws, &c12Worker{Go: g, Fn: callee, Bind: c12BindOf(g, callee), Name: FuncName(x.p, callee)})
	})
	return
}

func c12GoSites(fn *ssa.Function) []*ssa.Go {
	var out []*ssa.Go
	allInstrs(fn, func(in ssa.Instruction) {
		if g, ok := in.(*ssa.Go); ok {
			out = append(out, g)
		}
	})
	return out
}

// ------------------------------------------------------------------ K0

func (x *c12) checkOnce() {
	r, p := x.r, x.p
	for _, it := range []struct {
		fn    *ssa.Function
		field FieldID
		what  string
	}{
		{x.rmRun, x.rmRunning, "a second Run would start every runner again"},
		{x.cmRun, x.cmRunning, "a second Run, or a Run after Close, would start the runners and closers again and close `stopped` twice"},
	} {
		construct := FuncName(p, it.fn) + " once-guard"
		own := c12OwnEdges(it.fn, it.field)
		gos := c12GoSites(it.fn)
		if len(gos) == 0 {
			r.Violation("C12.K0-once", construct, p.Pos(it.fn.Pos()), "Run no longer starts any goroutine: runners are not run in parallel")
			continue
		}
		if len(own) == 0 && it.fn == x.rmRun {
			// Load-then-Store: refuses a second Run in sequence; two Runs racing
			// each other are not in the statement's quantifier for RunnerManager.
			unset := c12UnsetEdges(it.fn, it.field)
			var sets []*ssa.Call
			for _, s := range c12FlagCalls(it.fn, it.field, "Store") {
				if len(s.Call.Args) == 2 && c12IsConstBool(s.Call.Args[1], true) {
					sets = append(sets, s)
				}
			}
			okAll := len(unset) > 0 && len(sets) > 0
			for _, g := range gos {
				dom := false
				for _, s := range sets {
					if instrDominates(s, g) {
						dom = true
					}
				}
				if !dom || !c12AnyDominates(unset, g.Block()) {
					okAll = false
				}
			}
			if okAll {
				r.OK("C12.K0-once", construct, p.Pos(it.fn.Pos()), "every go statement follows running.Load()==false and running.Store(true)")
				r.Note("%s guards with Load+Store instead of an atomic test-and-set: two Run calls racing each other can both start the runners (concurrent Run calls are not in the statement's quantifier; not armed)", FuncName(p, it.fn))
				continue
			}
		}
		if len(own) == 0 {
			r.Violation("C12.K0-once", construct, p.Pos(it.fn.Pos()), "Run no longer takes ownership with an atomic test-and-set of "+it.field.String()+" (CompareAndSwap(false,true) / Swap(true) used directly as a branch condition): "+it.what)
			continue
		}
		bad := ""
		for _, g := range gos {
			if !c12AnyDominates(own, g.Block()) {
				bad = x.pos(g)
			}
		}
		r.Check(bad == "", "C12.K0-once", construct, p.Pos(own[0].Call.Pos()),
			"every go statement is dominated by the success edge of the test-and-set of "+it.field.String(),
			"the goroutine started at "+bad+" is not dominated by the success edge of the test-and-set of "+it.field.String()+": "+it.what)
	}

	// RunnerManager.Add
	construct := FuncName(p, x.rmAdd) + " rejects after start"
	unset := c12UnsetEdges(x.rmAdd, x.rmRunning)
	nW, bad := 0, ""
	for _, a := range FieldAccesses(x.rmAdd, func(id FieldID) bool { return id == x.rmRunners }) {
		if a.Kind != AccWrite {
			continue
		}
		nW++
		if !c12AnyDominates(unset, a.Instr.Block()) {
			bad = "the append to runners at " + x.pos(a.Instr) + " is not guarded by running.Load() == false: a runner added after Run started is never started, and Run — whose collection bound re-reads len(runners) — waits for a result that never comes"
		}
	}
	if nW == 0 {
		r.Undecide("%s no longer stores to RunnerManager.runners (Add restructured)", FuncName(p, x.rmAdd))
	} else {
		for _, call := range c12FlagCalls(x.rmAdd, x.rmRunning, "Load") {
			for _, se := range c12BranchEdges(call, true, "Load") {
				for _, ret := range c12Returns(x.rmAdd) {
					if !se.Dominates(ret.Block()) {
						continue
					}
					for _, root := range c12ReturnRoots(ret, 0) {
						if isNilConst(root) && bad == "" {
							bad = "Add returns nil at " + x.pos(ret) + " although the manager is already running (the addition is silently dropped instead of rejected)"
						}
					}
				}
			}
		}
		r.Check(bad == "", "C12.K0-once", construct, p.Pos(x.rmAdd.Pos()), "runners is appended only when running is unset; the running branch returns a non-nil error", bad)
	}
}
