package main

import (
	"fmt"
	"go/token"
	"go/types"
	"sort"
	"strings"

	"golang.org/x/tools/go/ssa"
)

// C12 — RunnerManager / RunnerCloserManager.
//
// The rules are evaluated by exploring the paths of the exported entry points
// with every same-package callee virtually inlined (c12x.go), for each number
// n = 0..4 of runners / closers (the statement's quantifier). Constructs are
// identified by role — resolved through types and through what the exported
// methods do with them — not by the names of unexported fields or helpers.

func init() { register("C12", checkC12) }

type c12 struct {
	c      *Ctx
	r      *Report
	p      *Prog
	pkg    string
	ssaPkg *ssa.Package
	e      *LockEngine

	// roles (fields)
	rmRunners, rmRunning, rmLock                            FieldID
	cmMngr, cmClosers, cmRetErr, cmFatalFn, cmCloseFatal    FieldID
	cmRunning, cmClosing, cmClosed, cmCloseCh, cmStopped    FieldID
	lockID                                                  string
	rmRun, rmAdd, cmRun, cmAdd, cmAddCloser, cmClose, cmNew *ssa.Function
	anchors                                                 map[*ssa.Function]bool

	ownChecked map[*ssa.Function]bool
	viol       map[string]map[string]bool // rule|construct -> messages
	posn       map[string]string
	und        map[string]bool
}

// c12Worker is one `go` statement with a statically known body.
type c12Worker struct {
	Go   *ssa.Go
	Fn   *ssa.Function
	Bind c12Bind
	Name string
}

func checkC12(c *Ctx) {
	r, p := c.R, c.P
	r.Explanation = "Decides necessary conditions of C12 with a BOUNDED, PATH-SENSITIVE ABSTRACT INTERPRETATION of the type-checked program's SSA form (kitcheck/c12x.go): nothing of dapr/kit is executed and no solver is used. The exported entry points of concurrency/runner.go and closer.go are interpreted path by path with every same-package callee virtually inlined — helpers, closures, method values and bound wrappers, func-typed fields with a single target, elements of literal tables, methods called through a package interface with a single implementation, deferred calls, sync.Once bodies, range-over-func bodies and the standard library's iterator constructors (slices.Values/All, maps.Keys …); goroutine bodies are interpreted separately, once per go statement and call path, with the values they receive resolved in the starter's state; the collection sizes (number of runners / closers) are fixed to each concrete n = 0..4 — the statement's quantifier — so loops over them are unrolled; the abstract state keeps exact small integers, phi choices, results of inlined helpers, local cells, small slices, the registered defers and the select case taken, and forks on every condition it cannot evaluate; identical states are merged and integers are clipped, so the interpretation is finite. The rules are predicates over the events of every abstract path. Unexported fields (also when grouped into a sub-struct held by value, pointer or embedding) are identified by role — type and use by the exported methods — not by name; a flag may be an atomic.Bool or an atomic integer used as 0 / one non-zero value; a flag, the lock or a channel may be handed to a helper by address or value (closeOnFirst(&flag, ch), withMutex(&mu, fn), an accessor returning the address) and is identified through the call path; a test-and-set or lock operation on an object that cannot be identified makes the rules that depend on it UNDECIDED, never a violation. SIZES BEYOND n = 4 ARE NOT DECIDED. " +
		"(K0) both Run methods start goroutines only on paths on which their own atomic test-and-set of the running flag succeeded, and return nil only on such paths (a return without having taken the flag is a refusal, for every n including the empty manager); RunnerManager.Add appends only on paths on which it read the flag unset and otherwise returns a non-nil error. " +
		"(K1) every runner goroutine calls its own element runners[i] exactly once with the context derived by context.WithCancel, sends exactly one result after it, and calls that context's cancel on every path after the runner returned and never before; for every n, on every path Run starts one goroutine per element and receives exactly n results before it returns. " +
		"(K2) nil is sent / a result is not handed to errors.Join only when it is known nil or context.Canceled; a result that may be Canceled is never joined; Run returns that errors.Join (or nil when nothing was joined); every runner or closer the package registers itself (the runner that waits for Close, the fatal-shutdown closer, AddCloser's wrapper of a result-less closer) returns nil — or, for a runner, context.Canceled — on every path, so only the user's runners and closers contribute errors. " +
		"(K3) RunnerCloserManager.Run: closer goroutines start only after the inner manager's result was obtained, one per element of the closers, each calling its element once and sending its own result once; exactly n closer results are received, every received result is stored into the slice given to errors.Join, the Join is stored in the error field Close returns and is returned; the closers list (and anything computed from it: its length, a snapshot, an element) decides a branch or selects a closer only if it was read when the list was frozen — with the inner manager's lock held, or after the closing flag was set inside or before a section of that lock — and the closing flag is set before a lock section that read the closers is left; every write of the closers holds the lock; AddCloser appends only after reading closing == false inside the same lock section; every value it stores is the registered function, its bound Close, or a wrapper calling it exactly once and returning its error. " +
		"(K4) the channel WaitUntilShutdown waits for is closed only by the party whose test-and-set of running succeeded (Run: on every owned return, after the error field was stored; Close: before it waits); Close tries running before waiting, waits on every path before reading the error field and returns it; the channel Close closes is closed under a test-and-set of a flag nobody else writes; Run registers (whenever the inner manager has runners, for 1 and 2 runners) before starting the inner manager a runner that returns on that channel or on ctx.Done; the constructor creates the three channels. " +
		"(K5) the fatal-shutdown function is called only, and always, on the timer case of a select whose other case is the release channel; the timer runs for *gracePeriod; the fatal closer is registered exactly when gracePeriod != nil; in Run, for every n >= 1, the release channel is closed exactly once, when exactly n-1 closer results have been received, and before the receive of the n-th (so also when the fatal closer is the only closer). " +
		"NOT decided: behaviour over all completion orders and timings as such (that the Go scheduler/channel semantics deliver what the paths promise), panics inside runners or closers, data-race freedom of RunnerManager.Run's unlocked reads of the runners against a concurrent Add (outside the statement's quantifier; NOTE), liveness of user-supplied runners/closers, more than 4 runners/closers."
	r.Assumptions = append(r.Assumptions,
		"context.WithCancel, errors.Join, errors.Is, sync/atomic.Bool and channel operations behave as documented",
		"callers start RunnerManager.Run only after their Add calls returned (Run reads the runners without the lock)",
		"bounded abstract interpretation: numbers of runners / closers 0..4 only (larger collections are not decided); calls into other packages and dynamic calls with unknown targets are opaque; same-package callees are entered up to depth 6 (deeper or recursive => UNDECIDED); integers outside [-9,9] and conditions on unknown values are treated as unknown (both branches explored)",
		"a read of the closers list is the final list only if made with the inner manager's lock held or after closing was set inside/before a section of that lock; values derived from any other read are treated as unknown and may not decide a branch or select a closer",
		"values captured by goroutine closures are traced through their variable cells flow-insensitively")

	x := &c12{c: c, r: r, p: p, pkg: p.ModPath + "/concurrency", viol: map[string]map[string]bool{}, posn: map[string]string{}, und: map[string]bool{}}
	x.resolve()
	x.e = c.Locks()
	c12xStats.Explorations, c12xStats.States = 0, 0
	c12xOnUninlined = func(root, callee *ssa.Function) {
		x.undecide("while exploring %s the callee %s could not be entered (depth limit or recursion): its effects are unknown", FuncName(p, root), FuncName(p, callee))
	}
	c12xOnOverflow = func(root *ssa.Function) {
		x.undecide("path exploration of %s exceeded its budget", FuncName(p, root))
	}

	r.Rule("C12.K0-once", "work starts, and nil is returned, only after the caller's own atomic test-and-set of running succeeded; Add is rejected once running", 3)
	r.Rule("C12.K1-worker", "runner goroutine: own runner once with the derived ctx, cancel after it returned on every path, exactly one result sent", 2)
	r.Rule("C12.K1-count", "for n=0..4: one goroutine per runner, exactly n results received before Run returns", 1)
	r.Rule("C12.K2-filter", "only nil/Canceled results are dropped, Canceled never reaches errors.Join, the Join is what is returned; the manager's own runners/closers contribute no error", 5)
	r.Rule("C12.K3-order", "closer goroutines start only after the inner manager's result was obtained; one per element of closers, called once, result sent once", 4)
	r.Rule("C12.K3-collect", "RunnerCloserManager.Run, n=0..4: results received == goroutines started, every result stored into the errors.Join slice, Join stored in the error field and returned", 3)
	r.Rule("C12.K3-lock", "closers read under the inner manager's lock with closing set before the section ends; every write of closers under the lock; AddCloser tests closing inside the lock section of its append", 3)
	r.Rule("C12.K3-wrap", "every value AddCloser stores in closers invokes the registered closer exactly once and returns its error", 4)
	r.Rule("C12.K4-stopped", "stopped closed only after winning running; Run stores the error field before it; Close waits before reading it", 5)
	r.Rule("C12.K4-closech", "close of the Close channel guarded by a test-and-set; Run registers a runner returning on it / ctx.Done before starting the inner manager", 2)
	r.Rule("C12.K4-chans", "the constructor creates the three signalling channels", 3)
	r.Rule("C12.K5-fatal", "fatalShutdownFn fires exactly on the grace timer case; release channel closed when only the fatal closer remains, before the receive that waits for it", 3)

	x.checkOnceAdd()
	x.checkRunnerRun()
	x.checkCloserRun()
	x.checkLocking()
	x.checkWrappers()
	x.checkClose()
	x.checkConstructor()
	x.notes()
	x.flush()
	r.Stats["c12_explorations"] = c12xStats.Explorations
	r.Stats["c12_path_states"] = c12xStats.States
	x.fixture()
}

// ------------------------------------------------------------ result plumbing

// bad records a violation message for (rule, construct); messages of one
// obligation are merged. ok records that the obligation was examined.
func (x *c12) bad(rule, construct, pos, msg string) {
	k := rule + "|" + construct
	if x.viol[k] == nil {
		x.viol[k] = map[string]bool{}
	}
	x.viol[k][msg] = true
	if pos != "" && (x.posn[k] == "" || pos < x.posn[k]) {
		x.posn[k] = pos
	}
}

func (x *c12) seen(rule, construct, pos string) {
	k := rule + "|" + construct
	if x.viol[k] == nil {
		x.viol[k] = map[string]bool{}
	}
	if x.posn[k] == "" {
		x.posn[k] = pos
	}
}

func (x *c12) undecide(format string, args ...any) {
	x.und[strings.TrimSpace(fmt.Sprintf(format, args...))] = true
}

func (x *c12) flush() {
	var us []string
	for m := range x.und {
		us = append(us, m)
	}
	sort.Strings(us)
	for _, m := range us {
		x.r.Undecide("%s", m)
	}
	x.und = map[string]bool{}
	var keys []string
	for k := range x.viol {
		keys = append(keys, k)
	}
	sort.Strings(keys)
	for _, k := range keys {
		i := strings.Index(k, "|")
		rule, construct := k[:i], k[i+1:]
		var msgs []string
		for m := range x.viol[k] {
			msgs = append(msgs, m)
		}
		sort.Strings(msgs)
		if len(msgs) > 3 {
			msgs = append(msgs[:3], fmt.Sprintf("(+%d more)", len(msgs)-3))
		}
		x.r.Check(len(msgs) == 0, rule, construct, x.posn[k], "holds on every explored path", strings.Join(msgs, "; "))
	}
}

func (x *c12) pos(in ssa.Instruction) string { return x.p.Pos(instrPos(in)) }

// ------------------------------------------------------------------- roles

func (x *c12) structOf(tn string) (*types.Named, *types.Struct) {
	n := x.p.Named("concurrency", tn)
	st, ok := n.Underlying().(*types.Struct)
	if !ok {
		undecided("anchor type concurrency.%s is no longer a struct", tn)
	}
	return n, st
}

// fieldsWhere returns the fields of struct type tn — and, recursively, of the
// struct-typed fields it holds by value, pointer or embedding when those
// struct types belong to the analysed package (life-cycle state grouped into a
// sub-struct) — whose type satisfies pred.
func (x *c12) fieldsWhere(tn string, pred func(types.Type) bool) []FieldID {
	n, _ := x.structOf(tn)
	var out []FieldID
	seen := map[string]bool{}
	var visit func(t types.Type, depth int)
	visit = func(t types.Type, depth int) {
		key := namedKey(t)
		st := structOf(t)
		if st == nil || key == "" || seen[key] || depth > 3 {
			return
		}
		seen[key] = true
		for i := 0; i < st.NumFields(); i++ {
			ft := st.Field(i).Type()
			if pred(ft) {
				out = append(out, FieldID{key, st.Field(i).Name()})
				continue
			}
			if nk := namedKey(ft); strings.HasPrefix(nk, x.pkg+".") && structOf(ft) != nil && nk != x.pkg+".RunnerManager" && nk != x.pkg+".RunnerCloserManager" {
				visit(ft, depth+1)
			}
		}
	}
	visit(n, 0)
	return out
}

// pick chooses the field playing a role: the unique candidate, else the one
// with the hinted (historical) name, else UNDECIDED.
func (x *c12) pick(role string, cands []FieldID, hint string) FieldID {
	if len(cands) == 1 {
		return cands[0]
	}
	for _, c := range cands {
		if c.Field == hint {
			return c
		}
	}
	undecided("C12: cannot identify the field playing the role %q (%d candidates)", role, len(cands))
	return FieldID{}
}

// tree: fn, its closures and its same-package static callees (transitively),
// not entering the exported anchors.
func (x *c12) tree(fn *ssa.Function) map[*ssa.Function]bool {
	out := map[*ssa.Function]bool{}
	var visit func(f *ssa.Function)
	visit = func(f *ssa.Function) {
		if f == nil || out[f] || len(f.Blocks) == 0 {
			return
		}
		if f != fn && x.anchors[f] {
			return
		}
		out[f] = true
		allInstrs(f, func(in ssa.Instruction) {
			switch v := in.(type) {
			case ssa.CallInstruction:
				if c := staticCallee(v); c != nil && x.inPkg(c) {
					visit(c)
				}
			case *ssa.MakeClosure:
				if c, ok := v.Fn.(*ssa.Function); ok {
					visit(c)
				}
			}
			for _, op := range in.Operands(nil) {
				if op == nil || *op == nil {
					continue
				}
				if c, ok := (*op).(*ssa.Function); ok && x.inPkg(c) {
					visit(c)
				}
			}
		})
	}
	visit(fn)
	return out
}

func (x *c12) inPkg(f *ssa.Function) bool {
	if f == nil {
		return false
	}
	if f.Pkg != nil {
		return f.Pkg == x.ssaPkg
	}
	if f.Synthetic != "" { // bound method wrappers / thunks of package methods
		if o := f.Object(); o != nil && o.Pkg() != nil {
			return o.Pkg().Path() == x.pkg
		}
		return true
	}
	return f.Parent() != nil && x.inPkg(f.Parent())
}

func isChanType(t types.Type) bool { _, ok := t.Underlying().(*types.Chan); return ok }

func (x *c12) resolve() {
	p := x.p
	x.rmRun = p.Func("concurrency", "RunnerManager.Run")
	x.rmAdd = p.Func("concurrency", "RunnerManager.Add")
	x.cmRun = p.Func("concurrency", "RunnerCloserManager.Run")
	x.cmAdd = p.Func("concurrency", "RunnerCloserManager.Add")
	x.cmAddCloser = p.Func("concurrency", "RunnerCloserManager.AddCloser")
	x.cmClose = p.Func("concurrency", "RunnerCloserManager.Close")
	x.cmNew = p.Func("concurrency", "NewRunnerCloserManager")
	x.ssaPkg = x.rmRun.Pkg
	x.anchors = map[*ssa.Function]bool{x.rmRun: true, x.rmAdd: true, x.cmRun: true, x.cmAdd: true, x.cmAddCloser: true, x.cmClose: true, x.cmNew: true}
	if f := p.FuncOpt("concurrency", "NewRunnerManager"); f != nil {
		x.anchors[f] = true
	}
	runner := p.Named("concurrency", "Runner")
	rm, _ := x.structOf("RunnerManager")

	isAtomicBool := c12IsFlagType
	isMutex := func(t types.Type) bool { k := namedKey(t); return k == "sync.Mutex" || k == "sync.RWMutex" }

	x.rmRunners = x.pick("runners", x.fieldsWhere("RunnerManager", func(t types.Type) bool {
		s, ok := t.Underlying().(*types.Slice)
		return ok && types.Identical(s.Elem(), runner)
	}), "runners")
	x.rmRunning = x.pick("RunnerManager running flag", x.fieldsWhere("RunnerManager", isAtomicBool), "running")
	x.rmLock = x.pick("RunnerManager lock", x.fieldsWhere("RunnerManager", func(t types.Type) bool {
		if _, isPtr := t.(*types.Pointer); isPtr {
			return false
		}
		return isMutex(t)
	}), "lock")
	x.lockID = x.rmLock.Type + "." + x.rmLock.Field

	x.cmMngr = x.pick("inner manager", x.fieldsWhere("RunnerCloserManager", func(t types.Type) bool {
		return types.Identical(deref(t), rm)
	}), "mngr")
	x.cmClosers = x.pick("closers", x.fieldsWhere("RunnerCloserManager", func(t types.Type) bool {
		s, ok := t.Underlying().(*types.Slice)
		if !ok {
			return false
		}
		sig, ok := s.Elem().Underlying().(*types.Signature)
		return ok && sig.Params().Len() == 0 && sig.Results().Len() == 1 && types.Identical(sig.Results().At(0).Type(), types.Universe.Lookup("error").Type())
	}), "closers")
	x.cmRetErr = x.pick("stored result error", x.fieldsWhere("RunnerCloserManager", func(t types.Type) bool {
		return types.Identical(t, types.Universe.Lookup("error").Type())
	}), "retErr")
	x.cmFatalFn = x.pick("fatal shutdown function", x.fieldsWhere("RunnerCloserManager", func(t types.Type) bool {
		sig, ok := t.Underlying().(*types.Signature)
		return ok && sig.Params().Len() == 0 && sig.Results().Len() == 0
	}), "fatalShutdownFn")

	// channels by role
	chans := x.fieldsWhere("RunnerCloserManager", isChanType)
	isChanField := func(id FieldID) bool {
		for _, c := range chans {
			if c == id {
				return true
			}
		}
		return false
	}
	closedIn := func(root *ssa.Function) map[FieldID]bool {
		out := map[FieldID]bool{}
		for f := range x.tree(root) {
			allInstrs(f, func(in ssa.Instruction) {
				if ci, ok := in.(ssa.CallInstruction); ok && builtinName(ci) == "close" && len(ci.Common().Args) == 1 {
					if id, _, ok := fieldOfValue(ci.Common().Args[0]); ok && isChanField(id) {
						out[id] = true
					}
				}
			})
		}
		return out
	}
	recvIn := func(root *ssa.Function) map[FieldID]bool {
		out := map[FieldID]bool{}
		for f := range x.tree(root) {
			allInstrs(f, func(in ssa.Instruction) {
				if u, ok := in.(*ssa.UnOp); ok && u.Op == token.ARROW {
					if id, _, ok := fieldOfValue(u.X); ok && isChanField(id) {
						out[id] = true
					}
				}
				if sel, ok := in.(*ssa.Select); ok {
					for _, st := range sel.States {
						if id, _, ok := fieldOfValue(st.Chan); ok && isChanField(id) && st.Dir == types.RecvOnly {
							out[id] = true
						}
					}
				}
			})
		}
		return out
	}
	only := func(m map[FieldID]bool, except ...FieldID) []FieldID {
		var out []FieldID
		for id := range m {
			skip := false
			for _, e := range except {
				if e == id {
					skip = true
				}
			}
			if !skip {
				out = append(out, id)
			}
		}
		sort.Slice(out, func(i, j int) bool { return out[i].Field < out[j].Field })
		return out
	}
	byName := func(name string) []FieldID {
		for _, c := range chans {
			if c.Field == name {
				return []FieldID{c}
			}
		}
		return chans
	}
	runCloses, closeCloses := closedIn(x.cmRun), closedIn(x.cmClose)
	var stoppedC []FieldID
	if wus := p.FuncOpt("concurrency", "RunnerCloserManager.WaitUntilShutdown"); wus != nil {
		stoppedC = only(recvIn(wus))
	}
	if len(stoppedC) != 1 {
		both := map[FieldID]bool{}
		for id := range runCloses {
			if closeCloses[id] {
				both[id] = true
			}
		}
		stoppedC = only(both)
	}
	if len(stoppedC) != 1 {
		stoppedC = byName("stopped")
	}
	x.cmStopped = x.pick("channel signalling shutdown complete", stoppedC, "stopped")
	cc := only(closeCloses, x.cmStopped)
	if len(cc) != 1 {
		cc = byName("closeCh")
	}
	x.cmCloseCh = x.pick("channel closed by Close", cc, "closeCh")
	fc := only(runCloses, x.cmStopped, x.cmCloseCh)
	if len(fc) != 1 {
		var rest []FieldID
		for _, c := range chans {
			if c != x.cmStopped && c != x.cmCloseCh {
				rest = append(rest, c)
			}
		}
		fc = rest
	}
	x.cmCloseFatal = x.pick("channel releasing the fatal closer", fc, "closeFatalShutdown")

	// atomic flags by role
	flags := x.fieldsWhere("RunnerCloserManager", isAtomicBool)
	flagOps := func(root *ssa.Function, names ...string) map[FieldID]bool {
		out := map[FieldID]bool{}
		for f := range x.tree(root) {
			for _, fl := range flags {
				for _, n := range names {
					if len(c12FlagCalls(f, fl, n)) > 0 {
						out[fl] = true
					}
				}
			}
		}
		return out
	}
	flagByName := func(name string) []FieldID {
		for _, c := range flags {
			if c.Field == name {
				return []FieldID{c}
			}
		}
		return flags
	}
	run := only(flagOps(x.cmRun, "CompareAndSwap", "Swap"))
	if len(run) != 1 {
		run = flagByName("running")
	}
	x.cmRunning = x.pick("RunnerCloserManager running flag", run, "running")
	cl := only(flagOps(x.cmAddCloser, "Load"), x.cmRunning)
	if len(cl) != 1 {
		cl = only(flagOps(x.cmRun, "Store"), x.cmRunning)
	}
	if len(cl) != 1 {
		cl = flagByName("closing")
	}
	x.cmClosing = x.pick("closing flag", cl, "closing")
	cd := only(flagOps(x.cmClose, "CompareAndSwap", "Swap", "Store", "Load"), x.cmRunning, x.cmClosing)
	if len(cd) != 1 {
		var rest []FieldID
		for _, f := range flags {
			if f != x.cmRunning && f != x.cmClosing {
				rest = append(rest, f)
			}
		}
		cd = rest
	}
	if len(cd) == 1 {
		x.cmClosed = cd[0]
	} // else: no dedicated flag (e.g. a sync.Once); the Close rule copes
}

// -------------------------------------------------------- event recognisers

// c12IsFlagType: an atomic two-state flag (atomic.Bool, or an atomic integer
// used as 0 / non-zero).
func c12IsFlagType(t types.Type) bool {
	switch namedKey(t) {
	case "sync/atomic.Bool", "sync/atomic.Int32", "sync/atomic.Int64", "sync/atomic.Uint32", "sync/atomic.Uint64":
		return true
	}
	return false
}

func c12IsFlagMethod(call ssa.CallInstruction, name string) bool {
	obj := calleeObj(call)
	if obj == nil || obj.Name() != name || obj.Pkg() == nil || obj.Pkg().Path() != "sync/atomic" {
		return false
	}
	sig, _ := obj.Type().(*types.Signature)
	return sig != nil && sig.Recv() != nil && c12IsFlagType(deref(sig.Recv().Type()))
}

// c12IsZero / c12IsNonZero: constant false/0 resp. true/non-zero.
func c12IsZero(v ssa.Value) bool {
	if c12IsConstBool(v, false) {
		return true
	}
	k, ok := c12ConstInt(v)
	return ok && k == 0
}

func c12IsNonZero(v ssa.Value) bool {
	if c12IsConstBool(v, true) {
		return true
	}
	k, ok := c12ConstInt(v)
	return ok && k != 0
}

// addrFieldIn: the struct field whose address v denotes in frame fr. v may be
// the FieldAddr itself or reach the frame as a parameter (a helper taking
// `flag *atomic.Bool` / `mu *sync.Mutex`), a captured variable or a local
// holding the address; parameters are followed to the call site's argument in
// the calling frame.
func (x *c12) addrFieldIn(fr *xFrame, v ssa.Value) (FieldID, bool) {
	for depth := 0; depth < 10 && v != nil; depth++ {
		if id, _, ok := fieldOfValue(v); ok {
			return id, true
		}
		switch t := v.(type) {
		case *ssa.Parameter:
			if fr == nil {
				return FieldID{}, false
			}
			if fr.staticBind != nil {
				if b, ok := fr.staticBind[t]; ok {
					v, fr = b, nil
					continue
				}
			}
			if fr.fn != t.Parent() || fr.site == nil {
				return FieldID{}, false
			}
			args := fr.site.Common().Args
			if fr.site.Common().IsInvoke() {
				args = append([]ssa.Value{fr.site.Common().Value}, args...)
			}
			idx := -1
			for i, pa := range fr.fn.Params {
				if pa == t {
					idx = i
				}
			}
			if idx < 0 || idx >= len(args) {
				return FieldID{}, false
			}
			v, fr = args[idx], fr.parent
		case *ssa.FreeVar:
			if fr != nil && fr.closure != nil && fr.closure.K == xAtom {
				if mc, ok := fr.closure.V.(*ssa.MakeClosure); ok {
					found := false
					for i, fv := range fr.fn.FreeVars {
						if fv == t && i < len(mc.Bindings) {
							v, fr, found = mc.Bindings[i], fr.closure.F, true
						}
					}
					if found {
						continue
					}
				}
			}
			b := resolveFreeVar(t)
			if b == nil {
				return FieldID{}, false
			}
			v, fr = b, nil
		case *ssa.ChangeType:
			v = t.X
		case *ssa.UnOp:
			// a local / captured variable holding the address
			rs := c12Roots(t, nil)
			if len(rs) != 1 || rs[0] == v {
				return FieldID{}, false
			}
			v = rs[0]
		default:
			return FieldID{}, false
		}
	}
	return FieldID{}, false
}

// addrFieldSt: like addrFieldIn, and when that fails the address is evaluated
// in the path state (e.g. the result of an inlined accessor `lockOf(c)`).
func (x *c12) addrFieldSt(st *xState, fr *xFrame, v ssa.Value) (FieldID, bool) {
	if id, ok := x.addrFieldIn(fr, v); ok {
		return id, true
	}
	if st == nil || fr == nil {
		return FieldID{}, false
	}
	ev := st.EvalIn(fr, v)
	if ev.K == xAtom {
		if fa, ok := ev.V.(*ssa.FieldAddr); ok {
			return fieldIDOfAddr(fa), true
		}
	}
	var id FieldID
	n := 0
	for _, r := range st.Static(ev) {
		fa, ok := r.(*ssa.FieldAddr)
		if !ok {
			return FieldID{}, false
		}
		if n > 0 && fieldIDOfAddr(fa) != id {
			return FieldID{}, false
		}
		id = fieldIDOfAddr(fa)
		n++
	}
	return id, n > 0
}

// unresolvedLockOp: ci locks/unlocks a sync mutex whose identity cannot be
// established.
func (x *c12) unresolvedLockOp(st *xState, ci ssa.CallInstruction) bool {
	obj := calleeObj(ci)
	if obj == nil || ci.Common().IsInvoke() || len(ci.Common().Args) == 0 || obj.Pkg() == nil || obj.Pkg().Path() != "sync" {
		return false
	}
	switch obj.Name() {
	case "Lock", "Unlock", "RLock", "RUnlock":
	default:
		return false
	}
	_, ok := x.addrFieldSt(st, st.fr, ci.Common().Args[0])
	if ok {
		return false
	}
	// a mutex that is a plain local (not a field) is identified: it is not ours
	if _, isAlloc := ci.Common().Args[0].(*ssa.Alloc); isAlloc {
		return false
	}
	return true
}

// flagCall: in (executed in frame fr) calls method `name` of the atomic flag f.
func (x *c12) flagCall(fr *xFrame, in ssa.Instruction, f FieldID, name string) (*ssa.Call, bool) {
	call, ok := in.(*ssa.Call)
	if !ok || !c12IsFlagMethod(call, name) || len(call.Call.Args) == 0 {
		return nil, false
	}
	id, ok := x.addrFieldIn(fr, call.Call.Args[0])
	return call, ok && id == f
}

// unresolvedTAS: cond is the result of a CompareAndSwap / Swap on an atomic
// flag whose identity cannot be established (its address arrives in a way the
// check does not follow). A rule that needs "some test-and-set succeeded"
// must then be UNDECIDED rather than conclude that none did.
func (x *c12) unresolvedTAS(cond xVal) bool {
	chk := func(v xVal) bool {
		if v.K != xAtom {
			return false
		}
		call, ok := v.V.(*ssa.Call)
		if !ok || len(call.Call.Args) == 0 || !(c12IsFlagMethod(call, "CompareAndSwap") || c12IsFlagMethod(call, "Swap")) {
			return false
		}
		_, ok = x.addrFieldIn(v.F, call.Call.Args[0])
		return !ok
	}
	if chk(cond) {
		return true
	}
	return cond.K == xCmp && (chk(*cond.X) || chk(*cond.Y))
}

// flagSetCall: in (executed in the current frame of st) is f.Store(true / non-zero).
func (x *c12) flagSetCall(st *xState, in ssa.Instruction, f FieldID) bool {
	c, ok := x.flagCall(st.fr, in, f, "Store")
	return ok && len(c.Call.Args) == 2 && c12IsNonZero(c.Call.Args[1])
}

// flagValue decodes a branch (cond, truth) as knowledge about the value an
// atomic operation `name` on flag f returned: +1 = set (true / non-zero),
// -1 = unset (false / zero), 0 = not such a test.
func (x *c12) flagValue(cond xVal, truth bool, f FieldID, name string) int {
	isOp := func(v xVal) bool {
		if v.K != xAtom {
			return false
		}
		call, ok := v.V.(*ssa.Call)
		if !ok {
			return false
		}
		_, ok = x.flagCall(v.F, call, f, name)
		return ok
	}
	if isOp(cond) { // boolean flag used directly
		if truth {
			return 1
		}
		return -1
	}
	if cond.K == xCmp && (cond.Op == token.EQL || cond.Op == token.NEQ) {
		a, b := *cond.X, *cond.Y
		if !isOp(a) {
			a, b = b, a
		}
		if isOp(a) && (b.K == xInt || b.K == xBool) {
			zero := (b.K == xInt && b.I == 0) || (b.K == xBool && !b.B)
			eq := (cond.Op == token.EQL) == truth
			// op == zero (eq) -> unset; op != zero -> set; comparisons with a
			// non-zero constant k: op == k -> set, op != k -> unknown
			switch {
			case zero && eq:
				return -1
			case zero && !eq:
				return 1
			case !zero && eq:
				return 1
			case !zero && !eq && b.K == xInt:
				// op != k: unset when k is the only non-zero value the package ever
				// writes into the flag (a two-state flag)
				if k, ok := x.flagOnlyValue(f); ok && k == b.I {
					return -1
				}
			}
		}
	}
	return 0
}

// flagOnlyValue: the single non-zero constant the package writes into flag f
// (Store / Swap / CompareAndSwap new value); ok=false if there are several or
// a non-constant one.
func (x *c12) flagOnlyValue(f FieldID) (int64, bool) {
	var k int64
	have, ok := false, true
	note := func(v ssa.Value) {
		c, isC := c12ConstInt(v)
		if !isC {
			ok = false
			return
		}
		if c == 0 {
			return
		}
		if have && c != k {
			ok = false
		}
		k, have = c, true
	}
	for _, fn := range x.p.FuncsOfPkg("concurrency") {
		for _, name := range []string{"Store", "Swap"} {
			for _, c := range c12FlagCalls(fn, f, name) {
				if len(c.Call.Args) == 2 {
					note(c.Call.Args[1])
				}
			}
		}
		for _, c := range c12FlagCalls(fn, f, "CompareAndSwap") {
			if len(c.Call.Args) == 3 {
				note(c.Call.Args[2])
			}
		}
		for _, c := range c12FlagCalls(fn, f, "Add") {
			_ = c
			ok = false
		}
	}
	return k, ok && have
}

// tasWon: the branch (cond, truth) is the success of an atomic test-and-set
// of flag f (CompareAndSwap(false/0, true/k) == true, Swap(true/k) == false/0).
func (x *c12) tasWon(cond xVal, truth bool, f FieldID) bool {
	if cond.K == xAtom {
		if call, ok := cond.V.(*ssa.Call); ok {
			if c, ok := x.flagCall(cond.F, call, f, "CompareAndSwap"); ok && truth {
				a := c.Call.Args
				return len(a) == 3 && c12IsZero(a[1]) && c12IsNonZero(a[2])
			}
		}
	}
	if x.swapSets(cond, f) {
		return x.flagValue(cond, truth, f, "Swap") == -1
	}
	return false
}

// swapSets: cond tests the result of f.Swap(true / non-zero).
func (x *c12) swapSets(cond xVal, f FieldID) bool {
	find := func(v xVal) bool {
		if v.K != xAtom {
			return false
		}
		call, ok := v.V.(*ssa.Call)
		if !ok {
			return false
		}
		c, ok := x.flagCall(v.F, call, f, "Swap")
		return ok && len(c.Call.Args) == 2 && c12IsNonZero(c.Call.Args[1])
	}
	if find(cond) {
		return true
	}
	return cond.K == xCmp && (find(*cond.X) || find(*cond.Y))
}

// tasTried: cond is the result of a test-and-set of f (either outcome).
func (x *c12) tasTried(cond xVal, f FieldID) bool {
	if x.swapSets(cond, f) {
		return true
	}
	return x.tasWon(cond, true, f)
}

// flagUnset / flagSet: the branch established that f.Load() returned
// false/0 resp. true/non-zero.
func (x *c12) flagUnset(cond xVal, truth bool, f FieldID) bool {
	return x.flagValue(cond, truth, f, "Load") == -1
}

func (x *c12) flagSet(cond xVal, truth bool, f FieldID) bool {
	return x.flagValue(cond, truth, f, "Load") == 1
}

// closeOf: in (a call or defer of builtin close) closes a channel that
// evaluates to field f.
func (x *c12) closeOf(st *xState, in ssa.Instruction, f FieldID) bool {
	ci, ok := in.(ssa.CallInstruction)
	if !ok || builtinName(ci) != "close" || len(ci.Common().Args) != 1 {
		return false
	}
	return x.isField(st, ci.Common().Args[0], f)
}

func (x *c12) isField(st *xState, v ssa.Value, f FieldID) bool {
	if id, _, ok := fieldOfValue(v); ok {
		return id == f
	}
	ev := st.Eval(v)
	if ev.K == xField {
		return ev.Fld == f
	}
	for _, root := range st.Static(ev) {
		if id, _, ok := fieldOfValue(root); ok && id == f {
			return true
		}
	}
	return false
}

// lockOp classifies a call/defer as Lock (+1) / Unlock (-1) of the inner
// manager's lock, 0 otherwise.
func (x *c12) lockOp(st *xState, ci ssa.CallInstruction) int {
	return x.lockOpOf(st, ci, x.rmLock)
}

// lockOpOf: +1 / -1 if ci (in the current frame of st) locks / unlocks the
// mutex field `lock`, whose address may reach the call through parameters.
func (x *c12) lockOpOf(st *xState, ci ssa.CallInstruction, lock FieldID) int {
	obj := calleeObj(ci)
	if obj == nil || ci.Common().IsInvoke() || len(ci.Common().Args) == 0 {
		return 0
	}
	if obj.Name() != "Lock" && obj.Name() != "Unlock" {
		return 0
	}
	if id, ok := x.addrFieldSt(st, st.fr, ci.Common().Args[0]); !ok || id != lock {
		return 0
	}
	switch obj.Name() {
	case "Lock":
		return 1
	case "Unlock":
		return -1
	}
	return 0
}

func (x *c12) noInline(fn *ssa.Function) bool { return x.anchors[fn] }

// calleeFn resolves the function started by a go statement / called by a call.
func (x *c12) calleeFn(st *xState, ci ssa.CallInstruction) (*ssa.Function, *xVal) {
	return st.x.calleeOf(st, st.fr, ci.Common())
}
