package main

import (
	"go/constant"
	"go/token"
	"go/types"
	"sort"
	"strings"

	"golang.org/x/tools/go/ssa"
)

// C20 — context.Pool.
//
// Anchors are the exported API (context.Pool, NewPool, Pool.Add, Pool.Cancel,
// Pool.Size) and the standard library. Everything else is resolved by role:
// the fields of Pool through their types (the mutex, the slice of channels,
// the channel, the embedded Context), the watcher as the goroutine started
// (directly or through package callees) by NewPool, the pool context's cancel
// function as result #1 of the context.WithCancel call whose result #0 is
// stored in Pool.Context. The path rules run on an "inlined view": package
// callees, deferred calls and function literals are followed (c20flow.go).

func init() { register("C20", checkC20) }

type c20 struct {
	c  *Ctx
	r  *Report
	p  *Prog
	ro *c20Roles
	k  *c20Pkg
	e  *LockEngine

	newPool, add, cancel *ssa.Function
	root                 *ssa.Function // watcher goroutine entry
	goInstr              *ssa.Go
	wname                string
	W                    map[*ssa.Function]bool // watcher and the package functions it runs
	cons                 map[FieldID]map[ssa.Value]bool
	onceFlags            map[FieldID]bool // boolean fields only ever set to true after construction
}

func checkC20(c *Ctx) {
	r, p := c.R, c.P
	r.Explanation = "Decides necessary conditions of C20 on context.Pool. Anchors are the exported API (Pool, NewPool, Add, Cancel, Size) and the standard library; everything else is resolved by role: the fields of Pool through their types (the sync.(RW)Mutex, the slice of channels = members, the channel Cancel closes, the embedded Context; also inside sub-structs of Pool, named or anonymous, by value or pointer), the watcher as the goroutine NewPool or a package callee starts, the pool's cancel function by dataflow from the context.WithCancel call whose context reaches Pool.Context. A field written only at construction with one single-origin value is identified with that value (a local captured by the watcher, a parameter); a boolean field only ever set to true after construction may stand in for members != nil / the closed Cancel channel. Every path rule runs on an inlined view of the entry points: a path-sensitive flow over sets of bit-vector states in which package callees, deferred calls, function literals, sync.Once.Do arguments and resolvable function values (closure parameters, method values incl. the mutex's, func-typed fields, elements of literal tables, methods of a single-implementation unexported interface) are entered as frames (depth <= 3), counted loops over a literal table of <= 3 elements are unrolled, the constant (bool or small enum, <= 3 values) a followed helper returned and boolean flags stay attached to the path, and evidence sits on CFG edges (select case fired / default taken, Err()/context.Cause vs nil, members vs nil, index vs len(members), a set-once flag), so if/switch/select forms, early returns, helpers, defer vs explicit calls are equivalent. " +
		"(Y1) every access to the members slice on every path of the exported functions (entered without the lock) and of the watcher (entered with what NewPool holds at the go statement and at each of its returns) holds the Pool mutex, write mode for writes; accesses made by an entry point that is not handed a Pool, before it starts a goroutine, are private; " +
		"(Y2) the watcher invokes the pool context's cancel only on paths that, since its last blocking wait, re-read len(members) and observed index >= len for an index that starts at 0 and advances by 1, or saw the Cancel channel closed / members nil / the set-once flag — so a member added while the pool is live is waited for; the index advances only after a wait that includes a member channel, a non-blocking observation that a member is done, or Cancel's signal — no member is stepped over unwaited; " +
		"(Y3) every blocking operation the watcher performs is a select with a case on an element of the members slice and a case on the Cancel channel; every exit of the watcher has invoked cancel; cancel is invoked nowhere outside the watcher and Cancel; " +
		"(Y4) every store to the members slice reachable from Add happens with the write lock held and after a non-blocking test, made in the same lock hold, that found neither the pool context done nor the pool cancelled (one select, several selects, Err(), a set-once flag, a counted loop over a literal/variadic list of channels left by its index test); every return of Add has either seen the pool ended or stored the current members grown by the offered context's Done() — a member's own Done channel having fired is not such a signal; " +
		"(Y5) every close of the Cancel channel reachable from Cancel happens under the write lock after observing, in the same hold, members != nil, the Cancel channel not yet closed or the set-once flag unset (or inside sync.Once.Do), and members is set to nil (and the flag, if one exists, set) before that hold ends; " +
		"(Y6) NewPool's loop over the initial contexts (also in a package callee) is left only by its index test (index 0..len-1 step 1, range / three-clause / rotated form) and an iteration that does not append the context's Done channel to a slice flowing into the members field has observed that context done; a collection by indexed stores (in-place filter) counts like append only if the position written is a counter that starts at 0 and is advanced exactly on the iterations that store, and the slice cut to that counter reaches the members field — storing at the input position while contexts are skipped, or a counter out of step with the stores, is reported; " +
		"(Y7) every return of Cancel has stored nil to members or seen it nil (or the Cancel channel closed / the flag set), and the flag is only set in holds that drop the members; " +
		"(Y8) while the pool is shared, every store to the members slice is the current members grown at the end (append, also through temporaries, helpers, full re-slices, slices.Clip/Grow/Clone) or Cancel's nil, and no element is overwritten, moved or cleared; strict sub-slices, filtered/rebuilt/fresh slices, slices.Delete & co., nil outside Cancel are reported; unknown producers are UNDECIDED — the watcher's positional index relies on it. " +
		"A rule that fails while the flow had to over-approximate (unresolved function value, untraceable channel, table or enum beyond the bounds, recursion, frame depth) or meets a shape it cannot interpret (arithmetic over len(members), a predicate of another package over the pool's signals, a boolean field that is not set-once, members collected neither by append nor by counter-indexed stores) is UNDECIDED, not VIOLATION. " +
		"NOT decided: the history-level claim 'never early / always eventually' over all cancellation orders and Add timings; that Size returns exactly len(members); that the channel waited for is the one at the current index; that the element appended in NewPool belongs to the context that was tested."
	r.Assumptions = append(r.Assumptions,
		"sync.RWMutex may be unlocked by a goroutine other than the locker (documented), which is what the NewPool hand-off relies on",
		"context.Context implementations are well behaved: Done() of one context always returns the same channel, Err() != nil iff Done() is closed",
		"identities are type-based: a field is (declaring struct type, field), not the object — sound here because every rule talks about the one Pool an entry point works on",
		"library models: sync.(RW)Mutex Lock/Unlock/RLock/RUnlock, sync.Once.Do runs its argument at most once synchronously, slices.Clip/Grow/Clone keep elements and order, every other slices.* function may remove or move elements")
	r.Rule("C20.Y1-guard", "the members slice of Pool is accessed only under the Pool mutex (W for writes); watcher entry lockset = what NewPool hands over", 3)
	r.Rule("C20.Y2-reread", "the watcher cancels the pool context only after re-reading len(members) since its last wait and observing index >= len (index from 0 step 1); the index advances only past a member that was waited for or seen done", 1)
	r.Rule("C20.Y3-waits", "every wait in the watcher selects on a member channel and on the Cancel channel; every exit of the watcher has invoked the pool context's cancel", 2)
	r.Rule("C20.Y4-add", "Add stores to members only under the write lock after finding, in the same hold, the pool neither done nor cancelled; every return saw the pool ended or appended the offered context", 2)
	r.Rule("C20.Y6-initial", "NewPool considers every initial context: the loop is left only by its index test, and an iteration that does not append has seen that context done", 1)
	r.Rule("C20.Y7-cancel-clears", "every return of Cancel has cleared members or seen it nil (Size is zero after Cancel)", 1)
	r.Rule("C20.Y8-grow-only", "while the pool is shared the members slice only grows: every store to it is an append to the current members (or Cancel's nil), no element is removed, moved or overwritten — the watcher's positional index relies on it", 1)
	r.Rule("C20.Y5-cancel", "the Cancel channel is closed only under the write lock, at most once (members != nil seen and members cleared in the same hold, or sync.Once)", 1)

	ro, why := resolveC20Roles(p)
	if why != "" {
		undecided("C20 roles: %s", why)
	}
	a := &c20{c: c, r: r, p: p, ro: ro, k: newC20Pkg(p.FuncsOfPkg("context"))}
	a.newPool = p.Func("context", "NewPool")
	a.add = p.Func("context", "Pool.Add")
	a.cancel = p.Func("context", "Pool.Cancel")
	p.Func("context", "Pool.Size")
	if ro.Closed.Field == "" {
		a.resolveClosed()
	}
	a.resolveOnceFlags()
	r.Stats["roles"] = "lock=" + ro.Lock.String() + " members=" + ro.Members.String() + " cancel-channel=" + ro.Closed.String() + " context=" + ro.Ctx.String()

	if !a.findWatcher() {
		return
	}
	a.checkGuard()
	a.checkWaits()
	a.checkWatcherFlow()
	a.checkAdd()
	a.checkCancel()
	a.checkInitial()

	c.Fixture("locks", func(fp *Prog, fr *Report) {
		fe := NewLockEngine(fp)
		fe.Run()
		CheckGuardedBy(fp, fe, fr, "guard", fixtureLockSpecs(fp.ModPath))
		CheckSingleSection(fp, fe, fr, "section", fixtureLockSpecs(fp.ModPath))
	})
}

// ---------------------------------------------------------------- roles

// resolveClosed: several channel fields — the Cancel channel is the one closed
// by code reachable from Cancel.
func (a *c20) resolveClosed() {
	found := map[FieldID]bool{}
	for fn := range a.k.reach(a.cancel) {
		for _, cl := range closeSites(fn) {
			args := cl.Instr.(ssa.CallInstruction).Common().Args
			src, _ := a.k.origins(args[0])
			for _, s := range src {
				if id, _, ok := fieldOfValue(s); ok {
					for _, cf := range a.ro.Chans {
						if cf == id {
							found[id] = true
						}
					}
				}
			}
		}
	}
	if len(found) != 1 {
		undecided("C20 roles: context.Pool has several channel fields and Cancel does not close exactly one of them")
	}
	for f := range found {
		a.ro.Closed = f
	}
}

// resolveOnceFlags: a boolean field of Pool that, once the object is
// published, is only ever assigned the constant true ("cancelled"). Such a
// flag can stand in for members == nil / for the closed Cancel channel, provided
// it is set in the lock hold that closes the channel (checked by Y5) and only in
// holds that drop the members (checked by Y7).
func (a *c20) resolveOnceFlags() {
	a.onceFlags = map[FieldID]bool{}
	for _, id := range a.ro.Flags {
		ok, setTrue := true, false
		for _, fn := range a.k.Funcs {
			allInstrs(fn, func(in ssa.Instruction) {
				st, isStore := in.(*ssa.Store)
				if !isStore {
					return
				}
				fa, isFA := st.Addr.(*ssa.FieldAddr)
				if !isFA || fieldIDOfAddr(fa) != id {
					return
				}
				if isFreshBase(fa.X) && prePublication(st) {
					return
				}
				if c, isC := st.Val.(*ssa.Const); isC && c.Value != nil && c.Value.Kind() == constant.Bool && constant.BoolVal(c.Value) {
					setTrue = true
					return
				}
				ok = false
			})
		}
		if ok && setTrue {
			a.onceFlags[id] = true
		}
	}
}

// flagTest decodes a branch condition testing a boolean field of Pool
// (`p.f`, `!p.f`, `p.f == false`, through a temporary): the load, the field
// and the value the field has on this branch.
func (a *c20) flagTest(x *c20Ctx, cond ssa.Value, branch bool) (ssa.Instruction, FieldID, bool, bool) {
	v, val := cond, branch
	if bo, ok := v.(*ssa.BinOp); ok && (bo.Op == token.EQL || bo.Op == token.NEQ) {
		other, k := bo.X, bo.Y
		if _, isC := other.(*ssa.Const); isC {
			other, k = k, other
		}
		c, isC := k.(*ssa.Const)
		if !isC || c.Value == nil || c.Value.Kind() != constant.Bool {
			return nil, FieldID{}, false, false
		}
		if constant.BoolVal(c.Value) != (bo.Op == token.EQL) {
			val = !val
		}
		v = other
	}
	if x != nil {
		v, _ = x.Resolve(v)
	}
	src, open := a.k.origins(v)
	if open || len(src) != 1 {
		return nil, FieldID{}, false, false
	}
	u, ok := src[0].(*ssa.UnOp)
	if !ok || u.Op != token.MUL {
		return nil, FieldID{}, false, false
	}
	fa, ok := u.X.(*ssa.FieldAddr)
	if !ok {
		return nil, FieldID{}, false, false
	}
	id := fieldIDOfAddr(fa)
	for _, f := range a.ro.Flags {
		if f == id {
			return u, id, val, true
		}
	}
	return nil, FieldID{}, false, false
}

func (a *c20) isFlagLoad(in ssa.Instruction) bool {
	u, ok := in.(*ssa.UnOp)
	if !ok || u.Op != token.MUL {
		return false
	}
	fa, ok := u.X.(*ssa.FieldAddr)
	return ok && a.onceFlags[fieldIDOfAddr(fa)]
}

func (a *c20) isMembersLoad(v ssa.Value) bool { return c20IsFieldLoad(v, a.ro.Members) }

// resolved origins of a value seen in an inlining context
func (a *c20) orig(x *c20Ctx, v ssa.Value, pred func(ssa.Value) bool) c20Tri {
	if x != nil {
		v, _ = x.Resolve(v)
	}
	return a.k.allOrigins(v, pred)
}

func (a *c20) isLenOfMembers(o ssa.Value) bool {
	c, ok := o.(*ssa.Call)
	if !ok || builtinName(c) != "len" || len(c.Call.Args) != 1 {
		return false
	}
	return a.k.allOrigins(c.Call.Args[0], a.isMembersLoad) == c20Yes
}

// isMemberElem: o is a load of an element of the members slice.
func (a *c20) isMemberElem(o ssa.Value) bool {
	u, ok := o.(*ssa.UnOp)
	if !ok || u.Op != token.MUL {
		return false
	}
	ia, ok := u.X.(*ssa.IndexAddr)
	if !ok {
		return false
	}
	return a.k.allOrigins(ia.X, a.isMembersLoad) == c20Yes
}

// isClosedLoad: o is the Cancel channel: a load of the field, or the one value
// the field was given at construction if it is never assigned afterwards.
func (a *c20) isClosedLoad(o ssa.Value) bool {
	return c20IsFieldLoad(o, a.ro.Closed) || a.constructionValue(a.ro.Closed)[o]
}

// constructionValue: if every store to the field happens on the freshly
// allocated object before it is published (constructor) and stores one
// single-origin value, that value and later loads of the field denote the
// same thing (a local kept by the constructor and captured by a closure, a
// parameter handed to the watcher, ...). Otherwise nil.
func (a *c20) constructionValue(id FieldID) map[ssa.Value]bool {
	if a.cons == nil {
		a.cons = map[FieldID]map[ssa.Value]bool{}
	}
	if m, ok := a.cons[id]; ok {
		return m
	}
	out := map[ssa.Value]bool{}
	ok := true
	for _, fn := range a.k.Funcs {
		allInstrs(fn, func(in ssa.Instruction) {
			st, isStore := in.(*ssa.Store)
			if !isStore {
				return
			}
			fa, isFA := st.Addr.(*ssa.FieldAddr)
			if !isFA || fieldIDOfAddr(fa) != id {
				return
			}
			if !isFreshBase(fa.X) || !prePublication(st) {
				ok = false
				return
			}
			src, open := a.k.origins(st.Val)
			if open || len(src) != 1 {
				ok = false
				return
			}
			out[src[0]] = true
		})
	}
	if !ok || len(out) != 1 {
		out = nil
	}
	a.cons[id] = out
	return out
}

// isPoolValue: v is a *Pool (or the Context stored in Pool.Context).
func (a *c20) isPoolCtx(v ssa.Value) bool {
	return a.k.allOrigins(v, func(o ssa.Value) bool {
		if c20IsFieldLoad(o, a.ro.Ctx) || a.constructionValue(a.ro.Ctx)[o] {
			return true
		}
		return namedKey(o.Type()) == a.ro.PoolType
	}) == c20Yes
}

// c20CtxMethodCall: o is recv.<name>() of a context.Context-like receiver; returns the receiver.
func c20CtxMethodCall(o ssa.Value, name string) (ssa.Value, bool) {
	c, ok := o.(*ssa.Call)
	if !ok {
		return nil, false
	}
	obj := calleeObj(c)
	if obj == nil || obj.Name() != name {
		return nil, false
	}
	if c.Call.IsInvoke() {
		return c.Call.Value, true
	}
	if len(c.Call.Args) > 0 && obj.Type().(*types.Signature).Recv() != nil {
		return c.Call.Args[0], true
	}
	return nil, false
}

// isPoolDone: o is the Done() channel of the pool's own context.
func (a *c20) isPoolDone(o ssa.Value) bool {
	recv, ok := c20CtxMethodCall(o, "Done")
	return ok && a.isPoolCtx(recv)
}

// c20ErrTest decodes `X.Err() <op> nil` / `context.Cause(X) <op> nil`; returns X.
func c20ErrTest(cmp Cmp) (recv ssa.Value, op token.Token, ok bool) {
	x, y := cmp.X, cmp.Y
	if isNilConst(x) {
		x, y = y, x
	}
	if !isNilConst(y) || (cmp.Op != token.EQL && cmp.Op != token.NEQ) {
		return nil, 0, false
	}
	if rv, ok := c20CtxMethodCall(x, "Err"); ok {
		return rv, cmp.Op, true
	}
	if c, ok := x.(*ssa.Call); ok && callIs(c, "context", "", "Cause") && len(c.Call.Args) == 1 {
		return c.Call.Args[0], cmp.Op, true
	}
	return nil, 0, false
}

// opaqueChan: the channel comes out of a container or an unresolved parameter,
// so it cannot be said what it is NOT.
func (a *c20) opaqueChan(x *c20Ctx, v ssa.Value) bool {
	if x != nil {
		v, _ = x.Resolve(v)
	}
	src, open := a.k.origins(v)
	if open {
		return true
	}
	for _, o := range src {
		switch q := o.(type) {
		case *ssa.UnOp:
			switch q.X.(type) {
			case *ssa.IndexAddr, *ssa.FreeVar:
				return true
			}
		case *ssa.Lookup, *ssa.Index, *ssa.FreeVar:
			return true
		case *ssa.Parameter:
			if !isExportedFunc(q.Parent()) {
				return true
			}
		}
	}
	return false
}

// mentionsLen: v is an arithmetic expression over len(members).
func (a *c20) mentionsLen(x *c20Ctx, v ssa.Value, depth int) bool {
	if depth > 4 {
		return false
	}
	if bo, ok := v.(*ssa.BinOp); ok {
		return a.mentionsLen(x, bo.X, depth+1) || a.mentionsLen(x, bo.Y, depth+1)
	}
	if _, ok := v.(*ssa.Const); ok {
		return false
	}
	return a.orig(x, v, a.isLenOfMembers) == c20Yes
}

func (a *c20) lockKind(in ssa.Instruction) (lockOpKind, bool) {
	return a.lockKindX(nil, in)
}

// lockKindX recognises an operation on the Pool mutex: a direct call of
// Lock/Unlock/RLock/RUnlock, or a call of a method value of the mutex
// (`unlock := p.lock.Unlock; defer unlock()`, an element of a table of steps).
func (a *c20) lockKindX(x *c20Ctx, in ssa.Instruction) (lockOpKind, bool) {
	ci, ok := in.(ssa.CallInstruction)
	if !ok {
		return 0, false
	}
	if id, kind, ok := a.e.lockOp(ci); ok {
		return kind, id == a.ro.LockID
	}
	cc := ci.Common()
	if cc.IsInvoke() || builtinName(ci) != "" {
		return 0, false
	}
	v := cc.Value
	if x != nil && x.Callee != nil {
		v = x.Callee
	} else if x != nil {
		v, _ = x.Resolve(v)
	}
	src, open := a.k.origins(v)
	if open || len(src) != 1 {
		return 0, false
	}
	mc, ok := src[0].(*ssa.MakeClosure)
	if !ok || len(mc.Bindings) != 1 {
		return 0, false
	}
	w, _ := mc.Fn.(*ssa.Function)
	if !c20IsBoundWrapper(w) {
		return 0, false
	}
	obj, _ := w.Object().(*types.Func)
	if obj == nil || obj.Pkg() == nil || obj.Pkg().Path() != "sync" {
		return 0, false
	}
	if id, ok := lockIdent(mc.Bindings[0]); !ok || id != a.ro.LockID {
		return 0, false
	}
	switch obj.Name() {
	case "Lock":
		return opLock, true
	case "Unlock":
		return opUnlock, true
	case "RLock":
		return opRLock, true
	case "RUnlock":
		return opRUnlock, true
	}
	return 0, false
}

func c20SortedKeys(m map[string]bool) string {
	var ks []string
	for k := range m {
		ks = append(ks, k)
	}
	sort.Strings(ks)
	return strings.Join(ks, "; ")
}

// decide records OK, or — if the rule does not hold — a VIOLATION when the
// analysis was exact and UNDECIDED when it had to over-approximate.
func (a *c20) decide(ok bool, f *c20PathFlow, rule, construct string, pos token.Pos, okMsg, badMsg string) {
	if ok {
		a.r.OK(rule, construct, a.p.Pos(pos), okMsg)
		return
	}
	if f != nil && len(f.Imprecise) > 0 {
		a.r.Undecide("%s %s: %s — not decided because the path analysis was not exact here (%s)", rule, construct, badMsg, c20SortedKeys(f.Imprecise))
		return
	}
	a.r.Violation(rule, construct, a.p.Pos(pos), badMsg)
}

// ---------------------------------------------------------------- watcher

func (a *c20) findWatcher() bool {
	r, p := a.r, a.p
	type cand struct {
		g  *ssa.Go
		fn *ssa.Function
	}
	var cands []cand
	dynamicGo := false
	for fn := range a.k.reach(a.newPool) {
		allInstrs(fn, func(in ssa.Instruction) {
			if g, ok := in.(*ssa.Go); ok {
				if f := staticCallee(g); f != nil && a.k.In[f] {
					cands = append(cands, cand{g, f})
				} else {
					dynamicGo = true
				}
			}
		})
	}
	// keep the goroutines that work on the pool (touch its members or its Cancel channel)
	var keep []cand
	for _, cd := range cands {
		touches := false
		for fn := range a.k.reach(cd.fn) {
			if len(FieldAccesses(fn, func(id FieldID) bool { return id == a.ro.Members || id == a.ro.Closed })) > 0 {
				touches = true
			}
		}
		if touches {
			keep = append(keep, cd)
		}
	}
	sort.Slice(keep, func(i, j int) bool { return keep[i].g.Pos() < keep[j].g.Pos() })
	switch {
	case len(keep) == 1:
		a.goInstr, a.root = keep[0].g, keep[0].fn
	case len(keep) > 1:
		r.Undecide("C20: NewPool starts %d goroutines working on the pool; which one is the watcher is not decided", len(keep))
		return false
	default:
		// is there any goroutine / AfterFunc in the package that could play the role?
		other := dynamicGo
		for _, fn := range a.k.Funcs {
			allInstrs(fn, func(in ssa.Instruction) {
				switch x := in.(type) {
				case *ssa.Go:
					other = true
				case *ssa.Call:
					if callIs(x, "context", "", "AfterFunc") {
						other = true
					}
				}
			})
		}
		if other {
			r.Undecide("C20: no goroutine working on the pool is started by NewPool or its package callees, but the package starts goroutines elsewhere; the watcher could not be identified")
			return false
		}
		r.Violation("C20.Y3-waits", "context.NewPool watcher", p.Pos(a.newPool.Pos()), "neither NewPool nor any function of the package starts a goroutine: nothing waits for the members, the pool context never ends when they end")
		return false
	}
	a.wname = FuncName(p, a.root)
	a.W = a.k.reach(a.root)
	return true
}

// lock bits shared by the path rules
const (
	c20LR c20State = 1 << 10 // read lock held
	c20LW c20State = 1 << 11 // write lock held
)

// lockStep applies a lock operation on the Pool mutex to the lock bits.
func (a *c20) lockStep(x *c20Ctx, in ssa.Instruction, s c20State) (c20State, bool) {
	kind, ok := a.lockKindX(x, in)
	if !ok {
		return s, false
	}
	switch kind {
	case opLock:
		s |= c20LW
	case opUnlock:
		s &^= c20LW
	case opRLock:
		s |= c20LR
	case opRUnlock:
		s &^= c20LR
	}
	return s, true
}

// passesMembers: the call instruction is handed the members slice itself (its
// header or the address of the field), as opposed to a value loaded from one
// of its elements.
func (a *c20) passesMembers(in ssa.Instruction) bool {
	ci, ok := in.(ssa.CallInstruction)
	if !ok {
		return true
	}
	for _, arg := range ci.Common().Args {
		if fa, ok := arg.(*ssa.FieldAddr); ok && fieldIDOfAddr(fa) == a.ro.Members {
			return true
		}
		if _, isSlice := arg.Type().Underlying().(*types.Slice); isSlice {
			if a.k.allOrigins(arg, a.isMembersLoad) != c20No {
				return true
			}
		}
		if _, isPtr := arg.Type().Underlying().(*types.Pointer); isPtr {
			if _, toSlice := deref(arg.Type()).Underlying().(*types.Slice); toSlice {
				return true
			}
		}
	}
	return false
}

// checkGuard: Y1. Every access to the members slice, on every path of the
// inlined view of each entry point (the exported functions, entered without
// the lock, and the watcher, entered with what NewPool hands over), happens
// with the Pool mutex held (write mode for writes). The hand-off is what
// NewPool holds at the go statement on every path and still holds at each of
// its returns.
func (a *c20) checkGuard() {
	r, p := a.r, a.p
	a.e = newKitLockEngine(p) // only used to recognise lock operations; no whole-program run needed
	// hand-off
	heldAtGo, heldAtRet := c20LR|c20LW, c20LR|c20LW
	sawGo := false
	hf := &c20PathFlow{K: a.k}
	hf.Instr = func(x *c20Ctx, in ssa.Instruction, s c20State) c20State {
		if _, isDefer := in.(*ssa.Defer); isDefer && !x.Replaying {
			return s
		}
		if ns, ok := a.lockStep(x, in, s); ok {
			return ns
		}
		if in == ssa.Instruction(a.goInstr) {
			sawGo = true
			heldAtGo &= s
		}
		return s
	}
	hres := hf.Run(a.newPool, c20Set{0: {}})
	for s := range hres.all {
		heldAtRet &= s
	}
	var handoff c20State
	if sawGo && hres.returns > 0 {
		handoff = heldAtGo & heldAtRet & (c20LR | c20LW)
	}
	switch {
	case handoff&c20LW != 0:
		r.Stats["watcher_entry_lockset"] = "write lock handed over by NewPool"
	case handoff&c20LR != 0:
		r.Stats["watcher_entry_lockset"] = "read lock handed over by NewPool"
	default:
		r.Stats["watcher_entry_lockset"] = "{}"
	}

	// accesses
	need := map[ssa.Instruction]Mode{}
	what := map[ssa.Instruction]string{}
	for _, fn := range a.k.Funcs {
		for _, acc := range FieldAccesses(fn, func(id FieldID) bool { return id == a.ro.Members }) {
			if acc.Fresh {
				continue
			}
			if acc.Kind == AccCall && !a.passesMembers(acc.Instr) {
				// an element already loaded from the slice (a channel value) handed to a call is a copy:
				// using it is not an access to the members slice
				continue
			}
			m := ModeR
			if acc.Kind == AccWrite {
				m = ModeW
			}
			if m > need[acc.Instr] {
				need[acc.Instr] = m
				what[acc.Instr] = acc.Kind.String() + " (" + acc.What + ")"
			}
		}
	}
	// Y8: writes that change what the slice holds: stores to the field itself and writes to its elements
	fieldStore := map[ssa.Instruction]*ssa.Store{}
	elemWrite := map[ssa.Instruction]string{}
	for _, fn := range a.k.Funcs {
		allInstrs(fn, func(in ssa.Instruction) {
			if st, ok := in.(*ssa.Store); ok {
				if fa, ok := st.Addr.(*ssa.FieldAddr); ok && fieldIDOfAddr(fa) == a.ro.Members {
					fieldStore[in] = st
				}
			}
		})
		for _, acc := range FieldAccesses(fn, func(id FieldID) bool { return id == a.ro.Members }) {
			if acc.Kind == AccWrite && fieldStore[acc.Instr] == nil {
				elemWrite[acc.Instr] = acc.What
			}
		}
	}
	storeRoots := map[ssa.Instruction]map[*ssa.Function]bool{} // shared-phase stores -> entry points reaching them
	elemSeen := map[ssa.Instruction]*ssa.Function{}
	visited := map[ssa.Instruction]bool{}
	type root struct {
		fn    *ssa.Function
		entry c20State
	}
	roots := []root{{a.root, handoff}}
	for _, fn := range a.k.Funcs {
		if isExportedFunc(fn) {
			roots = append(roots, root{fn, 0})
		}
	}
	const bPriv c20State = 1 << 9 // constructor phase: no goroutine started yet, the Pool built here is not shared
	for _, rt := range roots {
		bad := map[ssa.Instruction]bool{}
		n := 0
		entry := rt.entry
		// an entry point that is not handed a Pool can only reach Pools it allocates itself:
		// until it starts a goroutine they are private (also inside the helpers it calls)
		if rt.fn != a.root {
			hasPool := false
			for _, pa := range rt.fn.Params {
				if namedKey(pa.Type()) == a.ro.PoolType {
					hasPool = true
				}
			}
			if !hasPool {
				entry |= bPriv
			}
		}
		f := &c20PathFlow{K: a.k}
		f.Instr = func(x *c20Ctx, in ssa.Instruction, s c20State) c20State {
			if _, isDefer := in.(*ssa.Defer); isDefer && !x.Replaying {
				return s
			}
			if _, isGo := in.(*ssa.Go); isGo {
				return s &^ bPriv
			}
			if ns, ok := a.lockStep(x, in, s); ok {
				return ns
			}
			if s&bPriv == 0 {
				if fieldStore[in] != nil {
					if storeRoots[in] == nil {
						storeRoots[in] = map[*ssa.Function]bool{}
					}
					storeRoots[in][rt.fn] = true
				}
				if _, ok := elemWrite[in]; ok {
					elemSeen[in] = rt.fn
				}
			}
			if m, ok := need[in]; ok {
				if !visited[in] {
					visited[in] = true
				}
				n++
				if !(s&bPriv != 0 || s&c20LW != 0 || (m == ModeR && s&c20LR != 0)) {
					bad[in] = true
				}
			}
			return s
		}
		f.Run(rt.fn, c20Set{entry: {}})
		if n == 0 {
			continue
		}
		construct := FuncName(p, rt.fn) + " -> " + a.ro.Members.String()
		var w []string
		var pos token.Pos
		var ins []ssa.Instruction
		for in := range bad {
			ins = append(ins, in)
		}
		sort.Slice(ins, func(i, j int) bool { return instrPos(ins[i]) < instrPos(ins[j]) })
		for _, in := range ins {
			w = append(w, what[in]+" in "+FuncName(p, in.Parent())+" at "+p.Pos(instrPos(in))+" needs "+shortID(a.ro.LockID)+"("+need[in].String()+")")
			if !pos.IsValid() {
				pos = instrPos(in)
			}
		}
		if len(bad) == 0 {
			r.OK("C20.Y1-guard", construct, p.Pos(rt.fn.Pos()), "every access to the members slice on every path of this entry point (callees inlined) holds the Pool mutex in the needed mode")
		} else if len(f.Imprecise) > 0 {
			r.Undecide("C20.Y1-guard %s: an access may be unprotected, but the path analysis was not exact (%s)", construct, c20SortedKeys(f.Imprecise))
		} else {
			r.Violation("C20.Y1-guard", construct, p.Pos(pos), "accesses to the members slice are not protected by the Pool mutex on some path of this entry point", w...)
		}
	}
	a.checkGrowOnly(fieldStore, storeRoots, elemWrite, elemSeen)
	var missed []string
	for in := range need {
		if !visited[in] {
			missed = append(missed, FuncName(p, in.Parent())+" at "+p.Pos(instrPos(in)))
		}
	}
	if len(missed) > 0 {
		sort.Strings(missed)
		r.Undecide("C20.Y1-guard: accesses to the members slice that no followed path of an entry point reaches (function values, dead code?): %s", strings.Join(missed, ", "))
	}
}

// appendedElems collects the elements appended along the chain of appends,
// re-slices and slices.Clip/Grow/Clone that leads from the members to v.
// decoded=false if some appended argument is not a list of single elements.
func (a *c20) appendedElems(v ssa.Value, depth int) ([]ssa.Value, bool) {
	if depth > 8 {
		return nil, false
	}
	src, open := a.k.origins(v)
	if open {
		return nil, false
	}
	var out []ssa.Value
	okAll := true
	for _, o := range src {
		switch q := o.(type) {
		case *ssa.Slice:
			e, ok := a.appendedElems(q.X, depth+1)
			out, okAll = append(out, e...), okAll && ok
		case *ssa.Call:
			if builtinName(q) == "append" {
				_, elems, decoded, _ := c20AppendInfo(q)
				if !decoded {
					okAll = false
				}
				out = append(out, elems...)
				e, ok := a.appendedElems(q.Call.Args[0], depth+1)
				out, okAll = append(out, e...), okAll && ok
			} else if obj := calleeObj(q); obj != nil && obj.Pkg() != nil && obj.Pkg().Path() == "slices" && len(q.Call.Args) >= 1 {
				e, ok := a.appendedElems(q.Call.Args[0], depth+1)
				out, okAll = append(out, e...), okAll && ok
			}
		}
	}
	return out, okAll
}

// growth classes of a slice value relative to the members slice
type c20Growth int

const (
	c20Same   c20Growth = iota // the current members, same elements in the same order
	c20Grown                   // the current members plus appended elements
	c20Shrunk                  // positively something else: a strict sub-slice, a rebuilt / filtered / fresh / nil slice, a library function that removes or moves elements
	c20Opaque                  // not known
	c20Cycle                   // (internal) loop-carried value under evaluation
)

// growth classifies a slice value by what it holds compared with the members
// slice it was derived from.
func (a *c20) growth(v ssa.Value, visiting map[ssa.Value]bool) c20Growth {
	if visiting[v] {
		return c20Cycle
	}
	visiting[v] = true
	defer delete(visiting, v)
	src, open := a.k.origins(v)
	res := c20Cycle
	join := func(g c20Growth) {
		switch {
		case g == c20Cycle:
		case res == c20Cycle:
			res = g
		case g == c20Shrunk || res == c20Shrunk:
			res = c20Shrunk
		case g == c20Opaque || res == c20Opaque:
			res = c20Opaque
		case g == c20Grown || res == c20Grown:
			res = c20Grown
		}
	}
	if open {
		join(c20Opaque)
	}
	for _, o := range src {
		if o == v && len(src) > 1 {
			continue
		}
		switch q := o.(type) {
		case *ssa.Const:
			join(c20Shrunk) // nil: drops everything
		case *ssa.MakeSlice:
			join(c20Shrunk)
		case *ssa.Slice:
			if _, isArr := deref(q.X.Type()).Underlying().(*types.Array); isArr {
				join(c20Shrunk) // a fresh literal
				continue
			}
			g := a.growth(q.X, visiting)
			lowOK := q.Low == nil
			if k, ok := q.Low.(*ssa.Const); ok && k.Value != nil && k.Int64() == 0 {
				lowOK = true
			}
			highOK := q.High == nil
			if c, ok := q.High.(*ssa.Call); ok && builtinName(c) == "len" && len(c.Call.Args) == 1 {
				s1, o1 := a.k.origins(c.Call.Args[0])
				s2, o2 := a.k.origins(q.X)
				if !o1 && !o2 && len(s1) == 1 && len(s2) == 1 && (s1[0] == s2[0] || a.isMembersLoad(s1[0]) && a.isMembersLoad(s2[0])) {
					highOK = true
				}
			}
			if lowOK && highOK {
				join(g)
			} else if g == c20Opaque {
				join(c20Opaque)
			} else {
				join(c20Shrunk) // a strict sub-slice (p.pool[:0], p.pool[1:], p.pool[:n])
			}
		case *ssa.Call:
			if builtinName(q) == "append" && len(q.Call.Args) >= 1 {
				switch g := a.growth(q.Call.Args[0], visiting); g {
				case c20Same, c20Grown:
					join(c20Grown)
				default:
					join(g)
				}
				continue
			}
			if obj := calleeObj(q); obj != nil && obj.Pkg() != nil && obj.Pkg().Path() == "slices" && len(q.Call.Args) >= 1 {
				switch obj.Name() {
				case "Clip", "Grow", "Clone":
					join(a.growth(q.Call.Args[0], visiting))
				default:
					// Delete, DeleteFunc, Compact, Insert, Replace, Reverse, Sort…: elements are removed or moved
					if g := a.growth(q.Call.Args[0], visiting); g == c20Opaque {
						join(c20Opaque)
					} else {
						join(c20Shrunk)
					}
				}
				continue
			}
			join(c20Opaque)
		default:
			if a.isMembersLoad(o) {
				join(c20Same)
			} else {
				join(c20Opaque)
			}
		}
	}
	return res
}

// checkGrowOnly: Y8. The watcher walks the members by position and never goes
// back, so while the pool is shared the slice may only grow at its end.
func (a *c20) checkGrowOnly(fieldStore map[ssa.Instruction]*ssa.Store, storeRoots map[ssa.Instruction]map[*ssa.Function]bool, elemWrite map[ssa.Instruction]string, elemSeen map[ssa.Instruction]*ssa.Function) {
	r, p := a.r, a.p
	cancelReach := a.k.reach(a.cancel)
	perFn := map[*ssa.Function][]string{}
	undec := map[*ssa.Function][]string{}
	okFn := map[*ssa.Function]int{}
	var ins []ssa.Instruction
	for in := range storeRoots {
		ins = append(ins, in)
	}
	sort.Slice(ins, func(i, j int) bool { return instrPos(ins[i]) < instrPos(ins[j]) })
	for _, in := range ins {
		st := fieldStore[in]
		fn := in.Parent()
		if isNilConst(st.Val) {
			onlyCancel := true
			for rt := range storeRoots[in] {
				if rt != a.cancel {
					onlyCancel = false
				}
			}
			if onlyCancel && cancelReach[fn] {
				okFn[fn]++
				continue
			}
			perFn[fn] = append(perFn[fn], "the members are dropped (nil) at "+p.Pos(instrPos(in))+" outside Cancel")
			continue
		}
		switch a.growth(st.Val, map[ssa.Value]bool{}) {
		case c20Same, c20Grown, c20Cycle:
			okFn[fn]++
		case c20Shrunk:
			perFn[fn] = append(perFn[fn], "the slice stored at "+p.Pos(instrPos(in))+" is not the current members grown at the end (a sub-slice, a filtered/rebuilt or fresh slice, or the result of a function that removes or moves elements): members the watcher has not reached yet move to positions it has already passed, so the pool can end while they are live")
		default:
			undec[fn] = append(undec[fn], "what the slice stored at "+p.Pos(instrPos(in))+" holds relative to the current members is not known")
		}
	}
	ins = ins[:0]
	for in := range elemSeen {
		ins = append(ins, in)
	}
	sort.Slice(ins, func(i, j int) bool { return instrPos(ins[i]) < instrPos(ins[j]) })
	for _, in := range ins {
		fn := in.Parent()
		perFn[fn] = append(perFn[fn], "an element of the members slice is overwritten / moved / cleared ("+elemWrite[in]+") at "+p.Pos(instrPos(in)))
	}
	fns := map[*ssa.Function]bool{}
	for fn := range perFn {
		fns[fn] = true
	}
	for fn := range undec {
		fns[fn] = true
	}
	for fn := range okFn {
		fns[fn] = true
	}
	var order []*ssa.Function
	for fn := range fns {
		order = append(order, fn)
	}
	sort.Slice(order, func(i, j int) bool { return FuncName(p, order[i]) < FuncName(p, order[j]) })
	for _, fn := range order {
		construct := FuncName(p, fn) + " members only grow"
		switch {
		case len(perFn[fn]) > 0:
			r.Violation("C20.Y8-grow-only", construct, p.Pos(fn.Pos()), strings.Join(perFn[fn], "; "))
		case len(undec[fn]) > 0:
			r.Undecide("C20.Y8-grow-only %s: %s", construct, strings.Join(undec[fn], "; "))
		default:
			r.OK("C20.Y8-grow-only", construct, p.Pos(fn.Pos()), "every store to the members slice made while the pool is shared appends to the current members (or is Cancel's nil)")
		}
	}
}

// checkWaits: Y3, blocking operations of the watcher and everything it runs.
func (a *c20) checkWaits() {
	r, p := a.r, a.p
	type wait struct {
		fn             *ssa.Function
		kind, desc     string
		closed, member c20Tri
	}
	worse := func(x, y c20Tri) c20Tri {
		switch {
		case x == c20No || y == c20No:
			return c20No
		case x == c20Unknown || y == c20Unknown:
			return c20Unknown
		}
		return c20Yes
	}
	waits := map[ssa.Instruction]*wait{}
	f := &c20PathFlow{K: a.k}
	f.Instr = func(x *c20Ctx, in ssa.Instruction, s c20State) c20State {
		a.W[x.Fn()] = true
		switch i := in.(type) {
		case *ssa.Select:
			if !i.Blocking {
				return s
			}
			closed, member := c20No, c20No
			for _, cs := range decodeSelect(i).Cases {
				if cs.Dir != types.RecvOnly {
					continue
				}
				if t := a.orig(x, cs.ChanV, a.isClosedLoad); t != c20No && closed != c20Yes {
					closed = t
				}
				if t := a.orig(x, cs.ChanV, a.isMemberElem); t != c20No && member != c20Yes {
					member = t
				}
			}
			if w := waits[in]; w != nil {
				w.closed, w.member = worse(w.closed, closed), worse(w.member, member)
			} else {
				waits[in] = &wait{fn: x.Fn(), kind: "select", closed: closed, member: member}
			}
		case *ssa.UnOp:
			if i.Op == token.ARROW {
				waits[in] = &wait{fn: x.Fn(), kind: "recv", desc: "receive on " + chanIdent(i.X)}
			}
		case *ssa.Send:
			waits[in] = &wait{fn: x.Fn(), kind: "send", desc: "send on " + chanIdent(i.Chan)}
		case *ssa.Call:
			if callIs(i, "sync", "WaitGroup", "Wait") {
				waits[in] = &wait{fn: x.Fn(), kind: "wg.Wait", desc: "WaitGroup.Wait"}
			}
		}
		return s
	}
	f.Run(a.root, c20Set{0: {}})
	var ins []ssa.Instruction
	for in := range waits {
		ins = append(ins, in)
	}
	sort.Slice(ins, func(i, j int) bool { return instrPos(ins[i]) < instrPos(ins[j]) })
	for _, in := range ins {
		w := waits[in]
		fname := FuncName(p, w.fn)
		if w.kind != "select" {
			r.Violation("C20.Y3-waits", fname+" "+w.kind, p.Pos(instrPos(in)), "the watcher blocks outside a select that has the Cancel channel case: "+w.desc)
			continue
		}
		switch {
		case w.closed == c20Yes && w.member == c20Yes:
			r.OK("C20.Y3-waits", fname+" select", p.Pos(instrPos(in)), "wait selects on a member channel and on the Cancel channel")
		case w.closed == c20No || w.member == c20No:
			what := "the Cancel channel case (the watcher would outlive Cancel)"
			if w.member == c20No {
				what = "a case on a channel taken from the members slice (the pool would end early or never)"
			}
			r.Violation("C20.Y3-waits", fname+" select", p.Pos(instrPos(in)), "a wait in the watcher lacks "+what)
		default:
			r.Undecide("C20.Y3-waits %s select at %s: the provenance of a case channel could not be traced to the members slice / the Cancel channel", fname, p.Pos(instrPos(in)))
		}
	}
	if len(waits) == 0 {
		if len(f.Imprecise) > 0 || len(f.Unfollowed) > 0 {
			r.Undecide("C20.Y3-waits: no blocking wait found on the followed paths of the watcher %s, but not everything it calls could be followed (%s %s)", a.wname, c20SortedKeys(f.Imprecise), c20SortedKeys(f.Unfollowed))
		} else {
			r.Violation("C20.Y3-waits", a.wname+" select", p.Pos(a.root.Pos()), "the watcher no longer waits for any member (the pool context would end at once)")
		}
	}
}

// cancelCarriers: the values that may hold the cancel function of the pool's
// own context, and the WithCancel call.
func (a *c20) cancelCarriers() (*c20Flow, *ssa.Call) {
	r, p := a.r, a.p
	var wcs []*ssa.Call
	for fn := range a.k.reach(a.newPool) {
		allInstrs(fn, func(in ssa.Instruction) {
			if call, ok := in.(*ssa.Call); ok && (callIs(call, "context", "", "WithCancel") || callIs(call, "context", "", "WithCancelCause")) {
				// the one whose context result is stored in Pool.Context
				if ctxRes := callResult(call, 0); ctxRes != nil && a.k.flowsTo(ctxRes).Fields[a.ro.Ctx] {
					wcs = append(wcs, call)
				}
			}
		})
	}
	if len(wcs) != 1 {
		r.Undecide("C20.Y3-waits: the context stored in Pool.Context is not the result of exactly one context.WithCancel call in NewPool or its package callees (%d found); how the pool context ends is not decided", len(wcs))
		return nil, nil
	}
	cancelRes := callResult(wcs[0], 1)
	if cancelRes == nil {
		r.Undecide("C20.Y3-waits: the cancel function returned by context.WithCancel is discarded at %s", p.Pos(wcs[0].Pos()))
		return nil, nil
	}
	return a.k.flowsTo(cancelRes), wcs[0]
}

func c20ProgressionFromZero(phi *ssa.Phi) bool {
	zero, step := false, false
	for _, ed := range phi.Edges {
		if k, ok := ed.(*ssa.Const); ok && k.Value != nil && k.Int64() == 0 {
			zero = true
			continue
		}
		if bo, ok := ed.(*ssa.BinOp); ok && bo.Op == token.ADD {
			if k, ok := bo.Y.(*ssa.Const); ok && bo.X == ssa.Value(phi) && k.Value != nil && k.Int64() == 1 {
				step = true
				continue
			}
			if k, ok := bo.X.(*ssa.Const); ok && bo.Y == ssa.Value(phi) && k.Value != nil && k.Int64() == 1 {
				step = true
				continue
			}
		}
		return false
	}
	return zero && step
}

// checkWatcherFlow: Y2 and the cancel half of Y3.
func (a *c20) checkWatcherFlow() {
	r, p := a.r, a.p
	carriers, wc := a.cancelCarriers()
	if carriers == nil {
		return
	}
	const (
		bExit  = 1 << iota // index >= len(members) observed on a fresh length since the last wait
		bCanc              // cancel invoked
		bFresh             // len(members) evaluated since the last wait
		bSeen              // since the index last advanced, a member was waited for or seen done, or Cancel's signal was seen
	)
	idxPhis := map[*ssa.Phi]bool{} // the watcher's index variable(s), found through the exit test
	pass2 := false
	var advanceBad token.Pos
	hasMemberCase := func(x *c20Ctx, sel *ssa.Select) bool {
		for _, cs := range decodeSelect(sel).Cases {
			if cs.Dir == types.RecvOnly && a.orig(x, cs.ChanV, a.isMemberElem) != c20No {
				return true
			}
		}
		return false
	}
	exitEdges, cancelExits := 0, 0
	exitUnknown := map[string]bool{}
	nearMiss := map[string]bool{}
	events := map[ssa.Instruction]bool{} // -> some state lacked bExit
	isCancelValue := func(v ssa.Value) bool { return carriers.Vals[v] }
	f := &c20PathFlow{K: a.k}
	f.Instr = func(x *c20Ctx, in ssa.Instruction, s c20State) c20State {
		if phi, ok := in.(*ssa.Phi); ok && idxPhis[phi] {
			s &^= bSeen // a new index: nothing seen about its member yet (the Edge hook has checked the advance)
		} else if in == in.Block().Instrs[0] {
			for phi := range idxPhis {
				if phi.Block() == in.Block() {
					s &^= bSeen
				}
			}
		}
		switch i := in.(type) {
		case *ssa.Select:
			if i.Blocking {
				s &^= bExit | bFresh
				if hasMemberCase(x, i) {
					s |= bSeen // returns only when the member is done or Cancel's signal fired (Y3 checks the cases)
				}
				return s
			}
		case *ssa.UnOp:
			if i.Op == token.ARROW {
				s &^= bExit | bFresh
				if a.orig(x, i.X, a.isMemberElem) != c20No {
					s |= bSeen
				}
				return s
			}
		case *ssa.Send:
			return s &^ (bExit | bFresh)
		case ssa.CallInstruction:
			if c, ok := in.(*ssa.Call); ok && a.isLenOfMembers(c) {
				return s | bFresh
			}
			if _, isDefer := in.(*ssa.Defer); isDefer && !x.Replaying {
				return s
			}
			if !i.Common().IsInvoke() && isCancelValue(i.Common().Value) {
				if _, seen := events[in]; !seen {
					events[in] = false
				}
				if s&bExit == 0 {
					events[in] = true
				}
				return s | bCanc
			}
		}
		return s
	}
	f.Cond = func(x *c20Ctx, cond ssa.Value, branch bool, from, to *ssa.BasicBlock, s c20State) c20State {
		// "or when Cancel is called": having seen the Cancel channel closed, or the members dropped,
		// entitles the watcher to end the pool
		if si, fired, _ := c20SelectEdge(cond, branch, to); si != nil {
			if fired >= 0 && fired < len(si.Cases) && si.Cases[fired].Dir == types.RecvOnly && a.orig(x, si.Cases[fired].ChanV, a.isClosedLoad) == c20Yes {
				cancelExits++
				return s | bExit | bSeen
			}
			if fired >= 0 && fired < len(si.Cases) && si.Cases[fired].Dir == types.RecvOnly && a.orig(x, si.Cases[fired].ChanV, a.isMemberElem) != c20No {
				return s | bSeen // the member was seen done without blocking
			}
			return s
		}
		if _, id, val, ok := a.flagTest(x, cond, branch); ok {
			if a.onceFlags[id] && val {
				cancelExits++
				return s | bExit
			}
			return s
		}
		cmp, ok := decodeCond(cond, branch)
		if !ok {
			return s
		}
		if cmp.Op == token.EQL && (isNilConst(cmp.Y) || isNilConst(cmp.X)) {
			v := cmp.X
			if isNilConst(v) {
				v = cmp.Y
			}
			if a.orig(x, v, a.isMembersLoad) == c20Yes {
				cancelExits++
				return s | bExit
			}
			return s
		}
		idx, ln, op := cmp.X, cmp.Y, cmp.Op
		lenSide := func(v ssa.Value) bool { return a.orig(x, v, a.isLenOfMembers) == c20Yes }
		if !lenSide(ln) {
			if !lenSide(idx) {
				if a.mentionsLen(x, idx, 0) || a.mentionsLen(x, ln, 0) {
					exitUnknown["a branch in "+x.Fn().Name()+" compares an expression built from len(members) that is not of the form index <op> len(members)"] = true
				}
				return s
			}
			idx, ln = ln, idx
			switch op {
			case token.LSS:
				op = token.GTR
			case token.GTR:
				op = token.LSS
			case token.LEQ:
				op = token.GEQ
			case token.GEQ:
				op = token.LEQ
			}
		}
		if op != token.GEQ {
			if op != token.LSS {
				nearMiss["the index is compared with len(members) using "+op.String()+" (the watcher must go on exactly while index < len)"] = true
			}
			return s
		}
		if s&bFresh == 0 {
			nearMiss["index >= len(members) is observed on a length read before the last wait (members added meanwhile are never waited for)"] = true
			return s
		}
		iv, _ := x.Resolve(idx)
		switch v := iv.(type) {
		case *ssa.Const:
			// the index at loop entry
			if v.Value == nil || v.Int64() != 0 {
				nearMiss["a constant other than 0 is compared with len(members)"] = true
				return s
			}
		case *ssa.Phi:
			if !c20ProgressionFromZero(v) {
				nearMiss["the index compared with len(members) does not start at 0 and advance by exactly 1"] = true
				return s
			}
			idxPhis[v] = true
		case *ssa.BinOp:
			// the incremented index (the value the loop variable has after i++)
			okInc := false
			for _, rr := range refs(v) {
				if phi, isPhi := rr.(*ssa.Phi); isPhi && c20ProgressionFromZero(phi) {
					okInc = true
					idxPhis[phi] = true
				}
			}
			if !okInc {
				exitUnknown["the value compared with len(members) in "+x.Fn().Name()+" is computed from the index (not the index itself)"] = true
				return s
			}
		default:
			exitUnknown["the value compared with len(members) in "+x.Fn().Name()+" is not a loop-carried SSA variable (kept in memory or computed)"] = true
			return s
		}
		exitEdges++
		return s | bExit
	}
	// the index advances only past a member that was waited for or seen done
	f.Edge = func(x *c20Ctx, from, to *ssa.BasicBlock, s c20State) {
		if !pass2 {
			return
		}
		for phi := range idxPhis {
			if phi.Block() != to {
				continue
			}
			for k, pr := range to.Preds {
				if pr != from || k >= len(phi.Edges) {
					continue
				}
				if _, inc := phi.Edges[k].(*ssa.BinOp); inc && s&bSeen == 0 && !advanceBad.IsValid() {
					advanceBad = instrPos(from.Instrs[len(from.Instrs)-1])
				}
			}
		}
	}
	res := f.Run(a.root, c20Set{0: {}})
	if len(idxPhis) > 0 {
		pass2 = true
		res = f.Run(a.root, c20Set{0: {}}) // the index variable is known now
	}

	// calls of the cancel function outside the watcher and outside Cancel end the pool early
	allowed := map[*ssa.Function]bool{}
	for fn := range a.W {
		allowed[fn] = true
	}
	for fn := range a.k.reach(a.cancel) {
		allowed[fn] = true
	}
	var stray []string
	for _, fn := range a.k.Funcs {
		if allowed[fn] {
			continue
		}
		allInstrs(fn, func(in ssa.Instruction) {
			if ci, ok := in.(ssa.CallInstruction); ok && !ci.Common().IsInvoke() && isCancelValue(ci.Common().Value) {
				stray = append(stray, FuncName(p, fn)+" at "+p.Pos(instrPos(in)))
			}
		})
	}
	escaped := ""
	for _, esc := range carriers.Escapes {
		escaped = p.Pos(instrPos(esc))
	}

	// Y2
	construct := a.wname + " loop"
	early := false
	var earlyPos token.Pos
	var evs []ssa.Instruction
	for in := range events {
		evs = append(evs, in)
	}
	sort.Slice(evs, func(i, j int) bool { return evs[i].Pos() < evs[j].Pos() })
	for _, in := range evs {
		if events[in] {
			early = true
			earlyPos = instrPos(in)
		}
	}
	switch {
	case len(events) == 0:
		// decided below (cancel never invoked)
		if exitEdges > 0 {
			r.OK("C20.Y2-reread", construct, p.Pos(a.root.Pos()), "exit test index >= len(members) on a re-read length found")
		} else if len(exitUnknown) > 0 {
			r.Undecide("C20.Y2-reread: %s", c20SortedKeys(exitUnknown))
		} else {
			a.decide(false, f, "C20.Y2-reread", construct, a.root.Pos(), "", "the watcher has no test index >= len(members) on a length re-read after each wait"+c20Why(nearMiss))
		}
	case !early:
		r.OK("C20.Y2-reread", construct, p.Pos(a.root.Pos()), "cancel is invoked only after index >= len(members) was observed on a length re-read since the last wait; index from 0 step 1")
	case len(exitUnknown) > 0:
		r.Undecide("C20.Y2-reread: the watcher's exit test has a shape that is not decided: %s", c20SortedKeys(exitUnknown))
	default:
		a.decide(false, f, "C20.Y2-reread", construct, earlyPos, "",
			"the pool context's cancel can be invoked by the watcher on a path that has not, since the last wait, re-read len(members) and found index >= len: the pool can end while a member (e.g. one added during the wait) is still live"+c20Why(nearMiss))
	}

	if len(idxPhis) > 0 {
		a.decide(!advanceBad.IsValid(), f, "C20.Y2-reread", a.wname+" advance", advanceBad, "the watcher's index advances only after a wait on a member (or a non-blocking observation that it is done, or Cancel's signal)",
			"the watcher can advance its index past a member without having waited for it or seen it done (a member that has not ended — e.g. one whose Done channel never fires — no longer keeps the pool live)")
	}

	// Y3 cancel half
	construct = a.wname + " cancel"
	allCanc := res.returns > 0 && res.all.all(func(s c20State) bool { return s&bCanc != 0 })
	switch {
	case len(stray) > 0:
		r.Violation("C20.Y3-waits", construct, p.Pos(wc.Pos()), "the pool context's cancel function is also invoked outside the watcher and outside Cancel (the pool can end while members are live): "+strings.Join(stray, ", "))
	case allCanc:
		r.OK("C20.Y3-waits", construct, p.Pos(wc.Pos()), "Pool.Context comes from context.WithCancel and every exit of the watcher has invoked its cancel function")
	case escaped != "" || len(f.Unfollowed) > 0:
		r.Undecide("C20.Y3-waits %s: not every exit of the watcher is seen to invoke cancel, but the cancel function is handed to code that was not followed (%s %s)", construct, escaped, c20SortedKeys(f.Unfollowed))
	case res.returns == 0:
		a.decide(false, f, "C20.Y3-waits", construct, a.root.Pos(), "", "the watcher goroutine has no reachable exit: it does not end with the pool")
	default:
		a.decide(false, f, "C20.Y3-waits", construct, wc.Pos(), "", "the watcher can exit without having invoked the pool context's cancel function (the pool never ends although all members ended)")
	}
}

func c20Why(m map[string]bool) string {
	if len(m) == 0 {
		return ""
	}
	return " [" + c20SortedKeys(m) + "]"
}

// ---------------------------------------------------------------- loops over a small literal slice

// c20LitLoop: a counted loop `for I := 0..len(S)-1` whose body indexes S[I],
// S being (in some inlining context) a slice literal / the variadic argument
// list of a call: `for _, ch := range []<-chan struct{}{a, b} { … }`,
// `anyClosed(a, b)`.
type c20LitLoop struct {
	header *ssa.BasicBlock
	ia     *ssa.IndexAddr
}

func c20IsZero(v ssa.Value) bool {
	c, ok := v.(*ssa.Const)
	return ok && c.Value != nil && c.Int64() == 0
}

// c20IndexFromZero: at the loop test the value runs 0,1,2,…: phi{0,+1}, or the
// range lowering t = phi{-1,t}+1.
func c20IndexFromZero(v ssa.Value) bool {
	switch v := v.(type) {
	case *ssa.Phi:
		return c20ProgressionFromZero(v)
	case *ssa.BinOp:
		if v.Op != token.ADD {
			return false
		}
		phi, ok := v.X.(*ssa.Phi)
		k, ok2 := v.Y.(*ssa.Const)
		if !ok || !ok2 || k.Value == nil || k.Int64() != 1 {
			return false
		}
		for _, ed := range phi.Edges {
			if c, ok := ed.(*ssa.Const); ok && c.Value != nil && c.Int64() == -1 {
				continue
			}
			if ed == ssa.Value(v) {
				continue
			}
			return false
		}
		return true
	}
	return false
}

// litLoops finds the counted loops over a slice of channels in the functions
// reachable from root, keyed by header block and by the element address.
func (a *c20) litLoops(root *ssa.Function) (map[*ssa.BasicBlock]*c20LitLoop, map[*ssa.IndexAddr]*c20LitLoop) {
	byHeader, byAddr := map[*ssa.BasicBlock]*c20LitLoop{}, map[*ssa.IndexAddr]*c20LitLoop{}
	for fn := range a.k.reach(root) {
		allInstrs(fn, func(in ssa.Instruction) {
			ia, ok := in.(*ssa.IndexAddr)
			if !ok {
				return
			}
			sl, ok := ia.X.Type().Underlying().(*types.Slice)
			if !ok {
				return
			}
			if _, isChan := sl.Elem().Underlying().(*types.Chan); !isChan {
				return
			}
			if !c20IndexFromZero(ia.Index) {
				return
			}
			allInstrs(fn, func(j ssa.Instruction) {
				ifi, ok := j.(*ssa.If)
				if !ok {
					return
				}
				cmp, ok := decodeCond(ifi.Cond, true)
				if !ok || cmp.Op != token.LSS || cmp.X != ia.Index {
					return
				}
				lc, ok := cmp.Y.(*ssa.Call)
				if !ok || builtinName(lc) != "len" {
					return
				}
				s1, o1 := a.k.origins(lc.Call.Args[0])
				s2, o2 := a.k.origins(ia.X)
				if o1 || o2 || len(s1) != 1 || len(s2) != 1 || s1[0] != s2[0] {
					return
				}
				if !ifi.Block().Dominates(ia.Block()) {
					return
				}
				l := &c20LitLoop{header: ifi.Block(), ia: ia}
				byHeader[l.header] = l
				byAddr[ia] = l
			})
		})
	}
	return byHeader, byAddr
}

// litElems resolves, in the inlining context, the elements of the literal
// slice the loop runs over (nil if it is not a fully known literal).
func (a *c20) litElems(x *c20Ctx, l *c20LitLoop) []ssa.Value {
	v, _ := x.Resolve(l.ia.X)
	src, open := a.k.origins(v)
	if open || len(src) != 1 {
		return nil
	}
	sl, ok := src[0].(*ssa.Slice)
	if !ok || sl.Low != nil || sl.High != nil || sl.Max != nil {
		return nil
	}
	arr, ok := sl.X.(*ssa.Alloc)
	if !ok {
		return nil
	}
	at, ok := deref(arr.Type()).Underlying().(*types.Array)
	if !ok {
		return nil
	}
	elems := make([]ssa.Value, at.Len())
	n := 0
	for _, r := range refs(arr) {
		switch q := r.(type) {
		case *ssa.IndexAddr:
			k, isC := q.Index.(*ssa.Const)
			if !isC || k.Value == nil {
				return nil
			}
			for _, rr := range refs(q) {
				st, ok := rr.(*ssa.Store)
				if !ok || st.Addr != ssa.Value(q) {
					return nil
				}
				i := int(k.Int64())
				if i < 0 || i >= len(elems) || elems[i] != nil {
					return nil
				}
				elems[i] = st.Val
				n++
			}
		case *ssa.Slice:
		default:
			return nil
		}
	}
	if n != len(elems) || n == 0 {
		return nil
	}
	return elems
}

// oneLitElem: the channel is an element of a fully known literal slice (of
// more than one element), loaded at a point that does not lie on a CFG cycle.
func (a *c20) oneLitElem(x *c20Ctx, ch ssa.Value) bool {
	v, _ := x.Resolve(ch)
	src, open := a.k.origins(v)
	if open || len(src) != 1 {
		return false
	}
	u, ok := src[0].(*ssa.UnOp)
	if !ok || u.Op != token.MUL {
		return false
	}
	ia, ok := u.X.(*ssa.IndexAddr)
	if !ok {
		return false
	}
	b := ia.Block()
	for _, s := range b.Succs {
		if reachableFrom(s, nil)[b] {
			return false
		}
	}
	return len(a.litElems(x, &c20LitLoop{ia: ia})) > 1
}

// litLoopOf: the channel is the current element of a literal loop.
func (a *c20) litLoopOf(x *c20Ctx, byAddr map[*ssa.IndexAddr]*c20LitLoop, ch ssa.Value) *c20LitLoop {
	v, _ := x.Resolve(ch)
	src, open := a.k.origins(v)
	if open || len(src) != 1 {
		return nil
	}
	u, ok := src[0].(*ssa.UnOp)
	if !ok || u.Op != token.MUL {
		return nil
	}
	ia, ok := u.X.(*ssa.IndexAddr)
	if !ok {
		return nil
	}
	return byAddr[ia]
}

// ---------------------------------------------------------------- Add

// c20AppendInfo decodes v = append(base, elems...).
func c20AppendInfo(v ssa.Value) (base ssa.Value, elems []ssa.Value, decoded bool, ok bool) {
	c, isCall := v.(*ssa.Call)
	if !isCall || builtinName(c) != "append" || len(c.Call.Args) != 2 {
		return nil, nil, false, false
	}
	base = c.Call.Args[0]
	sl, isSlice := c.Call.Args[1].(*ssa.Slice)
	if !isSlice {
		return base, nil, false, true
	}
	arr, isAlloc := sl.X.(*ssa.Alloc)
	if !isAlloc {
		return base, nil, false, true
	}
	for _, r := range refs(arr) {
		if ia, ok := r.(*ssa.IndexAddr); ok {
			for _, rr := range refs(ia) {
				if st, ok := rr.(*ssa.Store); ok && st.Addr == ia {
					elems = append(elems, st.Val)
				}
			}
		}
	}
	return base, elems, len(elems) > 0, true
}

func (a *c20) checkAdd() {
	r, p := a.r, a.p
	const (
		bND      = 1 << iota // pool context found not done, in the current lock hold
		bNC                  // Cancel channel found not closed, in the current lock hold
		bEN                  // pool seen ended (context done or Cancel channel closed)
		bAP                  // offered context appended to the existing members
		bLW                  // write lock held
		bIT                  // inside a loop over a literal slice of channels
		bEL                  // this iteration found the current element not ready
		bALL                 // every iteration so far found its element not ready
		loadBase = 12
	)
	byHeader, byAddr := a.litLoops(a.add)
	loadBit := map[ssa.Instruction]c20State{}
	var loadMask c20State
	bitOfLoad := func(in ssa.Instruction) c20State {
		if b, ok := loadBit[in]; ok {
			return b
		}
		n := len(loadBit)
		if n >= 8 {
			return 0
		}
		b := c20State(1) << uint(loadBase+n)
		loadBit[in] = b
		loadMask |= b
		return b
	}
	// the offered context: the non-receiver parameter of Add
	var offered *ssa.Parameter
	for i, pa := range a.add.Params {
		if i > 0 && namedKey(pa.Type()) == "context.Context" {
			offered = pa
		}
	}
	isOfferedDone := func(x *c20Ctx, v ssa.Value) c20Tri {
		return a.orig(x, v, func(o ssa.Value) bool {
			recv, ok := c20CtxMethodCall(o, "Done")
			if !ok {
				return false
			}
			return a.k.allOrigins(recv, func(q ssa.Value) bool { return q == ssa.Value(offered) }) == c20Yes
		})
	}
	stores := map[ssa.Instruction]string{} // store -> "" ok / reason
	f := &c20PathFlow{K: a.k}
	f.Instr = func(x *c20Ctx, in ssa.Instruction, s c20State) c20State {
		if _, isDefer := in.(*ssa.Defer); isDefer && !x.Replaying {
			return s
		}
		if kind, ok := a.lockKindX(x, in); ok {
			s &^= bND | bNC | bEL | bALL | loadMask
			switch kind {
			case opLock:
				s |= bLW
			case opUnlock:
				s &^= bLW
			}
			return s
		}
		if l := byHeader[in.Block()]; l != nil && in == l.header.Instrs[0] {
			if s&bIT == 0 {
				return (s | bIT | bALL) &^ bEL // entering the loop
			}
			if s&bEL == 0 {
				s &^= bALL // the iteration just finished did not test its element
			}
			return s &^ bEL
		}
		if a.isFlagLoad(in) {
			return s | bitOfLoad(in)
		}
		st, ok := in.(*ssa.Store)
		if !ok {
			return s
		}
		fa, ok := st.Addr.(*ssa.FieldAddr)
		if !ok || fieldIDOfAddr(fa) != a.ro.Members {
			return s
		}
		if _, seen := stores[in]; !seen {
			stores[in] = ""
		}
		switch {
		case s&bLW == 0:
			stores[in] = "the store is not made under the write lock"
		case s&bND == 0 || s&bNC == 0:
			stores[in] = "the store is not preceded, in the same write-lock hold, by a non-blocking test that found both the pool context not done and the Cancel channel not closed (a Cancel can slip in between, or a member is added to an ended pool)"
		}
		sv, _ := x.Resolve(st.Val)
		switch a.growth(sv, map[ssa.Value]bool{}) {
		case c20Grown:
		case c20Opaque:
			f.Imprecise["the members slice is assigned a value whose relation to the current members is not modelled"] = true
			return s
		default:
			return s // not the current members grown at the end (Y8 reports it if it can lose members)
		}
		elems, decoded := a.appendedElems(sv, 0)
		if !decoded || offered == nil {
			return s | bAP
		}
		for _, el := range elems {
			if isOfferedDone(x, el) != c20No {
				return s | bAP
			}
		}
		return s
	}
	classify := func(x *c20Ctx, v ssa.Value) c20State {
		if a.orig(x, v, a.isPoolDone) == c20Yes {
			return bND
		}
		if a.orig(x, v, a.isClosedLoad) == c20Yes {
			return bNC
		}
		return 0
	}
	f.Cond = func(x *c20Ctx, cond ssa.Value, branch bool, from, to *ssa.BasicBlock, s c20State) c20State {
		// leaving a loop over a literal slice of channels by its index test: every element was tested
		if l := byHeader[from]; l != nil && from != nil {
			if cmp, ok := decodeCond(cond, branch); ok && cmp.X == l.ia.Index {
				if cmp.Op == token.GEQ && s&bIT != 0 {
					if s&bALL != 0 {
						elems := a.litElems(x, l)
						if elems == nil {
							f.Imprecise["a loop in "+x.Fn().Name()+" tests the channels of a slice that is not a fully known literal"] = true
						}
						for _, e := range elems {
							k := classify(nil, e)
							if k == 0 && a.opaqueChan(nil, e) {
								f.Imprecise["a loop in "+x.Fn().Name()+" tests a channel whose provenance could not be traced"] = true
							}
							s |= k
						}
					}
					s &^= bIT | bEL | bALL
				}
				return s
			}
		}
		if ld, id, val, ok := a.flagTest(x, cond, branch); ok {
			if !a.onceFlags[id] {
				f.Imprecise["a branch in "+x.Fn().Name()+" tests the boolean field "+id.String()+", which is not a set-once flag"] = true
				return s
			}
			if val {
				return s | bEN // set only by Cancel, in the hold that closes the Cancel channel (Y5)
			}
			if s&loadBit[ld] != 0 {
				s |= bNC
			}
			return s
		}
		if si, fired, isDef := c20SelectEdge(cond, branch, to); si != nil {
			// the current element of a loop over a literal slice
			for _, cs := range si.Cases {
				if cs.Dir != types.RecvOnly {
					continue
				}
				l := a.litLoopOf(x, byAddr, cs.ChanV)
				if l == nil {
					continue
				}
				if len(si.Cases) != 1 {
					f.Imprecise["a select in "+x.Fn().Name()+" mixes an element of a channel list with other cases"] = true
					return s
				}
				if isDef {
					return s | bEL
				}
				if fired == cs.Index {
					elems := a.litElems(x, l)
					all := len(elems) > 0
					for _, e := range elems {
						if classify(nil, e) == 0 {
							all = false
						}
					}
					if all {
						return s | bEN
					}
					f.Imprecise["a loop in "+x.Fn().Name()+" tests the channels of a list that could not be fully resolved"] = true
				}
				return s
			}
			kindOf := func(cs SelCase) c20State {
				if cs.Dir != types.RecvOnly {
					return 0
				}
				d, c := a.orig(x, cs.ChanV, a.isPoolDone), a.orig(x, cs.ChanV, a.isClosedLoad)
				if d == c20Yes {
					return bND
				}
				if c == c20Yes {
					return bNC
				}
				if a.orig(x, cs.ChanV, a.isMemberElem) == c20Yes {
					// a member's own Done channel: known, and positively not a signal that the POOL has ended
					// (one member having ended says nothing about the others)
					return 0
				}
				if a.oneLitElem(x, cs.ChanV) {
					// one element of a fully known channel list, tested outside any loop: whatever it is,
					// the other elements are not tested on this path
					return 0
				}
				if d == c20Unknown || c == c20Unknown || a.opaqueChan(x, cs.ChanV) {
					f.Imprecise["a select in "+x.Fn().Name()+" tests a channel whose provenance could not be traced"] = true
				}
				return 0
			}
			if fired >= 0 && fired < len(si.Cases) {
				if kindOf(si.Cases[fired]) != 0 {
					return s | bEN
				}
				return s
			}
			if isDef {
				for _, cs := range si.Cases {
					s |= kindOf(cs)
				}
			}
			return s
		}
		if cmp, ok := decodeCond(cond, branch); ok {
			if recv, op, ok := c20ErrTest(cmp); ok {
				rv, _ := x.Resolve(recv)
				if a.isPoolCtx(rv) {
					if op == token.NEQ {
						return s | bEN
					}
					return s | bND
				}
			}
		}
		// a predicate of some other function over the pool's signals (errors.Is(p.Err(), …), …) is not modelled
		if call, ok := cond.(*ssa.Call); ok && builtinName(call) == "" {
			for _, arg := range call.Call.Args {
				if recv, ok := c20CtxMethodCall(arg, "Err"); ok && a.isPoolCtx(recv) {
					f.Imprecise["a branch in "+x.Fn().Name()+" depends on "+callDesc(call)+" applied to the pool context's Err()"] = true
				}
				if a.k.allOrigins(arg, a.isPoolDone) == c20Yes || a.k.allOrigins(arg, a.isClosedLoad) == c20Yes {
					f.Imprecise["a branch in "+x.Fn().Name()+" depends on "+callDesc(call)+" applied to the pool's signals"] = true
				}
			}
		}
		return s
	}
	res := f.Run(a.add, c20Set{0: {}})

	// obligation 1: stores
	var bad []string
	var badPos token.Pos
	var ins []ssa.Instruction
	for in := range stores {
		ins = append(ins, in)
	}
	sort.Slice(ins, func(i, j int) bool { return ins[i].Pos() < ins[j].Pos() })
	for _, in := range ins {
		if stores[in] != "" {
			bad = append(bad, stores[in]+" (at "+p.Pos(instrPos(in))+")")
			badPos = instrPos(in)
		}
	}
	construct := "context.Pool.Add store to members"
	if !badPos.IsValid() {
		badPos = a.add.Pos()
	}
	switch {
	case len(stores) == 0 && len(f.Unfollowed) == 0 && len(f.Imprecise) == 0:
		r.Violation("C20.Y4-add", construct, p.Pos(a.add.Pos()), "Add (with the package functions it calls) never stores to the members slice: an offered context is not tracked")
	case len(stores) == 0:
		r.Undecide("C20.Y4-add: no store to the members slice found on the followed paths of Add (%s %s)", c20SortedKeys(f.Unfollowed), c20SortedKeys(f.Imprecise))
	default:
		a.decide(len(bad) == 0, f, "C20.Y4-add", construct, badPos, "every store to members happens under the write lock after finding, in the same hold, the pool context not done and the Cancel channel not closed", strings.Join(bad, "; "))
	}
	// obligation 2: returns
	okAll := res.returns > 0 && res.all.all(func(s c20State) bool { return s&(bEN|bAP) != 0 })
	a.decide(okAll, f, "C20.Y4-add", "context.Pool.Add every live offer is tracked", a.add.Pos(), "every return of Add either saw the pool ended or appended the offered context to the members",
		"Add can return without having appended the offered context's Done channel to the existing members although neither the pool context was seen done nor the Cancel channel closed: a context offered to a live pool is silently not tracked (or the members are replaced), so the pool can end while that member is still live")
}

// ---------------------------------------------------------------- Cancel

func (a *c20) checkCancel() {
	r, p := a.r, a.p
	const (
		bNN      = 1 << iota // members != nil observed on a load made in the current lock hold
		bNIL                 // members is nil (stored nil / observed nil)
		bCL                  // Cancel channel closed under a members!=nil guard, members not yet cleared in this hold
		bLW                  // write lock held
		bONCE                // inside sync.Once.Do
		bNNf                 // a cancelled-flag observed false on a load made in the current lock hold
		bCLf                 // Cancel channel closed, cancelled-flag not yet set in this hold
		bFS                  // cancelled-flag set to true in this hold
		loadBase = 12
	)
	loadBit := map[ssa.Instruction]c20State{}
	var loadMask c20State
	bitOfLoad := func(in ssa.Instruction) c20State {
		if b, ok := loadBit[in]; ok {
			return b
		}
		n := len(loadBit)
		if n >= 8 {
			return 0
		}
		b := c20State(1) << uint(loadBase+n)
		loadBit[in] = b
		loadMask |= b
		return b
	}
	closes := map[ssa.Instruction]string{}
	unlockBad := map[ssa.Instruction]bool{}
	flagBad := false
	f := &c20PathFlow{K: a.k}
	f.Enter = func(x *c20Ctx, call ssa.CallInstruction, s c20State) c20State {
		if c20OnceDoArg(call) != nil && staticCallee(call) != nil && callIs(call, "sync", "Once", "Do") {
			return s | bONCE
		}
		return s
	}
	f.Leave = func(x *c20Ctx, call ssa.CallInstruction, s c20State) c20State {
		if callIs(call, "sync", "Once", "Do") {
			return s &^ bONCE
		}
		return s
	}
	f.Instr = func(x *c20Ctx, in ssa.Instruction, s c20State) c20State {
		if _, isDefer := in.(*ssa.Defer); isDefer && !x.Replaying {
			return s
		}
		if kind, ok := a.lockKindX(x, in); ok {
			if (kind == opUnlock || kind == opRUnlock) && s&(bCL|bCLf) != 0 {
				unlockBad[in] = true
			}
			if (kind == opUnlock || kind == opRUnlock) && s&bFS != 0 && s&bNIL == 0 {
				flagBad = true
			}
			s &^= bNN | bNNf | loadMask
			switch kind {
			case opLock:
				s |= bLW
			case opUnlock:
				s &^= bLW | bCL | bCLf | bFS
			}
			return s
		}
		switch i := in.(type) {
		case *ssa.UnOp:
			if i.Op == token.MUL && (a.isMembersLoad(i) || a.isFlagLoad(in)) {
				return s | bitOfLoad(in)
			}
		case *ssa.Store:
			if fa, ok := i.Addr.(*ssa.FieldAddr); ok && a.onceFlags[fieldIDOfAddr(fa)] {
				if isFreshBase(fa.X) && prePublication(i) {
					return s
				}
				return (s | bFS) &^ bCLf
			}
			if fa, ok := i.Addr.(*ssa.FieldAddr); ok && fieldIDOfAddr(fa) == a.ro.Members {
				if isNilConst(i.Val) {
					return (s | bNIL) &^ bCL
				}
				return s &^ bNIL
			}
		case ssa.CallInstruction:
			if builtinName(i) == "close" && len(i.Common().Args) == 1 {
				switch a.orig(x, i.Common().Args[0], a.isClosedLoad) {
				case c20Yes:
					if _, seen := closes[in]; !seen {
						closes[in] = ""
					}
					switch {
					case s&bLW == 0:
						closes[in] = "the Cancel channel is closed without holding the write lock (an Add in between sees neither signal and appends to the dropped slice)"
					case s&(bNN|bNNf|bONCE) == 0:
						closes[in] = "the Cancel channel can be closed although neither members != nil nor an unset cancelled-flag was observed in this lock hold: a second Cancel closes it again (panic)"
					}
					if s&bONCE == 0 && s&bNIL == 0 && s&bNNf == 0 {
						s |= bCL
					}
					if s&bONCE == 0 && len(a.onceFlags) > 0 && s&bFS == 0 {
						s |= bCLf
					}
				case c20Unknown:
					f.Imprecise["a close() of a channel whose provenance could not be traced"] = true
				}
			}
		}
		return s
	}
	f.Cond = func(x *c20Ctx, cond ssa.Value, branch bool, from, to *ssa.BasicBlock, s c20State) c20State {
		if si, fired, isDef := c20SelectEdge(cond, branch, to); si != nil {
			// "already cancelled?" asked of the Cancel channel itself: closed <=> a Cancel ran its
			// critical section (which cleared members, by this very rule)
			isClosedCase := func(cs SelCase) bool {
				return cs.Dir == types.RecvOnly && a.orig(x, cs.ChanV, a.isClosedLoad) == c20Yes
			}
			if fired >= 0 && fired < len(si.Cases) && isClosedCase(si.Cases[fired]) {
				return s | bNIL
			}
			if isDef && s&bLW != 0 {
				for _, cs := range si.Cases {
					if isClosedCase(cs) {
						s |= bNN
					}
				}
			}
			return s
		}
		if ld, id, val, ok := a.flagTest(x, cond, branch); ok {
			if !a.onceFlags[id] {
				f.Imprecise["a branch in "+x.Fn().Name()+" tests the boolean field "+id.String()+", which is not a set-once flag"] = true
				return s
			}
			if val {
				// set only in holds that drop the members (checked below)
				return s | bNIL
			}
			if s&loadBit[ld] != 0 {
				s |= bNNf
			}
			return s
		}
		cmp, ok := decodeCond(cond, branch)
		if !ok || (cmp.Op != token.EQL && cmp.Op != token.NEQ) {
			return s
		}
		v, y := cmp.X, cmp.Y
		if isNilConst(v) {
			v, y = y, v
		}
		if !isNilConst(y) {
			return s
		}
		v, _ = x.Resolve(v)
		src, open := a.k.origins(v)
		if open || len(src) == 0 {
			return s
		}
		for _, o := range src {
			if !a.isMembersLoad(o) {
				return s
			}
		}
		if cmp.Op == token.EQL {
			return s | bNIL
		}
		// != nil: valid only for loads made in the current hold
		for _, o := range src {
			in, ok := o.(ssa.Instruction)
			if !ok || s&loadBit[in] == 0 || loadBit[in] == 0 {
				return s
			}
		}
		return s | bNN
	}
	res := f.Run(a.cancel, c20Set{0: {}})

	// Y5
	construct := "context.Pool.Cancel close(Cancel channel)"
	var bad []string
	var badPos token.Pos
	var ins []ssa.Instruction
	for in := range closes {
		ins = append(ins, in)
	}
	sort.Slice(ins, func(i, j int) bool { return ins[i].Pos() < ins[j].Pos() })
	for _, in := range ins {
		if closes[in] != "" {
			bad = append(bad, closes[in]+" (at "+p.Pos(instrPos(in))+")")
			badPos = instrPos(in)
		}
	}
	for in := range unlockBad {
		bad = append(bad, "the lock hold in which the Cancel channel is closed can end (at "+p.Pos(instrPos(in))+") without members having been set to nil (or the cancelled-flag set): the guard no longer prevents a second close, or Add still sees the pool as not cancelled")
		badPos = instrPos(in)
	}
	sort.Strings(bad)
	if res.returns > 0 && !res.all.all(func(s c20State) bool { return s&(bCL|bCLf) == 0 }) {
		bad = append(bad, "Cancel can return after closing the Cancel channel without having set members to nil / set the cancelled-flag")
	}
	if res.returns > 0 && !res.all.all(func(s c20State) bool { return s&bFS == 0 || s&bNIL != 0 }) {
		flagBad = true
	}
	if !badPos.IsValid() {
		badPos = a.cancel.Pos()
	}
	if len(closes) == 0 {
		elsewhere := false
		for _, fn := range a.k.Funcs {
			for _, cl := range closeSites(fn) {
				if a.k.allOrigins(cl.Instr.(ssa.CallInstruction).Common().Args[0], a.isClosedLoad) != c20No {
					elsewhere = true
				}
			}
		}
		if elsewhere || len(f.Unfollowed) > 0 || len(f.Imprecise) > 0 {
			r.Undecide("C20.Y5-cancel: no close of the Cancel channel on the followed paths of Cancel, but one exists elsewhere in the package or a call was not followed")
		} else {
			r.Violation("C20.Y5-cancel", construct, p.Pos(a.cancel.Pos()), "nothing in the package closes the Cancel channel: Cancel does not release the watcher")
		}
	} else {
		a.decide(len(bad) == 0, f, "C20.Y5-cancel", construct, badPos, "the Cancel channel is closed under the write lock, guarded against a second close, and members is cleared before the hold ends", strings.Join(bad, "; "))
	}
	// Y7
	okNil := res.returns > 0 && res.all.all(func(s c20State) bool { return s&bNIL != 0 }) && !flagBad
	a.decide(okNil, f, "C20.Y7-cancel-clears", "context.Pool.Cancel clears members", a.cancel.Pos(), "every return of Cancel leaves the members slice nil",
		"Cancel can return without having dropped the members (no nil store and members not seen nil on that path), or sets its cancelled-flag in a lock hold that keeps the members: Size() stays non-zero after Cancel")
}

// ---------------------------------------------------------------- NewPool

func (a *c20) checkInitial() {
	r, p := a.r, a.p
	construct := "context.NewPool initial members"
	var ctxParam *ssa.Parameter
	for _, pa := range a.newPool.Params {
		if sl, ok := pa.Type().Underlying().(*types.Slice); ok && namedKey(sl.Elem()) == "context.Context" {
			ctxParam = pa
		}
	}
	if ctxParam == nil {
		r.Undecide("C20.Y6-initial: NewPool no longer takes the initial contexts as a (variadic) slice of context.Context")
		return
	}
	isCtxSlice := func(v ssa.Value) bool {
		return a.k.allOrigins(v, func(o ssa.Value) bool { return o == ssa.Value(ctxParam) }) == c20Yes
	}
	isCtxElem := func(o ssa.Value) bool {
		u, ok := o.(*ssa.UnOp)
		if !ok || u.Op != token.MUL {
			return false
		}
		ia, ok := u.X.(*ssa.IndexAddr)
		return ok && isCtxSlice(ia.X)
	}
	// the loop: a branch comparing an index with len(initial contexts)
	var header *ssa.BasicBlock
	var loopFn *ssa.Function
	var idxV ssa.Value
	var fns []*ssa.Function
	for fn := range a.k.reach(a.newPool) {
		fns = append(fns, fn)
	}
	sort.Slice(fns, func(i, j int) bool { return FuncName(p, fns[i]) < FuncName(p, fns[j]) })
	nLoops := 0
	for _, fn := range fns {
		allInstrs(fn, func(in ssa.Instruction) {
			ifi, ok := in.(*ssa.If)
			if !ok {
				return
			}
			cmp, ok := decodeCond(ifi.Cond, true)
			if !ok {
				return
			}
			for k, v := range []ssa.Value{cmp.X, cmp.Y} {
				src, open := a.k.origins(v)
				if open || len(src) == 0 {
					continue
				}
				all := true
				for _, o := range src {
					call, ok := o.(*ssa.Call)
					if !ok || builtinName(call) != "len" || !isCtxSlice(call.Call.Args[0]) {
						all = false
					}
				}
				if !all {
					continue
				}
				// a loop test: the block lies on a cycle
				onCycle := false
				for _, s := range ifi.Block().Succs {
					if reachableFrom(s, nil)[ifi.Block()] {
						onCycle = true
					}
				}
				if !onCycle {
					continue
				}
				nLoops++
				header, loopFn = ifi.Block(), fn
				idxV = cmp.X
				if k == 0 {
					idxV = cmp.Y
				}
			}
		})
	}
	if header == nil || nLoops != 1 {
		r.Undecide("C20.Y6-initial: NewPool (with its package callees) does not contain exactly one loop whose test compares an index with len of the initial contexts (%d found); how the initial members are collected is not decided", nLoops)
		return
	}
	// index progression: 0,1,2,... at the test
	progression := false
	switch v := idxV.(type) {
	case *ssa.Phi:
		progression = c20ProgressionFromZero(v)
	case *ssa.BinOp:
		// range lowering: t = phi(-1, t) + 1
		if v.Op == token.ADD {
			if phi, ok := v.X.(*ssa.Phi); ok {
				if k, ok := v.Y.(*ssa.Const); ok && k.Value != nil && k.Int64() == 1 {
					progression = true
					for _, ed := range phi.Edges {
						if c, ok := ed.(*ssa.Const); ok && c.Value != nil && c.Int64() == -1 {
							continue
						}
						// rotated loop (range over an int, do-while): the body runs for phi = 0 first and the
						// test at the bottom asks whether the NEXT index is still in range
						if c, ok := ed.(*ssa.Const); ok && c.Value != nil && c.Int64() == 0 && phi.Block() != header && phi.Block().Dominates(header) {
							continue
						}
						if ed == ssa.Value(v) {
							continue
						}
						progression = false
					}
				}
			}
		}
	}
	inLoop := map[*ssa.BasicBlock]bool{}
	for _, b := range loopFn.Blocks {
		if reachableFrom(header, nil)[b] && reachableFrom(b, nil)[header] {
			inLoop[b] = true
		}
	}
	why := ""
	for _, b := range loopFn.Blocks {
		if !inLoop[b] {
			continue
		}
		for _, s := range b.Succs {
			if !inLoop[s] && b != header && !endsInPanic(s) {
				why = "the loop over the initial contexts can be left at " + p.Pos(instrPos(b.Instrs[len(b.Instrs)-1])) + " before all of them were considered (later members are never waited for)"
			}
		}
	}
	const (
		bAPP = 1 << iota
		bEV
	)
	appends := map[*ssa.Call]bool{}
	badEdge := false
	// collection by indexed stores S[n] = done; n++ … S[:n] (an in-place filter) instead of append: the
	// index written must be the store counter the kept length is taken from
	const bST = 1 << 2                   // this iteration stored an element
	counters := map[*ssa.Phi]ssa.Value{} // store counter -> the slice it indexes
	posBadIdx, unknownIdx, counterMismatch, skips := token.NoPos, false, false, false
	isCounter := func(v ssa.Value) *ssa.Phi {
		phi, ok := v.(*ssa.Phi)
		if !ok || phi.Block() != header || len(phi.Edges) != len(header.Preds) {
			return nil
		}
		for k, ed := range phi.Edges {
			if !inLoop[header.Preds[k]] {
				if c, ok := ed.(*ssa.Const); !ok || c.Value == nil || c.Int64() != 0 {
					return nil
				}
				continue
			}
			if ed == ssa.Value(phi) {
				continue
			}
			bo, ok := ed.(*ssa.BinOp)
			if !ok || bo.Op != token.ADD || bo.X != ssa.Value(phi) {
				return nil
			}
			if c, ok := bo.Y.(*ssa.Const); !ok || c.Value == nil || c.Int64() != 1 {
				return nil
			}
		}
		return phi
	}
	f := &c20PathFlow{K: a.k}
	f.Instr = func(x *c20Ctx, in ssa.Instruction, s c20State) c20State {
		if in.Block() == header && in == header.Instrs[0] {
			s = 0
		}
		if st, ok := in.(*ssa.Store); ok && inLoop[in.Block()] {
			ia, ok := st.Addr.(*ssa.IndexAddr)
			if !ok || !types.Identical(ia.X.Type(), a.ro.MemberT) {
				return s
			}
			t := a.orig(x, st.Val, func(o ssa.Value) bool {
				recv, ok := c20CtxMethodCall(o, "Done")
				return ok && a.k.allOrigins(recv, isCtxElem) == c20Yes
			})
			if t == c20No {
				return s
			}
			switch phi := isCounter(ia.Index); {
			case phi != nil:
				counters[phi] = ia.X
			case ia.Index == idxV || c20IndexFromZero(ia.Index):
				posBadIdx = instrPos(in) // written at the INPUT position
			default:
				if phi, ok := idxV.(*ssa.BinOp); ok && ia.Index == phi.X {
					posBadIdx = instrPos(in)
				} else {
					unknownIdx = true
				}
			}
			return s | bAPP | bST
		}
		call, ok := in.(*ssa.Call)
		if !ok || builtinName(call) != "append" || !types.Identical(call.Type(), a.ro.MemberT) {
			return s
		}
		_, elems, decoded, _ := c20AppendInfo(call)
		if !decoded {
			appends[call] = true
			return s | bAPP
		}
		for _, el := range elems {
			t := a.orig(x, el, func(o ssa.Value) bool {
				recv, ok := c20CtxMethodCall(o, "Done")
				return ok && a.k.allOrigins(recv, isCtxElem) == c20Yes
			})
			if t != c20No {
				appends[call] = true
				return s | bAPP
			}
		}
		return s
	}
	f.Cond = func(x *c20Ctx, cond ssa.Value, branch bool, from, to *ssa.BasicBlock, s c20State) c20State {
		if si, fired, _ := c20SelectEdge(cond, branch, to); si != nil {
			if fired >= 0 && fired < len(si.Cases) && si.Cases[fired].Dir == types.RecvOnly {
				t := a.orig(x, si.Cases[fired].ChanV, func(o ssa.Value) bool {
					recv, ok := c20CtxMethodCall(o, "Done")
					return ok && a.k.allOrigins(recv, isCtxElem) == c20Yes
				})
				if t == c20Yes {
					return s | bEV
				}
			}
			return s
		}
		if cmp, ok := decodeCond(cond, branch); ok {
			if recv, op, ok := c20ErrTest(cmp); ok && op == token.NEQ {
				rv, _ := x.Resolve(recv)
				if a.k.allOrigins(rv, isCtxElem) == c20Yes {
					return s | bEV
				}
			}
		}
		return s
	}
	f.Edge = func(x *c20Ctx, from, to *ssa.BasicBlock, s c20State) {
		if to == header && inLoop[from] && s&(bAPP|bEV) == 0 {
			badEdge = true
		}
		if to == header && inLoop[from] && x.Fn() == loopFn {
			if s&bST == 0 {
				skips = true
			}
			for k, pr := range header.Preds {
				if pr != from {
					continue
				}
				for phi := range counters {
					_, inc := phi.Edges[k].(*ssa.BinOp)
					if inc != (s&bST != 0) {
						counterMismatch = true
					}
				}
			}
		}
	}
	f.Run(a.newPool, c20Set{0: {}})
	if len(counters) > 0 {
		f.Run(a.newPool, c20Set{0: {}}) // second pass: the counters are known from the first
	}
	indexed := len(counters) > 0 || posBadIdx.IsValid() || unknownIdx
	if why == "" && posBadIdx.IsValid() && skips {
		a.decide(false, f, "C20.Y6-initial", construct, posBadIdx, "", "the initial Done channels are stored at the position of their context in the argument list although some contexts are skipped: the members slice gets holes (nil channels the watcher blocks on forever) and, if it is cut to the number stored, live members beyond that length are dropped — the position written must be the count of members stored so far")
		return
	}
	if why == "" && counterMismatch {
		a.decide(false, f, "C20.Y6-initial", construct, header.Instrs[0].Pos(), "", "the counter the initial Done channels are stored at is not advanced exactly on the iterations that store one (a slot is left empty or overwritten)")
		return
	}
	if why == "" && unknownIdx {
		r.Undecide("C20.Y6-initial: the initial members are collected by indexed stores whose index is neither the store counter nor the loop index (shape not decided)")
		return
	}
	if why == "" && len(counters) > 0 {
		// the kept length is the store counter: S[:n] flows to the members field
		kept := false
		for phi, sl := range counters {
			s1, _ := a.k.origins(sl)
			allInstrs(loopFn, func(in ssa.Instruction) {
				q, ok := in.(*ssa.Slice)
				if !ok || q.High != ssa.Value(phi) || (q.Low != nil && !c20IsZero(q.Low)) {
					return
				}
				s2, _ := a.k.origins(q.X)
				same := len(s1) == 1 && len(s2) == 1 && (s1[0] == s2[0] || a.isMembersLoad(s1[0]) && a.isMembersLoad(s2[0]))
				if same && a.k.flowsTo(q).Fields[a.ro.Members] {
					kept = true
				}
			})
		}
		if !kept {
			r.Undecide("C20.Y6-initial: the initial members are collected by indexed stores, but no re-slice of that slice to the store counter reaching the members field was found")
			return
		}
	}
	if len(appends) == 0 && !indexed && why == "" {
		r.Undecide("C20.Y6-initial: no append of a context's Done channel to a slice of the members' type found in NewPool or its package callees; how the initial members are collected is not recognised")
		return
	}
	if why == "" && badEdge {
		why = "an iteration over the initial contexts can end without appending the context's Done channel and without having observed that context done"
	}
	// the collected channels reach the members field
	if why == "" {
		reaches := false
		escapes := false
		for call := range appends {
			fl := a.k.flowsTo(call)
			if fl.Fields[a.ro.Members] {
				reaches = true
			}
			if len(fl.Escapes) > 0 {
				escapes = true
			}
		}
		if len(counters) > 0 {
			reaches = true // established above through the re-slice
		}
		if !reaches {
			if len(appends) == 0 || escapes {
				r.Undecide("C20.Y6-initial: the slice the initial Done channels are appended to could not be traced to the members field of Pool")
				return
			}
			why = "the slice the initial Done channels are appended to never reaches the members field of the Pool"
		}
	}
	if why == "" && !progression {
		r.Undecide("C20.Y6-initial: the index of the loop over the initial contexts is not recognised as 0,1,2,… (shape not decided)")
		return
	}
	a.decide(why == "", f, "C20.Y6-initial", construct, instrPos(header.Instrs[len(header.Instrs)-1]), "every initial context is appended or was observed done; the loop ends only at len of the initial contexts", why)
}
