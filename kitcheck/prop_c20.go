package main

import (
	"go/token"
	"go/types"
	"strings"

	"golang.org/x/tools/go/ssa"
)

// C20 — context.Pool.

func init() { register("C20", checkC20) }

func checkC20(c *Ctx) {
	r, p := c.R, c.P
	r.Explanation = "Decides structural necessary conditions of C20 on context/pool.go: (Y1) Pool.pool is only touched under Pool.lock (the watcher goroutine starts with the read lock handed over by NewPool, verified at the go statement); (Y2) the watcher's loop test re-reads len(p.pool) under the lock in every iteration, walks indices 0,1,2,… and leaves the loop only when the index reaches that length — so a member added while the pool is live is waited for; (Y3) every wait in the watcher is a select with a case for the member's Done channel and a case on Pool.closed, and the cancel function of the pool's own context is deferred at the top of the watcher so the pool context ends on every exit and only then; (Y4) Add appends only under the write lock and only on the default branch of a select over the pool's Done() and Pool.closed; (Y5) every close(Pool.closed) is guarded by pool != nil and clears pool in the same critical section (closed at most once). NOT decided: the history-level claim 'never early / always eventually' over all cancellation orders and Add timings."
	r.Assumptions = append(r.Assumptions, "sync.RWMutex may be unlocked by a goroutine other than the locker (documented), which is what the NewPool hand-off relies on")
	r.Rule("C20.Y1-guard", "Pool.pool accessed only under Pool.lock (W for writes); watcher entry lockset = hand-off from NewPool", 4)
	r.Rule("C20.Y1-handoff", "NewPool holds Pool.lock(R) at the go statement and does not release it", 1)
	r.Rule("C20.Y2-reread", "watcher loop: index from 0 step 1, exit only when index >= len(p.pool) re-read inside the loop", 1)
	r.Rule("C20.Y3-waits", "every wait in the watcher selects on the member channel pool[i] and on Pool.closed; cancel of the pool context is deferred on every exit", 2)
	r.Rule("C20.Y4-add", "Add appends only on the default branch of select{<-p.Done(), <-p.closed}, under the write lock, and always does so on that branch", 2)
	r.Rule("C20.Y6-initial", "NewPool considers every initial context: the loop over ctx is left only by its index test, and an iteration that does not append has seen that context done", 1)
	r.Rule("C20.Y7-cancel-clears", "every return of Cancel has cleared Pool.pool or seen it nil (Size is zero after Cancel)", 1)
	r.Rule("C20.Y5-cancel", "close(Pool.closed) only under pool != nil, with pool cleared in the same block", 1)

	ctxPkg := p.ModPath + "/context"
	lockID := ctxPkg + ".Pool.lock"
	poolField := FieldID{ctxPkg + ".Pool", "pool"}
	closedCh := "field:" + ctxPkg + ".Pool.closed"

	newPool := p.Func("context", "NewPool")
	var watcher *ssa.Function
	var goInstr *ssa.Go
	allInstrs(newPool, func(in ssa.Instruction) {
		if g, ok := in.(*ssa.Go); ok {
			if f := staticCallee(g); f != nil && f.Parent() == newPool {
				watcher, goInstr = f, g
			}
		}
	})
	if watcher == nil {
		r.Violation("C20.Y3-waits", "context.NewPool watcher", p.Pos(newPool.Pos()), "NewPool no longer starts a watcher goroutine (closure started with go)")
		return
	}
	wname := FuncName(p, watcher)

	e := newKitLockEngine(p)
	e.Handoff[wname] = LS{lockID: ModeR}
	e.Run()

	// Y1 hand-off
	held := e.At(goInstr)[lockID]
	acq, _ := e.Summary(newPool)
	r.Check(held >= ModeR && acq[lockID] >= ModeR, "C20.Y1-handoff", "context.NewPool -> go "+wname, p.Pos(goInstr.Pos()),
		"spawner holds Pool.lock at the go statement and returns with it held (released by the watcher)",
		"the watcher is analysed as starting with Pool.lock(R) but NewPool does not hold it at the go statement / releases it itself")

	CheckGuardedBy(p, e, r, "C20.Y1-guard", []GuardSpec{{Field: poolField, Lock: lockID}})

	// Y2: loop shape
	checkC20Loop(c, watcher, wname, poolField)

	// Y3: waits
	nWait := 0
	for _, op := range blockingOps(e, watcher) {
		switch op.Kind {
		case "lock":
			continue
		case "select":
			nWait++
			hasClosed, hasMember := false, false
			for _, cs := range op.Sel.Cases {
				if cs.Dir == types.RecvOnly && cs.Chan == closedCh {
					hasClosed = true
				}
				if cs.Dir == types.RecvOnly && cs.Chan == "field:"+poolField.Type+"."+poolField.Field+"[]" {
					hasMember = true
				}
			}
			r.Check(hasClosed && hasMember, "C20.Y3-waits", wname+" select", p.Pos(instrPos(op.Instr)),
				"wait selects on pool[i] and Pool.closed", "a wait in the watcher lacks the member channel case or the Pool.closed case (early end, or watcher outlives Cancel)")
		default:
			nWait++
			r.Violation("C20.Y3-waits", wname+" "+op.Desc, p.Pos(instrPos(op.Instr)), "watcher blocks outside a select with the Pool.closed case: "+op.Desc)
		}
	}
	if nWait == 0 {
		r.Violation("C20.Y3-waits", wname+" select", p.Pos(watcher.Pos()), "the watcher no longer waits for any member (pool context would end at once)")
	}
	checkC20Cancel(c, newPool, watcher, wname)

	// Y4: Add
	add := p.Func("context", "Pool.Add")
	nStores := 0
	for _, a := range FieldAccesses(add, func(id FieldID) bool { return id == poolField }) {
		if a.Kind != AccWrite {
			continue
		}
		nStores++
		ok := false
		allInstrs(add, func(in ssa.Instruction) {
			sel, isSel := in.(*ssa.Select)
			if !isSel || sel.Blocking {
				return
			}
			si := decodeSelect(sel)
			hasDone, hasClosed := false, false
			for _, cs := range si.Cases {
				if cs.Dir == types.RecvOnly && cs.Chan == closedCh {
					hasClosed = true
				}
				if cs.Dir == types.RecvOnly && cs.Chan == "done:context.Pool.Context" {
					hasDone = true
				}
			}
			if hasDone && hasClosed && si.Default != nil && si.Default.Dominates(a.Instr.Block()) && e.At(sel)[lockID] == ModeW {
				ok = true
			}
		})
		r.Check(ok, "C20.Y4-add", "context.Pool.Add store to pool", p.Pos(instrPos(a.Instr)),
			"append happens only when neither p.Done() nor p.closed is ready, observed under the write lock", "the liveness test (select on p.Done()/p.closed) is not made under the same write-lock section as the append (a Cancel can slip in between), or Add can append a member although the pool context is done or the pool was cancelled (or the select no longer checks both)")
	}
	if nStores == 0 {
		r.Violation("C20.Y4-add", "context.Pool.Add store to pool", p.Pos(add.Pos()), "Add no longer appends the offered context to the pool")
	}
	// every return of Add was reached through one of the 'pool ended' cases or after the append:
	// a context offered to a live pool must become a member whatever it is
	{
		const (
			viaCase = 1
			app     = 2
		)
		ffa := &FlagFlow{Fn: add, Must: false, Entry: 1 << 0,
			Transfer: func(in ssa.Instruction, st uint64) uint64 {
				if s, ok := in.(*ssa.Store); ok {
					if fa, ok := s.Addr.(*ssa.FieldAddr); ok && fieldIDOfAddr(fa) == poolField {
						if call, ok := s.Val.(*ssa.Call); ok && builtinName(call) == "append" {
							return mapStates(st, func(x int) int { return x | app })
						}
					}
				}
				return st
			},
			EdgeTransfer: func(from, to *ssa.BasicBlock, st uint64) uint64 {
				if si, ks := selectEdgeCases(from, to); si != nil {
					for _, k := range ks {
						if k < len(si.Cases) && si.Cases[k].Dir == types.RecvOnly && (si.Cases[k].Chan == closedCh || si.Cases[k].Chan == "done:context.Pool.Context") {
							return mapStates(st, func(x int) int { return x | viaCase })
						}
					}
				}
				return st
			}}
		ffa.Run()
		okAll := true
		where := ""
		ffa.AtReturns(func(ret *ssa.Return, st uint64) {
			if st&(1<<0) != 0 {
				okAll = false
				where = p.Pos(ret.Pos())
			}
		})
		r.Check(okAll, "C20.Y4-add", "context.Pool.Add every live offer is tracked", p.Pos(add.Pos()), "every return of Add either saw the pool ended or appended the context",
			"Add can return (at "+where+") without having appended the offered context although neither p.Done() nor p.closed had fired: a member added to a live pool is silently not tracked (e.g. contexts whose Done() is nil), so the pool can end while that member is still live")
	}

	// Y5: close(closed)
	nClose := 0
	for _, fn := range p.FuncsOfPkg("context") {
		for _, cl := range closeSites(fn) {
			if cl.Chan != closedCh {
				continue
			}
			nClose++
			blk := cl.Instr.Block()
			guarded := false
			for _, dc := range domConds(blk) {
				if cmp, ok := decodeCond(dc.If.Cond, dc.Branch); ok && cmp.Op == token.NEQ {
					if id, _, ok := fieldOfValue(cmp.X); ok && id == poolField && isNilConst(cmp.Y) {
						guarded = true
					}
				}
			}
			cleared := false
			for _, in := range blk.Instrs {
				if st, ok := in.(*ssa.Store); ok {
					if fa, ok := st.Addr.(*ssa.FieldAddr); ok && fieldIDOfAddr(fa) == poolField && isNilConst(st.Val) {
						cleared = true
					}
				}
			}
			w := e.At(cl.Instr)[lockID] == ModeW
			r.Check(guarded && cleared && w, "C20.Y5-cancel", FuncName(p, fn)+" close(Pool.closed)", p.Pos(instrPos(cl.Instr)),
				"close is guarded by pool != nil, clears pool and runs under the write lock", "Pool.closed can be closed twice (panic) or without dropping the members: guard pool!=nil / pool=nil / write lock missing")
		}
	}
	if nClose == 0 {
		r.Violation("C20.Y5-cancel", "context.Pool.Cancel close(Pool.closed)", p.Pos(p.Func("context", "Pool.Cancel").Pos()), "Cancel no longer closes Pool.closed: the watcher is not released")
	}

	checkC20Initial(c, newPool, poolField)
	checkC20CancelClears(c, poolField)

	c.Fixture("locks", func(fp *Prog, fr *Report) {
		fe := NewLockEngine(fp)
		fe.Run()
		CheckGuardedBy(fp, fe, fr, "guard", fixtureLockSpecs(fp.ModPath))
		CheckSingleSection(fp, fe, fr, "section", fixtureLockSpecs(fp.ModPath))
	})
}

// checkC20Loop: the loop index is a phi {0, phi+1}; the If relating it to
// len(load Pool.pool) has the len computed in a block inside the loop; all
// returns are dominated by the exit edge (index >= len).
func checkC20Loop(c *Ctx, watcher *ssa.Function, wname string, poolField FieldID) {
	r, p := c.R, c.P
	construct := wname + " loop"
	var found *ssa.If
	var why string
	allInstrs(watcher, func(in ssa.Instruction) {
		ifi, ok := in.(*ssa.If)
		if !ok {
			return
		}
		cmp, ok := decodeCond(ifi.Cond, true)
		if !ok {
			return
		}
		// normalise to idx < len
		idx, ln, op := cmp.X, cmp.Y, cmp.Op
		if !isLenOfField(ln, poolField) {
			idx, ln = cmp.Y, cmp.X
			switch op {
			case token.LSS:
				op = token.GTR
			case token.GTR:
				op = token.LSS
			case token.LEQ:
				op = token.GEQ
			case token.GEQ:
				op = token.LEQ
			}
		}
		if !isLenOfField(ln, poolField) {
			return
		}
		found = ifi
		// continue edge: where idx < len holds
		var contEdge, exitEdge *ssa.BasicBlock
		switch op {
		case token.LSS:
			contEdge, exitEdge = ifi.Block().Succs[0], ifi.Block().Succs[1]
		case token.GEQ:
			contEdge, exitEdge = ifi.Block().Succs[1], ifi.Block().Succs[0]
		default:
			why = "loop test compares the index with len(pool) using " + op.String() + " (must continue exactly while index < len)"
			return
		}
		_ = contEdge
		phi, ok := idx.(*ssa.Phi)
		if !ok {
			why = "loop index is not a loop-carried variable"
			return
		}
		startsAtZero, stepOne := false, false
		for _, ed := range phi.Edges {
			if k, ok := ed.(*ssa.Const); ok && k.Value != nil && k.Int64() == 0 {
				startsAtZero = true
				continue
			}
			if bo, ok := ed.(*ssa.BinOp); ok && bo.Op == token.ADD && bo.X == phi {
				if k, ok := bo.Y.(*ssa.Const); ok && k.Int64() == 1 {
					stepOne = true
					continue
				}
			}
			why = "loop index is updated by something other than i+1 / starts elsewhere than 0"
			return
		}
		if !startsAtZero || !stepOne {
			why = "loop index does not start at 0 and advance by 1"
			return
		}
		// len computed inside the loop: its block lies on a cycle
		lenInstr := ln.(ssa.Instruction)
		lb := lenInstr.Block()
		inLoop := false
		for _, s := range lb.Succs {
			if reachableFrom(s, nil)[lb] {
				inLoop = true
			}
		}
		// and the pool load feeding it is in the same iteration (same block or dominated by the loop head)
		if !inLoop {
			why = "len(p.pool) feeding the exit test is computed outside the loop (members added later are never waited for)"
			return
		}
		// exits: every return must be dominated by the exit edge
		bad := false
		for _, b := range watcher.Blocks {
			if len(b.Instrs) == 0 {
				continue
			}
			if _, ok := b.Instrs[len(b.Instrs)-1].(*ssa.Return); ok && len(b.Preds) > 0 {
				if !edgeDominates(ifi.Block(), exitEdge, b) {
					bad = true
				}
			}
		}
		if bad {
			why = "the watcher can return on a path other than index >= len(p.pool) (pool context cancelled while members are live)"
		}
	})
	if found == nil {
		r.Violation("C20.Y2-reread", construct, p.Pos(watcher.Pos()), "no loop test relating the index to len(p.pool) found in the watcher")
		return
	}
	r.Check(why == "", "C20.Y2-reread", construct, p.Pos(instrPos(found)), "index 0..len(pool) with len re-read each iteration; only exit is index >= len", why)
}

func isLenOfField(v ssa.Value, f FieldID) bool {
	c, ok := v.(*ssa.Call)
	if !ok || builtinName(c) != "len" || len(c.Call.Args) != 1 {
		return false
	}
	id, _, ok := fieldOfValue(c.Call.Args[0])
	return ok && id == f
}

// checkC20Cancel: Pool.Context is result #0 of a context.WithCancel call in
// NewPool and the watcher defers result #1 in a block dominating all its exits.
func checkC20Cancel(c *Ctx, newPool, watcher *ssa.Function, wname string) {
	r, p := c.R, c.P
	var wc *ssa.Call
	allInstrs(newPool, func(in ssa.Instruction) {
		if call, ok := in.(*ssa.Call); ok && callIs(call, "context", "", "WithCancel") {
			wc = call
		}
	})
	construct := wname + " defer cancel"
	if wc == nil {
		r.Violation("C20.Y3-waits", construct, p.Pos(newPool.Pos()), "NewPool no longer derives the pool context from context.WithCancel")
		return
	}
	ctxRes, cancelRes := callResult(wc, 0), callResult(wc, 1)
	// ctx stored in Pool.Context
	stored := false
	for _, rr := range refs(ctxRes) {
		if st, ok := rr.(*ssa.Store); ok {
			if fa, ok := st.Addr.(*ssa.FieldAddr); ok && fieldIDOfAddr(fa).Field == "Context" {
				stored = true
			}
		}
	}
	// cancel cell
	var cell *ssa.Alloc
	for _, rr := range refs(cancelRes) {
		if st, ok := rr.(*ssa.Store); ok {
			if a, ok := st.Addr.(*ssa.Alloc); ok {
				cell = a
			}
		}
	}
	deferred := false
	allInstrs(watcher, func(in ssa.Instruction) {
		d, ok := in.(*ssa.Defer)
		if !ok {
			return
		}
		v := d.Call.Value
		if u, ok := v.(*ssa.UnOp); ok && u.Op == token.MUL {
			if fv, ok := u.X.(*ssa.FreeVar); ok && cell != nil && resolveFreeVar(fv) == cell {
				// must dominate every rundefers
				dom := true
				allInstrs(watcher, func(j ssa.Instruction) {
					if _, ok := j.(*ssa.RunDefers); ok && !instrDominates(d, j) {
						dom = false
					}
				})
				if dom {
					deferred = true
				}
			}
		}
		if fv, ok := v.(*ssa.FreeVar); ok && resolveFreeVar(fv) == cancelRes {
			deferred = true
		}
	})
	// and cancel is not called anywhere else before the loop ends
	early := false
	for _, fn := range []*ssa.Function{newPool, watcher} {
		allInstrs(fn, func(in ssa.Instruction) {
			call, ok := in.(*ssa.Call)
			if !ok {
				return
			}
			v := call.Call.Value
			if v == cancelRes {
				early = true
			}
			if u, ok := v.(*ssa.UnOp); ok && u.Op == token.MUL {
				if a, ok := u.X.(*ssa.Alloc); ok && a == cell {
					early = true
				}
				if fv, ok := u.X.(*ssa.FreeVar); ok && cell != nil && resolveFreeVar(fv) == cell {
					early = true
				}
			}
		})
	}
	r.Check(stored && deferred && !early, "C20.Y3-waits", construct, p.Pos(wc.Pos()),
		"Pool.Context comes from WithCancel and its cancel is deferred by the watcher (runs on every exit, nowhere else)",
		"the pool context's cancel is not deferred at the top of the watcher, or is invoked directly (pool could end early or never)")
}

// checkC20Initial: the loop over the initial contexts.
func checkC20Initial(c *Ctx, newPool *ssa.Function, poolField FieldID) {
	r, p := c.R, c.P
	construct := "context.NewPool initial members"
	// find the loop header: If comparing an index with len(ctx) parameter
	var ctxParam *ssa.Parameter
	for _, pa := range newPool.Params {
		if _, ok := pa.Type().Underlying().(*types.Slice); ok {
			ctxParam = pa
		}
	}
	if ctxParam == nil {
		r.Violation("C20.Y6-initial", construct, p.Pos(newPool.Pos()), "NewPool no longer takes the initial contexts as a variadic/slice parameter")
		return
	}
	var header *ssa.BasicBlock
	allInstrs(newPool, func(in ssa.Instruction) {
		ifi, ok := in.(*ssa.If)
		if !ok {
			return
		}
		if cmp, ok := decodeCond(ifi.Cond, true); ok {
			for _, v := range []ssa.Value{cmp.X, cmp.Y} {
				if call, ok := v.(*ssa.Call); ok && builtinName(call) == "len" && call.Call.Args[0] == ctxParam {
					header = ifi.Block()
				}
			}
		}
	})
	if header == nil {
		r.Violation("C20.Y6-initial", construct, p.Pos(newPool.Pos()), "no loop over the initial contexts (index test against len(ctx)) found in NewPool")
		return
	}
	// loop body = blocks reachable from header that can reach header
	inLoop := map[*ssa.BasicBlock]bool{}
	for _, b := range newPool.Blocks {
		if reachableFrom(header, nil)[b] && reachableFrom(b, nil)[header] {
			inLoop[b] = true
		}
	}
	why := ""
	for b := range inLoop {
		for _, s := range b.Succs {
			if !inLoop[s] && b != header && !endsInPanic(s) {
				// leaving the loop from the body (break/return); panics have no successors
				why = "the loop over the initial contexts can be left at " + p.Pos(instrPos(b.Instrs[len(b.Instrs)-1])) + " before all of them were considered (later members are never waited for)"
			}
		}
	}
	// per iteration: back edge states
	const (
		appended = 1 << iota
		evidence
	)
	ff := &FlagFlow{Fn: newPool, Must: false, Entry: 1 << 0,
		Transfer: func(in ssa.Instruction, st uint64) uint64 {
			if in.Block() == header && in == header.Instrs[0] {
				st = 1 << 0 // new iteration
			}
			if s, ok := in.(*ssa.Store); ok {
				if fa, ok := s.Addr.(*ssa.FieldAddr); ok && fieldIDOfAddr(fa) == poolField {
					if call, ok := s.Val.(*ssa.Call); ok && builtinName(call) == "append" {
						return mapStates(st, func(x int) int { return x | appended })
					}
				}
			}
			return st
		},
		EdgeTransfer: func(from, to *ssa.BasicBlock, st uint64) uint64 {
			if si, ks := selectEdgeCases(from, to); si != nil {
				for _, k := range ks {
					if k < len(si.Cases) && si.Cases[k].Dir == types.RecvOnly && strings.HasPrefix(si.Cases[k].Chan, "done:") {
						return mapStates(st, func(x int) int { return x | evidence })
					}
				}
			}
			if len(from.Instrs) > 0 {
				if ifi, ok := from.Instrs[len(from.Instrs)-1].(*ssa.If); ok {
					br := from.Succs[0] == to
					if cmp, ok := decodeCond(ifi.Cond, br); ok && cmp.Op == token.NEQ && isNilConst(cmp.Y) {
						if call, ok := cmp.X.(*ssa.Call); ok && calleeObj(call) != nil && calleeObj(call).Name() == "Err" {
							return mapStates(st, func(x int) int { return x | evidence })
						}
					}
				}
			}
			return st
		}}
	ff.Run()
	for _, pred := range header.Preds {
		if !inLoop[pred] {
			continue
		}
		st, ok := ff.Out(pred)
		if !ok {
			continue
		}
		st = ff.EdgeTransfer(pred, header, st)
		if st&(1<<0) != 0 {
			why = "an iteration over the initial contexts can end without appending the context and without having observed it done"
		}
	}
	r.Check(why == "", "C20.Y6-initial", construct, p.Pos(instrPos(header.Instrs[len(header.Instrs)-1])), "every initial context is appended or was observed done; the loop ends only at len(ctx)", why)
}

// checkC20CancelClears: all returns of Cancel have pool == nil.
func checkC20CancelClears(c *Ctx, poolField FieldID) {
	r, p := c.R, c.P
	fn := p.Func("context", "Pool.Cancel")
	ff := &FlagFlow{Fn: fn, Must: true,
		Transfer: func(in ssa.Instruction, st uint64) uint64 {
			if s, ok := in.(*ssa.Store); ok {
				if fa, ok := s.Addr.(*ssa.FieldAddr); ok && fieldIDOfAddr(fa) == poolField {
					if isNilConst(s.Val) {
						return st | 1
					}
					return st &^ 1
				}
			}
			return st
		},
		EdgeTransfer: func(from, to *ssa.BasicBlock, st uint64) uint64 {
			if len(from.Instrs) > 0 {
				if ifi, ok := from.Instrs[len(from.Instrs)-1].(*ssa.If); ok && from.Succs[0] != from.Succs[1] {
					br := from.Succs[0] == to
					if cmp, ok := decodeCond(ifi.Cond, br); ok && cmp.Op == token.EQL && isNilConst(cmp.Y) {
						if id, _, ok := fieldOfValue(cmp.X); ok && id == poolField {
							return st | 1
						}
					}
				}
			}
			return st
		}}
	ff.Run()
	ok, n := true, 0
	where := ""
	ff.AtReturns(func(ret *ssa.Return, st uint64) {
		n++
		if st&1 == 0 {
			ok = false
			where = p.Pos(ret.Pos())
		}
	})
	r.Check(ok && n > 0, "C20.Y7-cancel-clears", "context.Pool.Cancel clears pool", p.Pos(fn.Pos()), "every return of Cancel leaves Pool.pool nil", "Cancel can return (at "+where+") without dropping the members: Size() stays non-zero after Cancel")
}
