package main

// C01 inlined supergraph ("cluster graph"): the body of an exported entry
// point with every same-package callee (static calls, closures, bound
// methods, function values whose target is known, `go` of those) expanded in
// place, context-sensitively. Rules that need a fact "somewhere along the
// pipeline" are evaluated on this graph, so it does not matter in which
// helper / method / closure a statement lives, nor whether state is kept in
// locals, captured variables or fields of a local helper object.
//
//   CV            a value in a calling context
//   cgNode        a block segment (blocks are split at inlined calls)
//   res           parameter -> argument, free variable -> binding,
//                 single-assignment cell / field -> the value stored
//   phiEdges      real phis, and "return phis" of inlined calls
//   loadVals      flow-insensitive, field- and object-sensitive memory
//   dominators, dominating branch conditions, natural loops on nodes

import (
	"fmt"
	"go/constant"
	"go/token"
	"go/types"
	"os"
	"sort"
	"strings"

	"golang.org/x/tools/go/ssa"
)

type cgCtx struct {
	parent  *cgCtx
	site    ssa.CallInstruction // call in parent (nil for root)
	fn      *ssa.Function
	depth   int
	id      int
	nodes   map[*ssa.BasicBlock][]*cgNode
	rets    []*cgNode
	kids    map[ssa.Instruction]*cgCtx
	args    []CV     // actual for each fn.Params[i]
	binds   []CV     // actual for each fn.FreeVars[i]
	isAsync bool     // started with `go`
	key     string   // stable identity across rebuilds: chain of call sites
	alts    []*cgCtx // further possible callees of the same call site (table of function values, phi of functions)

	// rows of a literal table of structs walked by a loop of this function: the calls in the loop body are
	// expanded once per row, their arguments evaluated in a per-row VIEW of this context
	real   *cgCtx                            // for a row view: the context it is a view of
	rowOf  map[ssa.Value]int                 // row view: element value / address -> row index
	rowTab map[ssa.Value][]map[int]ssa.Value // element value / address -> per row: field index -> stored value
	views  map[ssa.Value][]*cgCtx            // real context: element value -> its row views
}

// CV is an SSA value in a context.
type CV struct {
	C *cgCtx
	V ssa.Value
}

func (a CV) ok() bool { return a.V != nil }

type cgNode struct {
	C      *cgCtx
	B      *ssa.BasicBlock
	lo, hi int // instruction range [lo,hi)
	succs  []*cgNode
	preds  []*cgNode
	idx    int
	idom   *cgNode
	kid    *cgCtx // context entered at the end of this node
	rpo    int
}

func (n *cgNode) instrs() []ssa.Instruction { return n.B.Instrs[n.lo:n.hi] }

func (n *cgNode) last() ssa.Instruction {
	if n.hi == n.lo {
		return nil
	}
	return n.B.Instrs[n.hi-1]
}

type cGraph struct {
	p      *Prog
	root   *cgCtx
	pkg    *ssa.Package
	nodes  []*cgNode
	ctxs   []*cgCtx
	opaque map[string]bool // callees not expanded (recursion / depth / too many instances)

	cellStores  map[CV][]CV         // alloc -> stored values (whole-value stores)
	fieldStores map[cgFieldKey][]CV // (alloc, field) -> stored values
	tfStores    map[FieldID][]CV    // type-based fallback: stores through non-local bases
	pathStores  map[string][]CV     // "alloc#f1#f2" -> values stored directly into that nested field
	memBuilt    bool
	domBuilt    bool

	fieldStoreCount map[FieldID]int
	addrKept        map[string]bool   // objects whose (sub-)address is stored in memory
	hints           map[string]CV     // unexpanded dynamic call (ctx key | instr) -> function value found by the memory model (previous build)
	byKey           map[string]*cgCtx // contexts of this build by key
}

type cgFieldKey struct {
	base CV
	fld  int
}

const cgMaxDepth = 10
const cgMaxCtxs = 400

// c01NewGraph expands root.
func c01NewGraph(p *Prog, root *ssa.Function) *cGraph {
	g := c01BuildGraph(p, root, nil)
	// calls through function values that only the memory model can resolve (func-typed fields of a job struct,
	// callbacks kept in a variable …): resolve them on the finished graph and rebuild with that knowledge
	for round := 0; round < 3; round++ {
		hints := map[string]CV{}
		for k, v := range g.hints {
			hints[k] = v
		}
		found := false
		g.eachInstr(func(n *cgNode, in ssa.Instruction) {
			ci, ok := in.(ssa.CallInstruction)
			if !ok || (n.kid != nil && in == n.last()) {
				return
			}
			if _, isDefer := in.(*ssa.Defer); isDefer {
				return
			}
			cc := ci.Common()
			if _, isB := cc.Value.(*ssa.Builtin); isB {
				return
			}
			hk := fmt.Sprintf("%s|%p", n.C.key, in)
			if _, done := hints[hk]; done {
				return
			}
			v := g.deep(CV{n.C, cc.Value})
			switch f := v.V.(type) {
			case *ssa.Function:
				if cc.IsInvoke() || !g.inlinable(n.C, origin(f)) {
					return
				}
			case *ssa.MakeClosure:
				if cc.IsInvoke() {
					return
				}
			case *ssa.MakeInterface:
				if !cc.IsInvoke() {
					return
				}
			default:
				return
			}
			if v == g.res(CV{n.C, cc.Value}) {
				return // already visible to res: expansion was refused for another reason
			}
			hints[hk] = v
			found = true
			if os.Getenv("C01_HINTS") != "" {
				fmt.Printf("HINT round %d: %s in %s -> %s (ctx %s)\n", round, in.String(), n.C.fn.Name(), v.V.String(), v.C.fn.Name())
			}
		})
		if !found {
			break
		}
		g = c01BuildGraph(p, root, hints)
	}
	return g
}

func c01BuildGraph(p *Prog, root *ssa.Function, hints map[string]CV) *cGraph {
	g := &cGraph{p: p, pkg: root.Pkg, opaque: map[string]bool{}, hints: hints, byKey: map[string]*cgCtx{}}
	g.root = g.newCtx(nil, nil, root, nil, nil)
	g.expand(g.root)
	g.link(g.root)
	g.number()
	return g
}

// hinted: the function value a previous build found for the dynamic call in (context c).
func (g *cGraph) hinted(c *cgCtx, in ssa.Instruction) (CV, bool) {
	hv, ok := g.hints[fmt.Sprintf("%s|%p", c.key, in)]
	if !ok || hv.C == nil {
		return CV{}, false
	}
	nc := g.byKey[hv.C.key]
	if nc == nil {
		return CV{}, false
	}
	return CV{nc, hv.V}, true
}

func (g *cGraph) newCtx(parent *cgCtx, site ssa.CallInstruction, fn *ssa.Function, args, binds []CV) *cgCtx {
	c := &cgCtx{parent: parent, site: site, fn: fn, nodes: map[*ssa.BasicBlock][]*cgNode{}, kids: map[ssa.Instruction]*cgCtx{}, args: args, binds: binds, id: len(g.ctxs), views: map[ssa.Value][]*cgCtx{}}
	if parent != nil {
		c.depth = parent.depth + 1
		c.key = fmt.Sprintf("%s/%p", parent.key, site)
	} else {
		c.key = "root"
	}
	if g.byKey != nil {
		g.byKey[c.key] = c
	}
	g.ctxs = append(g.ctxs, c)
	return c
}

func (c *cgCtx) onChain(fn *ssa.Function) bool {
	for x := c; x != nil; x = x.parent {
		if x.fn == fn {
			return true
		}
	}
	return false
}

// path gives a position-free name of the context (call chain of function names).
func (c *cgCtx) path(p *Prog) string {
	if c.parent == nil {
		return FuncName(p, c.fn)
	}
	return c.parent.path(p) + ">" + c.fn.Name()
}

// target resolves the callee of ci in context c: function, actual parameters, closure bindings.
func (g *cGraph) target(c *cgCtx, ci ssa.CallInstruction) (fn *ssa.Function, args, binds []CV, ok bool) {
	cc := ci.Common()
	if cc.IsInvoke() {
		// interface call on a value whose concrete type is known (x := T{...}; var i I = x; i.M())
		recv := g.res(CV{c, cc.Value})
		mi, ok := recv.V.(*ssa.MakeInterface)
		if !ok {
			if hv, hok := g.hinted(c, ci.(ssa.Instruction)); hok {
				recv = hv
				mi, ok = recv.V.(*ssa.MakeInterface)
			}
		}
		if !ok {
			// an unexported seam with a single implementation in the package
			if m := g.soleImplementation(cc.Value.Type(), cc.Method); m != nil && m.Pkg == g.pkg {
				args = append(args, recv)
				for _, a := range cc.Args {
					args = append(args, CV{c, a})
				}
				return origin(m), args, nil, true
			}
			return nil, nil, nil, false
		}
		sel := g.p.SSA.MethodSets.MethodSet(mi.X.Type()).Lookup(cc.Method.Pkg(), cc.Method.Name())
		if sel == nil {
			return nil, nil, nil, false
		}
		m := g.p.SSA.MethodValue(sel)
		if m == nil || m.Pkg != g.pkg || len(m.Blocks) == 0 {
			return nil, nil, nil, false
		}
		args = append(args, CV{recv.C, mi.X})
		for _, a := range cc.Args {
			args = append(args, CV{c, a})
		}
		return origin(m), args, nil, true
	}
	for _, a := range cc.Args {
		args = append(args, CV{c, a})
	}
	v := g.res(CV{c, cc.Value})
	switch v.V.(type) {
	case *ssa.Function, *ssa.MakeClosure:
	default:
		if hv, ok := g.hinted(c, ci.(ssa.Instruction)); ok {
			v = hv
		}
	}
	switch f := v.V.(type) {
	case *ssa.Function:
		fn = f
	case *ssa.MakeClosure:
		cf, isFn := f.Fn.(*ssa.Function)
		if !isFn {
			return nil, nil, nil, false
		}
		if strings.HasSuffix(cf.Name(), "$bound") {
			// bound method value: receiver is the single binding
			if obj, isObj := cf.Object().(*types.Func); isObj && obj != nil && len(f.Bindings) == 1 {
				m := g.p.SSA.FuncValue(obj)
				if m != nil {
					return origin(m), append([]CV{{v.C, f.Bindings[0]}}, args...), nil, true
				}
			}
			return nil, nil, nil, false
		}
		fn = cf
		for _, b := range f.Bindings {
			binds = append(binds, CV{v.C, b})
		}
	default:
		return nil, nil, nil, false
	}
	return origin(fn), args, binds, fn != nil
}

func (g *cGraph) inlinable(c *cgCtx, fn *ssa.Function) bool {
	if fn == nil || len(fn.Blocks) == 0 {
		return false
	}
	if fn.Pkg != g.pkg && (fn.Parent() == nil || origin(topFunc(fn)).Pkg != g.pkg) {
		return false
	}
	if c.onChain(fn) || c.depth >= cgMaxDepth || len(g.ctxs) >= cgMaxCtxs {
		g.opaque[fn.Name()] = true
		return false
	}
	return true
}

func topFunc(fn *ssa.Function) *ssa.Function {
	for fn.Parent() != nil {
		fn = fn.Parent()
	}
	return fn
}

// expand creates the nodes of c and, recursively, of the callees.
func (g *cGraph) expand(c *cgCtx) {
	for _, b := range c.fn.Blocks {
		if b.Index != 0 && len(b.Preds) == 0 {
			continue // recover block / unreachable
		}
		lo := 0
		for i, in := range b.Instrs {
			ci, isCall := in.(ssa.CallInstruction)
			if !isCall {
				continue
			}
			if _, isDefer := in.(*ssa.Defer); isDefer {
				continue
			}
			var tgts []cgTarget
			var rowViews []*cgCtx
			if fn, args, binds, ok := g.target(c, ci); ok {
				tgts = []cgTarget{{fn, args, binds}}
				// arguments taken from a row of a literal table walked by a loop: one expansion per row
				var elem ssa.Value
				for _, a := range ci.Common().Args {
					if e := rowElemIn(a, 0); e != nil {
						elem = e
					}
				}
				if elem != nil && c.real == nil {
					if views := g.rowViews(c, elem); len(views) > 1 {
						tgts = nil
						for _, view := range views {
							var vargs []CV
							for _, a := range args {
								if a.C == c {
									a = CV{view, a.V}
								}
								vargs = append(vargs, a)
							}
							tgts = append(tgts, cgTarget{fn, vargs, binds})
						}
						rowViews = views
					}
				}
			} else {
				tgts = g.tableTargets(c, ci)
			}
			usable := len(tgts) > 0
			for _, t := range tgts {
				if !g.inlinable(c, t.fn) || len(t.args) != len(t.fn.Params) {
					usable = false
				}
			}
			if !usable {
				continue
			}
			n := &cgNode{C: c, B: b, lo: lo, hi: i + 1}
			var kid *cgCtx
			for ti, t := range tgts {
				k := g.newCtx(c, ci, t.fn, t.args, t.binds)
				if ti > 0 {
					k.key = fmt.Sprintf("%s#%d", k.key, ti)
					if g.byKey != nil {
						g.byKey[k.key] = k
					}
				}
				_, k.isAsync = in.(*ssa.Go)
				if kid == nil {
					kid = k
				} else {
					kid.alts = append(kid.alts, k)
				}
				if rowViews != nil {
					rowViews[ti].kids[in] = k // seen from row ti, this call is exactly that expansion
				}
			}
			n.kid = kid
			c.kids[in] = kid
			c.nodes[b] = append(c.nodes[b], n)
			g.expand(kid)
			for _, a := range kid.alts {
				g.expand(a)
			}
			lo = i + 1
		}
		n := &cgNode{C: c, B: b, lo: lo, hi: len(b.Instrs)}
		c.nodes[b] = append(c.nodes[b], n)
		if _, isRet := n.last().(*ssa.Return); isRet {
			c.rets = append(c.rets, n)
		}
	}
}

func (c *cgCtx) entry() *cgNode {
	if len(c.fn.Blocks) == 0 {
		return nil
	}
	ns := c.nodes[c.fn.Blocks[0]]
	if len(ns) == 0 {
		return nil
	}
	return ns[0]
}

func (g *cGraph) edge(a, b *cgNode) {
	if a == nil || b == nil {
		return
	}
	a.succs = append(a.succs, b)
	b.preds = append(b.preds, a)
}

func (g *cGraph) link(c *cgCtx) {
	for _, b := range c.fn.Blocks {
		ns := c.nodes[b]
		for i, n := range ns {
			if n.kid != nil {
				for _, k := range append([]*cgCtx{n.kid}, n.kid.alts...) {
					g.link(k)
					g.edge(n, k.entry())
					for _, r := range k.rets {
						g.edge(r, ns[i+1])
					}
				}
				continue
			}
			for _, s := range b.Succs {
				if sn := c.nodes[s]; len(sn) > 0 {
					g.edge(n, sn[0])
				}
			}
		}
	}
}

func (g *cGraph) number() {
	// reverse postorder from the root entry
	seen := map[*cgNode]bool{}
	var post []*cgNode
	var dfs func(n *cgNode)
	dfs = func(n *cgNode) {
		if n == nil || seen[n] {
			return
		}
		seen[n] = true
		for _, s := range n.succs {
			dfs(s)
		}
		post = append(post, n)
	}
	dfs(g.root.entry())
	for i := len(post) - 1; i >= 0; i-- {
		n := post[i]
		n.rpo = len(g.nodes)
		n.idx = len(g.nodes)
		g.nodes = append(g.nodes, n)
	}
	// dominators (Cooper, Harvey, Kennedy)
	if len(g.nodes) == 0 {
		return
	}
	start := g.nodes[0]
	start.idom = start
	inter := func(a, b *cgNode) *cgNode {
		for a != b {
			for a.rpo > b.rpo {
				a = a.idom
			}
			for b.rpo > a.rpo {
				b = b.idom
			}
		}
		return a
	}
	for changed := true; changed; {
		changed = false
		for _, n := range g.nodes[1:] {
			var nd *cgNode
			for _, p := range n.preds {
				if !seen[p] || p.idom == nil {
					continue
				}
				if nd == nil {
					nd = p
				} else {
					nd = inter(p, nd)
				}
			}
			if nd != nil && n.idom != nd {
				n.idom = nd
				changed = true
			}
		}
	}
	start.idom = nil
}

func (g *cGraph) reachable(n *cgNode) bool { return n != nil && (n == g.nodes[0] || n.idom != nil) }

// dominates: a dominates b (reflexive).
func (g *cGraph) dominates(a, b *cgNode) bool {
	for x := b; x != nil; x = x.idom {
		if x == a {
			return true
		}
	}
	return false
}

// nodeOf returns the node of context c containing instruction in.
func (g *cGraph) nodeOf(c *cgCtx, in ssa.Instruction) *cgNode {
	b := in.Block()
	if b == nil {
		return nil
	}
	idx := -1
	for i, j := range b.Instrs {
		if j == in {
			idx = i
		}
	}
	for _, n := range c.nodes[b] {
		if idx >= n.lo && idx < n.hi {
			return n
		}
	}
	return nil
}

// nodeOfValue: the node where cv is defined (parameters/consts: entry of its context).
func (g *cGraph) nodeOfValue(cv CV) *cgNode {
	if in, ok := cv.V.(ssa.Instruction); ok && in.Block() != nil {
		return g.nodeOf(cv.C, in)
	}
	if cv.C != nil {
		return cv.C.entry()
	}
	return nil
}

// instrDom: instruction a (ctx ca) is executed before b (ctx cb) on every path to b.
func (g *cGraph) instrDom(ca *cgCtx, a ssa.Instruction, cb *cgCtx, b ssa.Instruction) bool {
	na, nb := g.nodeOf(ca, a), g.nodeOf(cb, b)
	if na == nil || nb == nil {
		return false
	}
	if na == nb {
		return instrIndex(a) < instrIndex(b)
	}
	return g.dominates(na, nb)
}

// ---------------------------------------------------------------- value resolution

func (c *cgCtx) paramIndex(p *ssa.Parameter) int {
	for i, q := range c.fn.Params {
		if q == p {
			return i
		}
	}
	return -1
}

// res follows parameters to arguments, free variables to bindings, loads of
// single-assignment local cells to the stored value, and type changes.
func (g *cGraph) res(cv CV) CV {
	for i := 0; i < 64; i++ {
		switch v := cv.V.(type) {
		case *ssa.Parameter:
			if cv.C == nil || cv.C.parent == nil {
				return cv
			}
			k := cv.C.paramIndex(v)
			if k < 0 || k >= len(cv.C.args) {
				return cv
			}
			cv = cv.C.args[k]
		case *ssa.FreeVar:
			k := -1
			for j, f := range cv.C.fn.FreeVars {
				if f == v {
					k = j
				}
			}
			if k < 0 || k >= len(cv.C.binds) {
				return cv
			}
			cv = cv.C.binds[k]
		case *ssa.ChangeType:
			cv = CV{cv.C, v.X}
		case *ssa.Field:
			// a field of the table row this view stands for
			if cv.C == nil || cv.C.rowOf == nil {
				return cv
			}
			k, ok := cv.C.rowOf[v.X]
			if !ok {
				return cv
			}
			val, ok := cv.C.rowTab[v.X][k][v.Field]
			if !ok {
				return cv // field left at its zero value
			}
			cv = CV{cv.C, val}
		case *ssa.Alloc, *ssa.Global, *ssa.Const, *ssa.Function, *ssa.MakeSlice:
			if cv.C != nil && cv.C.real != nil {
				return CV{cv.C.real, cv.V} // objects are the same in every row view
			}
			return cv
		case *ssa.UnOp:
			if v.Op != token.MUL {
				return cv
			}
			if cv.C != nil && cv.C.rowOf != nil {
				if fa, ok := v.X.(*ssa.FieldAddr); ok {
					if k, ok := cv.C.rowOf[fa.X]; ok {
						if val, ok := cv.C.rowTab[fa.X][k][fa.Field]; ok {
							cv = CV{cv.C, val}
							continue
						}
						return cv
					}
				}
			}
			a := g.res(CV{cv.C, v.X})
			if fa, isFA := a.V.(*ssa.FieldAddr); isFA {
				// field of a local object assigned exactly once in the whole package (struct literal):
				// known without the memory model, so that calls through func-typed fields can be expanded
				if sv, ok := g.singleFieldValue(a, fa); ok {
					cv = sv
					continue
				}
				return cv
			}
			al, isAlloc := a.V.(*ssa.Alloc)
			if !isAlloc {
				return cv
			}
			if sv, ok := g.singleCellValue(a, al); ok {
				cv = sv
				continue
			}
			return cv
		default:
			return cv
		}
	}
	return cv
}

// singleCellValue: the alloc is a plain variable cell (never a struct whose
// fields are addressed) with exactly one store, and its address does not
// escape to code that could store through it.
func (g *cGraph) singleCellValue(a CV, al *ssa.Alloc) (CV, bool) {
	var stored ssa.Value
	n := 0
	for _, r := range refs(al) {
		switch x := r.(type) {
		case *ssa.Store:
			if x.Addr == ssa.Value(al) {
				stored = x.Val
				n++
			} else {
				return CV{}, false // the address itself is stored somewhere
			}
		case *ssa.UnOp, *ssa.DebugRef:
		case *ssa.MakeClosure:
			// a capturing closure may store: count its stores to the free variable
			fn, _ := x.Fn.(*ssa.Function)
			if fn == nil {
				return CV{}, false
			}
			for bi, bnd := range x.Bindings {
				if bnd != ssa.Value(al) || bi >= len(fn.FreeVars) {
					continue
				}
				if c01FreeVarStored(fn, fn.FreeVars[bi]) {
					return CV{}, false
				}
			}
		default:
			return CV{}, false // FieldAddr, call argument, ...
		}
	}
	if n != 1 {
		return CV{}, false
	}
	return CV{a.C, stored}, true
}

func c01FreeVarStored(fn *ssa.Function, fv *ssa.FreeVar) bool {
	for _, r := range refs(fv) {
		switch x := r.(type) {
		case *ssa.Store:
			return true
		case *ssa.UnOp, *ssa.DebugRef:
		case *ssa.MakeClosure:
			inner, _ := x.Fn.(*ssa.Function)
			for bi, b := range x.Bindings {
				if b == ssa.Value(fv) && inner != nil && bi < len(inner.FreeVars) && c01FreeVarStored(inner, inner.FreeVars[bi]) {
					return true
				}
			}
		default:
			return true
		}
	}
	return false
}

// ---------------------------------------------------------------- phis

type cgEdge struct {
	Val  CV
	Pred *cgNode
}

// inlinedCall: cv is (the value of) a call expanded in the graph.
func (g *cGraph) inlinedCall(cv CV) *cgCtx {
	in, ok := cv.V.(ssa.Instruction)
	if !ok || cv.C == nil {
		return nil
	}
	return cv.C.kids[in]
}

// phiEdges returns the incoming (value, predecessor node) pairs of a real
// phi, or of the "return phi" formed by result idx of an inlined call.
func (g *cGraph) phiEdges(cv CV) ([]cgEdge, bool) {
	switch v := cv.V.(type) {
	case *ssa.Phi:
		ns := cv.C.nodes[v.Block()]
		if len(ns) == 0 {
			return nil, false
		}
		var out []cgEdge
		for i, e := range v.Edges {
			pb := v.Block().Preds[i]
			pn := cv.C.nodes[pb]
			if len(pn) == 0 {
				continue
			}
			out = append(out, cgEdge{CV{cv.C, e}, pn[len(pn)-1]})
		}
		return out, true
	case *ssa.Extract:
		kid := g.inlinedCall(CV{cv.C, v.Tuple})
		if kid == nil {
			return nil, false
		}
		return g.retEdgesFor(cv.C, kid, v.Index), true
	case *ssa.Call:
		kid := g.inlinedCall(cv)
		if kid == nil || v.Call.Signature().Results().Len() != 1 {
			return nil, false
		}
		return g.retEdgesFor(cv.C, kid, 0), true
	}
	return nil, false
}

func (g *cGraph) retEdges(kid *cgCtx, idx int) []cgEdge {
	var out []cgEdge
	for _, k := range append([]*cgCtx{kid}, kid.alts...) {
		for _, rn := range k.rets {
			ret := rn.last().(*ssa.Return)
			if idx < len(ret.Results) {
				out = append(out, cgEdge{CV{k, ret.Results[idx]}, rn})
			}
		}
	}
	return out
}

// retEdgesFor: seen from a row view the call is exactly one expansion; from the plain context all of them.
func (g *cGraph) retEdgesFor(from *cgCtx, kid *cgCtx, idx int) []cgEdge {
	if from != nil && from.real != nil {
		var out []cgEdge
		for _, rn := range kid.rets {
			ret := rn.last().(*ssa.Return)
			if idx < len(ret.Results) {
				out = append(out, cgEdge{CV{kid, ret.Results[idx]}, rn})
			}
		}
		return out
	}
	return g.retEdges(kid, idx)
}

type cgTarget struct {
	fn    *ssa.Function
	args  []CV
	binds []CV
}

// fnTarget turns a resolved function value into a target (plain function, closure, bound method).
func (g *cGraph) fnTarget(v CV, args []CV) (cgTarget, bool) {
	switch f := v.V.(type) {
	case *ssa.Function:
		return cgTarget{origin(f), args, nil}, true
	case *ssa.MakeClosure:
		cf, ok := f.Fn.(*ssa.Function)
		if !ok {
			return cgTarget{}, false
		}
		if strings.HasSuffix(cf.Name(), "$bound") {
			if obj, isObj := cf.Object().(*types.Func); isObj && obj != nil && len(f.Bindings) == 1 {
				if m := g.p.SSA.FuncValue(obj); m != nil {
					return cgTarget{origin(m), append([]CV{{v.C, f.Bindings[0]}}, args...), nil}, true
				}
			}
			return cgTarget{}, false
		}
		var binds []CV
		for _, b := range f.Bindings {
			binds = append(binds, CV{v.C, b})
		}
		return cgTarget{origin(cf), args, binds}, true
	}
	return cgTarget{}, false
}

// tableTargets: the call's function value is an element of a literal table of function values (run in a
// loop or picked by index), or a phi of function values: every candidate is a possible callee.
func (g *cGraph) tableTargets(c *cgCtx, ci ssa.CallInstruction) []cgTarget {
	cc := ci.Common()
	if cc.IsInvoke() {
		return nil
	}
	var args []CV
	for _, a := range cc.Args {
		args = append(args, CV{c, a})
	}
	v := g.res(CV{c, cc.Value})
	var cands []CV
	switch x := v.V.(type) {
	case *ssa.Phi:
		for _, e := range x.Edges {
			cands = append(cands, g.res(CV{v.C, e}))
		}
	case *ssa.UnOp:
		if x.Op != token.MUL {
			return nil
		}
		ia, ok := g.res(CV{v.C, x.X}).V.(*ssa.IndexAddr)
		if !ok {
			return nil
		}
		base := g.res(CV{v.C, ia.X})
		if sl, ok := base.V.(*ssa.Slice); ok && sl.Low == nil && sl.High == nil {
			base = g.res(CV{base.C, sl.X})
		}
		al, ok := base.V.(*ssa.Alloc)
		if !ok {
			return nil
		}
		elems, ok := g.arrayElemsRaw(CV{base.C, al})
		if !ok {
			return nil
		}
		for _, e := range elems {
			cands = append(cands, g.res(e))
		}
	default:
		return nil
	}
	var out []cgTarget
	for _, cv := range cands {
		t, ok := g.fnTarget(cv, args)
		if !ok {
			return nil
		}
		out = append(out, t)
	}
	if len(out) > 8 {
		return nil
	}
	return out
}

// soleImplementation: the interface is declared in the analysed package and exactly one of the package's
// named types implements it (an internal seam): its method is the callee.
func (g *cGraph) soleImplementation(iface types.Type, method *types.Func) *ssa.Function {
	named, ok := iface.(*types.Named)
	if !ok || named.Obj().Pkg() == nil || g.pkg == nil || named.Obj().Pkg() != g.pkg.Pkg {
		return nil
	}
	it, ok := named.Underlying().(*types.Interface)
	if !ok {
		return nil
	}
	var found *ssa.Function
	n := 0
	scope := g.pkg.Pkg.Scope()
	for _, name := range scope.Names() {
		tn, ok := scope.Lookup(name).(*types.TypeName)
		if !ok || tn.IsAlias() {
			continue
		}
		t := tn.Type()
		if _, isI := t.Underlying().(*types.Interface); isI {
			continue
		}
		for _, cand := range []types.Type{t, types.NewPointer(t)} {
			if !types.Implements(cand, it) {
				continue
			}
			sel := g.p.SSA.MethodSets.MethodSet(cand).Lookup(method.Pkg(), method.Name())
			if sel == nil {
				continue
			}
			if m := g.p.SSA.MethodValue(sel); m != nil && len(m.Blocks) > 0 {
				found = m
				n++
			}
			break
		}
	}
	if n != 1 {
		return nil
	}
	return found
}

// joinOf returns the node at whose entry the (real or return) phi cv is formed.
func (g *cGraph) joinOf(cv CV) *cgNode {
	switch v := cv.V.(type) {
	case *ssa.Phi:
		if ns := cv.C.nodes[v.Block()]; len(ns) > 0 {
			return ns[0]
		}
	case *ssa.Extract:
		if in, ok := v.Tuple.(ssa.Instruction); ok {
			return g.contNode(cv.C, in)
		}
	case *ssa.Call:
		return g.contNode(cv.C, v)
	}
	return nil
}

// contNode: the node that starts right after the inlined call in.
func (g *cGraph) contNode(c *cgCtx, in ssa.Instruction) *cgNode {
	if c.kids[in] == nil {
		return nil
	}
	ns := c.nodes[in.Block()]
	for i, n := range ns {
		if n.kid == c.kids[in] && i+1 < len(ns) {
			return ns[i+1]
		}
	}
	return nil
}

// ---------------------------------------------------------------- conditions

type cgCond struct {
	Cond   CV
	Branch bool
	At     *cgNode // node ending in the If
	To     *cgNode // successor taken
}

// edgeCond: the condition under which control goes from a to b (a ends in an If with distinct targets).
func (g *cGraph) edgeCond(a, b *cgNode) (cgCond, bool) {
	ifi, ok := a.last().(*ssa.If)
	if !ok || a.kid != nil || len(a.succs) != 2 || a.succs[0] == a.succs[1] {
		return cgCond{}, false
	}
	return cgCond{CV{a.C, ifi.Cond}, a.succs[0] == b, a, b}, true
}

// domConds: branch conditions established on every path to n.
func (g *cGraph) domConds(n *cgNode) []cgCond {
	var out []cgCond
	for x := n; x != nil; x = x.idom {
		if len(x.preds) != 1 {
			continue
		}
		if c, ok := g.edgeCond(x.preds[0], x); ok {
			out = append(out, c)
		}
	}
	return out
}

// condsOnEdge: domConds of the predecessor plus the condition of the edge itself.
func (g *cGraph) condsOnEdge(pred, to *cgNode) []cgCond {
	out := g.domConds(pred)
	if c, ok := g.edgeCond(pred, to); ok {
		out = append(out, c)
	}
	return out
}

// ---------------------------------------------------------------- loops

type cgLoop struct {
	Head *cgNode
	Body map[*cgNode]bool
}

func (g *cGraph) loops() []*cgLoop {
	byHead := map[*cgNode]*cgLoop{}
	var order []*cgNode
	for _, b := range g.nodes {
		for _, s := range b.succs {
			if !g.dominates(s, b) {
				continue
			}
			l := byHead[s]
			if l == nil {
				l = &cgLoop{Head: s, Body: map[*cgNode]bool{s: true}}
				byHead[s] = l
				order = append(order, s)
			}
			var walk func(x *cgNode)
			walk = func(x *cgNode) {
				if l.Body[x] || !g.reachable(x) {
					return
				}
				l.Body[x] = true
				for _, p := range x.preds {
					walk(p)
				}
			}
			walk(b)
		}
	}
	var out []*cgLoop
	for _, h := range order {
		out = append(out, byHead[h])
	}
	return out
}

func cgInnermost(loops []*cgLoop, n *cgNode) *cgLoop {
	var best *cgLoop
	for _, l := range loops {
		if l.Body[n] && (best == nil || len(l.Body) < len(best.Body)) {
			best = l
		}
	}
	return best
}

type cgExit struct{ From, To *cgNode }

func (l *cgLoop) exits() []cgExit {
	var out []cgExit
	for b := range l.Body {
		for _, s := range b.succs {
			if !l.Body[s] {
				out = append(out, cgExit{b, s})
			}
		}
	}
	sort.Slice(out, func(i, j int) bool {
		if out[i].From.idx != out[j].From.idx {
			return out[i].From.idx < out[j].From.idx
		}
		return out[i].To.idx < out[j].To.idx
	})
	return out
}

// reach: nodes reachable from start without entering stop nodes.
func (g *cGraph) reach(start *cgNode, stop map[*cgNode]bool) map[*cgNode]bool {
	seen := map[*cgNode]bool{}
	var walk func(n *cgNode)
	walk = func(n *cgNode) {
		if n == nil || seen[n] || stop[n] {
			return
		}
		seen[n] = true
		for _, s := range n.succs {
			walk(s)
		}
	}
	walk(start)
	return seen
}

// ---------------------------------------------------------------- memory

func (g *cGraph) buildMem() {
	if g.memBuilt {
		return
	}
	g.memBuilt = true
	g.cellStores = map[CV][]CV{}
	g.fieldStores = map[cgFieldKey][]CV{}
	g.tfStores = map[FieldID][]CV{}
	g.pathStores = map[string][]CV{}
	g.addrKept = map[string]bool{}
	for _, n := range g.nodes {
		for _, in := range n.instrs() {
			st, ok := in.(*ssa.Store)
			if !ok {
				continue
			}
			// the address of a local object kept in memory (a table of destination pointers …): later stores
			// may go through it, so flow-sensitive reasoning about that object is off
			if pv := g.res(CV{n.C, st.Val}); true {
				if _, isPtr := pv.V.Type().Underlying().(*types.Pointer); isPtr {
					if _, o, ok := g.memKey(pv); ok && !g.transparentCell(g.res(CV{n.C, st.Addr})) {
						g.addrKept[cvKey(o)] = true
					}
				}
			}
			// a store through a field of a table row (`*d.dst = v` in a loop over a literal table): once per row
			if ev := rowElemIn(st.Addr, 0); ev != nil && len(n.C.views[ev]) > 0 {
				for _, view := range n.C.views[ev] {
					g.regStore(g.res(CV{view, st.Addr}), CV{view, st.Val})
				}
				continue
			}
			g.regStore(g.res(CV{n.C, st.Addr}), CV{n.C, st.Val})
		}
	}
}

// transparentCell: addr is a local variable assigned exactly once whose address goes nowhere (a parameter or
// local that go/ssa keeps in memory because a closure reads it): every read of it is resolved to the assigned
// value, so a pointer kept there is still followed access by access.
func (g *cGraph) transparentCell(addr CV) bool {
	al, ok := addr.V.(*ssa.Alloc)
	if !ok {
		return false
	}
	_, ok = g.singleCellValue(addr, al)
	return ok
}

func (g *cGraph) regStore(addr, val CV) {
	switch a := addr.V.(type) {
	case *ssa.Alloc:
		g.cellStores[addr] = append(g.cellStores[addr], val)
	case *ssa.FieldAddr:
		base := g.res(CV{addr.C, a.X})
		if k, _, ok := g.memKey(addr); ok {
			g.pathStores[k] = append(g.pathStores[k], val)
		}
		if _, isAlloc := base.V.(*ssa.Alloc); isAlloc {
			k := cgFieldKey{base, a.Field}
			g.fieldStores[k] = append(g.fieldStores[k], val)
		} else {
			id := fieldIDOfAddr(a)
			g.tfStores[id] = append(g.tfStores[id], val)
		}
	}
}

// rowElemIn: v is computed from an element of a table indexed by a variable (d := table[i]; d.f / table[i].f):
// returns that element value (the load of &table[i]) or address.
func rowElemIn(v ssa.Value, d int) ssa.Value {
	if d > 6 || v == nil {
		return nil
	}
	switch x := v.(type) {
	case *ssa.UnOp:
		if x.Op == token.MUL {
			if ia, ok := x.X.(*ssa.IndexAddr); ok {
				if _, isK := ia.Index.(*ssa.Const); !isK {
					return x
				}
			}
			return rowElemIn(x.X, d+1)
		}
	case *ssa.Field:
		return rowElemIn(x.X, d+1)
	case *ssa.FieldAddr:
		if ia, ok := x.X.(*ssa.IndexAddr); ok {
			if _, isK := ia.Index.(*ssa.Const); !isK {
				return ia
			}
		}
		return rowElemIn(x.X, d+1)
	case *ssa.Alloc:
		// the loop variable: a local copy of the element (for _, d := range table)
		if e := rowCopyOf(x); e != nil {
			return e
		}
	case *ssa.Convert:
		return rowElemIn(x.X, d+1)
	case *ssa.ChangeType:
		return rowElemIn(x.X, d+1)
	case *ssa.MakeInterface:
		return rowElemIn(x.X, d+1)
	case *ssa.Slice:
		return rowElemIn(x.X, d+1)
	}
	return nil
}

// rowCopyOf: a is a local that is only ever assigned a table element indexed by a variable; returns that element load.
func rowCopyOf(a *ssa.Alloc) ssa.Value {
	var elem ssa.Value
	for _, u := range refs(a) {
		st, ok := u.(*ssa.Store)
		if !ok || st.Addr != ssa.Value(a) {
			continue
		}
		ld, ok := st.Val.(*ssa.UnOp)
		if !ok || ld.Op != token.MUL {
			return nil
		}
		ia, ok := ld.X.(*ssa.IndexAddr)
		if !ok {
			return nil
		}
		if _, isK := ia.Index.(*ssa.Const); isK {
			return nil
		}
		if elem != nil && elem != ssa.Value(ld) {
			return nil
		}
		elem = ld
	}
	return elem
}

// structRows: elem is an element (value or address) of a local literal table of structs; returns, per row, the
// values stored into its fields by the literal.
func structRows(elem ssa.Value) ([]map[int]ssa.Value, bool) {
	var ia *ssa.IndexAddr
	switch x := elem.(type) {
	case *ssa.UnOp:
		ia, _ = x.X.(*ssa.IndexAddr)
	case *ssa.IndexAddr:
		ia = x
	}
	if ia == nil {
		return nil, false
	}
	base := ia.X
	if sl, ok := base.(*ssa.Slice); ok && sl.Low == nil && sl.High == nil {
		base = sl.X
	}
	al, ok := base.(*ssa.Alloc)
	if !ok {
		return nil, false
	}
	arr, ok := deref(al.Type()).Underlying().(*types.Array)
	if !ok || arr.Len() < 1 || arr.Len() > 8 {
		return nil, false
	}
	if _, isStruct := arr.Elem().Underlying().(*types.Struct); !isStruct {
		return nil, false
	}
	rows := make([]map[int]ssa.Value, arr.Len())
	for i := range rows {
		rows[i] = map[int]ssa.Value{}
	}
	// an array variable initialised by copying a literal built in a temporary: read the rows from the temporary
	for _, u := range refs(al) {
		if st, ok := u.(*ssa.Store); ok && st.Addr == ssa.Value(al) {
			ld, ok := st.Val.(*ssa.UnOp)
			if !ok || ld.Op != token.MUL {
				return nil, false
			}
			lit, ok := ld.X.(*ssa.Alloc)
			if !ok || lit == al {
				return nil, false
			}
			// exactly this one assignment, no element writes on the variable itself
			for _, u2 := range refs(al) {
				switch y2 := u2.(type) {
				case *ssa.Store:
					if y2 != st {
						return nil, false
					}
				case *ssa.IndexAddr:
					if _, isK := y2.Index.(*ssa.Const); isK {
						return nil, false
					}
					for _, w := range refs(y2) {
						if _, isSt := w.(*ssa.Store); isSt {
							return nil, false
						}
					}
				}
			}
			return structRows(&ssa.IndexAddr{X: lit})
		}
	}
	for _, u := range refs(al) {
		switch y := u.(type) {
		case *ssa.IndexAddr:
			k, isK := c01ConstInt(y.Index)
			if !isK {
				continue // the loop's read
			}
			if k < 0 || k >= arr.Len() {
				return nil, false
			}
			fill := func(base ssa.Value) bool {
				for _, w := range refs(base) {
					switch z := w.(type) {
					case *ssa.FieldAddr:
						for _, q := range refs(z) {
							if st, ok := q.(*ssa.Store); ok && st.Addr == ssa.Value(z) {
								if _, dup := rows[k][z.Field]; dup {
									return false
								}
								rows[k][z.Field] = st.Val
							}
						}
					case *ssa.Store:
						// table[k] = T{...}: the literal is built in a local and copied in
						if z.Addr != base {
							return false
						}
						ld, ok := z.Val.(*ssa.UnOp)
						if !ok || ld.Op != token.MUL {
							return false
						}
						lit, ok := ld.X.(*ssa.Alloc)
						if !ok {
							return false
						}
						for _, w2 := range refs(lit) {
							switch z2 := w2.(type) {
							case *ssa.FieldAddr:
								for _, q := range refs(z2) {
									if st, ok := q.(*ssa.Store); ok && st.Addr == ssa.Value(z2) {
										if _, dup := rows[k][z2.Field]; dup {
											return false
										}
										rows[k][z2.Field] = st.Val
									}
								}
							case *ssa.UnOp, *ssa.DebugRef:
							default:
								return false
							}
						}
					case *ssa.UnOp, *ssa.DebugRef:
					default:
						return false
					}
				}
				return true
			}
			if !fill(y) {
				return nil, false
			}
		case *ssa.Slice, *ssa.DebugRef, *ssa.UnOp:
		default:
			return nil, false
		}
	}
	return rows, true
}

// rowViews returns (creating them on first use) the per-row views of context c for table element elem.
func (g *cGraph) rowViews(c *cgCtx, elem ssa.Value) []*cgCtx {
	if vs, ok := c.views[elem]; ok {
		return vs
	}
	rows, ok := structRows(elem)
	if !ok {
		c.views[elem] = nil
		return nil
	}
	var out []*cgCtx
	for k := range rows {
		v := &cgCtx{parent: c.parent, site: c.site, fn: c.fn, depth: c.depth, nodes: c.nodes, rets: c.rets,
			kids: map[ssa.Instruction]*cgCtx{}, args: c.args, binds: c.binds, id: len(g.ctxs),
			key: fmt.Sprintf("%s@%p#%d", c.key, elem, k), real: c,
			rowOf: map[ssa.Value]int{elem: k}, rowTab: map[ssa.Value][]map[int]ssa.Value{elem: rows}, views: map[ssa.Value][]*cgCtx{}}
		// the element's address form, and local copies of the element (the range variable), too
		if u, isLoad := elem.(*ssa.UnOp); isLoad {
			v.rowOf[u.X] = k
			v.rowTab[u.X] = rows
			for _, ref := range refs(u) {
				if st, ok := ref.(*ssa.Store); ok && st.Val == ssa.Value(u) {
					if a, ok := st.Addr.(*ssa.Alloc); ok && rowCopyOf(a) == elem {
						v.rowOf[a] = k
						v.rowTab[a] = rows
					}
				}
			}
		}
		g.ctxs = append(g.ctxs, v)
		if g.byKey != nil {
			g.byKey[v.key] = v
		}
		out = append(out, v)
	}
	c.views[elem] = out
	return out
}

// loadVals: the values a load / field selection may yield; ok=false when the
// location is not modelled (array elements, globals, unknown pointers).
func (g *cGraph) loadVals(cv CV) ([]CV, bool) {
	g.buildMem()
	seen := map[string]bool{}
	return g.loadValsD(cv, seen, 0)
}

func cvKey(cv CV) string {
	id := -1
	if cv.C != nil {
		id = cv.C.id
	}
	return fmt.Sprintf("%d/%p", id, cv.V)
}

func (g *cGraph) loadValsD(cv CV, seen map[string]bool, depth int) ([]CV, bool) {
	if depth > 24 {
		return nil, false
	}
	switch v := cv.V.(type) {
	case *ssa.UnOp:
		if v.Op != token.MUL {
			return nil, false
		}
		addr := g.res(CV{cv.C, v.X})
		switch a := addr.V.(type) {
		case *ssa.Alloc:
			vals := g.cellStores[addr]
			if len(vals) == 0 {
				return nil, false
			}
			return vals, true
		case *ssa.FieldAddr:
			return g.fieldVals(CV{addr.C, a.X}, a.Field, fieldIDOfAddr(a), seen, depth+1)
		}
	case *ssa.Field:
		return g.fieldOfStruct(CV{cv.C, v.X}, v.Field, fieldIDOfField(v), seen, depth+1)
	}
	return nil, false
}

// fieldVals: values of field fld of the struct object basePtr points to.
func (g *cGraph) fieldVals(basePtr CV, fld int, id FieldID, seen map[string]bool, depth int) ([]CV, bool) {
	base := g.res(basePtr)
	key := cvKey(base) + fmt.Sprintf("#%d", fld)
	if seen[key] {
		return nil, true
	}
	seen[key] = true
	al, isAlloc := base.V.(*ssa.Alloc)
	if !isAlloc {
		// a struct nested in another object: &outer.inner — the values of outer.inner, then their field
		if nfa, ok := base.V.(*ssa.FieldAddr); ok {
			var direct []CV
			if pk, _, ok := g.memKey(base); ok {
				direct = g.pathStores[fmt.Sprintf("%s#%d", pk, fld)]
			}
			structs, sok := g.fieldVals(CV{base.C, nfa.X}, nfa.Field, fieldIDOfAddr(nfa), seen, depth+1)
			if len(direct) > 0 && (!sok || len(structs) == 0) {
				return direct, true
			}
			if sok && len(structs) > 0 {
				out := append([]CV{}, direct...)
				for _, sv := range structs {
					vs, ok := g.fieldOfStruct(sv, fld, id, seen, depth+1)
					if !ok {
						return nil, false
					}
					out = append(out, vs...)
				}
				return out, true
			}
		}
		// pointer of unknown provenance: a parameter of the root, a load, ...
		// follow a load of a pointer cell (p := &T{...}; p.f)
		if u, ok := base.V.(*ssa.UnOp); ok && u.Op == token.MUL {
			if ptrs, ok := g.loadValsD(base, seen, depth+1); ok && len(ptrs) > 0 {
				var out []CV
				for _, pv := range ptrs {
					vs, ok := g.fieldVals(pv, fld, id, seen, depth+1)
					if !ok {
						return nil, false
					}
					out = append(out, vs...)
				}
				return out, true
			}
		}
		// a pointer / interface value handed around (result of a constructor, phi of objects): its origins
		if edges, ok := g.phiEdges(base); ok || isMakeIface(base) {
			_ = edges
			var objs []CV
			allObjs := true
			for _, src := range g.sources(base) {
				if mi, ok := src.V.(*ssa.MakeInterface); ok {
					src = g.res(CV{src.C, mi.X})
				}
				if _, ok := src.V.(*ssa.Alloc); ok {
					objs = append(objs, src)
				} else if !isNilConst(src.V) {
					allObjs = false
				}
			}
			if allObjs && len(objs) > 0 {
				var out []CV
				for _, o := range objs {
					vs, ok := g.fieldVals(o, fld, id, seen, depth+1)
					if !ok {
						return nil, false
					}
					out = append(out, vs...)
				}
				return out, true
			}
		}
		if vs := g.tfStores[id]; len(vs) > 0 {
			return vs, true
		}
		return nil, false
	}
	_ = al
	out := append([]CV{}, g.fieldStores[cgFieldKey{base, fld}]...)
	for _, whole := range g.cellStores[base] {
		vs, ok := g.fieldOfStruct(whole, fld, id, seen, depth+1)
		if !ok {
			return nil, false
		}
		out = append(out, vs...)
	}
	return out, true
}

// fieldOfStruct: values of field fld of the struct VALUE s.
func (g *cGraph) fieldOfStruct(s CV, fld int, id FieldID, seen map[string]bool, depth int) ([]CV, bool) {
	if depth > 24 {
		return nil, false
	}
	s = g.res(s)
	if edges, ok := g.phiEdges(s); ok {
		key := cvKey(s) + fmt.Sprintf("φ%d", fld)
		if seen[key] {
			return nil, true
		}
		seen[key] = true
		var out []CV
		for _, e := range edges {
			vs, ok := g.fieldOfStruct(e.Val, fld, id, seen, depth+1)
			if !ok {
				return nil, false
			}
			out = append(out, vs...)
		}
		return out, true
	}
	switch v := s.V.(type) {
	case *ssa.UnOp:
		if v.Op == token.MUL {
			return g.fieldVals(CV{s.C, v.X}, fld, id, seen, depth+1)
		}
	case *ssa.Const:
		return nil, true // zero value
	case *ssa.Field:
		// field of a nested struct value
		if structs, ok := g.fieldOfStruct(CV{s.C, v.X}, v.Field, fieldIDOfField(v), seen, depth+1); ok && len(structs) > 0 {
			var out []CV
			for _, sv := range structs {
				vs, ok := g.fieldOfStruct(sv, fld, id, seen, depth+1)
				if !ok {
					return nil, false
				}
				out = append(out, vs...)
			}
			return out, true
		}
	}
	return nil, false
}

// deep resolves cv as far as it is single-valued: res, then loads / field
// selections with exactly one possible value, repeatedly.
func (g *cGraph) deep(cv CV) CV {
	for i := 0; i < 32; i++ {
		cv = g.res(cv)
		if lv, ok := g.valuesAt(cv); ok {
			// the flow-sensitive answer is authoritative (it knows about the zero value and the order of assignments)
			if len(lv) == 1 && !lv[0].Zero && g.res(lv[0].Val) != cv {
				cv = lv[0].Val
				continue
			}
			return cv
		}
		vals, ok := g.loadVals(cv)
		if !ok || len(vals) == 0 {
			return cv
		}
		first := g.res(vals[0])
		same := true
		for _, v := range vals[1:] {
			if g.res(v) != first {
				same = false
			}
		}
		if !same || first == cv {
			return cv
		}
		cv = first
	}
	return cv
}

// sources: the non-phi origins of cv (through phis, return phis, loads and
// field selections), flow-insensitively. Unresolvable loads are their own source.
func (g *cGraph) sources(cv CV) []CV {
	seen := map[CV]bool{}
	var out []CV
	var walk func(x CV, d int)
	walk = func(x CV, d int) {
		x = g.res(x)
		if seen[x] || d > 40 {
			return
		}
		seen[x] = true
		if edges, ok := g.phiEdges(x); ok {
			for _, e := range edges {
				walk(e.Val, d+1)
			}
			return
		}
		if vals, ok := g.loadVals(x); ok && len(vals) > 0 {
			before := len(out)
			for _, v := range vals {
				walk(v, d+1)
			}
			if len(out) == before {
				out = append(out, x) // only self-derived assignments: the location itself is the origin
			}
			return
		}
		out = append(out, x)
	}
	walk(cv, 0)
	return out
}

// cone: backward data-dependence closure of cv over the graph (operands,
// phis, return phis, memory, arguments of calls).
func (g *cGraph) cone(cv CV) map[CV]bool {
	seen := map[CV]bool{}
	var walk func(x CV)
	walk = func(x CV) {
		if x.V == nil {
			return
		}
		x = g.res(x)
		if seen[x] {
			return
		}
		seen[x] = true
		if edges, ok := g.phiEdges(x); ok {
			for _, e := range edges {
				walk(e.Val)
			}
			if _, isPhi := x.V.(*ssa.Phi); !isPhi {
				return // inlined call: results already followed; do not mix in unrelated arguments
			}
		}
		if vals, ok := g.loadVals(x); ok {
			for _, v := range vals {
				walk(v)
			}
		}
		if al, ok := x.V.(*ssa.Alloc); ok {
			// array / struct literal: the values stored into its elements and fields
			for _, u := range refs(al) {
				var addr ssa.Value
				switch a := u.(type) {
				case *ssa.IndexAddr:
					addr = a
				case *ssa.FieldAddr:
					addr = a
				}
				if addr == nil {
					continue
				}
				for _, w := range refs(addr) {
					if st, ok := w.(*ssa.Store); ok && st.Addr == addr {
						walk(CV{x.C, st.Val})
					}
				}
			}
		}
		if in, ok := x.V.(ssa.Instruction); ok {
			for _, op := range in.Operands(nil) {
				if op != nil && *op != nil {
					walk(CV{x.C, *op})
				}
			}
		}
	}
	walk(cv)
	return seen
}

// eachInstr visits every instruction of every reachable node.
func (g *cGraph) eachInstr(f func(n *cgNode, in ssa.Instruction)) {
	for _, n := range g.nodes {
		for _, in := range n.instrs() {
			f(n, in)
		}
	}
}

func (g *cGraph) pos(cv CV) string {
	if in, ok := cv.V.(ssa.Instruction); ok {
		return g.p.Pos(instrPos(in))
	}
	if cv.V != nil {
		return g.p.Pos(cv.V.Pos())
	}
	return "-"
}

// dump prints the graph (debug aid, C01_GRAPH=<root>).
func (g *cGraph) dump() {
	for _, n := range g.nodes {
		id := -1
		if n.idom != nil {
			id = n.idom.idx
		}
		var ss []string
		for _, s := range n.succs {
			ss = append(ss, fmt.Sprint(s.idx))
		}
		fmt.Printf("N%d ctx%d %s b%d[%d:%d] idom=%d succs=%s", n.idx, n.C.id, n.C.fn.Name(), n.B.Index, n.lo, n.hi, id, strings.Join(ss, ","))
		if n.kid != nil {
			fmt.Printf(" -> calls %s(ctx%d)", n.kid.fn.Name(), n.kid.id)
		}
		fmt.Println()
	}
	for _, l := range g.loops() {
		var b []int
		for x := range l.Body {
			b = append(b, x.idx)
		}
		sort.Ints(b)
		fmt.Printf("LOOP head=N%d body=%v\n", l.Head.idx, b)
	}
}

// ---------------------------------------------------------------- flow-sensitive loads

// cgLeaf is one value a load may see, with the branch conditions of the path
// from the defining store to the load (plus what dominates the store).
type cgLeaf struct {
	Val   CV
	Conds []cgCond
	Zero  bool // the location's zero value (no store on that path)
}

// memKey names the location an address designates when it is a local cell
// or a field of a local struct object.
func (g *cGraph) memKey(addr CV) (string, CV, bool) {
	addr = g.res(addr)
	switch a := addr.V.(type) {
	case *ssa.Alloc:
		return cvKey(addr), addr, true
	case *ssa.FieldAddr:
		// &obj.f1.f2…: a path of fields below a local object
		path := ""
		cur := addr
		for i := 0; i < 6; i++ {
			fa, ok := cur.V.(*ssa.FieldAddr)
			if !ok {
				break
			}
			path = fmt.Sprintf("#%d", fa.Field) + path
			cur = g.res(CV{cur.C, fa.X})
		}
		if _, ok := cur.V.(*ssa.Alloc); ok {
			return cvKey(cur) + path, cur, true
		}
		_ = a
	}
	return "", CV{}, false
}

// valuesAt: reaching stores of the location read by load cv, found by walking
// the graph backwards from the load. ok=false when the location is not a
// local cell / field of a local object, when its address escapes to code that
// is not expanded in the graph, or when a whole-object store intervenes.
func (g *cGraph) valuesAt(cv CV) ([]cgLeaf, bool) {
	u, isLoad := cv.V.(*ssa.UnOp)
	if !isLoad || u.Op != token.MUL || cv.C == nil {
		return nil, false
	}
	key, obj, ok := g.memKey(CV{cv.C, u.X})
	if !ok {
		return nil, false
	}
	start := g.nodeOf(cv.C, u)
	if start == nil {
		return nil, false
	}
	return g.valuesAtLoc(key, obj, start, instrIndex(u))
}

// valuesAtLoc: the values location key (of local object obj) may hold just before instruction idx of node start:
// its reaching assignments (or the zero value), each with the branch conditions that hold on EVERY path from that
// assignment to the read (plus what dominates the assignment). Tests of the variable itself passed on the way
// prune assignments of a contradicting constant (for !state.done { … state.done = true … }).
func (g *cGraph) valuesAtLoc(key string, obj CV, start *cgNode, idx int) ([]cgLeaf, bool) {
	objKey := cvKey(obj)
	g.buildMem()
	if g.addrKept[objKey] {
		return nil, false // stores may reach the object through a pointer kept in memory
	}
	type def struct {
		n    *cgNode
		i    int
		val  CV
		zero bool
	}
	var defs []def
	var extra []cgLeaf // leaves obtained through a struct copy
	fail := false
	// self-test requirement carried backwards: 0 none, 1 variable must be true, 2 false
	selfTest := func(c cgCond) int {
		cv, br := g.stripNot(c.Cond, c.Branch)
		u, ok := cv.V.(*ssa.UnOp)
		if !ok || u.Op != token.MUL {
			return 0
		}
		if b, ok := u.Type().Underlying().(*types.Basic); !ok || b.Kind() != types.Bool {
			return 0
		}
		if k, _, ok := g.memKey(CV{cv.C, u.X}); !ok || k != key {
			return 0
		}
		if br {
			return 1
		}
		return 2
	}
	constReq := func(v CV) int {
		if kc, isK := g.res(v).V.(*ssa.Const); isK && kc.Value != nil && kc.Value.Kind() == constant.Bool {
			if constant.BoolVal(kc.Value) {
				return 1
			}
			return 2
		}
		return 0
	}
	type bstate struct {
		n   *cgNode
		req int
	}
	seen := map[bstate]bool{}
	canReach := map[*cgNode]bool{} // nodes from which the read is reachable without crossing an assignment
	var back func(n *cgNode, from int, req int)
	back = func(n *cgNode, from int, req int) {
		if fail {
			return
		}
		for i := from - 1; i >= n.lo; i-- {
			switch y := n.B.Instrs[i].(type) {
			case *ssa.Store:
				k, o, ok := g.memKey(CV{n.C, y.Addr})
				if ok && k == key {
					if c := constReq(CV{n.C, y.Val}); c != 0 && req != 0 && c != req {
						return
					}
					defs = append(defs, def{n: n, i: i, val: CV{n.C, y.Val}})
					return
				}
				if ok && cvKey(o) == objKey && len(k) < len(key) && strings.HasPrefix(key, k) && (k == objKey || key[len(k)] == '#') {
					// an enclosing (sub-)object is assigned as a whole: follow a struct copy `*obj = *other`
					src := g.res(CV{n.C, y.Val})
					if lu, isLoad := src.V.(*ssa.UnOp); isLoad && lu.Op == token.MUL {
						if k2, o2, ok2 := g.memKey(CV{src.C, lu.X}); ok2 && cvKey(o2) != objKey {
							if ln := g.nodeOf(src.C, lu); ln != nil {
								if sub, ok3 := g.valuesAtLoc(k2+key[len(k):], o2, ln, instrIndex(lu)); ok3 {
									for _, l := range sub {
										l.Conds = append(append([]cgCond{}, g.domConds(n)...), l.Conds...)
										extra = append(extra, l)
									}
									return
								}
							}
						}
					}
					fail = true
					return
				}
			case *ssa.Alloc:
				if n.C == obj.C && ssa.Value(y) == obj.V {
					if req == 1 {
						return
					}
					defs = append(defs, def{n: n, i: i, zero: true})
					return
				}
			case ssa.CallInstruction:
				if n.kid != nil && i == n.hi-1 {
					continue // expanded in the graph
				}
				for _, a := range y.Common().Args {
					if g.mayPointInto(CV{n.C, a}, obj) {
						fail = true
						return
					}
				}
				if y.Common().IsInvoke() && g.mayPointInto(CV{n.C, y.Common().Value}, obj) {
					fail = true
					return
				}
			}
		}
		canReach[n] = true
		for _, p := range n.preds {
			if !g.reachable(p) {
				continue
			}
			nr := req
			if c, ok := g.edgeCond(p, n); ok {
				if t := selfTest(c); t != 0 {
					if req != 0 && req != t {
						continue
					}
					nr = t
				}
			}
			st := bstate{p, nr}
			if seen[st] {
				continue
			}
			seen[st] = true
			back(p, p.hi, nr)
		}
	}
	back(start, idx, 0)
	if fail || len(defs)+len(extra) == 0 {
		return nil, false
	}
	// nodes holding an assignment: they end the flow of the other assignments
	defAt := map[*cgNode][]int{}
	for _, d := range defs {
		defAt[d.n] = append(defAt[d.n], d.i)
	}
	var out []cgLeaf
	doneDef := map[string]bool{}
	for _, d := range defs {
		dk := fmt.Sprintf("%d:%d", d.n.idx, d.i)
		if doneDef[dk] {
			continue
		}
		doneDef[dk] = true
		want := 0
		if d.zero {
			want = 2
		} else {
			want = constReq(d.val)
		}
		// forward must-dataflow of edge conditions from the assignment to the read
		in := map[*cgNode]map[cgCond]bool{}
		visited := map[*cgNode]bool{}
		var result map[cgCond]bool
		reached := false
		meet := func(dst *cgNode, s map[cgCond]bool) bool {
			if !visited[dst] {
				visited[dst] = true
				cp := map[cgCond]bool{}
				for k := range s {
					cp[k] = true
				}
				in[dst] = cp
				return true
			}
			changed := false
			for k := range in[dst] {
				if !s[k] {
					delete(in[dst], k)
					changed = true
				}
			}
			return changed
		}
		work := []*cgNode{}
		flowOut := func(n *cgNode, s map[cgCond]bool) {
			for _, sn := range n.succs {
				es := s
				if c, ok := g.edgeCond(n, sn); ok {
					if t := selfTest(c); t != 0 && want != 0 && t != want {
						continue // the variable holds the other value here
					}
					es = map[cgCond]bool{c: true}
					for k := range s {
						es[k] = true
					}
				}
				if sn == start {
					// arrives at the read (the part of its node before the read has no assignment, see below)
					blocked := false
					for _, di := range defAt[start] {
						if di < idx {
							blocked = true
						}
					}
					if !blocked {
						if !reached {
							reached = true
							result = map[cgCond]bool{}
							for k := range es {
								result[k] = true
							}
						} else {
							for k := range result {
								if !es[k] {
									delete(result, k)
								}
							}
						}
					}
					// the read's node may lie on a loop: keep flowing only if it can reach itself again
				}
				if !canReach[sn] && sn != start {
					continue
				}
				if len(defAt[sn]) > 0 {
					continue // another assignment takes over
				}
				if meet(sn, es) {
					work = append(work, sn)
				}
			}
		}
		if d.n == start && d.i < idx {
			// assignment and read in the same node: no branch in between
			reached = true
			result = map[cgCond]bool{}
		} else {
			flowOut(d.n, map[cgCond]bool{})
			for len(work) > 0 {
				n := work[0]
				work = work[1:]
				flowOut(n, in[n])
			}
		}
		if !reached {
			continue
		}
		var conds []cgCond
		for k := range result {
			conds = append(conds, k)
		}
		sort.Slice(conds, func(i, j int) bool {
			if conds[i].At.idx != conds[j].At.idx {
				return conds[i].At.idx < conds[j].At.idx
			}
			return !conds[i].Branch && conds[j].Branch
		})
		conds = append(conds, g.domConds(d.n)...)
		out = append(out, cgLeaf{Val: d.val, Zero: d.zero, Conds: conds})
	}
	out = append(out, extra...)
	if len(out) == 0 {
		return nil, false
	}
	return out, true
}

// mayPointInto: value v may be (derived from) the address of obj.
func (g *cGraph) mayPointInto(v CV, obj CV) bool {
	for i := 0; i < 8; i++ {
		v = g.res(v)
		if v == obj {
			return true
		}
		switch y := v.V.(type) {
		case *ssa.FieldAddr:
			v = CV{v.C, y.X}
		case *ssa.IndexAddr:
			v = CV{v.C, y.X}
		case *ssa.MakeInterface:
			v = CV{v.C, y.X}
		case *ssa.ChangeType:
			v = CV{v.C, y.X}
		case *ssa.MakeClosure:
			for _, b := range y.Bindings {
				if g.mayPointInto(CV{v.C, b}, obj) {
					return true
				}
			}
			return false
		default:
			return false
		}
	}
	return false
}

// leafResolved: v, an origin returned by sources(), is a genuine origin (a
// constant, a call result, a parameter of the entry point, a window of an
// allocation, or a load from an object whose content is written outside the
// expanded code) — as opposed to a load the memory model could not follow.
func (g *cGraph) leafResolved(v CV) bool {
	switch x := v.V.(type) {
	case *ssa.UnOp:
		if x.Op != token.MUL {
			return true
		}
		return g.extAddr(CV{v.C, x.X}, 0)
	case *ssa.Field:
		return g.extAddr(CV{v.C, x.X}, 0)
	}
	return true
}

// extAddr: the object addr points into (or, for a struct value, was copied
// from) has its content written outside the expanded code.
func (g *cGraph) extAddr(addr CV, depth int) bool {
	if depth > 6 {
		return false
	}
	for i := 0; i < 12; i++ {
		addr = g.res(addr)
		switch a := addr.V.(type) {
		case *ssa.FieldAddr:
			addr = CV{addr.C, a.X}
		case *ssa.IndexAddr:
			addr = CV{addr.C, a.X}
		case *ssa.Field:
			addr = CV{addr.C, a.X}
		case *ssa.UnOp:
			if a.Op != token.MUL {
				return false
			}
			addr = CV{addr.C, a.X}
		case *ssa.Parameter:
			return addr.C == g.root
		case *ssa.Global, *ssa.TypeAssert, *ssa.MakeSlice:
			return true
		case *ssa.Const:
			return false // a zero value copied in: says nothing about who writes the object
		case *ssa.Call:
			return g.inlinedCall(addr) == nil
		case *ssa.Extract:
			if g.inlinedCall(CV{addr.C, a.Tuple}) == nil {
				return true
			}
			// result of an expanded helper: external if every returned value is
			edges, _ := g.phiEdges(addr)
			if len(edges) == 0 {
				return false
			}
			for _, e := range edges {
				if c, isK := g.res(e.Val).V.(*ssa.Const); isK && c != nil {
					continue // zero value on an error path
				}
				if !g.extAddr(e.Val, depth+1) {
					return false
				}
			}
			return true
		case *ssa.Alloc:
			// content written by code outside the graph (address handed to an unexpanded call), or copied from outside
			for _, n := range g.nodes {
				for _, in := range n.instrs() {
					ci, ok := in.(ssa.CallInstruction)
					if !ok || (n.kid != nil && in == n.last()) {
						continue
					}
					for _, arg := range ci.Common().Args {
						if g.mayPointInto(CV{n.C, arg}, addr) {
							return true
						}
					}
				}
			}
			g.buildMem()
			for _, w := range g.cellStores[addr] {
				if g.extAddr(w, depth+1) {
					return true
				}
			}
			return false
		default:
			return false
		}
	}
	return false
}

// unresolved lists the origins in the set that the memory model could not follow.
func (g *cGraph) unresolved(sets ...map[CV]bool) []CV {
	var out []CV
	for _, s := range sets {
		for v := range s {
			if !g.leafResolved(v) {
				out = append(out, v)
			}
		}
	}
	return out
}

// singleFieldValue: fa addresses field f of a local struct object; f is stored exactly once in the package,
// and that store is into this very object in the function that allocates it.
func (g *cGraph) singleFieldValue(a CV, fa *ssa.FieldAddr) (CV, bool) {
	base := g.res(CV{a.C, fa.X})
	al, ok := base.V.(*ssa.Alloc)
	if !ok {
		return CV{}, false
	}
	id := fieldIDOfAddr(fa)
	if g.fieldStoreCount == nil {
		g.fieldStoreCount = map[FieldID]int{}
		for _, fn := range g.p.Funcs {
			if fn.Pkg != g.pkg {
				continue
			}
			allInstrs(fn, func(in ssa.Instruction) {
				if st, ok := in.(*ssa.Store); ok {
					if f, ok := st.Addr.(*ssa.FieldAddr); ok {
						g.fieldStoreCount[fieldIDOfAddr(f)]++
					}
				}
			})
		}
	}
	if g.fieldStoreCount[id] != 1 {
		return CV{}, false
	}
	for _, u := range refs(al) {
		f2, ok := u.(*ssa.FieldAddr)
		if !ok || f2.Field != fa.Field {
			continue
		}
		for _, w := range refs(f2) {
			if st, ok := w.(*ssa.Store); ok && st.Addr == ssa.Value(f2) {
				// only an initialisation right at the allocation (struct literal): a later assignment would
				// leave the zero value visible before it
				if st.Block() != al.Block() {
					return CV{}, false
				}
				return CV{base.C, st.Val}, true
			}
		}
	}
	return CV{}, false
}

func isMakeIface(v CV) bool {
	_, ok := v.V.(*ssa.MakeInterface)
	return ok
}

// altIndex: position of c among the possible callees of its call site (0 = first / only).
func (c *cgCtx) altIndex() (first *cgCtx, idx int) {
	if c.parent == nil {
		return c, 0
	}
	in, _ := c.site.(ssa.Instruction)
	k := c.parent.kids[in]
	if k == nil || k == c {
		return c, 0
	}
	for i, a := range k.alts {
		if a == c {
			return k, i + 1
		}
	}
	return c, 0
}

// tableBefore: a and b lie in different elements i < j of one literal table of functions that a range loop
// runs in order: whenever b executes, a has executed before (elements are visited ascending, none skipped).
func (g *cGraph) tableBefore(a, b *cgNode) bool {
	chain := func(n *cgNode) []*cgCtx {
		var out []*cgCtx
		for c := n.C; c != nil; c = c.parent {
			out = append(out, c)
		}
		return out
	}
	for _, ca := range chain(a) {
		fa, ia := ca.altIndex()
		for _, cb := range chain(b) {
			fb, ib := cb.altIndex()
			if ca == cb || fa != fb || ca.parent != cb.parent || ca.site != cb.site {
				continue
			}
			if ia >= ib {
				return false
			}
			// the call's function value is table[i] with i the ascending index of a range loop
			call, ok := ca.site.(*ssa.Call)
			if !ok {
				return false
			}
			ld, ok := call.Call.Value.(*ssa.UnOp)
			if !ok {
				return false
			}
			ix, ok := ld.X.(*ssa.IndexAddr)
			if !ok {
				return false
			}
			idx := ix.Index
			if bo, ok := idx.(*ssa.BinOp); ok && bo.Op == token.ADD {
				idx = bo.X
			}
			phi, ok := idx.(*ssa.Phi)
			if !ok {
				return false
			}
			for _, e := range phi.Edges {
				switch y := e.(type) {
				case *ssa.Const:
				case *ssa.BinOp:
					if y.Op != token.ADD || y.X != ssa.Value(phi) {
						return false
					}
				default:
					return false
				}
			}
			return true
		}
	}
	return false
}

// condsThrough: like domConds, but at the continuation of an expanded call it continues into the callee when
// the conditions established after the call (err == nil, ok == true, kind == K on the call's results) leave a
// single return of the callee feasible: a helper's result stays correlated with the caller's branch.
func (g *cGraph) condsThrough(n *cgNode) []cgCond {
	var out []cgCond
	seen := map[*cgNode]bool{}
	for x := n; x != nil && !seen[x]; {
		seen[x] = true
		if len(x.preds) == 1 {
			if c, ok := g.edgeCond(x.preds[0], x); ok {
				out = append(out, c)
			}
			x = x.idom
			continue
		}
		// a join: the continuation of an expanded call?
		var feas []*cgNode
		isCont := len(x.preds) > 1
		for _, p := range x.preds {
			if _, isRet := p.last().(*ssa.Return); !isRet || p.C == x.C {
				isCont = false
			}
		}
		if isCont {
			for _, p := range x.preds {
				if g.retFeasible(x, p, out) {
					feas = append(feas, p)
				}
			}
		}
		if len(feas) == 1 {
			x = feas[0]
			continue
		}
		x = x.idom
	}
	return out
}

// retFeasible: can control have entered continuation j from return node p, given conds (those established
// at or after j are used)?
func (g *cGraph) retFeasible(j, p *cgNode, conds []cgCond) bool {
	for _, dc := range conds {
		if !g.dominates(j, dc.At) {
			continue
		}
		c, br := g.stripNot(dc.Cond, dc.Branch)
		if g.joinOf(c) == j {
			// a boolean result
			if sib, ok := g.sibling(c, cgEdge{Pred: p}); ok {
				if k, isK := g.res(sib).V.(*ssa.Const); isK && k.Value != nil && k.Value.Kind() == constant.Bool {
					if constant.BoolVal(k.Value) != br {
						return false
					}
				}
			}
			continue
		}
		cmp, ok := g.decode(c, br)
		if !ok || (cmp.Op != token.EQL && cmp.Op != token.NEQ) {
			continue
		}
		xv, yv := g.res(cmp.X), g.res(cmp.Y)
		if _, isK := xv.V.(*ssa.Const); isK {
			xv, yv = yv, xv
		}
		kc, isK := yv.V.(*ssa.Const)
		if !isK || g.joinOf(xv) != j {
			continue
		}
		sib, ok := g.sibling(xv, cgEdge{Pred: p})
		if !ok {
			continue
		}
		sib = g.res(sib)
		if kc.IsNil() {
			wantNil := cmp.Op == token.EQL
			if wantNil && g.nonNil(sib, p) {
				return false
			}
			if !wantNil && g.knownNil(sib, p) {
				return false
			}
			continue
		}
		if sk, ok := sib.V.(*ssa.Const); ok && sk.Value != nil && kc.Value != nil && sk.Value.Kind() == kc.Value.Kind() {
			eq := constant.Compare(sk.Value, token.EQL, kc.Value)
			if eq != (cmp.Op == token.EQL) {
				return false
			}
		}
	}
	return true
}

// selfTestsAgree: among conds (collected walking back from a load to its reaching assignment), the ones that
// test a load of the same variable (b / !b) are consistent with the variable holding val.
func (g *cGraph) selfTestsAgree(key string, conds []cgCond, val bool) bool {
	for _, dc := range conds {
		c, br := g.stripNot(dc.Cond, dc.Branch)
		u, ok := c.V.(*ssa.UnOp)
		if !ok || u.Op != token.MUL {
			continue
		}
		if b, ok := u.Type().Underlying().(*types.Basic); !ok || b.Kind() != types.Bool {
			continue
		}
		k, _, ok := g.memKey(CV{c.C, u.X})
		if !ok || k != key {
			continue
		}
		if br != val {
			return false
		}
	}
	return true
}
