package main

// c04tables: E6 extractors for the cron package — the `bounds` tables, the
// `places`/`defaults` lists (AST + go/constant) and the two published tables in
// cron/doc.go ("Allowed values" and "Predefined schedules").

import (
	"go/ast"
	"go/constant"
	"go/token"
	"go/types"
	"regexp"
	"strconv"
	"strings"

	"golang.org/x/tools/go/packages"
)

type c04Bounds struct {
	Name     string // the package-level variable (whatever it is called)
	Min, Max uint64
	Names    map[string]uint64 // nil = no names
	Fields   map[string]uint64 // raw unsigned fields by field name
	Pos      token.Pos
}

// c04PkgVarInit returns the initialiser expression of package-level var name.
func c04PkgVarInit(pkg *packages.Package, name string) (ast.Expr, token.Pos) {
	for _, f := range pkg.Syntax {
		for _, d := range f.Decls {
			gd, ok := d.(*ast.GenDecl)
			if !ok || gd.Tok != token.VAR {
				continue
			}
			for _, s := range gd.Specs {
				vs := s.(*ast.ValueSpec)
				for i, n := range vs.Names {
					if n.Name == name && len(vs.Values) == len(vs.Names) {
						return vs.Values[i], n.Pos()
					}
				}
			}
		}
	}
	return nil, token.NoPos
}

func c04ConstUint(pkg *packages.Package, e ast.Expr) (uint64, bool) {
	tv, ok := pkg.TypesInfo.Types[e]
	if !ok || tv.Value == nil || tv.Value.Kind() != constant.Int {
		return 0, false
	}
	return constant.Uint64Val(tv.Value)
}

func c04ConstString(pkg *packages.Package, e ast.Expr) (string, bool) {
	tv, ok := pkg.TypesInfo.Types[e]
	if !ok || tv.Value == nil || tv.Value.Kind() != constant.String {
		return "", false
	}
	return constant.StringVal(tv.Value), true
}

// c04ReadTable evaluates the composite literal initialising a package-level
// variable of the bounds-like struct type: unsigned constants per field name
// and the (one) string->uint map field.
func c04ReadTable(pkg *packages.Package, name string) (*c04Bounds, string) {
	init, pos := c04PkgVarInit(pkg, name)
	if init == nil {
		return nil, "package-level variable " + name + " with an initialiser not found"
	}
	cl, ok := ast.Unparen(init).(*ast.CompositeLit)
	if !ok {
		return nil, name + " is not initialised by a composite literal"
	}
	b := &c04Bounds{Name: name, Pos: pos, Fields: map[string]uint64{}}
	if why := c04ReadStructLit(pkg, cl, "", b, name); why != "" {
		return nil, why
	}
	return b, ""
}

// c04StructLeaves lists the scalar / map leaves of a struct type, nested (and
// embedded) struct fields flattened into dotted paths.
func c04StructLeaves(st *types.Struct, prefix string, depth int, f func(path string, t types.Type)) {
	for i := 0; i < st.NumFields(); i++ {
		fld := st.Field(i)
		if inner, ok := fld.Type().Underlying().(*types.Struct); ok && depth < 4 {
			c04StructLeaves(inner, prefix+fld.Name()+".", depth+1, f)
			continue
		}
		f(prefix+fld.Name(), fld.Type())
	}
}

// c04ReadStructLit reads a (possibly nested) struct literal into b.
func c04ReadStructLit(pkg *packages.Package, cl *ast.CompositeLit, prefix string, b *c04Bounds, name string) string {
	st, ok := pkg.TypesInfo.TypeOf(cl).Underlying().(*types.Struct)
	if !ok {
		return name + " is not a struct literal"
	}
	if prefix == "" {
		c04StructLeaves(st, "", 0, func(path string, t types.Type) {
			if _, isMap := t.Underlying().(*types.Map); !isMap {
				b.Fields[path] = 0 // omitted fields are zero
			}
		})
	}
	for i, el := range cl.Elts {
		var fld *types.Var
		val := el
		if kv, ok := el.(*ast.KeyValueExpr); ok {
			if id, ok := kv.Key.(*ast.Ident); ok {
				for j := 0; j < st.NumFields(); j++ {
					if st.Field(j).Name() == id.Name {
						fld = st.Field(j)
					}
				}
			}
			val = kv.Value
		} else if i < st.NumFields() {
			fld = st.Field(i)
		}
		if fld == nil {
			return name + " has an element that is not a field of its type"
		}
		path := prefix + fld.Name()
		if _, isStruct := fld.Type().Underlying().(*types.Struct); isStruct {
			inner, ok := ast.Unparen(val).(*ast.CompositeLit)
			if !ok {
				return name + "." + path + " is not a struct literal"
			}
			if why := c04ReadStructLit(pkg, inner, path+".", b, name); why != "" {
				return why
			}
			continue
		}
		if _, isMap := fld.Type().Underlying().(*types.Map); isMap {
			if id, ok := ast.Unparen(val).(*ast.Ident); ok && id.Name == "nil" {
				continue
			}
			ml, ok := ast.Unparen(val).(*ast.CompositeLit)
			if !ok {
				return name + "." + path + " is neither nil nor a map literal"
			}
			b.Names = map[string]uint64{}
			for _, e := range ml.Elts {
				kv, ok := e.(*ast.KeyValueExpr)
				if !ok {
					return name + "." + path + " has a non key/value element"
				}
				k, ok1 := c04ConstString(pkg, kv.Key)
				v, ok2 := c04ConstUint(pkg, kv.Value)
				if !ok1 || !ok2 {
					return name + "." + path + " has a non-constant entry"
				}
				b.Names[k] = v
			}
			continue
		}
		v, ok := c04ConstUint(pkg, val)
		if !ok {
			return name + "." + path + " is not a constant"
		}
		b.Fields[path] = v
	}
	return ""
}

// c04ReadList evaluates `var <name> = []T{...}`: constant names (for
// identifiers) and constant values.
type c04ListElem struct {
	ConstName string // identifier of a named constant, if the element is one
	Str       string
	IsStr     bool
	Uint      uint64
	IsUint    bool
}

func c04ReadList(pkg *packages.Package, name string) ([]c04ListElem, token.Pos, string) {
	init, pos := c04PkgVarInit(pkg, name)
	if init == nil {
		return nil, pos, "package-level variable " + name + " with an initialiser not found"
	}
	cl, ok := ast.Unparen(init).(*ast.CompositeLit)
	if !ok {
		return nil, pos, name + " is not initialised by a composite literal"
	}
	var out []c04ListElem
	for _, el := range cl.Elts {
		if _, ok := el.(*ast.KeyValueExpr); ok {
			return nil, pos, name + " uses keyed elements"
		}
		var e c04ListElem
		if id, ok := ast.Unparen(el).(*ast.Ident); ok {
			if c, ok := pkg.TypesInfo.Uses[id].(*types.Const); ok {
				e.ConstName = c.Name()
			}
		}
		if s, ok := c04ConstString(pkg, el); ok {
			e.Str, e.IsStr = s, true
		} else if u, ok := c04ConstUint(pkg, el); ok {
			e.Uint, e.IsUint = u, true
		} else {
			return nil, pos, name + " has a non-constant element"
		}
		out = append(out, e)
	}
	return out, pos, ""
}

// ---- doc.go ----

type c04DocRow struct {
	Field    string // "Minutes", "Day of month", ...
	Min, Max uint64
	NameLo   string // "JAN" ("" if none)
	NameHi   string
	Line     int
}

type c04DocDesc struct {
	Names []string // "@yearly", "@annually"
	Equiv []string // the five fields of "Equivalent To"
	Line  int
}

// c04PackageDoc returns the package documentation text holding the cron
// expression tables, with the position of the comment.
func c04PackageDoc(pkg *packages.Package) (string, token.Pos) {
	for _, f := range pkg.Syntax {
		if f.Doc == nil {
			continue
		}
		// raw comment text (not f.Doc.Text(), which reflows tables)
		var sb strings.Builder
		for _, c := range f.Doc.List {
			sb.WriteString(c.Text)
			sb.WriteString("\n")
		}
		if strings.Contains(sb.String(), "Allowed values") {
			return sb.String(), f.Doc.Pos()
		}
	}
	return "", token.NoPos
}

var c04RangeRe = regexp.MustCompile(`^(\d+)-(\d+)(?:\s+or\s+([A-Za-z]+)-([A-Za-z]+))?$`)

// c04ParseDoc extracts the "Allowed values" rows and the predefined schedule rows.
func c04ParseDoc(doc string) (rows []c04DocRow, descs []c04DocDesc, problem string) {
	lines := strings.Split(doc, "\n")
	// locate the column of "Allowed values" in the header row
	for i := 0; i < len(lines); i++ {
		cols := c04SplitRow(lines[i])
		if len(cols) < 3 {
			continue
		}
		if idx := c04IndexOf(cols, "Allowed values"); idx >= 0 && c04IndexOf(cols, "Field name") == 0 {
			for j := i + 1; j < len(lines); j++ {
				rc := c04SplitRow(lines[j])
				if len(rc) <= idx {
					break
				}
				if strings.Trim(rc[0], "-") == "" {
					continue // separator
				}
				m := c04RangeRe.FindStringSubmatch(rc[idx])
				if m == nil {
					return nil, nil, "doc.go: cannot read allowed values '" + rc[idx] + "' of field '" + rc[0] + "'"
				}
				lo, _ := strconv.ParseUint(m[1], 10, 64)
				hi, _ := strconv.ParseUint(m[2], 10, 64)
				rows = append(rows, c04DocRow{Field: rc[0], Min: lo, Max: hi, NameLo: m[3], NameHi: m[4], Line: j + 1})
			}
		}
		if idx := c04IndexOf(cols, "Equivalent To"); idx >= 0 && c04IndexOf(cols, "Entry") == 0 {
			for j := i + 1; j < len(lines); j++ {
				rc := c04SplitRow(lines[j])
				if len(rc) <= idx {
					break
				}
				if strings.Trim(rc[0], "-") == "" {
					continue
				}
				var names []string
				for _, w := range strings.FieldsFunc(rc[0], func(r rune) bool { return r == ' ' || r == '(' || r == ')' || r == ',' }) {
					if strings.HasPrefix(w, "@") {
						names = append(names, w)
					}
				}
				eq := strings.Fields(rc[idx])
				if len(names) == 0 {
					return nil, nil, "doc.go: predefined schedule row without a name: '" + lines[j] + "'"
				}
				descs = append(descs, c04DocDesc{Names: names, Equiv: eq, Line: j + 1})
			}
		}
	}
	return rows, descs, ""
}

func c04SplitRow(line string) []string {
	if !strings.Contains(line, "|") {
		return nil
	}
	parts := strings.Split(line, "|")
	for i := range parts {
		parts[i] = strings.TrimSpace(parts[i])
	}
	return parts
}

func c04IndexOf(xs []string, s string) int {
	for i, x := range xs {
		if x == s {
			return i
		}
	}
	return -1
}
