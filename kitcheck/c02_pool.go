package main

// C02.P1 — the segment buffer is exclusively owned while its content is on its
// way to the reader: within the segment loop a buffer taken from a sync.Pool is
// given back at most once, and nothing reads into it or hands it to the
// processor after it was given back. (A buffer released twice is handed to two
// later streams at once; while one is blocked in its pipe Write of an
// authenticated segment the other overwrites it: the reader receives bytes
// that are not the plaintext.) The general pool discipline is C08's; this is
// the part C02's "only authenticated plaintext reaches the reader" needs.

import (
	"golang.org/x/tools/go/ssa"
)

func c02CheckBufferExclusive(p *Prog, r *Report, L *c02Loop) {
	fn := L.fn
	rule := "C02.P1-buffer-exclusive"
	construct := L.name + " pooled buffer released once, after its last use"
	isPoolCall := func(ci ssa.CallInstruction, name string) ssa.Value {
		if !callIs(ci, "sync", "Pool", name) || len(ci.Common().Args) == 0 {
			return nil
		}
		return c02Origin(ci.Common().Args[0])
	}
	var pools []ssa.Value
	allInstrs(fn, func(in ssa.Instruction) {
		if ci, ok := in.(ssa.CallInstruction); ok {
			if pl := isPoolCall(ci, "Get"); pl != nil {
				pools = append(pools, pl)
			}
		}
	})
	if len(pools) == 0 {
		r.Trivial(rule, construct, p.Pos(fn.Pos()), "the segment loop does not take its buffer from a pool itself")
		return
	}
	samePool := func(v ssa.Value) bool {
		for _, pl := range pools {
			if pl == v {
				return true
			}
			// the same package-level pool reached through two address computations
			g1, ok1 := pl.(*ssa.Global)
			g2, ok2 := v.(*ssa.Global)
			if ok1 && ok2 && g1 == g2 {
				return true
			}
		}
		return false
	}
	// does a (deferred) closure put into the pool on every path?
	closurePuts := func(v ssa.Value) bool {
		mc, ok := v.(*ssa.MakeClosure)
		if !ok {
			return false
		}
		cf, ok := mc.Fn.(*ssa.Function)
		if !ok {
			return false
		}
		found := false
		allInstrs(cf, func(in ssa.Instruction) {
			if ci, ok := in.(ssa.CallInstruction); ok {
				if pl := isPoolCall(ci, "Put"); pl != nil {
					if g, isG := pl.(*ssa.Global); isG {
						if samePool(g) {
							found = true
						}
					} else {
						found = true // a captured pool: assume it is the one
					}
				}
			}
		})
		return found
	}
	isPut := func(in ssa.Instruction, replaying bool) bool {
		switch x := in.(type) {
		case *ssa.Call:
			if pl := isPoolCall(x, "Put"); pl != nil && samePool(pl) {
				return true
			}
		case *ssa.Defer:
			if !replaying {
				return false
			}
			if pl := isPoolCall(x, "Put"); pl != nil && samePool(pl) {
				return true
			}
			return closurePuts(x.Call.Value)
		}
		return false
	}
	isUse := map[ssa.Instruction]bool{}
	for _, c := range L.calls {
		isUse[c] = true
	}
	for _, c := range L.reads {
		isUse[c] = true
	}
	// may-states: bit0 no put yet, bit1 one put, bit2 two or more
	ff := &FlagFlow{Fn: fn, Must: false, Entry: 1}
	ff.Transfer = func(in ssa.Instruction, st uint64) uint64 {
		if isPut(in, ff.Replaying) {
			var out uint64
			if st&1 != 0 {
				out |= 2
			}
			if st&2 != 0 || st&4 != 0 {
				out |= 4
			}
			return out
		}
		return st
	}
	ff.Run()
	bad := ""
	for in := range isUse {
		if st, ok := ff.Before(in); ok && st&(2|4) != 0 {
			bad = "the buffer can be given back to the pool before " + p.Pos(instrPos(in)) + ", where the loop still reads into it / hands it to the segment processor: another stream can get it and overwrite the segment that is being released"
		}
	}
	ff.AtReturns(func(ret *ssa.Return, st uint64) {
		if st&4 != 0 && bad == "" {
			bad = "on a path to the return at " + p.Pos(instrPos(ret)) + " the buffer is given back to the pool twice (e.g. explicitly and by the deferred release): two later streams then share one buffer, and while one of them is blocked in its pipe Write of an authenticated segment the other reads its own input into it — the first stream's reader receives bytes that are not its plaintext"
		}
	})
	r.Check(bad == "", rule, construct, p.Pos(fn.Pos()),
		"the pooled buffer is released at most once on every path, and never before a later use",
		bad)
}
