package main

// C05‑S9: every time handed to Entry.Schedule.Next by the scheduler is
// expressed in the Cron's configured location. A SpecSchedule without a TZ=
// prefix evaluates its fields in the zone of the time it is given, so a raw
// timer value or a raw clock reading yields activations in the wrong zone.

import (
	"go/token"

	"golang.org/x/tools/go/ssa"
)

// inLocation: v is a time.Time produced by X.In(<load of Cron.location>), by
// a module function all of whose results are, or a phi/copy/parameter of such.
func (a *c05) inLocation(v ssa.Value, memo map[ssa.Value]int, helpers map[*ssa.Function]bool) bool {
	switch memo[v] {
	case 1, 2:
		return true // coinductive on phi cycles
	case 3:
		return false
	}
	memo[v] = 1
	ok := a.inLocation1(v, memo, helpers)
	if ok {
		memo[v] = 2
	} else {
		memo[v] = 3
	}
	return ok
}

func (a *c05) inLocation1(v ssa.Value, memo map[ssa.Value]int, helpers map[*ssa.Function]bool) bool {
	switch x := v.(type) {
	case *ssa.Phi:
		for _, ed := range x.Edges {
			if !a.inLocation(ed, memo, helpers) {
				return false
			}
		}
		return true
	case *ssa.ChangeType:
		return a.inLocation(x.X, memo, helpers)
	case *ssa.UnOp:
		if x.Op == token.MUL {
			if vals := c05LocStores(x.X); len(vals) > 0 {
				for _, sv := range vals {
					if !a.inLocation(sv, memo, helpers) {
						return false
					}
				}
				return true
			}
		}
		return false
	case *ssa.Call:
		if x.Call.IsInvoke() && a.seamTarget(x) == nil {
			return false
		}
		if c05IsTimeMethod(x, "In") && len(x.Call.Args) == 2 {
			_, ok := c05LoadOf(x.Call.Args[1], a.fLocation)
			return ok
		}
		if x.Call.Signature().Results().Len() == 1 {
			if rets := a.returnsOf(x, 0); len(rets) > 0 {
				ok := true
				for _, rv := range rets {
					if !a.inLocation(rv, memo, helpers) {
						ok = false
					}
				}
				for _, cal := range a.calleesOf(x) {
					helpers[cal] = ok
				}
				return ok
			}
		}
		return false
	case *ssa.Parameter:
		fn := x.Parent()
		if isExportedFunc(fn) || a.addrTaken[fn] || len(a.sites[fn]) == 0 {
			return false
		}
		idx := c05ParamIndex(x)
		for _, s := range a.sites[fn] {
			args := s.Common().Args
			if idx < 0 || idx >= len(args) || !a.inLocation(args[idx], memo, helpers) {
				return false
			}
		}
		return true
	}
	return false
}

func (a *c05) checkLocation() {
	r := a.r
	memo := map[ssa.Value]int{}
	helpers := map[*ssa.Function]bool{}
	wakeSel := map[*ssa.BasicBlock]string{}
	if cs := a.schedCase(a.fAdd); cs != nil && cs.body != nil {
		wakeSel[cs.body] = "add case"
	}
	for _, fn := range a.funcs {
		var sel *ssa.Select
		allInstrs(fn, func(in ssa.Instruction) {
			if s, ok := in.(*ssa.Select); ok && s.Blocking {
				sel = s
			}
		})
		allInstrs(fn, func(in ssa.Instruction) {
			call, ok := in.(*ssa.Call)
			if !ok || !call.Call.IsInvoke() || !callIs(call, a.pkg, "Schedule", "Next") || len(call.Call.Args) != 1 {
				return
			}
			if _, ok := c05LoadOf(call.Call.Value, a.fSchedule); !ok {
				return // not an entry's schedule
			}
			kind := "helper"
			if sel != nil {
				switch {
				case !reachableFrom(sel.Block(), nil)[in.Block()]:
					kind = "initial pass"
				default:
					kind = "after a wake-up"
					for body, k := range wakeSel {
						if body.Dominates(in.Block()) {
							kind = k
						}
					}
				}
			}
			arg := call.Call.Args[0]
			memo = map[ssa.Value]int{} // fresh per query: the coinductive phi assumption is only valid inside one query
			good := a.inLocation(arg, memo, helpers)
			r.Check(good, "C05.S9-next-in-location", a.name(fn)+" Schedule.Next argument ("+kind+")", a.pos(in),
				"the time given to Entry.Schedule.Next is X.In(Cron.location) (directly, through now(), phis or parameters)",
				"a time that was not converted with In(Cron.location) (raw timer value / raw clock reading, on some path) reaches Entry.Schedule.Next: a spec without TZ= evaluates its hour/day fields in the zone of the time it is given, so with WithLocation(L) and a clock in another zone Entry.Next is computed in the wrong zone and activations are missed or started at the wrong instants")
			// the due-test comparand is an instant comparison: location does not matter (NOTE only)
		})
	}
	for h, ok := range helpers {
		r.Check(ok, "C05.S9-next-in-location", a.name(h)+" returns a time in Cron.location", a.p.Pos(h.Pos()),
			"every result is X.In(Cron.location)",
			a.name(h)+" supplies the time handed to Schedule.Next but no longer converts it with In(Cron.location) on every return: every Next computed from it is evaluated in the clock's zone instead of the Cron's")
	}
}
