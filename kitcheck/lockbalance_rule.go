package main

import (
	"fmt"
	"go/token"
	"go/types"
	"os"
	"sort"
	"strings"

	"golang.org/x/tools/go/ssa"
)

// lockBalanceRuleOn arms the lock-balance rule (lockbalance.go) for the module
// functions of the given packages (closures included). conditional maps a
// function's full name (as printed by FuncName) to the reason why it returns
// holding a lock on some exits only (a conditional acquire by contract).
// One obligation per function that acquires a lock itself; key = function name
// + lock, position-free.
func lockBalanceRuleOn(r *Report, p *Prog, e *LockEngine, rule string, floor int, pkgs, files []string, conditional map[string]string) {
	r.Rule(rule, "a function that acquires a lock itself leaves it in the same state on every return (held on all: a hand-off; on none: released on all exits incl. early returns, after the deferred calls have run); a lock still held on some returns only is a leak that blocks every later writer. Must-lockset of the shared engine vs a may-lockset (union merge, same transfer function) at each Return; conditional acquires by contract are listed with a reason; panicking exits are not examined", floor)
	var fns []*ssa.Function
	for _, rel := range pkgs {
		for _, fn := range p.FuncsOfPkg(rel) {
			if lbInFiles(p, fn, files) {
				fns = append(fns, fn)
			}
		}
	}
	res := lockBalance(e, fns)
	bad := map[*ssa.Function][]lbFinding{}
	for _, f := range res.Findings {
		bad[f.Fn] = append(bad[f.Fn], f)
	}
	seen := map[*ssa.Function]bool{}
	for _, fn := range fns {
		if len(fn.Blocks) == 0 || seen[fn] {
			continue
		}
		seen[fn] = true
		own := lbOwnAcquires(e, fn)
		if len(own) == 0 {
			continue
		}
		name := FuncName(p, fn)
		ids := make([]string, 0, len(own))
		for id := range own {
			ids = append(ids, shortID(id))
		}
		sort.Strings(ids)
		construct := name + " exits agree about " + strings.Join(ids, ", ")
		fs := bad[fn]
		if len(fs) == 0 {
			r.OK(rule, construct, p.Pos(fn.Pos()), "every return leaves the lock(s) it acquired in the same state")
			continue
		}
		if why := lbOpaque(e, fn); why != "" {
			r.Trivial(rule, construct, p.Pos(fn.Pos()), "not examined: "+why)
			continue
		}
		if why, ok := conditional[name]; ok {
			r.OK(rule, construct, p.Pos(fn.Pos()), "conditional acquire by contract: "+why)
			continue
		}
		f := fs[0]
		switch lbClassify(f) {
		case lbLeak:
		case lbAcquireOnSuccess:
			r.OK(rule, construct, p.Pos(fn.Pos()), "conditional acquire: the lock is kept exactly on the exit that returns a nil error and released (or never taken) on the exits that return an error — the caller can tell; a leak has the opposite polarity")
			continue
		default:
			r.Undecide("%s: %s acquires %s and its exits disagree about it (held at %s, not at %s), but the results returned there may let the caller tell the exits apart (a conditional acquire) — not decided", rule, name, shortID(f.Lock), p.Pos(f.HeldAt), p.Pos(f.OtherAt))
			continue
		}
		msg := fmt.Sprintf("%s acquires %s and may still hold it at the return at %s, while the return at %s leaves it released, and nothing returned tells the caller which: after the first exit every later Lock of %s blocks forever", name, shortID(f.Lock), p.Pos(f.HeldAt), p.Pos(f.OtherAt), shortID(f.Lock))
		if f.Same {
			msg = fmt.Sprintf("%s acquires %s; at the return at %s it is still held on some path into that exit and released on another: the lock leaks on the first path and every later Lock of %s blocks forever", name, shortID(f.Lock), p.Pos(f.HeldAt), shortID(f.Lock))
		}
		r.Violation(rule, construct, p.Pos(f.HeldAt), msg)
	}
}

// lbConditional: functions that acquire conditionally by contract (reviewed).
var lbConditional = map[string]string{
	"concurrency/lock.Context.Lock":     "Lock(ctx) acquires iff it returns nil; a cancelled context returns ctx.Err() with nothing held",
	"concurrency/lock.Context.RLock":    "RLock(ctx) acquires iff it returns nil; a cancelled context returns ctx.Err() with nothing held",
	"concurrency/lock.OuterCancel.Lock": "after Close the writer is serialised on shutdownLock and the returned CancelFunc IS its Unlock (hand-off through the returned function); before Close the grant comes from the run loop and no mutex is held",
}

// lbScope: per property, the packages and — where a package is shared between
// properties — the files of properties.jsonl's anchors that select the
// functions: a function is in scope when it, or the named type of its
// receiver, is declared in one of the files (closures follow their enclosing
// function); an empty file list takes the whole package. Code moved to a new
// file of the package stays in scope through its receiver type.
type lbScopeT struct {
	pkgs  []string
	files []string
}

var lbScope = map[string]lbScopeT{
	"C05": {pkgs: []string{"cron"}, files: []string{"cron/cron.go", "cron/chain.go", "cron/option.go"}},
	"C06": {pkgs: []string{"events/queue"}},
	"C09": {pkgs: []string{"events/ratelimiting"}},
	"C10": {pkgs: []string{"events/batcher", "events/queue"}},
	"C11": {pkgs: []string{"events/broadcaster"}},
	"C12": {pkgs: []string{"concurrency"}},
	"C13": {pkgs: []string{"concurrency/lock", "concurrency/fifo", "concurrency/cmap"}, files: []string{"concurrency/fifo/mutex.go", "concurrency/fifo/map.go", "concurrency/cmap/mutex.go", "concurrency/lock/context.go", "concurrency/lock/outercancel.go"}},
	"C14": {pkgs: []string{"concurrency/cmap", "concurrency/slice"}, files: []string{"concurrency/cmap/map.go", "concurrency/cmap/atomic.go", "concurrency/slice/slice.go"}},
	"C19": {pkgs: []string{"crypto/spiffe"}},
	"C20": {pkgs: []string{"context"}},
}

// lbInFiles reports whether fn (or its outermost enclosing function), or the
// named type of its receiver, is declared in one of files.
func lbInFiles(p *Prog, fn *ssa.Function, files []string) bool {
	if len(files) == 0 {
		return true
	}
	for fn.Parent() != nil {
		fn = fn.Parent()
	}
	in := func(pos token.Pos) bool {
		if !pos.IsValid() {
			return false
		}
		s := p.Pos(pos)
		if i := strings.LastIndex(s, ":"); i > 0 {
			s = s[:i]
		}
		for _, f := range files {
			if s == f {
				return true
			}
		}
		return false
	}
	if in(fn.Pos()) {
		return true
	}
	if recv := fn.Signature.Recv(); recv != nil {
		t := recv.Type()
		if pt, ok := t.(*types.Pointer); ok {
			t = pt.Elem()
		}
		if n, ok := t.(*types.Named); ok && in(n.Obj().Pos()) {
			return true
		}
	}
	return false
}

// sharedLockBalance is run by runProp after the property's own rules.
func sharedLockBalance(id string, c *Ctx) {
	sc, ok := lbScope[id]
	if !ok {
		return
	}
	pkgs := sc.pkgs
	rule := id + ".LB-lock-balance"
	lockBalanceRuleOn(c.R, c.P, c.Locks(), rule, 0, pkgs, sc.files, lbConditional)
	c.Fixture("lockbal", func(fp *Prog, fr *Report) {
		fe := NewLockEngine(fp)
		fe.Run()
		lockBalanceRuleOn(fr, fp, fe, rule, 1, []string{""}, nil, nil)
	})
	if !strings.Contains(c.R.Explanation, "LB-lock-balance") {
		c.R.Explanation += " LB-lock-balance (shared rule): in " + strings.Join(pkgs, ", ") + " a function that acquires a lock itself leaves it in the same state on every return (after its deferred calls): a lock still held on some returns only — an early return that forgets the unlock — is reported when nothing returned lets the caller tell the exits apart (no results, or a non-nil error exactly on the exit that keeps the lock); a lock kept exactly on the nil-error exit is a conditional acquire (accepted), other disagreeing exits with results are UNDECIDED unless the function is in the reviewed list (3 functions of concurrency/lock); a lock some path releases before acquiring it is the caller's (unlock/relock window) and not examined; nor is a function with a lock operation the engine cannot attribute, with an Unlock method value or a call through a function value held in memory (the release may hide there), nor a closure that runs as part of its parent (only top-level functions and goroutine bodies are judged); no floor (code without mutexes has nothing to check) — the fixture is the positive example on every run. Panicking exits and locks the engine cannot resolve are not examined."
	}
}

type lbClass int

const (
	lbUnknown lbClass = iota
	lbLeak
	lbAcquireOnSuccess
)

// lbClassify tells a leak from a possible conditional acquire by what the two
// disagreeing exits return: nothing at all, or an error that is non-nil
// exactly where the lock is still held ⇒ leak; nil error exactly where it is
// held ⇒ the acquire-on-success contract shape; anything else ⇒ unknown.
func lbClassify(f lbFinding) lbClass {
	sig := f.Fn.Signature
	n := sig.Results().Len()
	if n == 0 {
		return lbLeak
	}
	if f.Same || f.HeldRet == nil || f.FreeRet == nil {
		return lbUnknown
	}
	last := sig.Results().At(n - 1).Type()
	if last.String() != "error" || len(f.HeldRet.Results) != n || len(f.FreeRet.Results) != n {
		return lbUnknown
	}
	constNil := func(v ssa.Value) bool {
		c, ok := v.(*ssa.Const)
		return ok && c.IsNil()
	}
	// over ALL exits: a conditional acquire keeps the lock exactly on exits
	// that report success; a leak keeps it on an exit that reports an error
	// while some exit that reports success has released it
	heldNil, heldErr, freeNil, freeErr := 0, 0, 0, 0
	for _, r := range f.HeldRets {
		if len(r.Results) != n {
			return lbUnknown
		}
		if constNil(r.Results[n-1]) {
			heldNil++
		} else {
			heldErr++
		}
	}
	for _, r := range f.FreeRets {
		if len(r.Results) != n {
			return lbUnknown
		}
		if constNil(r.Results[n-1]) {
			freeNil++
		} else {
			freeErr++
		}
	}
	switch {
	case heldErr > 0 && freeNil > 0 && heldNil == 0:
		return lbLeak // kept on an error exit, released on a success exit
	case heldNil > 0 && heldErr == 0 && freeNil == 0 && freeErr > 0:
		return lbAcquireOnSuccess
	case heldNil > 0 && freeNil > 0 && heldErr == 0 && freeErr == 0 && n == 1:
		return lbLeak // every exit reports success and nothing else is returned
	}
	return lbUnknown
}

func init() {
	if os.Getenv("KC_DEBUG_LB") == "" {
		return
	}
	register("XLB", func(c *Ctx) {
		p, e := c.P, c.Locks()
		res := lockBalance(e, p.Funcs)
		fmt.Printf("lock balance over the module: functions with own acquires=%d returns=%d findings=%d\n", res.Checked, res.Returns, len(res.Findings))
		cnt := map[string]int{}
		for _, fn := range p.Funcs {
			if len(fn.Blocks) > 0 && len(lbOwnAcquires(e, fn)) > 0 && fn.Pkg != nil {
				cnt[p.RelPath(fn.Pkg.Pkg.Path())]++
			}
		}
		fmt.Println("  per package:", cnt)
		for _, f := range res.Findings {
			fmt.Printf("  %s lock=%s held@%s other@%s same=%v\n", FuncName(p, f.Fn), shortID(f.Lock), p.Pos(f.HeldAt), p.Pos(f.OtherAt), f.Same)
		}
		c.R.Rule("XLB", "debug", 0)
	})
}
