package main

// C01: role resolution on the Encrypt / Decrypt cluster graphs and the rules
// that compare ORIGINS of values (R3 key derivation, R4 siblings, R7
// push-back, R8 wiring). Nothing here depends on the name of an unexported
// function, method, type, field or local: constructs are found by what they
// do (the call of cipher.AEAD.Seal, the buffer given to it as nonce, the
// hkdf.New whose output keys the AEAD, the write that precedes the segments…).

import (
	"fmt"
	"go/constant"
	"go/token"
	"go/types"
	"os"
	"sort"
	"strings"

	"golang.org/x/tools/go/ssa"
)

// c01Dir is one direction (Encrypt or Decrypt) with the roles found in its graph.
type c01Dir struct {
	root   string
	seal   bool
	g      *cGraph
	op     CV // the cipher.AEAD Seal/Open call
	opNode *cgNode
	opName string
	driver *cgLoop
	fill   *cgRead
	reads  []cgRead
	bound  cgLin
	hasB   bool

	nonceRoot   CV   // allocation of the nonce buffer (zero: the nonce is grown from nothing by append)
	nonceFinals []CV // the values handed to the AEAD (one per way of completing the nonce)
	prefixSrc   []CV
}

func (d *c01Dir) name() string { return d.root }

// srcKey renders a set of origins for comparison, ignoring nil/zero constants.
func (g *cGraph) srcSet(vals []CV) map[CV]bool {
	out := map[CV]bool{}
	for _, v := range vals {
		if c, ok := v.V.(*ssa.Const); ok && (c.IsNil() || c.Value == nil) {
			continue
		}
		out[v] = true
	}
	return out
}

func sameSet(a, b map[CV]bool) bool {
	if len(a) != len(b) {
		return false
	}
	for k := range a {
		if !b[k] {
			return false
		}
	}
	return true
}

func (g *cGraph) descSet(s map[CV]bool) string {
	var out []string
	for v := range s {
		out = append(out, g.desc(v))
	}
	sort.Strings(out)
	return "{" + strings.Join(out, ", ") + "}"
}

// desc: a short, position-free description of an origin.
func (g *cGraph) desc(v CV) string {
	if v.V == nil || v.C == nil {
		return "<none>"
	}
	switch x := v.V.(type) {
	case *ssa.Const:
		return x.String()
	case *ssa.Parameter:
		return "parameter " + x.Name() + " of " + v.C.fn.Name()
	case *ssa.UnOp:
		if id, _, ok := c01AnyField(x); ok {
			return "field " + typeShort(id.Type) + "." + id.Field
		}
	case *ssa.Field:
		id := fieldIDOfField(x)
		return "field " + typeShort(id.Type) + "." + id.Field
	case *ssa.Call:
		if n := calleeFull(x); n != "" {
			return "result of " + n
		}
		if id, _, ok := c01AnyField(x.Call.Value); ok {
			return "result of " + id.Field + "(...)"
		}
		return "result of a dynamic call in " + v.C.fn.Name()
	case *ssa.Extract:
		return g.desc(CV{v.C, x.Tuple})
	case *ssa.Slice:
		lo, hi := "", ""
		if x.Low != nil {
			if k, ok := g.constInt(CV{v.C, x.Low}); ok {
				lo = fmt.Sprint(k)
			}
		}
		if x.High != nil {
			if k, ok := g.constInt(CV{v.C, x.High}); ok {
				hi = fmt.Sprint(k)
			}
		}
		return fmt.Sprintf("window [%s:%s] of %s", lo, hi, g.desc(g.res(CV{v.C, x.X})))
	case *ssa.MakeSlice, *ssa.Alloc:
		return "buffer allocated in " + v.C.fn.Name()
	}
	return v.V.Name() + " in " + v.C.fn.Name()
}

// fieldLoadOf: v is a load of exported field typ.field (any instance).
func isFieldLoad(v CV, typ, field string) bool {
	id, _, ok := c01AnyField(v.V)
	return ok && id.Type == typ && id.Field == field
}

// callsThroughField: calls in g whose function value is loaded from field typ.field.
func (g *cGraph) callsThroughField(field string) []CV {
	var out []CV
	g.eachInstr(func(n *cgNode, in ssa.Instruction) {
		c, ok := in.(*ssa.Call)
		if !ok || c.Call.IsInvoke() {
			return
		}
		v := g.deep(CV{n.C, c.Call.Value})
		if id, _, ok := c01AnyField(v.V); ok && id.Field == field {
			out = append(out, CV{n.C, c})
		}
	})
	return out
}

// callsTo: calls in g of pkg.[recv.]name.
func (g *cGraph) callsTo(pkg, recv, name string) []CV {
	var out []CV
	g.eachInstr(func(n *cgNode, in ssa.Instruction) {
		if c, ok := in.(*ssa.Call); ok && callIs(c, pkg, recv, name) {
			out = append(out, CV{n.C, c})
		}
	})
	return out
}

func (g *cGraph) arg(call CV, i int) CV {
	c := call.V.(*ssa.Call)
	args := c.Call.Args
	if i >= len(args) {
		return CV{}
	}
	return CV{call.C, args[i]}
}

// ---------------------------------------------------------------- roles

func (x *c01Ctx) dir(root string) *c01Dir { return x.dirs[root] }

// roleRules: everything that needs both graphs.
func (x *c01Ctx) roleRules() {
	e, d := x.dir("Encrypt"), x.dir("Decrypt")
	if e == nil || d == nil || !e.op.ok() || !d.op.ok() {
		x.r.Undecide("C01: the segment operations (cipher.AEAD.Seal under Encrypt, Open under Decrypt) could not both be located; R3/R4/R8 origin rules not evaluated")
		return
	}
	for _, dd := range []*c01Dir{e, d} {
		x.opArgs(dd)
	}
	// the two directions build their nonce in the same function
	// the nonce layout, for the function(s) that build it (one shared builder, or one per direction)
	if (e.nonceRoot.ok() || len(e.nonceFinals) > 0) && (d.nonceRoot.ok() || len(d.nonceFinals) > 0) {
	dirs:
		for _, dd := range []*c01Dir{e, d} {
			var fn *ssa.Function
			var finals []ssa.Value
			if dd.nonceRoot.ok() {
				fn = dd.nonceRoot.C.fn
			}
			for _, f := range dd.nonceFinals {
				if fn == nil {
					fn = f.C.fn
				}
				if f.C.fn != fn {
					x.r.Undecide("C01.R3: %s: the nonce is started in %s and completed in %s; the layout is only modelled within one function", dd.root, fn.Name(), f.C.fn.Name())
					continue dirs
				}
				finals = append(finals, f.V)
			}
			x.nonceLayout(fn, dd.nonceRoot.V, finals, dd.root)
		}
	}
	x.kdfG(e)
	x.kdfG(d)
	x.macG(e)
	x.macG(d)
	x.wiringE(e)
	x.wiringD(d)
	x.pushbackG(d)
	x.headerG(e, d)
	x.base64G(e)
	x.base64G(d)
	x.bufferSizeG(e, d)
	x.callbackMemory(e.g, "Encrypt", "C01.R9-callback-memory", []string{"WrapKeyFn"})
	x.callbackMemory(d.g, "Decrypt", "C01.R9-callback-memory", []string{"UnwrapKeyFn"})
}

// ---------------------------------------------------------------- R9: memory owned by the caller's callbacks

type c01Sink struct {
	dst  CV
	what string
	pos  string
}

// writeSinks: the places in the graph that overwrite the content of a byte slice: clear(x), copy(x, …),
// x[i] = v, and the destination arguments of the library writers used around key material. Deferred calls
// (builtins and same-package functions / closures, one level) are included.
func (g *cGraph) writeSinks(p *Prog) []c01Sink {
	var out []c01Sink
	isBytes := func(v ssa.Value) bool {
		sl, ok := v.Type().Underlying().(*types.Slice)
		if !ok {
			return false
		}
		b, ok := sl.Elem().Underlying().(*types.Basic)
		return ok && b.Kind() == types.Byte
	}
	var fromCall func(c *cgCtx, cc *ssa.CallCommon, pos token.Pos, deferred bool, depth int)
	fromCall = func(c *cgCtx, cc *ssa.CallCommon, pos token.Pos, deferred bool, depth int) {
		add := func(v ssa.Value, what string) {
			if v != nil && isBytes(v) {
				out = append(out, c01Sink{CV{c, v}, what, p.Pos(pos)})
			}
		}
		if b, ok := cc.Value.(*ssa.Builtin); ok {
			switch b.Name() {
			case "clear":
				if len(cc.Args) == 1 {
					add(cc.Args[0], "clear()")
				}
			case "copy":
				if len(cc.Args) == 2 {
					add(cc.Args[0], "copy() into it")
				}
			}
			return
		}
		var obj *types.Func
		if cc.IsInvoke() {
			obj = cc.Method
		} else if f, ok := cc.Value.(*ssa.Function); ok {
			obj, _ = f.Object().(*types.Func)
		}
		if obj != nil && obj.Pkg() != nil {
			full := obj.Pkg().Path() + "." + obj.Name()
			args := cc.Args
			if !cc.IsInvoke() && obj.Type().(*types.Signature).Recv() != nil && len(args) > 0 {
				args = args[1:]
			}
			dstIdx := -1
			switch full {
			case "io.ReadFull", "io.ReadAtLeast":
				dstIdx = 1
			case "crypto/rand.Read", "crypto/subtle.XORBytes", "crypto/subtle.ConstantTimeCopy", "encoding/base64.Encode", "encoding/hex.Encode",
				"encoding/binary.PutUint16", "encoding/binary.PutUint32", "encoding/binary.PutUint64", "crypto/cipher.XORKeyStream", "crypto/cipher.Seal", "crypto/cipher.Open", "io.Read":
				dstIdx = 0
				if full == "crypto/subtle.ConstantTimeCopy" {
					dstIdx = 1
				}
			}
			if dstIdx >= 0 && dstIdx < len(args) {
				add(args[dstIdx], full+" writing into it")
			}
		}
		// deferred same-package function or closure: its own sinks on parameters / captured variables, one level
		if deferred && depth == 0 {
			var fn *ssa.Function
			var binds []ssa.Value
			switch f := cc.Value.(type) {
			case *ssa.Function:
				fn = f
			case *ssa.MakeClosure:
				fn, _ = f.Fn.(*ssa.Function)
				binds = f.Bindings
			}
			if fn == nil || fn.Pkg != g.pkg || len(fn.Blocks) == 0 {
				return
			}
			kid := &cgCtx{parent: c, fn: fn, nodes: map[*ssa.BasicBlock][]*cgNode{}, kids: map[ssa.Instruction]*cgCtx{}, views: map[ssa.Value][]*cgCtx{}, id: 100000 + len(out), key: c.key + "/defer"}
			for _, a := range cc.Args {
				kid.args = append(kid.args, CV{c, a})
			}
			for _, b := range binds {
				kid.binds = append(kid.binds, CV{c, b})
			}
			allInstrs(fn, func(in ssa.Instruction) {
				if ci, ok := in.(ssa.CallInstruction); ok {
					fromCall(kid, ci.Common(), ci.Pos(), false, depth+1)
				}
				if st, ok := in.(*ssa.Store); ok {
					if ia, ok := st.Addr.(*ssa.IndexAddr); ok && isBytes(ia.X) {
						out = append(out, c01Sink{CV{kid, ia.X}, "an element store", p.Pos(st.Pos())})
					}
				}
			})
		}
	}
	for _, n := range g.nodes {
		for _, in := range n.instrs() {
			switch y := in.(type) {
			case *ssa.Defer:
				fromCall(n.C, y.Common(), y.Pos(), true, 0)
			case ssa.CallInstruction:
				fromCall(n.C, y.Common(), y.Pos(), false, 0)
			case *ssa.Store:
				if ia, ok := y.Addr.(*ssa.IndexAddr); ok && isBytes(ia.X) {
					out = append(out, c01Sink{CV{n.C, ia.X}, "an element store", p.Pos(y.Pos())})
				}
			}
		}
	}
	return out
}

// callbackMemory (R9): the byte slices returned by the caller's key callbacks stay untouched — an unwrap/wrap
// function may hand out a slice it keeps (a key cache), so overwriting it breaks every later use of that key.
func (x *c01Ctx) callbackMemory(g *cGraph, root, rule string, fields []string) {
	r := x.r
	owned := map[CV]string{}
	for _, f := range fields {
		for _, call := range g.callsThroughField(f) {
			c := call.V.(*ssa.Call)
			sig := c.Call.Signature()
			for i := 0; i < sig.Results().Len(); i++ {
				if sl, ok := sig.Results().At(i).Type().Underlying().(*types.Slice); ok {
					if b, ok := sl.Elem().Underlying().(*types.Basic); ok && b.Kind() == types.Byte {
						if v := callResult(c, i); v != nil {
							owned[g.res(CV{call.C, v})] = f
						}
					}
				}
			}
		}
	}
	cons := root + " leaves the callbacks' key slices untouched"
	if len(owned) == 0 {
		r.Undecide("C01.R9: %s: no call through %v returning a byte slice found", root, fields)
		return
	}
	sinks := g.writeSinks(x.p)
	for _, sk := range sinks {
		srcs := g.sources(sk.dst)
		var roots []CV
		for _, sv := range srcs {
			roots = append(roots, sv)
			rt := g.sliceRoot(sv)
			if rt != sv {
				roots = append(roots, g.sources(rt)...)
			}
		}
		for _, rt := range roots {
			if f, ok := owned[g.res(rt)]; ok {
				r.Violation(rule, cons, sk.pos, fmt.Sprintf("%s overwrites (%s) a byte slice that can be the one returned by the caller's %s: that function may hand out memory it keeps (a cache of unwrapped keys, a fixed key), so after the first call the key it returns is destroyed and later documents using it no longer decrypt / are wrapped with garbage; work on a copy", root, sk.what, f))
				return
			}
		}
	}
	r.OK(rule, cons, "-", fmt.Sprintf("none of the %d places that overwrite a byte slice can reach a slice returned by %v", len(sinks), fields))
}

// opArgs: R4 — nonce comes from the pipeline's (counter,last), no AAD; finds the nonce buffer.
func (x *c01Ctx) opArgs(d *c01Dir) {
	r, g := x.r, d.g
	opc := d.op.V.(*ssa.Call)
	fname := x.fnOf(d.op)
	pos := g.pos(d.op)
	r.Check(g.isNil(CV{d.op.C, opc.Call.Args[3]}), c01R4, d.root+" additional data", pos, "no AAD", "AEAD."+d.opName+" in "+fname+" is given additional authenticated data; the spec has none, so spec implementations cannot open/produce these segments")
	srcs := g.srcSet(g.sources(CV{d.op.C, opc.Call.Args[1]}))
	roots := map[CV]bool{}
	var finals, spread []CV
	for s := range srcs {
		base, sp, fin := g.nonceChain(s)
		roots[base] = true
		spread = append(spread, sp...)
		finals = append(finals, fin)
	}
	if len(roots) != 1 {
		r.Undecide("C01.R4: the nonce given to AEAD.%s in %s has %d possible origins %s", d.opName, fname, len(roots), g.descSet(roots))
		return
	}
	for rt := range roots {
		d.nonceRoot = rt
	}
	sort.Slice(finals, func(i, j int) bool { return g.pos(finals[i]) < g.pos(finals[j]) })
	d.nonceFinals = finals
	switch d.nonceRoot.V.(type) {
	case *ssa.Alloc, *ssa.MakeSlice:
	default:
		if isNilConst(d.nonceRoot.V) && len(spread) > 0 {
			d.nonceRoot = CV{} // grown from nothing by append
			break
		}
		r.Undecide("C01.R4: the nonce given to AEAD.%s in %s is not a freshly allocated buffer (%s)", d.opName, fname, g.desc(d.nonceRoot))
		d.nonceRoot, d.nonceFinals = CV{}, nil
		return
	}
	// the bytes copied into its prefix (in place, or appended whole)
	for _, sp := range spread {
		// append(nonce, x[:k]...) takes the first bytes of x, as copy(nonce[0:k], x) does
		for i := 0; i < 4; i++ {
			sl, ok := g.deep(sp).V.(*ssa.Slice)
			if !ok {
				break
			}
			if sl.Low != nil {
				if k, ok := g.constInt(CV{g.deep(sp).C, sl.Low}); !ok || k != 0 {
					break
				}
			}
			if _, isSlice := sl.X.Type().Underlying().(*types.Slice); !isSlice {
				break
			}
			sp = CV{g.deep(sp).C, sl.X}
		}
		d.prefixSrc = append(d.prefixSrc, g.sources(sp)...)
	}
	if !d.nonceRoot.ok() {
		return
	}
	c := d.nonceRoot.C
	allInstrs(c.fn, func(in ssa.Instruction) {
		call, ok := in.(*ssa.Call)
		if !ok || builtinName(call) != "copy" || len(call.Call.Args) != 2 {
			return
		}
		if g.sliceRoot(CV{c, call.Call.Args[0]}) == d.nonceRoot {
			d.prefixSrc = append(d.prefixSrc, g.sources(CV{c, call.Call.Args[1]})...)
		}
	})
}

// nonceChain follows a byte slice back through the calls that only extend it
// (append, binary.*.AppendUintN) to the buffer it starts from. spread: the
// slices whose content was appended whole (append(x, y...)); final: the value
// the chain was entered at.
func (g *cGraph) nonceChain(v CV) (base CV, spread []CV, final CV) {
	v = g.deep(v)
	final = v
	for i := 0; i < 16; i++ {
		c, ok := v.V.(*ssa.Call)
		if !ok {
			break
		}
		if builtinName(c) == "append" && len(c.Call.Args) == 2 {
			if _, lit := c01VarargElems(c.Call.Args[1]); !lit && !isNilConst(c.Call.Args[1]) {
				spread = append(spread, CV{v.C, c.Call.Args[1]})
			}
			v = g.deep(CV{v.C, c.Call.Args[0]})
			continue
		}
		if args, _, _, ok := c01ByteOrderCall(c, "AppendUint"); ok {
			v = g.deep(CV{v.C, args[0]})
			continue
		}
		break
	}
	return g.sliceRoot(v), spread, final
}

// ---------------------------------------------------------------- R3: key derivation

type c01Deriv struct {
	call   CV
	secret map[CV]bool
	salt   map[CV]bool
	saltOK bool // salt resolved (nil counts as resolved-empty)
	info   string
	infoOK bool
	out    CV // the buffer the derived key is read into
}

func (x *c01Ctx) derivs(d *c01Dir) []c01Deriv {
	g := d.g
	var out []c01Deriv
	for _, hk := range g.callsTo("golang.org/x/crypto/hkdf", "", "New") {
		dv := c01Deriv{call: hk}
		dv.secret = g.srcSet(g.contentSources(g.arg(hk, 1)))
		saltSrc := g.contentSources(g.arg(hk, 2))
		dv.salt = g.srcSet(saltSrc)
		dv.saltOK = len(saltSrc) > 0
		dv.info, dv.infoOK = g.constString(g.arg(hk, 3))
		// the reader is consumed by io.ReadFull / Read into a buffer
		g.eachInstr(func(n *cgNode, in ssa.Instruction) {
			c, ok := in.(*ssa.Call)
			if !ok {
				return
			}
			if (callIs(c, "io", "", "ReadFull") || callIs(c, "io", "", "ReadAtLeast")) && len(c.Call.Args) >= 2 && g.res(CV{n.C, c.Call.Args[0]}) == g.res(hk) {
				dv.out = g.sliceRoot(CV{n.C, c.Call.Args[1]})
			}
			if c01IsReadCall(c) && c.Call.IsInvoke() && g.res(CV{n.C, c.Call.Value}) == g.res(hk) {
				dv.out = g.sliceRoot(CV{n.C, c.Call.Args[0]})
			}
		})
		out = append(out, dv)
	}
	return out
}

func (x *c01Ctx) kdfG(d *c01Dir) {
	r, g, s := x.r, d.g, x.spec
	dvs := x.derivs(d)
	if len(dvs) == 0 {
		r.Undecide("C01.R3: %s reaches no call hkdf.New(hash, secret, salt, info)", d.root)
		return
	}
	// consumers
	var hmacKey, aeadKey map[CV]bool
	for _, hm := range g.callsTo("crypto/hmac", "", "New") {
		r.Check(c01FuncValueIs(g.res(g.arg(hm, 0)).V, "crypto/sha256", "New"), c01R3, d.root+" HMAC hash", g.pos(hm), "HMAC over sha256.New", "the header MAC is not HMAC-SHA-256 (spec: MAC = HMAC-SHA-256(...))")
		hmacKey = g.srcSet(g.sources(g.arg(hm, 1)))
	}
	g.eachInstr(func(n *cgNode, in ssa.Instruction) {
		c, ok := in.(*ssa.Call)
		if !ok || len(c.Call.Args) != 1 {
			return
		}
		obj := calleeObj(c)
		if obj == nil || obj.Pkg() == nil {
			return
		}
		if (obj.Pkg().Path() == "crypto/aes" && obj.Name() == "NewCipher") || strings.HasSuffix(obj.Pkg().Path(), "/chacha20poly1305") {
			ks := g.srcSet(g.sources(CV{n.C, c.Call.Args[0]}))
			if aeadKey == nil {
				aeadKey = ks
			} else {
				for k := range ks { // different ciphers keyed from different places: all of them count
					aeadKey[k] = true
				}
			}
		}
	})
	// what gets wrapped (Encrypt) / what was unwrapped (Decrypt)
	var fileKey map[CV]bool
	if d.seal {
		for _, w := range g.callsThroughField("WrapKeyFn") {
			fileKey = g.srcSet(g.contentSources(g.arg(w, 0)))
		}
	} else {
		for _, u := range g.callsThroughField("UnwrapKeyFn") {
			if res := callResult(u.V.(*ssa.Call), 0); res != nil {
				fileKey = map[CV]bool{g.res(CV{u.C, res}): true}
			}
		}
	}
	prefix := g.srcSet(g.contentSourcesOf(d.prefixSrc))
	if u := g.unresolved(hmacKey, aeadKey, fileKey, prefix); len(u) > 0 {
		r.Undecide("C01.R3: %s: the origin of a key/prefix value is held somewhere the flow model cannot follow (%s); key-derivation rules not decided", d.root, g.desc(u[0]))
		return
	}
	for _, k := range []struct {
		specKey string
		cons    map[CV]bool
		use     string
	}{{"mac-key", hmacKey, "HMAC key of the header"}, {"payload-key", aeadKey, "AEAD key of the segments"}} {
		cons := d.root + " HKDF derivation of the " + k.specKey
		sp, ok := s.HKDF[k.specKey]
		if !ok {
			r.Undecide("C01.R3: README has no HKDF line for %s", k.specKey)
			continue
		}
		if k.cons == nil {
			r.Undecide("C01.R3: %s: cannot find where the %s is consumed", d.root, k.use)
			continue
		}
		var dv *c01Deriv
		for i := range dvs {
			if dvs[i].out.ok() && k.cons[dvs[i].out] {
				dv = &dvs[i]
			}
		}
		if dv == nil {
			r.Violation(c01R3, cons, g.pos(dvs[0].call), fmt.Sprintf("the %s comes from %s, which is not the output of an HKDF derivation (spec: %s = HKDF-SHA-256(ikm = file key, salt = %s, info = %q))", k.use, g.descSet(k.cons), k.specKey, sp[0], sp[1]))
			continue
		}
		pos := g.pos(dv.call)
		if len(k.cons) != 1 {
			r.Violation(c01R3, cons, pos, fmt.Sprintf("the %s can also come from %s besides the HKDF output", k.use, g.descSet(k.cons)))
			continue
		}
		if !c01FuncValueIs(g.res(g.arg(dv.call, 0)).V, "crypto/sha256", "New") {
			r.Violation(c01R3, cons, pos, "HKDF is not instantiated with crypto/sha256.New (spec: HKDF-SHA-256): the derived key differs from a spec implementation's")
			continue
		}
		if !dv.infoOK || !dv.saltOK {
			r.Undecide("C01.R3: %s: cannot resolve the (salt, info) arguments of the HKDF call deriving the %s", d.root, k.use)
			continue
		}
		saltGood := false
		switch strings.ToLower(sp[0]) {
		case "empty":
			saltGood = len(dv.salt) == 0
			if !saltGood && len(dv.salt) == 1 {
				for v := range dv.salt {
					if sv, ok := g.constString(v); ok && sv == "" {
						saltGood = true
					}
				}
			}
		case "nonce prefix":
			if len(prefix) == 0 {
				// which bytes open the nonce was not established (see the R3/R4 nonce reasons): not "a different salt"
				r.Undecide("C01.R3: %s: the bytes that open the nonce were not identified, so the salt of the %s derivation cannot be compared with them", d.root, k.specKey)
				continue
			}
			saltGood = sameSet(dv.salt, prefix)
		default:
			r.Undecide("C01.R3: README salt %q of %s is not modelled", sp[0], k.specKey)
			continue
		}
		secretGood := fileKey != nil
		if d.seal {
			secretGood = secretGood && sameSet(dv.secret, fileKey)
		} else {
			for v := range fileKey {
				if !dv.secret[v] {
					secretGood = false
				}
			}
		}
		switch {
		case dv.info != sp[1] || !saltGood:
			r.Violation(c01R3, cons, pos, fmt.Sprintf("the %s is derived with info=%q salt=%s; the README says info=%q salt=%s: Encrypt and Decrypt may still agree with each other but not with the published format", k.use, dv.info, g.descSet(dv.salt), sp[1], sp[0]))
		case !secretGood && g.derivedByCall(dv.secret, fileKey):
			r.Undecide("C01.R3: %s: the HKDF input is computed from the file key by a call the flow model does not interpret (%s)", d.root, g.descSet(dv.secret))
		case !secretGood:
			what := "the file key that Encrypt hands to WrapKeyFn"
			if !d.seal {
				what = "the key returned by UnwrapKeyFn"
			}
			r.Violation(c01R3, cons, pos, fmt.Sprintf("HKDF's input key material %s is not %s %s (spec: ikm = file key)", g.descSet(dv.secret), what, g.descSet(fileKey)))
		default:
			r.OK(c01R3, cons, pos, fmt.Sprintf("%s = HKDF-SHA-256(ikm = file key, salt = %s, info = %q) as in the README", k.use, sp[0], sp[1]))
		}
	}
	// sizes of fresh key material (Encrypt): 32-byte key, prefix of the spec's length
	if d.seal {
		width := func(set map[CV]bool) (int64, bool) {
			if len(set) != 1 {
				return 0, false
			}
			for v := range set {
				return g.sliceLen(v)
			}
			return 0, false
		}
		kw, ok1 := width(fileKey)
		pw, ok2 := width(prefix)
		if !ok1 || !ok2 {
			r.Undecide("C01.R3: the sizes of the fresh file key / nonce prefix in Encrypt are not constant windows of the random buffer (%s / %s)", g.descSet(fileKey), g.descSet(prefix))
		} else {
			r.Check(kw == 32 && pw == s.PrefixLen, c01R3, "fresh key and nonce-prefix sizes", "-", fmt.Sprintf("file key %d bytes, nonce prefix %d bytes", kw, pw),
				fmt.Sprintf("a fresh file key has %d bytes and its nonce prefix %d bytes; the README says 32 and %d: Decrypt (Manifest.Validate, len != 32 test) rejects what Encrypt wrote, or the nonce differs from the published layout", kw, pw, s.PrefixLen))
		}
	}
}

// sliceLen: constant length of a slice value (window bounds / make length).
func (g *cGraph) sliceLen(v CV) (int64, bool) {
	v = g.deep(v)
	switch x := v.V.(type) {
	case *ssa.MakeSlice:
		return g.constInt(CV{v.C, x.Len})
	case *ssa.Alloc:
		if arr, ok := deref(x.Type()).Underlying().(*types.Array); ok {
			return arr.Len(), true
		}
	case *ssa.Slice:
		var lo int64
		if x.Low != nil {
			k, ok := g.constInt(CV{v.C, x.Low})
			if !ok {
				return 0, false
			}
			lo = k
		}
		if x.High != nil {
			hi, ok := g.constInt(CV{v.C, x.High})
			return hi - lo, ok
		}
		n, ok := g.sliceLen(CV{v.C, x.X})
		return n - lo, ok
	}
	return 0, false
}

// ---------------------------------------------------------------- R4: MACed message

func (x *c01Ctx) macG(d *c01Dir) {
	r, g, s := x.r, d.g, x.spec
	hms := g.callsTo("crypto/hmac", "", "New")
	if len(hms) != 1 {
		r.Undecide("C01.R4: %s reaches %d hmac.New calls (expected one)", d.root, len(hms))
		return
	}
	hm := g.res(hms[0])
	var msg CV
	g.eachInstr(func(n *cgNode, in ssa.Instruction) {
		c, ok := in.(*ssa.Call)
		if !ok || !c.Call.IsInvoke() || c.Call.Method.Name() != "Write" || len(c.Call.Args) != 1 {
			return
		}
		if g.res(CV{n.C, c.Call.Value}) == hm {
			msg = CV{n.C, c.Call.Args[0]}
		}
	})
	if !msg.ok() {
		r.Undecide("C01.R4: %s: no Write of a message into the HMAC found", d.root)
		return
	}
	cone := g.cone(msg)
	hasScheme, hasNL := false, false
	var marshals []CV
	for v := range cone {
		if sv, ok := g.constString(v); ok {
			if sv == s.Scheme {
				hasScheme = true
			}
			if strings.Contains(sv, "\n") {
				hasNL = true
			}
			if strings.HasPrefix(sv, s.Scheme) && strings.HasSuffix(sv, "\n") {
				hasScheme = true
			}
		}
		if c, ok := v.V.(*ssa.Const); ok && c.Value != nil {
			if k, ok := g.constInt(v); ok && k == 10 {
				hasNL = true
			}
		}
		if c, ok := v.V.(*ssa.Call); ok && (callIs(c, "encoding/json", "", "Marshal") || callIs(c, "encoding/json", "", "MarshalIndent")) {
			marshals = append(marshals, v)
		}
	}
	pos := g.pos(msg)
	// when the construction is fully understood, the order of the parts is checked too
	if parts, ok := g.concat(msg); ok {
		vals, plain := 0, true
		for _, pt := range parts {
			if pt.B64 {
				plain = false
			}
			if !pt.isConst() {
				vals++
			}
		}
		if plain && vals == 1 {
			good := len(parts) == 3 && parts[0].isConst() && parts[0].Const == s.Scheme+"\n" && !parts[1].isConst() && parts[2].isConst() && parts[2].Const == "\n"
			if !good {
				var shape []string
				for _, pt := range parts {
					if pt.isConst() {
						shape = append(shape, fmt.Sprintf("%q", pt.Const))
					} else {
						shape = append(shape, "<"+g.desc(pt.Val)+">")
					}
				}
				r.Violation(c01R4, d.root+" MACed message", pos, fmt.Sprintf("the message %s MACs is %s; the README MACs the scheme line %q, a line feed, the manifest and a line feed, in that order", d.root, strings.Join(shape, " || "), s.Scheme))
				return
			}
		}
	}
	if d.seal {
		// the manifest: json.Marshal of a Manifest
		hasManifest := false
		for _, m := range marshals {
			if callIs(m.V.(*ssa.Call), "encoding/json", "", "Marshal") {
				hasManifest = true
			}
		}
		r.Check(hasScheme && hasManifest && hasNL, c01R4, "Encrypt MACed message", pos, "built from the scheme line, the marshalled manifest and line feeds",
			fmt.Sprintf("the message Encrypt MACs is not built from the scheme line (%v), the compact json.Marshal of the manifest (%v) and line feeds (%v); the README MACs the first two header lines including the trailing newline", hasScheme, hasManifest, hasNL))
		return
	}
	// Decrypt: the manifest bytes exactly as read = what json.Unmarshal parses
	var raw CV
	for _, u := range g.callsTo("encoding/json", "", "Unmarshal") {
		raw = g.deep(g.arg(u, 0))
	}
	if !raw.ok() {
		r.Undecide("C01.R4: Decrypt no longer parses the manifest with json.Unmarshal")
		return
	}
	hasRaw := cone[raw]
	if !hasRaw {
		// the same bytes may reach both places through different copies: compare origins
		rs := g.srcSet(g.sources(raw))
		for v := range cone {
			if rs[v] {
				hasRaw = true
			}
		}
	}
	r.Check(hasScheme && hasRaw && hasNL && len(marshals) == 0, c01R4, "Decrypt MACed message", pos, "MAC recomputed over the scheme line and the manifest bytes exactly as read",
		fmt.Sprintf("the message Decrypt recomputes the MAC over is not the scheme line (%v) + the manifest bytes as read from the header (%v, re-encoded with json.Marshal: %v) + line feeds (%v); the README requires the MAC to be checked on the manifest string as included in the header, never on a re-encoding — documents from other JSON encoders would be rejected", hasScheme, hasRaw, len(marshals) > 0, hasNL))
}

// ---------------------------------------------------------------- R8: wiring

func (x *c01Ctx) manifestStores(g *cGraph) map[string][]CV {
	mfKey := x.pkg + ".Manifest"
	out := map[string][]CV{}
	g.eachInstr(func(n *cgNode, in ssa.Instruction) {
		st, ok := in.(*ssa.Store)
		if !ok {
			return
		}
		if fa, ok := g.res(CV{n.C, st.Addr}).V.(*ssa.FieldAddr); ok {
			if id := fieldIDOfAddr(fa); id.Type == mfKey {
				out[id.Field] = append(out[id.Field], CV{n.C, st.Val})
			}
		}
	})
	return out
}

// factoryCipher: origins of the Cipher-typed value the AEAD constructor is chosen by.
func (x *c01Ctx) factoryCipher(d *c01Dir) map[CV]bool {
	g := d.g
	ci := x.p.Named(c01Rel, "Cipher")
	// the AEAD: receiver of the Seal/Open invoke
	aead := g.sources(CV{d.op.C, d.op.V.(*ssa.Call).Call.Value})
	ctxs := map[*cgCtx]bool{}
	for _, a := range aead {
		ctxs[a.C] = true
	}
	out := map[CV]bool{}
	g.eachInstr(func(n *cgNode, in ssa.Instruction) {
		if !ctxs[n.C] {
			return
		}
		bo, ok := in.(*ssa.BinOp)
		if !ok || (bo.Op != token.EQL && bo.Op != token.NEQ) {
			return
		}
		for _, opd := range []ssa.Value{bo.X, bo.Y} {
			if _, isK := opd.(*ssa.Const); isK || !types.Identical(opd.Type(), ci) {
				continue
			}
			for _, sv := range g.sources(CV{n.C, opd}) {
				out[sv] = true
			}
		}
	})
	return out
}

func (x *c01Ctx) wiringE(d *c01Dir) {
	r, g := x.r, d.g
	stores := x.manifestStores(g)
	wraps := g.callsThroughField("WrapKeyFn")
	if len(stores) == 0 || len(wraps) != 1 {
		r.Undecide("C01.R8: Encrypt: Manifest literal / WrapKeyFn call not found (%d field stores, %d calls)", len(stores), len(wraps))
		return
	}
	wrap := wraps[0]
	pos := g.pos(wrap)
	if u := g.unresolved(x.factoryCipher(d), g.srcSet(d.prefixSrc)); len(u) > 0 {
		r.Undecide("C01.R8: Encrypt: the origin of the cipher / nonce prefix used for the segments is held somewhere the flow model cannot follow (%s); wiring rules not decided", g.desc(u[0]))
		return
	}
	// the value each Manifest field has when the manifest is marshalled (flow-sensitive), else the single store
	atMarshal := map[string][]cgLeaf{}
	for _, m := range g.callsTo("encoding/json", "", "Marshal") {
		obj := g.res(g.arg(m, 0))
		if mi, ok := obj.V.(*ssa.MakeInterface); ok {
			obj = g.res(CV{obj.C, mi.X})
		}
		al, ok := obj.V.(*ssa.Alloc)
		if !ok || namedKey(al.Type()) != x.pkg+".Manifest" {
			continue
		}
		st := structOf(al.Type())
		mn := g.nodeOf(m.C, m.V.(*ssa.Call))
		for i := 0; st != nil && i < st.NumFields(); i++ {
			if lv, ok := g.valuesAtLoc(fmt.Sprintf("%s#%d", cvKey(obj), i), obj, mn, instrIndex(m.V.(*ssa.Call))); ok {
				atMarshal[st.Field(i).Name()] = lv
			}
		}
	}
	one := func(f string) (CV, bool) {
		if lv, ok := atMarshal[f]; ok {
			var val CV
			same, zero := true, false
			for _, l := range lv {
				if l.Zero {
					zero = true
					continue
				}
				if val.ok() && g.res(l.Val) != g.res(val) {
					same = false
				}
				val = l.Val
			}
			if val.ok() && same && !zero {
				return val, true
			}
			if f != "KeyName" {
				return CV{}, false
			}
		}
		if len(stores[f]) != 1 {
			return CV{}, false
		}
		return stores[f][0], true
	}
	// cipher
	if v, ok := one("Cipher"); ok {
		a, b := g.srcSet(g.sources(v)), x.factoryCipher(d)
		r.Check(len(b) > 0 && sameSet(a, b), c01R8, "Encrypt manifest cipher", pos, "Manifest.Cipher is the cipher the AEAD is built for",
			fmt.Sprintf("Manifest.Cipher comes from %s but the AEAD that seals the segments is chosen by %s: the manifest announces a different cipher than the one sealing the segments", g.descSet(a), g.descSet(b)))
	} else {
		r.Undecide("C01.R8: Manifest.Cipher is not assigned exactly once under Encrypt")
	}
	// wrapped key
	if v, ok := one("WFK"); ok {
		res := callResult(wrap.V.(*ssa.Call), 0)
		r.Check(res != nil && g.deep(v) == g.res(CV{wrap.C, res}), c01R8, "Encrypt manifest wrapped key", pos, "Manifest.WFK is WrapKeyFn's first result", "Manifest.WFK is not the wrapped key returned by WrapKeyFn ("+g.desc(g.deep(v))+")")
	} else {
		r.Undecide("C01.R8: Manifest.WFK is not assigned exactly once under Encrypt")
	}
	// nonce prefix
	if v, ok := one("NoncePrefix"); ok {
		a, b := g.srcSet(g.sources(v)), g.srcSet(d.prefixSrc)
		if len(b) == 0 {
			r.Undecide("C01.R8: Encrypt: the bytes that open the nonce were not identified; Manifest.NoncePrefix cannot be compared with them")
		} else {
			r.Check(sameSet(a, b), c01R8, "Encrypt manifest nonce prefix", pos, "Manifest.NoncePrefix is the prefix that goes into every nonce",
				fmt.Sprintf("Manifest.NoncePrefix comes from %s but the nonces are built from %s: Decrypt derives a different payload key and nonces", g.descSet(a), g.descSet(b)))
		}
	} else {
		r.Undecide("C01.R8: Manifest.NoncePrefix is not assigned exactly once under Encrypt")
	}
	// algorithm
	if v, ok := one("KeyWrappingAlgorithm"); ok {
		a := g.srcSet(g.sources(v))
		b := map[CV]bool{}
		argAlg := g.arg(wrap, 1)
		for _, sv := range g.sources(c01StripConv(g, argAlg)) {
			b[sv] = true
		}
		b = g.srcSet(keysCV(b))
		r.Check(len(a) > 0 && sameSet(a, b), c01R8, "Encrypt manifest key algorithm", pos, "the algorithm given to WrapKeyFn is the one stored in the manifest",
			fmt.Sprintf("the algorithm handed to WrapKeyFn (%s) and the one written to the manifest (%s) are different values: Decrypt asks UnwrapKeyFn for another algorithm", g.descSet(b), g.descSet(a)))
	} else {
		r.Undecide("C01.R8: Manifest.KeyWrappingAlgorithm is not assigned exactly once under Encrypt")
	}
	// key names
	eo := "EncryptOptions"
	kn := g.deep(g.arg(wrap, 2))
	r.Check(isFieldLoad(kn, x.pkg+"."+eo, "KeyName"), c01R8, "Encrypt wraps with KeyName", pos, "WrapKeyFn(…, opts.KeyName, …)", "the key name handed to WrapKeyFn is "+g.desc(kn)+", not EncryptOptions.KeyName (DecryptionKeyName only names the key for the reader)")
	knLeaves := atMarshal["KeyName"]
	if v, ok := one("KeyName"); ok || len(knLeaves) > 0 {
		if ok {
			knLeaves = nil
		}
		x.keyNameChoiceG(g, "Encrypt manifest key name", pos, v, knLeaves, g.nodeOf(wrap.C, wrap.V.(*ssa.Call)), []c01Choice{
			{src: "const:", underField: "OmitKeyName", underBool: true},
			{src: eo + ".DecryptionKeyName"},
			{src: eo + ".KeyName", underField: "DecryptionKeyName", underEmpty: true},
		}, "Manifest.KeyName must be empty with OmitKeyName, else DecryptionKeyName, else KeyName")
	} else {
		r.Undecide("C01.R8: Manifest.KeyName is not assigned exactly once under Encrypt")
	}
}

func keysCV(m map[CV]bool) []CV {
	var out []CV
	for k := range m {
		out = append(out, k)
	}
	return out
}

// c01StripConv strips string<->named-string conversions.
func c01StripConv(g *cGraph, v CV) CV {
	for i := 0; i < 6; i++ {
		v = g.deep(v)
		switch x := v.V.(type) {
		case *ssa.ChangeType:
			v = CV{v.C, x.X}
			continue
		case *ssa.Convert:
			if b1, ok := x.Type().Underlying().(*types.Basic); ok && b1.Info()&types.IsString != 0 {
				if b2, ok := x.X.Type().Underlying().(*types.Basic); ok && b2.Info()&types.IsString != 0 {
					v = CV{v.C, x.X}
					continue
				}
			}
		}
		break
	}
	return v
}

func (x *c01Ctx) wiringD(d *c01Dir) {
	r, g := x.r, d.g
	mf := x.pkg + ".Manifest"
	unwraps := g.callsThroughField("UnwrapKeyFn")
	if len(unwraps) != 1 {
		r.Undecide("C01.R8: Decrypt reaches %d calls of UnwrapKeyFn", len(unwraps))
		return
	}
	u := unwraps[0]
	pos := g.pos(u)
	// every origin is the manifest's field; canonical-name constants of the same
	// type are allowed besides it (Manifest.Validate resolves aliases in place)
	allLoadsOf := func(set map[CV]bool, field string) bool {
		found := false
		for v := range set {
			if isFieldLoad(v, mf, field) {
				found = true
				continue
			}
			if c, ok := v.V.(*ssa.Const); ok && c.Value != nil {
				if n, ok := c.Type().(*types.Named); ok && (n.Obj().Name() == "KeyAlgorithm" || n.Obj().Name() == "Cipher") && n.Obj().Pkg() != nil && n.Obj().Pkg().Path() == x.pkg {
					continue
				}
			}
			return false
		}
		return found
	}
	pre := g.srcSet(d.prefixSrc)
	ciph := x.factoryCipher(d)
	if u := g.unresolved(pre, ciph); len(u) > 0 {
		r.Undecide("C01.R8: Decrypt: the origin of the cipher / nonce prefix used for the segments is held somewhere the flow model cannot follow (%s); wiring rules not decided", g.desc(u[0]))
		return
	}
	if len(pre) == 0 || len(ciph) == 0 {
		r.Undecide("C01.R8: Decrypt: the bytes that open the nonce / the value that selects the AEAD were not identified (%d / %d origins); the import of the manifest's values is not decided", len(pre), len(ciph))
	} else {
		r.Check(allLoadsOf(pre, "NoncePrefix") && allLoadsOf(ciph, "Cipher"), c01R8, "Decrypt imports the manifest's values", pos, "nonces use manifest.NoncePrefix, the AEAD is chosen by manifest.Cipher",
			fmt.Sprintf("under Decrypt the nonce prefix comes from %s and the AEAD is chosen by %s; they must be the manifest's NoncePrefix and Cipher", g.descSet(pre), g.descSet(ciph)))
	}
	a0 := g.srcSet(g.sources(g.arg(u, 0)))
	a1 := g.srcSet(g.sources(c01StripConv(g, g.arg(u, 1))))
	r.Check(allLoadsOf(a0, "WFK") && allLoadsOf(a1, "KeyWrappingAlgorithm"), c01R8, "Decrypt unwraps the manifest's key", pos, "UnwrapKeyFn(manifest.WFK, manifest.KeyWrappingAlgorithm, …)",
		fmt.Sprintf("UnwrapKeyFn is given %s and %s instead of the manifest's wrapped key and key-wrapping algorithm", g.descSet(a0), g.descSet(a1)))
	x.keyNameChoiceG(g, "Decrypt key name", pos, g.arg(u, 2), nil, g.nodeOf(u.C, u.V.(*ssa.Call)), []c01Choice{
		{src: "DecryptOptions.KeyName"},
		{src: "Manifest.KeyName", underField: "KeyName", underType: "DecryptOptions", underEmpty: true},
	}, "the key name handed to UnwrapKeyFn must be the caller's override when given, else the manifest's")
}

// keyNameChoiceG: v is a choice (phi / return-phi tree) over exactly the
// given sources, each guarded source selected only under its guard.
func (x *c01Ctx) keyNameChoiceG(g *cGraph, cons, pos string, v CV, pre []cgLeaf, at *cgNode, choices []c01Choice, what string) {
	r := x.r
	type leaf struct {
		src     string
		conds   []cgCond
		empties []CV // values known to be zero on this choice (earlier arguments of cmp.Or)
	}
	var leaves []leaf
	seen := map[CV]bool{}
	var useConds []cgCond
	if at != nil {
		useConds = g.domConds(at)
	}
	var curEmpties []CV
	var walk func(v CV, conds []cgCond, d int)
	walk = func(v CV, conds []cgCond, d int) {
		v = g.deep(v)
		// cmp.Or(a, b, …): the first non-zero argument — b is chosen only when a is zero
		if c, ok := v.V.(*ssa.Call); ok && d < 8 {
			if obj := calleeObj(c); obj != nil && obj.Pkg() != nil && obj.Pkg().Path() == "cmp" && obj.Name() == "Or" && len(c.Call.Args) == 1 {
				if sl, ok := g.deep(CV{v.C, c.Call.Args[0]}).V.(*ssa.Slice); ok {
					if al, ok := sl.X.(*ssa.Alloc); ok {
						if elems, ok := g.arrayElemsRaw(CV{v.C, al}); ok {
							saved := curEmpties
							for _, e := range elems {
								walk(e, conds, d+1)
								curEmpties = append(append([]CV{}, curEmpties...), g.deep(e))
							}
							curEmpties = saved
							return
						}
					}
				}
			}
		}
		if edges, ok := g.phiEdges(v); ok && d < 8 && !seen[v] {
			seen[v] = true
			j := g.joinOf(v)
			for _, e := range edges {
				// a return of a helper that the caller's tests on the other results (err == nil, ok) rule out
				if j != nil && at != nil && !g.retFeasible(j, e.Pred, useConds) {
					continue
				}
				var cs []cgCond
				if j != nil {
					cs = g.condsOnEdge(e.Pred, j)
				} else {
					cs = g.domConds(e.Pred)
				}
				walk(e.Val, append(cs, conds...), d+1)
			}
			return
		}
		if lv, ok := g.valuesAt(v); ok && len(lv) > 1 && d < 8 {
			for _, l := range lv {
				if l.Zero {
					leaves = append(leaves, leaf{"const:", append(l.Conds, conds...), curEmpties})
				} else {
					walk(l.Val, append(l.Conds, conds...), d+1)
				}
			}
			return
		}
		if vals, ok := g.loadVals(v); ok && len(vals) > 1 && d < 8 {
			if _, _, isField := c01AnyField(v.V); !isField {
				// a local variable assigned in several places
				for _, sv := range vals {
					n := g.nodeOfValue(g.res(sv))
					var cs []cgCond
					if n != nil {
						cs = g.domConds(n)
					}
					walk(sv, append(cs, conds...), d+1)
				}
				return
			}
		}
		if s, ok := g.constString(v); ok {
			leaves = append(leaves, leaf{"const:" + s, conds, curEmpties})
			return
		}
		if id, _, ok := c01AnyField(v.V); ok {
			leaves = append(leaves, leaf{typeShort(id.Type) + "." + id.Field, conds, curEmpties})
			return
		}
		leaves = append(leaves, leaf{"?:" + g.desc(v), conds, curEmpties})
	}
	if len(pre) > 0 {
		for _, l := range pre {
			if l.Zero {
				leaves = append(leaves, leaf{"const:", l.Conds, nil})
			} else {
				walk(l.Val, l.Conds, 0)
			}
		}
	} else {
		var top []cgCond
		if n := g.nodeOfValue(g.res(v)); n != nil {
			top = g.domConds(n)
		}
		walk(v, top, 0)
	}
	seenSrc := map[string]bool{}
	bad := ""
	for _, lf := range leaves {
		if strings.HasPrefix(lf.src, "?:") {
			r.Undecide("C01.R8: %s: one of the values it may take (%s) is produced in a way the choice analysis does not model", cons, lf.src[2:])
			return
		}
	}
	for _, lf := range leaves {
		var ch *c01Choice
		for i := range choices {
			if choices[i].src == lf.src {
				ch = &choices[i]
			}
		}
		if ch == nil {
			bad = "it can also come from " + lf.src
			continue
		}
		seenSrc[lf.src] = true
		if ch.underField == "" {
			continue
		}
		ok := false
		if ch.underEmpty {
			for _, ev := range lf.empties {
				if id, _, isF := c01AnyField(ev.V); isF && id.Field == ch.underField && (ch.underType == "" || typeShort(id.Type) == ch.underType) {
					ok = true
				}
			}
		}
		for _, dc := range lf.conds {
			c, br := g.stripNot(dc.Cond, dc.Branch)
			if ch.underBool {
				if id, _, isF := c01AnyField(g.deep(c).V); isF && id.Field == ch.underField && br {
					ok = true
				}
			}
			if ch.underEmpty {
				if cmp, isC := g.decode(c, br); isC && cmp.Op == token.EQL {
					a, b := g.deep(cmp.X), g.deep(cmp.Y)
					if _, isK := g.constString(a); isK {
						a, b = b, a
					}
					id, _, isF := c01AnyField(a.V)
					sv, isK := g.constString(b)
					if isF && isK && sv == "" && id.Field == ch.underField && (ch.underType == "" || typeShort(id.Type) == ch.underType) {
						ok = true
					}
					if lc, isL := a.V.(*ssa.Call); isL && builtinName(lc) == "len" {
						if id, _, isF := c01AnyField(g.deep(CV{a.C, lc.Call.Args[0]}).V); isF && id.Field == ch.underField {
							if k, isK := g.constInt(b); isK && k == 0 {
								ok = true
							}
						}
					}
				}
			}
		}
		if !ok {
			bad = lf.src + " is chosen on a path where " + ch.underField + " was not found " + map[bool]string{true: "set", false: "empty"}[ch.underBool]
		}
	}
	for _, ch := range choices {
		if !seenSrc[ch.src] && bad == "" {
			bad = ch.src + " is never used"
		}
	}
	r.Check(bad == "", c01R8, cons, pos, what, what+"; but "+bad+": some KeyName/DecryptionKeyName/OmitKeyName/override combination hands UnwrapKeyFn a key name other than the documented one")
}

// ---------------------------------------------------------------- R7: push-back

func (x *c01Ctx) pushbackG(d *c01Dir) {
	r, g := x.r, d.g
	if d.fill == nil {
		return
	}
	var hdr []cgRead
	for _, s := range d.reads {
		if s.n != d.fill.n && !d.driver.Body[s.n] {
			hdr = append(hdr, s)
		}
	}
	if len(hdr) == 0 {
		r.Undecide("C01.R7: Decrypt reads nothing before the segment loop (no header Read found)")
		return
	}
	h := hdr[0]
	hname := x.fnOf(CV{h.n.C, h.call})
	if l := cgInnermost(g.loops(), h.n); l != nil {
		hname = FuncName(x.p, l.Head.C.fn)
	}
	cons := hname + " pushes back the surplus"
	// the stream the segment phase reads
	segRecv, ok1 := g.readReceiver(CV{d.fill.n.C, d.fill.call})
	hdrRecv, ok2 := g.readReceiver(CV{h.n.C, h.call})
	if !ok1 || !ok2 {
		r.Undecide("C01.R7: the stream a Read call of %s reads from cannot be identified (function value of unknown shape)", d.root)
		return
	}
	segStream := g.deep(segRecv)
	hdrStream := g.deep(hdrRecv)
	// does the header Read offer more than one byte at a time?
	if w, ok := g.deep(CV{h.n.C, h.call.Call.Args[0]}).V.(*ssa.Slice); ok && w.High != nil && w.Low != nil {
		lo, hi := g.lin(CV{h.n.C, w.Low}), g.lin(CV{h.n.C, w.High})
		if lo.Base == hi.Base && hi.K-lo.K == 1 {
			r.OK(c01R7, cons, g.pos(CV{h.n.C, h.call}), "the header is read one byte at a time: nothing can be read past it")
			r.OK(c01R7, "Decrypt continues with the pushed-back stream", g.pos(CV{h.n.C, h.call}), "no surplus")
			return
		}
	}
	// values the segment stream may hold
	// (through variables, helper results, phis: all its origins)
	vals := g.sources(segStream)
	var mr CV
	for _, v := range vals {
		if c, ok := v.V.(*ssa.Call); ok && callIs(c, "io", "", "MultiReader") {
			mr = v
		}
	}
	cons2 := "Decrypt continues with the pushed-back stream"
	if !mr.ok() {
		// "the segment phase reads a stream that never received the push-back" is only established when every
		// origin of that stream is understood: an io.Reader parameter of the entry point or a reader built by a call
		for _, v := range vals {
			_, isParam := v.V.(*ssa.Parameter)
			_, isCall := v.V.(*ssa.Call)
			_, isIface := v.V.(*ssa.MakeInterface)
			if !(isParam && v.C == g.root) && !isCall && !isIface || !g.leafResolved(v) {
				r.Undecide("C01.R7: the stream the segment phase reads has an origin the flow model does not understand (%s); push-back not decided", g.desc(v))
				return
			}
		}
		// is there a push-back at all, into some other variable?
		any := g.callsTo("io", "", "MultiReader")
		if len(any) == 0 {
			r.Violation(c01R7, cons, g.pos(CV{h.n.C, h.call}), "the header is read in chunks that may extend past the third newline, but no reader over the surplus is put in front of the stream: payload bytes that arrived together with the header are lost (depends on how the source chunks its reads)")
		} else {
			r.OK(c01R7, cons, g.pos(any[0]), "a MultiReader is built")
			r.Violation(c01R7, cons2, g.pos(CV{d.fill.n.C, d.fill.call}), "the segment phase does not read the stream variable that received the pushed-back bytes ("+g.desc(segStream)+"): the payload bytes that were read together with the header are skipped")
		}
		return
	}
	r.OK(c01R7, cons2, g.pos(CV{d.fill.n.C, d.fill.call}), "the segment phase reads the variable that received MultiReader(surplus, rest)")
	// elements of the MultiReader
	mc := mr.V.(*ssa.Call)
	var elems [2]CV
	n := 0
	if sl, ok := g.res(CV{mr.C, mc.Call.Args[0]}).V.(*ssa.Slice); ok {
		if arr, ok := sl.X.(*ssa.Alloc); ok {
			for _, u := range refs(arr) {
				if ia, ok := u.(*ssa.IndexAddr); ok {
					k, isK := c01ConstInt(ia.Index)
					if !isK || k < 0 || k > 1 {
						n = 99
						continue
					}
					for _, w := range refs(ia) {
						if st, ok := w.(*ssa.Store); ok {
							elems[k] = CV{mr.C, st.Val}
							n++
						}
					}
				}
			}
		}
	}
	pos := g.pos(mr)
	if n != 2 {
		r.Undecide("C01.R7: io.MultiReader in %s does not have exactly two resolvable readers", x.fnOf(mr))
		return
	}
	// the old stream: same origins as the header stream
	isOld := func(v CV) bool {
		a, b := g.srcSet(g.sources(v)), g.srcSet(g.sources(hdrStream))
		for k := range a {
			if _, isMR := k.V.(*ssa.Call); isMR && k == mr {
				delete(a, k)
			}
		}
		for k := range b {
			if k == mr {
				delete(b, k)
			}
		}
		if len(a) == 0 {
			return false
		}
		for k := range a {
			if !b[k] {
				return false
			}
		}
		return true
	}
	// the surplus reader
	var surplus CV
	for v := range g.cone(elems[0]) {
		if c, ok := v.V.(*ssa.Call); ok && (callIs(c, "bytes", "", "NewReader") || callIs(c, "bytes", "", "NewBuffer")) {
			surplus = g.deep(CV{v.C, c.Call.Args[0]})
		}
	}
	bufKey := g.objKey(CV{h.n.C, h.call.Call.Args[0]})
	pooled := g.fromPool(CV{h.n.C, h.call.Call.Args[0]})
	copied, aliasPool := false, false
	var lo, hi CV
	window := func(v CV) bool {
		v = g.deep(v)
		sl, ok := v.V.(*ssa.Slice)
		if !ok || g.objKey(v) != bufKey {
			return false
		}
		lo, hi = CV{}, CV{}
		if sl.Low != nil {
			lo = CV{v.C, sl.Low}
		}
		if sl.High != nil {
			hi = CV{v.C, sl.High}
		}
		return true
	}
	if surplus.ok() {
		switch {
		case window(surplus):
			if pooled {
				aliasPool = true
			} else {
				copied = true
			}
		default:
			g.eachInstr(func(nn *cgNode, in ssa.Instruction) {
				if c, ok := in.(*ssa.Call); ok && builtinName(c) == "copy" && g.deep(CV{nn.C, c.Call.Args[0]}) == surplus && window(CV{nn.C, c.Call.Args[1]}) {
					copied = true
				}
			})
			if c, ok := surplus.V.(*ssa.Call); ok && !copied {
				switch {
				case builtinName(c) == "append" && len(c.Call.Args) == 2 && window(CV{surplus.C, c.Call.Args[1]}):
					if g.objKey(CV{surplus.C, c.Call.Args[0]}) != bufKey {
						copied = true
					} else if pooled {
						aliasPool = true
					}
				case (callIs(c, "bytes", "", "Clone") || callIs(c, "slices", "", "Clone")) && len(c.Call.Args) == 1 && window(CV{surplus.C, c.Call.Args[0]}):
					copied = true
				}
			}
		}
	}
	// the running count of the header reads
	nnSet := map[CV]bool{}
	for _, s := range hdr {
		if s.nn.V != nil {
			nnSet[g.res(s.nn)] = true
		}
	}
	var adds []CV
	g.eachInstr(func(nd *cgNode, in ssa.Instruction) {
		if bo, ok := in.(*ssa.BinOp); ok && bo.Op == token.ADD {
			if g.carries(CV{nd.C, bo.X}, nnSet) || g.carries(CV{nd.C, bo.Y}, nnSet) {
				adds = append(adds, CV{nd.C, bo})
			}
		}
	})
	acc := g.coreFrom(adds)
	switch {
	case isOld(elems[0]) || !isOld(elems[1]):
		r.Violation(c01R7, cons, pos, "the surplus bytes are not placed in front of the remaining stream (io.MultiReader(surplus, rest)): payload bytes are reordered or dropped")
	case aliasPool:
		r.Violation(c01R7, cons, pos, "the bytes read past the header are pushed back as a reader over the pooled buffer itself, which goes back to the pool when the header reader returns — before the segment phase consumes them: another Encrypt/Decrypt that takes that buffer in between (the window contains the UnwrapKeyFn call) overwrites the beginning of the payload and a valid document fails to decrypt; the pushed-back reader must own a fresh copy (make+copy, append to a new slice, bytes.Clone)")
	case !surplus.ok() || !copied:
		r.Undecide("C01.R7: cannot see the surplus reader being filled from the header buffer in %s", x.fnOf(mr))
	case !hi.ok() || !acc[g.lin(hi).Base] || g.lin(hi).K != 0:
		r.Violation(c01R7, cons, pos, "the surplus pushed back does not end at the number of bytes read so far: bytes already read from the source are lost or garbage is injected")
	case !lo.ok():
		r.Violation(c01R7, cons, pos, "the surplus pushed back starts at the beginning of the buffer: the header itself is fed to the segment reader")
	default:
		if r.Check(g.res(lo) != g.res(hi), c01R7, cons, pos, "the stream becomes MultiReader(copy of buf[afterHeader:n], rest)", "the surplus window starts at the accumulated read count, i.e. is always empty") {
			x.pushbackOnAllPaths(d, hdr, mr, lo, hi)
		}
	}
}

// pushbackOnAllPaths (R7): every way from a header Read to the segment phase either performs the push-back or
// has established that nothing was read past the header (count <= end of header). A path that skips both —
// e.g. an early return when the last Read carried io.EOF — drops payload bytes delivered with the header.
func (x *c01Ctx) pushbackOnAllPaths(d *c01Dir, hdr []cgRead, mr, lo, hi CV) {
	r, g := x.r, d.g
	cons := "push-back on every path to the segment phase"
	mrNode := g.nodeOf(mr.C, mr.V.(*ssa.Call))
	loL, hiL := g.lin(lo), g.lin(hi)
	// equal linear forms, where two reads of one unassigned local variable count as the same term
	linEq := func(a, b cgLin) bool {
		if a == b {
			return true
		}
		return a.K == b.K && !a.isConst() && !b.isConst() && g.sameValue(a.Base, b.Base)
	}
	// does the edge (cond taken with branch) prove "no surplus": hi <= lo ?
	noSurplus := func(c cgCond) (proves, about bool) {
		cmp, ok := g.decode(c.Cond, c.Branch)
		if !ok {
			return false, false
		}
		a, b, op := g.lin(cmp.X), g.lin(cmp.Y), cmp.Op
		// hi ? lo
		if linEq(a, loL) && linEq(b, hiL) {
			a, b, op = b, a, c01FlipOp(op)
		}
		if linEq(a, hiL) && linEq(b, loL) {
			return op == token.LEQ || op == token.EQL || op == token.LSS, true
		}
		// (hi - lo) ? 0   /  len(window) ? 0
		isDiff := func(v CV) bool {
			v = g.deep(v)
			if bo, ok := v.V.(*ssa.BinOp); ok && bo.Op == token.SUB {
				return linEq(g.lin(CV{v.C, bo.X}), hiL) && linEq(g.lin(CV{v.C, bo.Y}), loL)
			}
			if c, ok := v.V.(*ssa.Call); ok && builtinName(c) == "len" && len(c.Call.Args) == 1 {
				w := g.deep(CV{v.C, c.Call.Args[0]})
				if sl, ok := w.V.(*ssa.Slice); ok && sl.Low != nil && sl.High != nil {
					return linEq(g.lin(CV{w.C, sl.Low}), loL) && linEq(g.lin(CV{w.C, sl.High}), hiL)
				}
			}
			return false
		}
		x0, y0 := cmp.X, cmp.Y
		if k, ok := g.constInt(x0); ok && k == 0 && isDiff(y0) {
			x0, y0, op = y0, x0, c01FlipOp(op)
		}
		if k, ok := g.constInt(y0); ok && isDiff(x0) {
			switch {
			case k == 0:
				return op == token.LEQ || op == token.EQL, true
			case k == 1:
				return op == token.LSS, true
			}
			return false, true
		}
		return false, false
	}
	// a test AROUND the push-back (its other branch reaches the segment phase without pushing back) must be one
	// we understand — a comparison or an error test; an opaque flag (hasExtra, a helper's boolean …) may well
	// encode "nothing was read past the header", so nothing can be concluded then
	target := d.fill.n
	for _, dc := range g.domConds(mrNode) {
		other := dc.At.succs[0]
		if dc.To == other && len(dc.At.succs) == 2 {
			other = dc.At.succs[1]
		}
		around := g.reach(other, map[*cgNode]bool{mrNode: true})[target]
		if !around {
			continue
		}
		afterHdr := false
		for _, h := range hdr {
			if g.reach(h.n, nil)[dc.At] {
				afterHdr = true
			}
		}
		if !afterHdr {
			continue
		}
		if _, about := noSurplus(dc); about {
			continue
		}
		c0, _ := g.stripNot(dc.Cond, true)
		if _, isCmp := g.decode(c0, true); isCmp {
			continue
		}
		if call, ok := c0.V.(*ssa.Call); ok && (callIs(call, "errors", "", "Is") || callIs(call, "errors", "", "As")) {
			continue
		}
		r.Undecide("C01.R7: the push-back of the bytes read past the header is guarded by a condition the analysis cannot interpret (%s); whether every path pushes back or has nothing to push back is not decided", g.desc(c0))
		return
	}
	var witness *cgNode
	for _, h := range hdr {
		seen := map[string]bool{}
		var walk func(n, pred *cgNode, taken *cgTaken) bool
		walk = func(n, pred *cgNode, taken *cgTaken) bool {
			if n == nil {
				return false
			}
			// remember through which return each expanded call was left (the last few): error tests on values that
			// travelled through variables / outer helpers are then decided by the return actually taken
			if pred != nil && pred.C != n.C {
				if _, isRet := pred.last().(*ssa.Return); isRet {
					taken = &cgTaken{join: n, pred: pred, up: taken}
				}
			}
			k := fmt.Sprintf("%d|%d|%s", n.idx, predIdx(pred), taken.sig(4))
			if seen[k] {
				return false
			}
			seen[k] = true
			if n == mrNode {
				return false // push-back performed
			}
			if n == target {
				return true
			}
			succs := n.succs
			if len(n.succs) == 2 {
				if c, ok := g.edgeCond(n, n.succs[0]); ok {
					if val, decided := g.decideAlong(c.Cond, n, taken); decided {
						if val {
							succs = n.succs[:1]
						} else {
							succs = n.succs[1:]
						}
					}
				}
			}
			for _, sn := range succs {
				if c, ok := g.edgeCond(n, sn); ok && len(n.succs) == 2 {
					if proves, _ := noSurplus(c); proves {
						continue // nothing to push back on this branch
					}
				}
				if walk(sn, n, taken) {
					if witness == nil {
						witness = sn
					}
					if os.Getenv("C01_PATH") != "" {
						fmt.Printf("PATH N%d %s b%d -> N%d %s b%d (%s)\n", n.idx, n.C.fn.Name(), n.B.Index, sn.idx, sn.C.fn.Name(), sn.B.Index, x.p.Pos(instrPos(sn.B.Instrs[0])))
					}
					return true
				}
			}
			return false
		}
		if walk(h.n, nil, nil) {
			pos := "-"
			if witness != nil && witness.last() != nil {
				pos = x.p.Pos(instrPos(witness.last()))
			}
			r.Violation(c01R7, cons, pos, "there is a way from the header Read to the segment phase that neither puts the bytes read past the header back in front of the stream nor has checked that there are none (count <= end of header): payload bytes that arrived in the same Read as the end of the header — e.g. a short document delivered whole together with io.EOF — are dropped and Decrypt returns a truncated (possibly empty) plaintext without error")
			return
		}
	}
	r.OK(c01R7, cons, g.pos(mr), "every path from the header Read to the segment phase pushes the surplus back or has seen that there is none")
}

// decideByPred: the truth of cond on arrival at node n from pred, when cond tests a value formed at n's entry
// (result of the helper just returned from / phi) whose incoming value over pred is decisive.
func (g *cGraph) decideByPred(cond CV, n, pred *cgNode) (val, decided bool) {
	cv, br := g.stripNot(cond, true)
	if g.joinOf(cv) == n {
		if sib, ok := g.sibling(cv, cgEdge{Pred: pred}); ok {
			if k, isK := g.res(sib).V.(*ssa.Const); isK && k.Value != nil && k.Value.Kind() == constant.Bool {
				return constant.BoolVal(k.Value) == br, true
			}
		}
		return false, false
	}
	cmp, ok := g.decode(cv, br)
	if !ok || (cmp.Op != token.EQL && cmp.Op != token.NEQ) {
		return false, false
	}
	xv, yv := g.res(cmp.X), g.res(cmp.Y)
	if isNilConst(xv.V) {
		xv, yv = yv, xv
	}
	if !isNilConst(yv.V) || g.joinOf(xv) != n {
		return false, false
	}
	sib, ok := g.sibling(xv, cgEdge{Pred: pred})
	if !ok {
		return false, false
	}
	if g.nonNil(sib, pred) {
		return cmp.Op == token.NEQ, true
	}
	if g.knownNil(sib, pred) {
		return cmp.Op == token.EQL, true
	}
	return false, false
}

// ---------------------------------------------------------------- header writer / reader agreement

func (x *c01Ctx) headerG(e, d *c01Dir) {
	r, g := x.r, e.g
	// the header: what is written to the output before the segment loop
	var hdrWrite CV
	var hdrVal CV
	nWrites := 0
	g.eachInstr(func(n *cgNode, in ssa.Instruction) {
		c, ok := in.(*ssa.Call)
		if !ok || len(c.Call.Args) == 0 {
			return
		}
		isWrite := callIs(c, "io", "PipeWriter", "Write") || (c.Call.IsInvoke() && c.Call.Method.Name() == "Write")
		if !isWrite || e.driver.Body[n] || !(g.dominates(n, e.opNode) || g.tableBefore(n, e.opNode)) {
			return
		}
		if g.res(CV{n.C, c.Call.Value}) == g.res(CV{e.op.C, e.op.V.(*ssa.Call).Call.Value}) {
			return
		}
		// not the HMAC write
		if _, isHM := g.res(CV{n.C, c.Call.Value}).V.(*ssa.Call); isHM && c.Call.IsInvoke() {
			if callIs(g.res(CV{n.C, c.Call.Value}).V.(*ssa.Call), "crypto/hmac", "", "New") {
				return
			}
		}
		hdrWrite = CV{n.C, c}
		hdrVal = CV{n.C, c.Call.Args[len(c.Call.Args)-1]}
		nWrites++
	})
	cons := "Encrypt writes the header before the segments"
	if !hdrWrite.ok() {
		r.Violation(c01R8, cons, g.pos(e.op), "no write to the output dominates the segment processing: the ciphertext does not begin with the three header lines")
		return
	}
	if nWrites > 1 {
		r.OK(c01R8, cons, g.pos(hdrWrite), "writes to the output dominate the segment processing")
		r.Undecide("C01.R3: Encrypt writes the header in %d pieces; its layout and size limit are not decided", nWrites)
		return
	}
	root := g.sliceRoot(hdrVal)
	if rs := g.srcSet(g.sources(hdrVal)); len(rs) == 1 {
		for v := range rs {
			root = g.sliceRoot(v)
		}
	}
	hasMAC := false
	for v := range g.cone(hdrVal) {
		if c, ok := v.V.(*ssa.Call); ok && callIs(c, "crypto/hmac", "", "New") {
			hasMAC = true
		}
	}
	// base64.Encode writes the MAC into the buffer as a side effect: look at the function that builds it
	signFn := root.C.fn
	if !hasMAC {
		allInstrs(signFn, func(in ssa.Instruction) {
			if c, ok := in.(*ssa.Call); ok {
				if obj := calleeObj(c); obj != nil && obj.Pkg() != nil && obj.Pkg().Path() == "encoding/base64" {
					hasMAC = true
				}
			}
		})
	}
	r.Check(hasMAC, c01R8, cons, g.pos(hdrWrite), "a write of the signed header dominates the segment processing", "what is written before the segments ("+g.desc(root)+") is not the signed header")
	if ms, ok := root.V.(*ssa.MakeSlice); ok && !isZeroLen(g, CV{root.C, ms.Len}) {
		x.headerLayout(signFn)
	} else {
		x.headerLayoutConcat(e, hdrVal, signFn)
	}
	// reader's scan limit
	var scan int64 = -1
	for _, s := range d.reads {
		if d.fill != nil && s.n == d.fill.n {
			continue
		}
		if w := d.g.deep(CV{s.n.C, s.call.Call.Args[0]}); true {
			if sl, ok := w.V.(*ssa.Slice); ok {
				if sl.High != nil {
					if k, ok := d.g.constInt(CV{w.C, sl.High}); ok {
						scan = k
					}
				} else if l, ok := d.g.sliceLenLin(CV{w.C, sl.X}, 0); ok && l.isConst() {
					// buf[n:] of a buffer cut to a constant length before
					scan = l.K
				}
			}
		}
	}
	if scan < 0 {
		r.Undecide("C01.R4: cannot determine how many bytes the header reader under Decrypt is willing to scan (Read window without constant end)")
		return
	}
	x.headerSizeLimitG(e, hdrWrite, hdrVal, scan)
}

func (x *c01Ctx) base64G(d *c01Dir) {
	var bad []string
	n := 0
	d.g.eachInstr(func(nd *cgNode, in ssa.Instruction) {
		u, ok := in.(*ssa.UnOp)
		if !ok || u.Op != token.MUL {
			return
		}
		gl, ok := u.X.(*ssa.Global)
		if !ok || gl.Pkg == nil || gl.Pkg.Pkg.Path() != "encoding/base64" {
			return
		}
		n++
		if gl.Name() != "StdEncoding" {
			bad = append(bad, gl.Name())
		}
	})
	if n == 0 {
		x.r.Undecide("C01.R3: %s uses no encoding/base64 encoding variable (MAC line encoded some other way)", d.root)
		return
	}
	sort.Strings(bad)
	x.r.Check(len(bad) == 0, c01R3, d.root+" base64 flavour", "-", "uses base64.StdEncoding (RFC 4648 §4 with padding)",
		fmt.Sprintf("uses base64.%s; the README prescribes standard base64 with padding for the MAC line: spec implementations cannot parse/produce the third header line", strings.Join(bad, ",")))
}

func (x *c01Ctx) bufferSizeG(e, d *c01Dir) {
	r := x.r
	var max int64
	for _, dd := range []*c01Dir{e, d} {
		if dd.hasB && dd.bound.isConst() && dd.bound.K > max {
			max = dd.bound.K
		}
	}
	if max == 0 {
		return
	}
	// the pool the fill buffers come from, and the function stored into its New field (a func literal, a named
	// function, a method value, ... wherever it is assigned: var initialiser, init(), constructor)
	sizes := map[int64]bool{}
	found := false
	for _, dd := range []*c01Dir{e, d} {
		if dd.fill == nil {
			continue
		}
		for v := range dd.g.cone(CV{dd.fill.n.C, dd.fill.call.Call.Args[0]}) {
			c, ok := v.V.(*ssa.Call)
			if !ok || !callIs(c, "sync", "Pool", "Get") || len(c.Call.Args) == 0 {
				continue
			}
			pool := dd.g.res(CV{v.C, c.Call.Args[0]})
			for _, nf := range x.poolNewFuncs(pool.V) {
				found = true
				ng := c01NewGraph(x.p, nf)
				ng.eachInstr(func(n *cgNode, in ssa.Instruction) {
					switch a := in.(type) {
					case *ssa.Alloc:
						if arr, ok := deref(a.Type()).Underlying().(*types.Array); ok && a.Heap {
							if b, ok := arr.Elem().Underlying().(*types.Basic); ok && b.Kind() == types.Byte {
								sizes[arr.Len()] = true
							}
						}
					case *ssa.MakeSlice:
						if sl, ok := a.Type().Underlying().(*types.Slice); ok {
							if b, ok := sl.Elem().Underlying().(*types.Basic); ok && b.Kind() == types.Byte {
								if k, ok := ng.constInt(CV{n.C, a.Len}); ok {
									sizes[k] = true
								} else {
									sizes[-1] = true
								}
							}
						}
					}
				})
			}
		}
	}
	if !found || len(sizes) != 1 || sizes[-1] {
		r.Undecide("C01.R3: the size of the pooled fill buffers is not decided (the function assigned to the pool's New field was not found, or allocates %d different / non-constant sizes)", len(sizes))
		return
	}
	var got int64
	for k := range sizes {
		got = k
	}
	r.Check(got >= max, c01R3, "BufPool buffer size", "-", fmt.Sprintf("%d >= largest fill limit %d", got, max),
		fmt.Sprintf("pooled buffers have %d bytes but the fill loop slices them up to %d: the first Read of a full-size segment panics (slice bounds out of range)", got, max))
}

// poolNewFuncs: the functions stored into the New field of the sync.Pool designated by pool (a package-level
// variable, or a field / local of type sync.Pool), anywhere in the package.
func (x *c01Ctx) poolNewFuncs(pool ssa.Value) []*ssa.Function {
	var out []*ssa.Function
	seen := map[*ssa.Function]bool{}
	add := func(v ssa.Value) {
		for i := 0; i < 6 && v != nil; i++ {
			switch y := v.(type) {
			case *ssa.Function:
				if !seen[y] {
					seen[y] = true
					out = append(out, y)
				}
				return
			case *ssa.MakeClosure:
				v = y.Fn
				if f, ok := y.Fn.(*ssa.Function); ok && len(y.Bindings) == 1 && len(f.Blocks) > 0 {
					// bound method value: the method itself
					if obj, ok := f.Object().(*types.Func); ok && obj != nil {
						if m := x.p.SSA.FuncValue(obj); m != nil {
							v = m
						}
					}
				}
			case *ssa.ChangeType:
				v = y.X
			case *ssa.UnOp:
				// a function kept in a package-level variable assigned once
				gl, ok := y.X.(*ssa.Global)
				if !ok {
					return
				}
				var st []ssa.Value
				for _, fn := range x.fns {
					allInstrs(fn, func(in ssa.Instruction) {
						if s, ok := in.(*ssa.Store); ok && s.Addr == ssa.Value(gl) {
							st = append(st, s.Val)
						}
					})
				}
				if len(st) != 1 {
					return
				}
				v = st[0]
			default:
				return
			}
		}
	}
	samePool := func(base ssa.Value) bool {
		if base == pool {
			return true
		}
		// same field of the same struct type (pool kept in a struct)
		if fa, ok := base.(*ssa.FieldAddr); ok {
			if pfa, ok := pool.(*ssa.FieldAddr); ok {
				return fieldIDOfAddr(fa) == fieldIDOfAddr(pfa)
			}
		}
		return false
	}
	for _, fn := range x.fns {
		allInstrs(fn, func(in ssa.Instruction) {
			st, ok := in.(*ssa.Store)
			if !ok {
				return
			}
			if fa, ok := st.Addr.(*ssa.FieldAddr); ok {
				id := fieldIDOfAddr(fa)
				if id.Type == "sync.Pool" && id.Field == "New" && samePool(fa.X) {
					add(st.Val)
				}
			}
		})
	}
	if len(out) == 0 {
		// the pool is built elsewhere and copied (constructor function): any New of a sync.Pool in the package
		for _, fn := range x.fns {
			allInstrs(fn, func(in ssa.Instruction) {
				if st, ok := in.(*ssa.Store); ok {
					if fa, ok := st.Addr.(*ssa.FieldAddr); ok {
						if id := fieldIDOfAddr(fa); id.Type == "sync.Pool" && id.Field == "New" {
							add(st.Val)
						}
					}
				}
			})
		}
	}
	return out
}

func isZeroLen(g *cGraph, l CV) bool {
	k, ok := g.constInt(l)
	return ok && k == 0
}

// headerLayoutConcat: the header as a concatenation: MACed message || base64(MAC) || LF.
func (x *c01Ctx) headerLayoutConcat(e *c01Dir, hdrVal CV, signFn *ssa.Function) {
	r, g := x.r, e.g
	cons := "Encrypt header layout"
	parts, ok := g.concat(hdrVal)
	if !ok || len(parts) < 3 {
		r.Undecide("C01.R3: the way the header written by Encrypt is assembled is not recognised (%s); layout not decided", g.desc(g.deep(hdrVal)))
		return
	}
	last, mac := parts[len(parts)-1], parts[len(parts)-2]
	msgParts := parts[:len(parts)-2]
	// the MACed message
	var msg CV
	for _, hm := range g.callsTo("crypto/hmac", "", "New") {
		hmv := g.res(hm)
		g.eachInstr(func(n *cgNode, in ssa.Instruction) {
			if c, ok := in.(*ssa.Call); ok && c.Call.IsInvoke() && c.Call.Method.Name() == "Write" && len(c.Call.Args) == 1 && g.res(CV{n.C, c.Call.Value}) == hmv {
				msg = CV{n.C, c.Call.Args[0]}
			}
		})
	}
	want, ok2 := g.concat(msg)
	hasMsg := msg.ok() && ok2 && g.partsKey(want) == g.partsKey(mergeParts(msgParts))
	hasMAC := mac.B64
	if hasMAC {
		sum := false
		for v := range g.cone(mac.Val) {
			if c, ok := v.V.(*ssa.Call); ok && callIs(c, "crypto/hmac", "", "New") {
				sum = true
			}
		}
		hasMAC = sum
	}
	hasNL := last.isConst() && last.Const == "\n"
	r.Check(hasMsg && hasMAC && hasNL, c01R3, cons, x.p.Pos(signFn.Pos()), "MACed message || base64(MAC) || LF",
		fmt.Sprintf("the signed header is not the MACed message (%v) || base64 MAC (%v) || final line feed (%v): the README says each of the three header items is terminated by 0x0A and the payload starts right after the third", hasMsg, hasMAC, hasNL))
}

// headerSizeLimitG (R4): on every path to the write of the header a limit on the length of the COMPLETE header
// holds, and it does not exceed what the header reader scans — wherever the test sits (builder, caller, helper).
func (x *c01Ctx) headerSizeLimitG(e *c01Dir, hdrWrite, hdrVal CV, scan int64) {
	r, g := x.r, e.g
	cons := "header size limit: writer vs reader scan limit"
	wn := g.nodeOf(hdrWrite.C, hdrWrite.V.(*ssa.Call))
	pos := g.pos(hdrWrite)
	hdrSrc := g.srcSet(g.sources(hdrVal))
	full, fullOK := g.sliceLenLin(hdrVal, 0)
	hdrCone := g.cone(hdrVal)
	isFull := func(ev CV) bool {
		l := g.lin(ev)
		if fullOK && l == full && !l.isConst() {
			return true
		}
		if c, ok := l.Base.V.(*ssa.Call); ok && l.K == 0 && builtinName(c) == "len" && len(c.Call.Args) == 1 {
			arg := CV{l.Base.C, c.Call.Args[0]}
			if al, ok := g.sliceLenLin(arg, 0); ok && fullOK && al == full {
				return true
			}
			as := g.srcSet(g.sources(arg))
			if len(as) > 0 && sameSet(as, hdrSrc) {
				// same buffer: a window of it is not the whole header, the value itself is
				return g.sliceLowZero(arg, 0) && !g.hasHigh(arg)
			}
		}
		return false
	}
	isPart := func(ev CV) bool {
		l := g.lin(ev)
		c, ok := l.Base.V.(*ssa.Call)
		if !ok || l.K != 0 || builtinName(c) != "len" || len(c.Call.Args) != 1 {
			return false
		}
		arg := g.deep(CV{l.Base.C, c.Call.Args[0]})
		for _, sv := range g.sources(arg) {
			if hdrCone[sv] {
				return true
			}
		}
		return hdrCone[arg]
	}
	verdict, why := "", ""
	for _, dc := range g.condsThrough(wn) {
		cmp, ok := g.decode(dc.Cond, dc.Branch)
		if !ok {
			continue
		}
		ev, kv, op := cmp.X, cmp.Y, cmp.Op
		if _, isK := g.constInt(ev); isK {
			ev, kv, op = kv, ev, c01FlipOp(op)
		}
		k, isK := g.constInt(kv)
		if !isK {
			continue
		}
		switch op {
		case token.LEQ:
		case token.LSS:
			k--
		default:
			continue
		}
		switch {
		case isFull(ev):
			if k <= scan {
				if verdict != "bad-full" {
					verdict, why = "ok", fmt.Sprintf("complete header limited to %d bytes <= %d scanned by the header reader", k, scan)
				}
			} else if verdict != "ok" {
				verdict, why = "bad-full", fmt.Sprintf("the header writer lets headers of up to %d bytes through but the header reader only scans the first %d bytes: Encrypt emits documents whose MAC line Decrypt never finds", k, scan)
			}
		case isPart(ev):
			if verdict == "" && k < scan {
				verdict = "part-unknown"
			}
			if (verdict == "" || verdict == "part-unknown") && k >= scan {
				verdict, why = "bad", fmt.Sprintf("the size limit (%d) is applied to only a part of the header (not to the complete buffer that is written: message + base64 MAC + final newline); headers of up to %d bytes plus the MAC line pass, but the header reader only scans the first %d bytes, so Encrypt emits documents that Decrypt rejects ('message authentication code not found') instead of refusing them", k, k, scan)
			}
		}
	}
	switch verdict {
	case "ok":
		r.OK(c01R4, cons, pos, why)
	case "bad", "bad-full":
		r.Violation(c01R4, cons, pos, why)
	case "part-unknown":
		r.Undecide("C01.R4: the header writer limits only a part of the header to less than the reader's scan limit; whether the complete header fits is not decided")
	default:
		r.Violation(c01R4, cons, pos, fmt.Sprintf("no limit on the length of the header (or of a part of it) holds on the way to its write, but the header reader only scans the first %d bytes: with a long key name / wrapped key Encrypt emits documents that Decrypt rejects instead of refusing them", scan))
	}
}

// hasHigh: slice value v is (on some origin) a window cut with an explicit upper bound.
func (g *cGraph) hasHigh(v CV) bool {
	v = g.deep(v)
	if edges, ok := g.phiEdges(v); ok {
		for _, e := range edges {
			if g.hasHigh(e.Val) {
				return true
			}
		}
		return false
	}
	sl, ok := v.V.(*ssa.Slice)
	return ok && sl.High != nil
}

// cgTaken records, along a path, through which return node each expanded call was left.
type cgTaken struct {
	join, pred *cgNode
	up         *cgTaken
}

func (t *cgTaken) sig(n int) string {
	out := ""
	for x := t; x != nil && n > 0; x, n = x.up, n-1 {
		out += fmt.Sprintf("%d,", x.pred.idx)
	}
	return out
}

func (t *cgTaken) predOf(j *cgNode) *cgNode {
	for x := t; x != nil; x = x.up {
		if x.join == j {
			return x.pred
		}
	}
	return nil
}

func predIdx(n *cgNode) int {
	if n == nil {
		return -1
	}
	return n.idx
}

// valueAlong resolves v following, at the continuation of each expanded call, the return actually taken on
// the path (and single-valued variables in between).
func (g *cGraph) valueAlong(v CV, taken *cgTaken, depth int) (CV, *cgNode) {
	var at *cgNode
	for i := 0; i < 16; i++ {
		v = g.deep(v)
		j := g.joinOf(v)
		if j == nil {
			return v, at
		}
		p := taken.predOf(j)
		if p == nil {
			return v, at
		}
		sib, ok := g.sibling(v, cgEdge{Pred: p})
		if !ok {
			return v, at
		}
		v, at = sib, p
	}
	return v, at
}

// decideAlong: the truth of an `e ==/!= nil` / boolean-result test at node n given the returns taken so far.
func (g *cGraph) decideAlong(cond CV, n *cgNode, taken *cgTaken) (val, decided bool) {
	cv, br := g.stripNot(cond, true)
	if b, ok := cv.V.Type().Underlying().(*types.Basic); ok && b.Kind() == types.Bool {
		if _, isBin := cv.V.(*ssa.BinOp); !isBin {
			w, _ := g.valueAlong(cv, taken, 0)
			if k, isK := w.V.(*ssa.Const); isK && k.Value != nil && k.Value.Kind() == constant.Bool {
				return constant.BoolVal(k.Value) == br, true
			}
			return false, false
		}
	}
	cmp, ok := g.decode(cv, br)
	if !ok || (cmp.Op != token.EQL && cmp.Op != token.NEQ) {
		return false, false
	}
	xv, yv := cmp.X, cmp.Y
	if g.isNil(xv) {
		xv, yv = yv, xv
	}
	if !g.isNil(yv) {
		return false, false
	}
	w, at := g.valueAlong(xv, taken, 0)
	if at == nil {
		at = n
	}
	if g.nonNil(w, at) {
		return cmp.Op == token.NEQ, true
	}
	if g.knownNil(w, at) {
		return cmp.Op == token.EQL, true
	}
	return false, false
}

// contentSources: like sources, but a byte slice that is a COPY of another (bytes.Clone, slices.Clone,
// append(nil/empty, x...), make + copy(dst, x)) has the origins of what was copied: the rules compare where key
// bytes come from, not which buffer holds them.
func (g *cGraph) contentSources(v CV) []CV {
	return g.contentSourcesOf(g.sources(v))
}

func (g *cGraph) contentSourcesOf(leaves []CV) []CV {
	seen := map[CV]bool{}
	var out []CV
	var walk func(x CV, d int)
	walk = func(x CV, d int) {
		if seen[x] || d > 8 {
			return
		}
		seen[x] = true
		inner := func(arg CV) {
			for _, sv := range g.sources(arg) {
				walk(sv, d+1)
			}
		}
		switch y := x.V.(type) {
		case *ssa.Call:
			switch {
			case (callIs(y, "bytes", "", "Clone") || callIs(y, "slices", "", "Clone")) && len(y.Call.Args) == 1:
				inner(CV{x.C, y.Call.Args[0]})
				return
			case builtinName(y) == "append" && len(y.Call.Args) == 2:
				if l, ok := g.sliceLenLin(CV{x.C, y.Call.Args[0]}, 0); g.isNil(CV{x.C, y.Call.Args[0]}) || (ok && l.isConst() && l.K == 0) {
					inner(CV{x.C, y.Call.Args[1]})
					return
				}
			}
		case *ssa.MakeSlice:
			// make + copy(dst, src) with dst this buffer from its start
			found := false
			g.eachInstr(func(n *cgNode, in ssa.Instruction) {
				c, ok := in.(*ssa.Call)
				if !ok || builtinName(c) != "copy" || len(c.Call.Args) != 2 {
					return
				}
				dst := CV{n.C, c.Call.Args[0]}
				if g.sliceRoot(dst) == x && g.sliceLowZero(dst, 0) {
					found = true
					inner(CV{n.C, c.Call.Args[1]})
				}
			})
			if found {
				return
			}
		case *ssa.Slice:
			// a window: origins of the whole, kept as the window itself when that is a plain buffer
		}
		out = append(out, x)
	}
	for _, l := range leaves {
		walk(l, 0)
	}
	return out
}

// derivedByCall: some origin in got is the result of an unexpanded call one of whose arguments comes from want.
func (g *cGraph) derivedByCall(got, want map[CV]bool) bool {
	for v := range got {
		c, ok := v.V.(*ssa.Call)
		if !ok || g.inlinedCall(v) != nil {
			continue
		}
		for _, a := range c.Call.Args {
			for _, sv := range g.contentSources(CV{v.C, a}) {
				if want[sv] {
					return true
				}
			}
		}
	}
	return false
}
